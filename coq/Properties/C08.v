(* C08 - Functionals evaluate their definition and prox is the true minimiser.
   Theorems about the scalar cores of Model/Functionals.v (what L1Norm, L1NormViewAsReal, L2NormSquared, MSE,
   ZeroFunctional, ScaledProximableFunctional and ProximableFunctionalSeparableSum compute per element, with weight w,
   target b, sigma and the divide_by_n factor n = N or 1 exactly as in the Python source) over the Coq reals, lifted to
   arbitrary index lists (= a reduced batch / a whole tensor / all tensors of a separable sum).
   Domain guard: weight, target and sigma broadcast to the shape of x (every element i of x has its own w i, b i,
   sigma i and one common n).  The executable twin (Gaussian rationals, Model/TensorFunctionals.v) is tied to /repo by
   the correspondence families of harness/props/C08.py; its coherence with the real model is in C08_transfer_*. *)
From Coq Require Import Reals QArith Qreals List.
From MrVerif Require Import Base.Prelude Base.Tensor Model.Functionals Model.TensorFunctionals
  Proofs.FunctionalsProofs Proofs.FunctionalsTransfer Proofs.FunctionalsTensorProofs.
Import ListNotations.
Local Open Scope R_scope.

(* ---- prox is the global minimiser of sigma f(p) + 1/2 |x - p|^2, per element ------------------------------- *)
Theorem C08_prox_opt_l1real : forall n w b sigma x p, 0 < n -> 0 <= sigma ->
  sigma * (l1_val w b (l1_prox n w b sigma x) / n) + / 2 * sq (x - l1_prox n w b sigma x)
  <= sigma * (l1_val w b p / n) + / 2 * sq (x - p).
Proof. exact l1_prox_opt. Qed.
Print Assumptions C08_prox_opt_l1real.

(* complex data, complex weight: soft-threshold on the modulus; p ranges over all of C *)
Theorem C08_prox_opt_l1complex : forall n (w b : C) sigma (x p : C), 0 < n -> 0 <= sigma ->
  sigma * (cl1_val w b (cl1_prox n w b sigma x) / n) + / 2 * cnorm2 (csub x (cl1_prox n w b sigma x))
  <= sigma * (cl1_val w b p / n) + / 2 * cnorm2 (csub x p).
Proof. exact cl1_prox_opt. Qed.
Print Assumptions C08_prox_opt_l1complex.

Theorem C08_prox_opt_l1viewasreal : forall n wr wi (b : C) sigma (x p : C), 0 < n -> 0 <= sigma ->
  sigma * (l1r_val wr wi b (l1r_prox n wr wi b sigma x) / n) + / 2 * cnorm2 (csub x (l1r_prox n wr wi b sigma x))
  <= sigma * (l1r_val wr wi b p / n) + / 2 * cnorm2 (csub x p).
Proof. exact l1r_prox_opt. Qed.
Print Assumptions C08_prox_opt_l1viewasreal.

(* L2NormSquared and MSE (MSE = L2NormSquared with divide_by_n defaulting to True, i.e. n = N) *)
Theorem C08_prox_opt_l2 : forall n w b sigma x p, 0 < n -> 0 <= sigma ->
  sigma * (l2_val w b (l2_prox n w b sigma x) / n) + / 2 * sq (x - l2_prox n w b sigma x)
  <= sigma * (l2_val w b p / n) + / 2 * sq (x - p).
Proof. exact l2_prox_opt. Qed.
Print Assumptions C08_prox_opt_l2.

Theorem C08_prox_opt_l2complex : forall n (w b : C) sigma (x p : C), 0 < n -> 0 <= sigma ->
  sigma * (cl2_val w b (cl2_prox n w b sigma x) / n) + / 2 * cnorm2 (csub x (cl2_prox n w b sigma x))
  <= sigma * (cl2_val w b p / n) + / 2 * cnorm2 (csub x p).
Proof. exact cl2_prox_opt. Qed.
Print Assumptions C08_prox_opt_l2complex.

Theorem C08_prox_opt_mse : forall (N : nat) w b sigma x p, (0 < N)%nat -> 0 <= sigma ->
  sigma * (l2_val w b (l2_prox (nfac true N) w b sigma x) / INR N) + / 2 * sq (x - l2_prox (nfac true N) w b sigma x)
  <= sigma * (l2_val w b p / INR N) + / 2 * sq (x - p).
Proof. intros N w b sigma x p HN Hs. apply (l2_prox_opt (nfac true N)); [apply nfac_pos; exact HN|exact Hs]. Qed.
Print Assumptions C08_prox_opt_mse.

Theorem C08_prox_opt_zero : forall sigma x p,
  sigma * zero_val (zero_prox sigma x) + / 2 * sq (x - zero_prox sigma x) <= sigma * zero_val p + / 2 * sq (x - p).
Proof. exact zero_prox_opt. Qed.
Print Assumptions C08_prox_opt_zero.

(* the two branches of the complex soft-threshold in closed form (the harness checks irrational-modulus cases against
   these with per-case `interval` lemmas) *)
Theorem C08_l1complex_prox_branches : forall n (w b : C) sigma (x : C),
  (0 < cabs (csub x b) - cabs (cscale (sigma / n) w) ->
   cl1_prox n w b sigma x =
     ((cabs (csub x b) - cabs (cscale (sigma / n) w)) * (fst (csub x b) / cabs (csub x b)) + fst b,
      (cabs (csub x b) - cabs (cscale (sigma / n) w)) * (snd (csub x b) / cabs (csub x b)) + snd b))
  /\ (cabs (csub x b) - cabs (cscale (sigma / n) w) <= 0 -> cl1_prox n w b sigma x = b).
Proof. intros. split; [apply cl1_prox_shrink|apply cl1_prox_kill]. Qed.
Print Assumptions C08_l1complex_prox_branches.

(* ---- lifted to tensors: any list l of element indices, per-element weight / target / sigma (broadcast) ---------- *)
Theorem C08_prox_opt_l1real_tensor : forall (A : Type) (l : list A) n, 0 < n ->
  forall (w b sigma x p : A -> R), (forall i, In i l -> 0 <= sigma i) ->
  sumR (fun i => obj (sigma i) (l1_val (w i) (b i) (l1_prox n (w i) (b i) (sigma i) (x i)) / n) (x i) (l1_prox n (w i) (b i) (sigma i) (x i))) l
  <= sumR (fun i => obj (sigma i) (l1_val (w i) (b i) (p i) / n) (x i) (p i)) l.
Proof. intros A l n Hn. exact (l1_prox_opt_list l n Hn). Qed.
Print Assumptions C08_prox_opt_l1real_tensor.

Theorem C08_prox_opt_l1complex_tensor : forall (A : Type) (l : list A) n, 0 < n ->
  forall (w b : A -> C) (sigma : A -> R) (x p : A -> C), (forall i, In i l -> 0 <= sigma i) ->
  sumR (fun i => cobj (sigma i) (cl1_val (w i) (b i) (cl1_prox n (w i) (b i) (sigma i) (x i)) / n) (x i) (cl1_prox n (w i) (b i) (sigma i) (x i))) l
  <= sumR (fun i => cobj (sigma i) (cl1_val (w i) (b i) (p i) / n) (x i) (p i)) l.
Proof. intros A l n Hn. exact (cl1_prox_opt_list l n Hn). Qed.
Print Assumptions C08_prox_opt_l1complex_tensor.

Theorem C08_prox_opt_l1viewasreal_tensor : forall (A : Type) (l : list A) n, 0 < n ->
  forall (wr wi : A -> R) (b : A -> C) (sigma : A -> R) (x p : A -> C), (forall i, In i l -> 0 <= sigma i) ->
  sumR (fun i => cobj (sigma i) (l1r_val (wr i) (wi i) (b i) (l1r_prox n (wr i) (wi i) (b i) (sigma i) (x i)) / n) (x i) (l1r_prox n (wr i) (wi i) (b i) (sigma i) (x i))) l
  <= sumR (fun i => cobj (sigma i) (l1r_val (wr i) (wi i) (b i) (p i) / n) (x i) (p i)) l.
Proof. intros A l n Hn. exact (l1r_prox_opt_list l n Hn). Qed.
Print Assumptions C08_prox_opt_l1viewasreal_tensor.

Theorem C08_prox_opt_l2_tensor : forall (A : Type) (l : list A) n, 0 < n ->
  forall (w b sigma x p : A -> R), (forall i, In i l -> 0 <= sigma i) ->
  sumR (fun i => obj (sigma i) (l2_val (w i) (b i) (l2_prox n (w i) (b i) (sigma i) (x i)) / n) (x i) (l2_prox n (w i) (b i) (sigma i) (x i))) l
  <= sumR (fun i => obj (sigma i) (l2_val (w i) (b i) (p i) / n) (x i) (p i)) l.
Proof. intros A l n Hn. exact (l2_prox_opt_list l n Hn). Qed.
Print Assumptions C08_prox_opt_l2_tensor.

Theorem C08_prox_opt_l2complex_tensor : forall (A : Type) (l : list A) n, 0 < n ->
  forall (w b : A -> C) (sigma : A -> R) (x p : A -> C), (forall i, In i l -> 0 <= sigma i) ->
  sumR (fun i => cobj (sigma i) (cl2_val (w i) (b i) (cl2_prox n (w i) (b i) (sigma i) (x i)) / n) (x i) (cl2_prox n (w i) (b i) (sigma i) (x i))) l
  <= sumR (fun i => cobj (sigma i) (cl2_val (w i) (b i) (p i) / n) (x i) (p i)) l.
Proof. intros A l n Hn. exact (cl2_prox_opt_list l n Hn). Qed.
Print Assumptions C08_prox_opt_l2complex_tensor.

(* one sigma for the batch: sigma f(prox) + 1/2 |x - prox|^2 <= sigma f(p) + 1/2 |x - p|^2 where f is the forward value
   of the batch, f(p) = (sum_i |w_i (p_i - b_i)|) / n (mean when n = N = length l, sum when n = 1) *)
Theorem C08_prox_opt_l1_batch : forall (A : Type) (l : list A) n, 0 < n -> forall (w b x p : A -> C) sigma, 0 <= sigma ->
  let q := fun i => cl1_prox n (w i) (b i) sigma (x i) in
  sigma * (sumR (fun i => cl1_val (w i) (b i) (q i)) l / n) + / 2 * sumR (fun i => cnorm2 (csub (x i) (q i))) l
  <= sigma * (sumR (fun i => cl1_val (w i) (b i) (p i)) l / n) + / 2 * sumR (fun i => cnorm2 (csub (x i) (p i))) l.
Proof. intros A l n Hn. exact (cl1_prox_opt_batch l n Hn). Qed.
Print Assumptions C08_prox_opt_l1_batch.

Theorem C08_prox_opt_l2_batch : forall (A : Type) (l : list A) n, 0 < n -> forall (w b x p : A -> C) sigma, 0 <= sigma ->
  let q := fun i => cl2_prox n (w i) (b i) sigma (x i) in
  sigma * (sumR (fun i => cl2_val (w i) (b i) (q i)) l / n) + / 2 * sumR (fun i => cnorm2 (csub (x i) (q i))) l
  <= sigma * (sumR (fun i => cl2_val (w i) (b i) (p i)) l / n) + / 2 * sumR (fun i => cnorm2 (csub (x i) (p i))) l.
Proof. intros A l n Hn. exact (cl2_prox_opt_batch l n Hn). Qed.
Print Assumptions C08_prox_opt_l2_batch.

Theorem C08_prox_opt_l1viewasreal_batch : forall (A : Type) (l : list A) n, 0 < n ->
  forall (wr wi : A -> R) (b x p : A -> C) sigma, 0 <= sigma ->
  let q := fun i => l1r_prox n (wr i) (wi i) (b i) sigma (x i) in
  sigma * (sumR (fun i => l1r_val (wr i) (wi i) (b i) (q i)) l / n) + / 2 * sumR (fun i => cnorm2 (csub (x i) (q i))) l
  <= sigma * (sumR (fun i => l1r_val (wr i) (wi i) (b i) (p i)) l / n) + / 2 * sumR (fun i => cnorm2 (csub (x i) (p i))) l.
Proof. intros A l n Hn. exact (l1r_prox_opt_batch l n Hn). Qed.
Print Assumptions C08_prox_opt_l1viewasreal_batch.

(* ---- Moreau: x = prox_{sigma f}(x) + sigma prox_{f*/sigma}(x/sigma), prox_convex_conj as the code computes it ---- *)
Theorem C08_moreau_l1 : forall n w b sigma x, 0 < n -> 0 < sigma ->
  x = l1_prox n w b sigma x + sigma * l1_pcc n w b (/ sigma) (x / sigma).
Proof. exact l1_moreau. Qed.
Print Assumptions C08_moreau_l1.

Theorem C08_moreau_l1complex : forall n (w b : C) sigma (x : C), 0 < n -> 0 < sigma ->
  x = cadd (cl1_prox n w b sigma x) (cscale sigma (cl1_pcc n w b (/ sigma) (cscale (/ sigma) x))).
Proof. exact cl1_moreau. Qed.
Print Assumptions C08_moreau_l1complex.

Theorem C08_moreau_l2 : forall n w b sigma x, 0 < n -> 0 < sigma ->
  x = l2_prox n w b sigma x + sigma * l2_pcc n w b (/ sigma) (x / sigma).
Proof. exact l2_moreau. Qed.
Print Assumptions C08_moreau_l2.

Theorem C08_moreau_l2complex : forall n (w b : C) sigma (x : C), 0 < n -> 0 < sigma ->
  x = cadd (cl2_prox n w b sigma x) (cscale sigma (cl2_pcc n w b (/ sigma) (cscale (/ sigma) x))).
Proof. exact cl2_moreau. Qed.
Print Assumptions C08_moreau_l2complex.

Theorem C08_moreau_zero : forall sigma x, 0 < sigma -> x = zero_prox sigma x + sigma * zero_pcc (/ sigma) (x / sigma).
Proof. exact zero_moreau. Qed.
Print Assumptions C08_moreau_zero.

(* generic fallback (L1NormViewAsReal and every class without an override), for ANY prox: exact while the tweak
   `sigma < 1e-8 -> sigma + 1e-6` does not fire on 1/sigma, i.e. for sigma <= 1e8 *)
Theorem C08_moreau_fallback : forall (prox : R -> R -> R) sigma x, 0 < sigma -> 1 / 100000000 <= / sigma ->
  x = prox sigma x + sigma * pcc_fallback prox (/ sigma) (x / sigma).
Proof. exact fallback_moreau. Qed.
Print Assumptions C08_moreau_fallback.

Theorem C08_moreau_fallback_complex : forall (prox : R -> C -> C) sigma x, 0 < sigma -> 1 / 100000000 <= / sigma ->
  x = cadd (prox sigma x) (cscale sigma (cpcc_fallback prox (/ sigma) (cscale (/ sigma) x))).
Proof. exact cfallback_moreau. Qed.
Print Assumptions C08_moreau_fallback_complex.

(* partial: for sigma > 1e8 the documented tweak replaces the step 1/sigma by tau = 1/sigma + 1e-6; the identity then
   holds with prox_{f/tau'} in place of prox_{sigma f} (no bound on the difference is claimed) *)
Theorem C08_moreau_fallback_tweaked_partial : forall (prox : R -> R -> R) sigma x, 0 < sigma -> / sigma < 1 / 100000000 ->
  let tau := / sigma + 1 / 1000000 in
  sigma * pcc_fallback prox (/ sigma) (x / sigma) = x - sigma * tau * prox (/ tau) (x / (sigma * tau)).
Proof. exact fallback_tweaked. Qed.
Print Assumptions C08_moreau_fallback_tweaked_partial.

(* ---- values ------------------------------------------------------------------------------------------- *)
(* forward = torch.sum / torch.mean of the element values over the reduced elements; mean divides by their number *)
Theorem C08_values_reduce : forall (A : Type) (g : A -> R) (l : list A),
  reduce_list false g l = sumR g l /\ reduce_list true g l = sumR g l / INR (length l)
  /\ (forall divn, (0 < length l)%nat -> reduce_list divn g l = sumR g l / nfac divn (length l)).
Proof.
  intros A g l. split; [reflexivity|split; [reflexivity|]]. intros divn H. destruct divn; [reflexivity|].
  unfold reduce_list, nfac. field.
Qed.
Print Assumptions C08_values_reduce.

(* element values: |w (x-b)| = |w| |x-b| ; (|w (x-b)|)^2 = |w|^2 |x-b|^2 (real and complex) *)
Theorem C08_values : forall (w b x : R) (cw cb cx : C),
  l1_val w b x = Rabs w * Rabs (x - b) /\ cl1_val cw cb cx = cabs cw * cabs (csub cx cb)
  /\ l2_val w b x = sq (Rabs w) * sq (Rabs (x - b)) /\ cl2_val cw cb cx = sq (cabs cw) * sq (cabs (csub cx cb))
  /\ cl2_val cw cb cx = cnorm2 cw * cnorm2 (csub cx cb) /\ zero_val x = 0.
Proof.
  intros. repeat split; [apply l1_val_doc|apply cl1_val_doc|apply l2_val_doc|apply cl2_val_doc|apply cl2_val_alt].
Qed.
Print Assumptions C08_values.

(* L1NormViewAsReal.forward equals the documented |Wr Re(x-b)| + |Wi Im(x-b)| for every combination of real / complex
   weight and data (wc, dc are the dtype flags the code branches on) *)
Theorem C08_values_l1viewasreal : forall (wc dc : bool) w b x,
  (wc = false -> snd w = 0) -> (dc = false -> snd x = 0 /\ snd b = 0) ->
  l1r_val_code wc dc w b x = l1r_val (fst w) (if wc then snd w else fst w) b x.
Proof. exact l1r_val_code_ok. Qed.
Print Assumptions C08_values_l1viewasreal.

(* Legacy (before repair f138c0a, former finding KF-C08-1): with |w| |x-b| for a complex weight on real data the
   statement above was false *)
Theorem C08_legacy_values_l1viewasreal_refuted : exists w b x,
  snd x = 0 /\ snd b = 0 /\ l1r_val_code_legacy true false w b x <> l1r_val (fst w) (snd w) b x.
Proof. exact l1r_val_code_legacy_refuted. Qed.
Print Assumptions C08_legacy_values_l1viewasreal_refuted.

(* ---- scaled functionals: (a f) has value a * f, prox_{sigma (a f)} = prox_{(sigma a) f}; consistent with Moreau ---- *)
Theorem C08_scaled_prox_opt : forall a f prox, 0 <= a -> is_opt f prox -> is_opt (fun x => a * f x) (sc_prox a prox).
Proof. exact scaled_opt. Qed.
Print Assumptions C08_scaled_prox_opt.

Theorem C08_scaled_prox_opt_complex : forall a f prox, 0 <= a -> is_copt f prox -> is_copt (fun x => a * f x) (sc_prox a prox).
Proof. exact scaled_copt. Qed.
Print Assumptions C08_scaled_prox_opt_complex.

Theorem C08_scaled_moreau : forall a prox pcc, 0 < a -> moreau prox pcc -> moreau (sc_prox a prox) (sc_pcc a pcc).
Proof. exact scaled_moreau. Qed.
Print Assumptions C08_scaled_moreau.

(* ... and for the scale 0 (the zero functional), given prox_0 = id of the scaled functional: before the repair the code returned nan here *)
Theorem C08_scaled_moreau_zero : forall prox pcc, (forall x, prox 0 x = x) -> moreau (sc_prox 0 prox) (sc_pcc 0 pcc).
Proof. exact scaled_moreau_zero. Qed.
Print Assumptions C08_scaled_moreau_zero.

Theorem C08_scaled_moreau_complex : forall a prox pcc, 0 < a -> cmoreau prox pcc -> cmoreau (sc_prox a prox) (csc_pcc a pcc).
Proof. exact scaled_cmoreau. Qed.
Print Assumptions C08_scaled_moreau_complex.

(* the elementary functionals are instances (value already divided by n) *)
Theorem C08_instances : forall n (w b : R) (cw cb : C) wr wi, 0 < n ->
  is_opt (fun x => l1_val w b x / n) (l1_prox n w b) /\ is_opt (fun x => l2_val w b x / n) (l2_prox n w b)
  /\ is_opt zero_val zero_prox
  /\ is_copt (fun x => cl1_val cw cb x / n) (cl1_prox n cw cb) /\ is_copt (fun x => cl2_val cw cb x / n) (cl2_prox n cw cb)
  /\ is_copt (fun x => l1r_val wr wi cb x / n) (l1r_prox n wr wi cb)
  /\ moreau (l1_prox n w b) (l1_pcc n w b) /\ moreau (l2_prox n w b) (l2_pcc n w b)
  /\ cmoreau (cl1_prox n cw cb) (cl1_pcc n cw cb) /\ cmoreau (cl2_prox n cw cb) (cl2_pcc n cw cb).
Proof.
  intros. repeat split; auto using l1_is_opt, l2_is_opt, zero_is_opt, cl1_is_copt, cl2_is_copt, l1r_is_copt,
    l1_is_moreau, l2_is_moreau, cl1_is_cmoreau, cl2_is_cmoreau.
Qed.
Print Assumptions C08_instances.

(* ---- separable sum: value is the sum, prox componentwise (same sigma) minimises the summed objective ---------- *)
Theorem C08_separable_prox_opt : forall (comps : list ((R -> R) * (R -> R -> R) * R * R)) sigma, 0 <= sigma ->
  (forall c, In c comps -> is_opt (fst (fst (fst c))) (snd (fst (fst c)))) ->
  sigma * sumR (fun c => let '(f, prox, x, p) := c in f (prox sigma x)) comps
    + / 2 * sumR (fun c => let '(f, prox, x, p) := c in sq (x - prox sigma x)) comps
  <= sigma * sumR (fun c => let '(f, prox, x, p) := c in f p) comps
    + / 2 * sumR (fun c => let '(f, prox, x, p) := c in sq (x - p)) comps.
Proof. exact separable_opt. Qed.
Print Assumptions C08_separable_prox_opt.

Theorem C08_separable_prox_opt_complex : forall (comps : list ((C -> R) * (R -> C -> C) * C * C)) sigma, 0 <= sigma ->
  (forall c, In c comps -> is_copt (fst (fst (fst c))) (snd (fst (fst c)))) ->
  sigma * sumR (fun c => let '(f, prox, x, p) := c in f (prox sigma x)) comps
    + / 2 * sumR (fun c => let '(f, prox, x, p) := c in cnorm2 (csub x (prox sigma x))) comps
  <= sigma * sumR (fun c => let '(f, prox, x, p) := c in f p) comps
    + / 2 * sumR (fun c => let '(f, prox, x, p) := c in cnorm2 (csub x p)) comps.
Proof. exact separable_copt. Qed.
Print Assumptions C08_separable_prox_opt_complex.

Theorem C08_separable_value : forall (A : Type) (g : A -> R) l1 l2, sumR g (l1 ++ l2) = sumR g l1 + sumR g l2.
Proof. intros A. exact sumR_app. Qed.
Print Assumptions C08_separable_value.

(* ---- coherence of the executable rational twin with the real model (Q2R (f_Q x) = f_R (Q2R x)) ------------- *)
Theorem C08_transfer_soft : forall d t : Q, Q2R (softQ d t) = softR (Q2R d) (Q2R t).
Proof. exact softQ_coh. Qed.
Print Assumptions C08_transfer_soft.

Theorem C08_transfer_l1 : forall n w b sigma x : Q, ~ (n == 0)%Q ->
  Q2R (l1_valQ w b x) = l1_val (Q2R w) (Q2R b) (Q2R x)
  /\ Q2R (l1_proxQ n w b sigma x) = l1_prox (Q2R n) (Q2R w) (Q2R b) (Q2R sigma) (Q2R x)
  /\ Q2R (l1_pccQ n w b sigma x) = l1_pcc (Q2R n) (Q2R w) (Q2R b) (Q2R sigma) (Q2R x).
Proof. exact l1Q_coh. Qed.
Print Assumptions C08_transfer_l1.

Theorem C08_transfer_l2 : forall n w b sigma x : Q, (0 < n)%Q -> (0 <= sigma)%Q ->
  Q2R (l2_valQ w b x) = l2_val (Q2R w) (Q2R b) (Q2R x)
  /\ Q2R (l2_proxQ n w b sigma x) = l2_prox (Q2R n) (Q2R w) (Q2R b) (Q2R sigma) (Q2R x)
  /\ ((0 < sigma)%Q -> Q2R (l2_pccQ n w b sigma x) = l2_pcc (Q2R n) (Q2R w) (Q2R b) (Q2R sigma) (Q2R x)).
Proof. exact l2Q_coh. Qed.
Print Assumptions C08_transfer_l2.

(* modulus of a Gaussian rational: exact whenever the executable check cqabs_ok says so (Pythagorean data) *)
Theorem C08_transfer_cabs : forall z : CQ, cqabs_ok z = true -> Q2R (cqabs z) = cabs (Q2R (fst z), Q2R (snd z)).
Proof. exact cqabs_coh. Qed.
Print Assumptions C08_transfer_cabs.

(* ---- coherence of the Gaussian-rational tensor layer (what the harness runs) with the real model ------------------ *)
(* forward: every output position is the rational sum over its reduced index list divided by n, and Q2R of it is the real
   sum / mean over the same list (any kind except the zero functional, any data) *)
Theorem C08_transfer_forward_tensor : forall (e : espec) (xc : bool) (x : tens), ek e <> KZero ->
  let dims := norm_dims (Z.of_nat (length (fst x))) (edim e) in
  snd (e_forward e xc x)
  = map (fun o => qre (Qred (qsum (map (znth 0%Q (fwd_vals e xc x)) (red_indices (fst x) dims o)) / fwd_n e x)))
        (zrange (numel (kshape (fst x) dims)))
  /\ (~ (fwd_n e x == 0)%Q -> forall o,
       Q2R (Qred (qsum (map (znth 0%Q (fwd_vals e xc x)) (red_indices (fst x) dims o)) / fwd_n e x))
       = sumR (fun i => Q2R (znth 0%Q (fwd_vals e xc x) i)) (red_indices (fst x) dims o) / Q2R (fwd_n e x))
  /\ Q2R (fwd_n e x) = (if edivn e then IZR (nred (fst x) dims) else 1)
  /\ (forall i, (0 <= i < numel (fst x))%Z ->
       znth 0%Q (fwd_vals e xc x) i
       = elem_val (ek e) (ewc e) (xc || ebc e) (bget (fst x) (ew e) (unravel (fst x) i))
                  (bget (fst x) (eb e) (unravel (fst x) i)) (tget cq0 (fst x) (snd x) (unravel (fst x) i))).
Proof.
  intros e xc x Hk dims. split; [exact (e_forward_data e xc x Hk)|]. split; [intros Hn o; apply reduce_coh; exact Hn|].
  split; [apply nfacQ_coh|]. intros i Hi. apply fwd_vals_spec. exact Hi.
Qed.
Print Assumptions C08_transfer_forward_tensor.

(* prox and prox_convex_conj are pointwise in the broadcast operands (weight, target, sigma right-aligned, size-1 axes pinned) *)
Theorem C08_transfer_pointwise_tensor : forall f (e : espec) (x sg t : tens) i,
  e_pointwise f e x sg = Some t -> (0 <= i < numel (fst x))%Z ->
  fst t = fst x /\
  znth cq0 (snd t) i = f (ek e) (ewc e) (nfacQ (edivn e) (nprox (fst x) (edim e)))
                         (bget (fst x) (ew e) (unravel (fst x) i)) (bget (fst x) (eb e) (unravel (fst x) i))
                         (fst (bget (fst x) sg (unravel (fst x) i))) (tget cq0 (fst x) (snd x) (unravel (fst x) i)).
Proof. exact e_pointwise_spec. Qed.
Print Assumptions C08_transfer_pointwise_tensor.

(* on real data (imaginary parts 0) the per-element functions of the tensor layer are the real scalar cores *)
Theorem C08_transfer_elements_real : forall (wc dc : bool) (n wq bq sigma xq : Q),
  Q2R (elem_val KL1 wc dc (wq, 0%Q) (bq, 0%Q) (xq, 0%Q)) = l1_val (Q2R wq) (Q2R bq) (Q2R xq)
  /\ Q2R (elem_val KL2 wc dc (wq, 0%Q) (bq, 0%Q) (xq, 0%Q)) = l2_val (Q2R wq) (Q2R bq) (Q2R xq)
  /\ Q2R (elem_val KL1R false false (wq, 0%Q) (bq, 0%Q) (xq, 0%Q)) = l1r_val_code false false (Q2R wq, 0) (Q2R bq, 0) (Q2R xq, 0)
  /\ (~ (n == 0)%Q ->
      Q2R (fst (elem_prox KL1 wc n (wq, 0%Q) (bq, 0%Q) sigma (xq, 0%Q))) = l1_prox (Q2R n) (Q2R wq) (Q2R bq) (Q2R sigma) (Q2R xq)
      /\ (snd (elem_prox KL1 wc n (wq, 0%Q) (bq, 0%Q) sigma (xq, 0%Q)) == 0)%Q)
  /\ ((0 < n)%Q -> (0 <= sigma)%Q ->
      Q2R (fst (elem_prox KL2 wc n (wq, 0%Q) (bq, 0%Q) sigma (xq, 0%Q))) = l2_prox (Q2R n) (Q2R wq) (Q2R bq) (Q2R sigma) (Q2R xq)
      /\ (snd (elem_prox KL2 wc n (wq, 0%Q) (bq, 0%Q) sigma (xq, 0%Q)) == 0)%Q).
Proof.
  intros. split; [apply elem_val_real_l1|]. split; [apply elem_val_real_l2|]. split; [apply elem_val_real_l1r|].
  split; [intros Hn; apply elem_prox_real_l1; exact Hn|]. intros Hn Hs. apply elem_prox_real_l2; assumption.
Qed.
Print Assumptions C08_transfer_elements_real.

(* ---- tensor layer: the N of divide_by_n ---------------------------------------------------------------------- *)
(* prox / prox_convex_conj divide by math.prod(shape[i] for i in dim) (python indexing, negative i allowed); forward's
   torch.mean divides by the number of reduced elements; both are the same N for every dim without repeated axes
   (an empty dim means all dimensions in both, as in torch.sum / torch.mean) *)
Theorem C08_divide_by_n_consistent : forall (sx : list Z) (dim : option (list Z)), (0 < length sx)%nat ->
  match dim with None => True | Some ds => NoDup (map (fun d => (d mod Z.of_nat (length sx))%Z) ds) end ->
  nprox sx dim = nred sx (norm_dims (Z.of_nat (length sx)) dim).
Proof. exact nprox_nred. Qed.
Print Assumptions C08_divide_by_n_consistent.

(* before the repair de813cf an empty dim gave N = 1 in prox while forward averages over all elements *)
Theorem C08_divide_by_n_empty_dim_legacy_refuted :
  exists sx, nprox_legacy sx (Some []) <> nred sx (norm_dims (Z.of_nat (length sx)) (Some [])).
Proof. exact nprox_legacy_refuted. Qed.
Print Assumptions C08_divide_by_n_empty_dim_legacy_refuted.

Theorem C08_reduce_count : forall sx dims oflat, length (red_indices sx dims oflat) = Z.to_nat (nred sx dims).
Proof. exact red_indices_length. Qed.
Print Assumptions C08_reduce_count.

(* ---- non-vacuity ------------------------------------------------------------------------------------------ *)
Example C08_example_n : nprox [2; 3; 4]%Z (Some [-1; 0]%Z) = 8%Z /\ nred [2; 3; 4]%Z (norm_dims 3 (Some [-1; 0]%Z)) = 8%Z.
Proof. vm_compute. split; reflexivity. Qed.
Local Open Scope Q_scope.
Example C08_example_soft : softQ (5 # 2) (1 # 1) == 3 # 2 /\ softQ (-(5 # 2)) 1 == -(3 # 2) /\ softQ (1 # 2) 1 == 0.
Proof. vm_compute. repeat split; reflexivity. Qed.
Example C08_example_l1_prox : l1_proxQ 4 3 (1 # 2) (1 # 2) (5 # 2) == 17 # 8.   (* threshold 3 * 1/2 / 4 = 3/8 *)
Proof. vm_compute. reflexivity. Qed.
Example C08_example_cabs : cqabs (3 # 2, -(2)) == 5 # 2 /\ cqabs_ok (3 # 2, -(2)) = true /\ cqabs_ok (1, 1) = false.
Proof. vm_compute. repeat split; reflexivity. Qed.
