(* C11 - Equivalent axis specifications and batching give identical results.
   Theorems about the model of zero_pad_or_crop / normalize_index (Model/ZeroPad.v); the model is tied to
   /repo/src/mrpro/utils/zero_pad_or_crop.py by the regenerated obligations in Gen/zeropad_gen.v (translator) and by
   the correspondence families of harness/props/C11.py. *)
From MrVerif Require Import Base.Prelude Base.Tensor Model.ZeroPad Proofs.ZeroPadProofs.
From Coq Require Import Permutation.

(* every index in [-ndim, ndim), 0 included, is accepted and means i mod ndim; everything else is rejected *)
Theorem C11_normalize_index_spec : forall ndim i k, 0 < ndim ->
  normalize_index ndim i = Some k <-> (- ndim <= i < ndim /\ k = i mod ndim).
Proof. exact normalize_index_spec. Qed.
Print Assumptions C11_normalize_index_spec.

Theorem C11_index_encodings : forall ndim i, 0 <= i < ndim ->
  normalize_index ndim (i - ndim) = normalize_index ndim i /\ normalize_index ndim i = Some i.
Proof. exact normalize_index_neg_equiv. Qed.
Print Assumptions C11_index_encodings.

Theorem C11_normalize_idempotent : forall ndim i k, normalize_index ndim i = Some k -> normalize_index ndim k = Some k.
Proof. exact normalize_index_idem. Qed.
Print Assumptions C11_normalize_idempotent.

(* the result shape of zero_pad_or_crop (hence, by definition of zero_pad_or_crop, the whole result) only depends on
   which axes are meant, not on how they are written *)
Theorem C11_reencode : forall shape dims dims' sizes,
  Forall2 (same_axis (Z.of_nat (length shape))) dims dims' ->
  forall (zero : Z) data, zero_pad_or_crop zero shape data (Some dims) sizes = zero_pad_or_crop zero shape data (Some dims') sizes.
Proof. intros. unfold zero_pad_or_crop. rewrite (target_shape_reencode shape dims dims' sizes) by assumption. reflexivity. Qed.
Print Assumptions C11_reencode.

Theorem C11_same_axis_neg : forall ndim i, 0 <= i < ndim -> same_axis ndim i (i - ndim).
Proof. exact same_axis_neg. Qed.
Print Assumptions C11_same_axis_neg.

(* reordering dims together with the sizes selects the same size for every axis *)
Theorem C11_dim_order : forall i dims sizes dims' sizes',
  length dims = length sizes -> length dims' = length sizes' -> NoDup dims ->
  Permutation (combine dims sizes) (combine dims' sizes') -> lookup i dims sizes = lookup i dims' sizes'.
Proof. exact lookup_perm. Qed.
Print Assumptions C11_dim_order.

(* an axis that keeps its size is a batch axis: padding the stack = stacking the padded elements *)
Theorem C11_batch : forall (zero : Z) olds news (xs : Z -> list Z -> Z) b k j, 0 <= k < b ->
  padN zero (b :: olds) (b :: news) (fun idx => match idx with i0 :: ir => xs i0 ir | [] => zero end) (k :: j)
  = padN zero olds news (xs k) j.
Proof. exact (padN_stack). Qed.
Print Assumptions C11_batch.

(* non-vacuity: rank 3, dims (0,-1) vs (-3,2), and permuted *)
Example C11_example :
  zero_pad_or_crop 0 [2;3;2] [1;2;3;4;5;6;7;8;9;10;11;12] (Some [0;-1]) [3;1]
  = zero_pad_or_crop 0 [2;3;2] [1;2;3;4;5;6;7;8;9;10;11;12] (Some [2;-3]) [1;3]
  /\ zero_pad_or_crop 0 [2;3;2] [1;2;3;4;5;6;7;8;9;10;11;12] (Some [0;-1]) [3;1] = inr ([3;3;1], [2;4;6;8;10;12;0;0;0]).
Proof. vm_compute. split; reflexivity. Qed.
