(* C20 placeholder, filled below *)
From MrVerif Require Import Base.Prelude Model.GridSample.
