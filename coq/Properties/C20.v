(* C20 - Resampling operators interpolate and integrate as specified.
   Theorems about the executable models Model/GridSample.v (GridSamplingOp: aten grid_sampler contract + the reshape
   wrapper) and Model/SliceProj.v (SliceProjectionOp.projection_matrix, _find_width).  The models are tied to /repo on every
   run by the correspondence families of harness/props/C20.py (vm_compute of the same definitions on seeded cases).
   Rationals with Qeq (==).  bicubic / reflection and erf profiles: implementation-level oracles only. *)
From MrVerif Require Import Base.Prelude Model.GridSample Model.SliceProj Proofs.GridSampleProofs Proofs.SliceProjProofs.
From Coq Require Import QArith Qround Qabs Morphisms.
Local Open Scope Q_scope.

(* ======================================================================= GridSamplingOp *)

(* interpolation weights of an axis are >= 0 and sum to one (both modes, any coordinate) *)
Theorem C20_grid_weights : forall m ix,
  Forall (fun t => 0 <= snd t) (taps1 m ix) /\ wsum (taps1 m ix) == 1.
Proof. exact taps_weights. Qed.
Print Assumptions C20_grid_weights.

(* the taps that survive the bounds test are in range and >= 0; if every neighbour is inside they sum to one *)
Theorem C20_grid_weights_inside : forall m p ac n x,
  Forall (fun t => (0 <= fst t < n)%Z /\ 0 <= snd t) (axis_taps m p ac n x)
  /\ (forallb (fun t => inb n (fst t)) (taps1 m (pad_coord p n (unnormalize ac n x))) = true -> wsum (axis_taps m p ac n x) == 1).
Proof. intros. split; [apply axis_taps_in_range|apply axis_taps_sum_inside]. Qed.
Print Assumptions C20_grid_weights_inside.

(* product weights: a constant image is reproduced times the product of the per-axis weight sums (2-D and 3-D) *)
Theorem C20_grid_const : forall c ty tx tz,
  sample2 (fun _ _ => c) ty tx == c * wsum ty * wsum tx
  /\ sample3 (fun _ _ _ => c) tz ty tx == c * wsum tz * wsum ty * wsum tx.
Proof. intros. split; [apply sample2_const|apply sample3_const]. Qed.
Print Assumptions C20_grid_const.

(* a grid point exactly on a pixel returns that pixel: every mode, padding, convention, size *)
Theorem C20_grid_on_pixel : forall m p ac H W im gx gy i j, (0 <= i < H)%Z -> (0 <= j < W)%Z ->
  unnormalize ac H gy == inject_Z i -> unnormalize ac W gx == inject_Z j ->
  grid_sample2 m p ac H W im gx gy == im i j.
Proof. exact grid_sample2_on_pixel. Qed.
Print Assumptions C20_grid_on_pixel.

Theorem C20_grid_on_pixel_3d : forall m p ac D H W im gx gy gz k i j, (0 <= k < D)%Z -> (0 <= i < H)%Z -> (0 <= j < W)%Z ->
  unnormalize ac D gz == inject_Z k -> unnormalize ac H gy == inject_Z i -> unnormalize ac W gx == inject_Z j ->
  grid_sample3 m p ac D H W im gx gy gz == im k i j.
Proof. exact grid_sample3_on_pixel. Qed.
Print Assumptions C20_grid_on_pixel_3d.

(* the identity grid (pixel centres: -1 + 2j/(n-1) for align_corners, (2j+1)/n - 1 otherwise) returns the input:
   any size n >= 2 (align_corners) / n >= 1 (not), all modes and paddings *)
Theorem C20_grid_identity : forall m p (ac : bool) H W im i j,
  ((if ac then 2 else 1) <= H)%Z -> ((if ac then 2 else 1) <= W)%Z -> (0 <= i < H)%Z -> (0 <= j < W)%Z ->
  grid_sample2 m p ac H W im (centre_coord ac W j) (centre_coord ac H i) == im i j.
Proof. exact identity_grid2. Qed.
Print Assumptions C20_grid_identity.

Theorem C20_grid_identity_3d : forall m p (ac : bool) D H W im k i j,
  ((if ac then 2 else 1) <= D)%Z -> ((if ac then 2 else 1) <= H)%Z -> ((if ac then 2 else 1) <= W)%Z ->
  (0 <= k < D)%Z -> (0 <= i < H)%Z -> (0 <= j < W)%Z ->
  grid_sample3 m p ac D H W im (centre_coord ac W j) (centre_coord ac H i) (centre_coord ac D k) == im k i j.
Proof. exact identity_grid3. Qed.
Print Assumptions C20_grid_identity_3d.

(* n = 1 with align_corners: the pixel-centre formula divides by zero, but every grid value addresses the only pixel *)
Theorem C20_grid_identity_single : forall m p im gx gy, grid_sample2 m p true 1 1 im gx gy == im 0%Z 0%Z.
Proof. exact identity_grid2_single. Qed.
Print Assumptions C20_grid_identity_single.

(* sampling is linear in the input (for every grid point, mode, padding) ... *)
Theorem C20_grid_linear : forall a b im1 im2 ty tx,
  sample2 (fun i j => a * im1 i j + b * im2 i j) ty tx == a * sample2 im1 ty tx + b * sample2 im2 ty tx.
Proof. exact sample2_linear. Qed.
Print Assumptions C20_grid_linear.

Theorem C20_grid_linear_3d : forall a b im1 im2 tz ty tx,
  sample3 (fun k i j => a * im1 k i j + b * im2 k i j) tz ty tx == a * sample3 im1 tz ty tx + b * sample3 im2 tz ty tx.
Proof. exact sample3_linear. Qed.
Print Assumptions C20_grid_linear_3d.

(* ... and the reshape wrapper (as repaired) samples a complex tensor as the pair (real part, imaginary part), each channel of
   batch element k with the grid of batch element k, for every batch layout *)
Theorem C20_grid_complex_alike : forall (T G O : Type) (inner : T -> G -> O) xb gb C xre xim g k c, (0 <= c < C)%Z ->
  wrap_complex T G O inner xb gb C xre xim g k c
  = (wrap_real T G O inner xb gb xre g k c, wrap_real T G O inner xb gb xim g k c).
Proof. exact wrap_complex_is_componentwise. Qed.
Print Assumptions C20_grid_complex_alike.

(* border padding = zeros padding on the clipped coordinate; with border padding the bilinear weights always sum to one *)
Theorem C20_grid_border : forall m ac n x,
  axis_taps m PBorder ac n x = filter (fun t => inb n (fst t)) (taps1 m (clip n (unnormalize ac n x)))
  /\ ((1 <= n)%Z -> wsum (axis_taps Bilinear PBorder ac n x) == 1).
Proof. intros. split; [reflexivity|apply border_bilinear_sum1]. Qed.
Print Assumptions C20_grid_border.

(* the backward kernel (scatter-add) is the transpose of the forward gather: <A x, y> = <x, A^T y> for every grid *)
Theorem C20_grid_adjoint : forall H W (x : Z -> Z -> Q) outs,
  Forall (fun o => Forall (fun a => (0 <= fst a < H)%Z) (fst (fst o)) /\ Forall (fun a => (0 <= fst a < W)%Z) (snd (fst o))) outs ->
  GridSample.qsum (map (fun o => sample2 x (fst (fst o)) (snd (fst o)) * snd o) outs)
  == GridSample.qsum (map (fun i => GridSample.qsum (map (fun j => x i j * adjoint2 outs i j) (zrange W))) (zrange H)).
Proof. exact adjoint2_is_transpose. Qed.
Print Assumptions C20_grid_adjoint.

Theorem C20_grid_adjoint_3d : forall D H W (x : Z -> Z -> Z -> Q) outs,
  Forall (fun o => match o with (tz, ty, tx, _) =>
     Forall (fun a => (0 <= fst a < D)%Z) tz /\ Forall (fun a => (0 <= fst a < H)%Z) ty /\ Forall (fun a => (0 <= fst a < W)%Z) tx end) outs ->
  GridSample.qsum (map (fun o => match o with (tz, ty, tx, y) => sample3 x tz ty tx * y end) outs)
  == GridSample.qsum (map (fun k => GridSample.qsum (map (fun i => GridSample.qsum (map (fun j => x k i j * adjoint3 outs k i j)
        (zrange W))) (zrange H))) (zrange D)).
Proof. exact adjoint3_is_transpose. Qed.
Print Assumptions C20_grid_adjoint_3d.

(* the hypothesis of the adjoint theorems holds for the taps of every grid point *)
Theorem C20_grid_taps_in_range : forall m p ac n x, Forall (fun a => (0 <= fst a < n)%Z) (axis_taps m p ac n x).
Proof. exact axis_taps_idx_in_range. Qed.
Print Assumptions C20_grid_taps_in_range.

(* ======================================================================= SliceProjectionOp *)

(* all matrix weights are >= 0 for a non-negative profile: any rotation matrix, shift, width, volume shape *)
Theorem C20_slice_nonneg : forall g r c, (forall d, 0 <= prof g d) -> forall e, In e (row g r c) -> 0 <= snd e.
Proof. exact row_nonneg. Qed.
Print Assumptions C20_slice_nonneg.

(* coalescing duplicates and dividing by their number returns the weight of the voxel *)
Theorem C20_slice_duplicates : forall g pr e, In e (coalesced g pr) ->
  snd e == weight g pr (fst e) /\ inside g (fst e) = true /\ In (fst e) (cands g pr).
Proof. exact coalesced_spec. Qed.
Print Assumptions C20_slice_duplicates.

(* every row sums to fraction_in_view * s / (s + 1e-6), between 0 and the fraction in view;
   a constant volume gives constant * row sum *)
Theorem C20_slice_rowsum : forall g r c,
  row_sum g r c == fraction_in_view g (pixel_rot g r c) * (raw_sum g (pixel_rot g r c) / (raw_sum g (pixel_rot g r c) + eps))
  /\ ((forall d, 0 <= prof g d) -> 0 <= row_sum g r c <= fraction_in_view g (pixel_rot g r c))
  /\ fraction_in_view g (pixel_rot g r c) <= 1
  /\ forall v, project g (fun _ => v) r c == v * row_sum g r c.
Proof.
  intros. split; [apply row_sum_spec|]. split; [apply row_sum_bounds|]. split; [apply fraction_in_view_le1|].
  intros; apply project_const.
Qed.
Print Assumptions C20_slice_rowsum.

(* whole support inside the volume: the row sums to s/(s+1e-6) <= 1, and to at least 1 - 1e-6 when the raw weights sum to >= 1 *)
Theorem C20_slice_rowsum_inside : forall g r c, (forall d, 0 <= prof g d) ->
  all_in_view g (pixel_rot g r c) -> (0 < npos g r c)%Z ->
  row_sum g r c * (raw_sum g (pixel_rot g r c) + eps) == raw_sum g (pixel_rot g r c)
  /\ row_sum g r c <= 1
  /\ (1 <= raw_sum g (pixel_rot g r c) -> 1 - eps <= row_sum g r c).
Proof. exact row_sum_inside. Qed.
Print Assumptions C20_slice_rowsum_inside.

(* identity rotation, ANY shift / shape / width / profile: the row of slice pixel (r,c) is profile-weighted slicing along z
   through voxel column (pix_y r, pix_x c): weight profile(z_line - z) * norm on the column, 0 elsewhere.
   _partial: axis-permuting rotations other than the identity are covered by the correspondence and the numpy-style
   reference oracle only (the statement needs the rotated in-plane position on the lattice; not proved in general). *)
Theorem C20_slice_identity_is_weighted_slicing_partial : forall g r c, rot g = I3 -> Proper (Qeq ==> Qeq) (prof g) ->
  exists a, a == line_z g /\
  forall z y x w, In ((z, y, x), w) (row g r c) ->
    w == (if ((y =? pix_y g r) && (x =? pix_x g c))%Z then prof g (a - inject_Z z) else 0)
         * (fraction_in_view g (pixel_rot g r c) / (raw_sum g (pixel_rot g r c) + eps)).
Proof. exact row_identity. Qed.
Print Assumptions C20_slice_identity_is_weighted_slicing_partial.

(* rectangular profile of half-width h: taps are exactly those with |d| <= h (weight 1 before normalisation, hence all equal),
   and the candidate window floor(z_line) - w .. floor(z_line) + w + 1 contains all of them as soon as w >= h *)
Theorem C20_slice_rect_support : forall h d (pz : Q) (w z : Z),
  rect h d == (if Qle_bool (Qabs d) h then 1 else 0)
  /\ (h <= inject_Z w -> Qabs (pz - inject_Z z) <= h -> (Qfloor pz - w <= z <= Qfloor pz + w + 1)%Z).
Proof. intros. split; [apply rect_spec|apply support_in_window]. Qed.
Print Assumptions C20_slice_rect_support.

(* identity rotation + rectangular profile of half-width h (h <= width, which _find_width guarantees, see below): EVERY in-volume
   voxel of the pixel's column with |z_line - z| <= h has an entry in the row and all of them carry the same weight
   fraction_in_view / (s + 1e-6): the profile is followed over its whole support (width 6 -> 6 equal taps) *)
Theorem C20_slice_rect_taps_partial : forall g r c h, rot g = I3 -> prof g = rect h -> 0 <= h -> h <= inject_Z (width g) ->
  forall z, inside g (z, pix_y g r, pix_x g c) = true -> Qabs (line_z g - inject_Z z) <= h ->
  exists w, In ((z, pix_y g r, pix_x g c), w) (row g r c)
            /\ w == fraction_in_view g (pixel_rot g r c) / (raw_sum g (pixel_rot g r c) + eps).
Proof. exact rect_identity_taps. Qed.
Print Assumptions C20_slice_rect_taps_partial.

(* _find_width (as repaired) of a rectangular profile of half-width h is floor(h) + 1 >= h: checked by evaluation for
   half-widths 1/2 .. 4 (widths 1 .. 8 voxels) and volume sizes 4 .. 12 (finite domain, hence _partial) *)
Example C20_find_width_rect_partial :
  forallb (fun mx => forallb (fun k => (find_width mx (rect (k # 2)) =? Qfloor (k # 2) + 1)%Z)
                             [1; 2; 3; 4; 5; 6; 7; 8]%Z) [4; 5; 6; 7; 8; 9; 10; 11; 12]%Z = true.
Proof. vm_compute. reflexivity. Qed.

(* before the repair the test grid had two points and the width was 1 for every profile; now a width-6 rectangle gives 6 taps *)
Example C20_width6_six_equal_taps :
  let g := mk 9 5 5 I3 (1 # 2) (rect 3) in
  width g = 4%Z /\
  map (fun e => (fst e, Qred (snd e))) (filter (fun e => negb (Qeq_bool (snd e) 0)) (row g 4 4))
  = map (fun z => ((z, 2, 2)%Z, Qred ((1 # 6) * (6 / (6 + eps))))) [2; 3; 4; 5; 6; 7]%Z.
Proof. vm_compute. split; reflexivity. Qed.

(* non-vacuity: bilinear sample half-way between pixels, zeros padding beyond the border, identity grid *)
Example C20_grid_example :
  Qred (grid_sample2 Bilinear PZeros true 2 3 (im2_of 2 3 [1; 2; 3; 4; 5; 6]) (1 # 2) 0) = (4 # 1)
  /\ Qred (grid_sample2 Bilinear PZeros false 2 3 (im2_of 2 3 [1; 2; 3; 4; 5; 6]) 1 (-1 # 2)) = (3 # 2)
  /\ Qred (grid_sample2 Nearest PBorder false 2 3 (im2_of 2 3 [1; 2; 3; 4; 5; 6]) 2 (-2)) = (3 # 1).
Proof. vm_compute. repeat split; reflexivity. Qed.
