(* C20 - Resampling operators interpolate and integrate as specified.
   Theorems about the executable models Model/GridSample.v (GridSamplingOp: aten grid_sampler contract + the reshape
   wrapper) and Model/SliceProj.v (SliceProjectionOp.projection_matrix, _find_width).  The models are tied to /repo on every
   run by the correspondence families of harness/props/C20.py (vm_compute of the same definitions on seeded cases).
   Rationals with Qeq (==).  reflection padding: coordinate map modelled (Model/GridReflect.v, theorems C20_grid_reflect_range etc.); erf/Gaussian profiles: implementation-level oracles only. *)
From MrVerif Require Import Base.Prelude Model.GridSample Model.SliceProj Proofs.GridSampleProofs Proofs.SliceProjProofs
  Proofs.SliceProjPermProofs Proofs.SliceProjWidthProofs Proofs.SliceProjAxisProofs Model.GridReflect Proofs.GridReflectProofs.
From Coq Require Import QArith Qround Qabs Morphisms.
Local Open Scope Q_scope.

(* ======================================================================= GridSamplingOp *)

(* interpolation weights of an axis are >= 0 and sum to one (both modes, any coordinate) *)
Theorem C20_grid_weights : forall m ix,
  Forall (fun t => 0 <= snd t) (taps1 m ix) /\ wsum (taps1 m ix) == 1.
Proof. exact taps_weights. Qed.
Print Assumptions C20_grid_weights.

(* the taps that survive the bounds test are in range and >= 0; if every neighbour is inside they sum to one *)
Theorem C20_grid_weights_inside : forall m p ac n x,
  Forall (fun t => (0 <= fst t < n)%Z /\ 0 <= snd t) (axis_taps m p ac n x)
  /\ (forallb (fun t => inb n (fst t)) (taps1 m (pad_coord p n (unnormalize ac n x))) = true -> wsum (axis_taps m p ac n x) == 1).
Proof. intros. split; [apply axis_taps_in_range|apply axis_taps_sum_inside]. Qed.
Print Assumptions C20_grid_weights_inside.

(* product weights: a constant image is reproduced times the product of the per-axis weight sums (2-D and 3-D) *)
Theorem C20_grid_const : forall c ty tx tz,
  sample2 (fun _ _ => c) ty tx == c * wsum ty * wsum tx
  /\ sample3 (fun _ _ _ => c) tz ty tx == c * wsum tz * wsum ty * wsum tx.
Proof. intros. split; [apply sample2_const|apply sample3_const]. Qed.
Print Assumptions C20_grid_const.

(* a grid point exactly on a pixel returns that pixel: every mode, padding, convention, size *)
Theorem C20_grid_on_pixel : forall m p ac H W im gx gy i j, (0 <= i < H)%Z -> (0 <= j < W)%Z ->
  unnormalize ac H gy == inject_Z i -> unnormalize ac W gx == inject_Z j ->
  grid_sample2 m p ac H W im gx gy == im i j.
Proof. exact grid_sample2_on_pixel. Qed.
Print Assumptions C20_grid_on_pixel.

Theorem C20_grid_on_pixel_3d : forall m p ac D H W im gx gy gz k i j, (0 <= k < D)%Z -> (0 <= i < H)%Z -> (0 <= j < W)%Z ->
  unnormalize ac D gz == inject_Z k -> unnormalize ac H gy == inject_Z i -> unnormalize ac W gx == inject_Z j ->
  grid_sample3 m p ac D H W im gx gy gz == im k i j.
Proof. exact grid_sample3_on_pixel. Qed.
Print Assumptions C20_grid_on_pixel_3d.

(* the identity grid (pixel centres: -1 + 2j/(n-1) for align_corners, (2j+1)/n - 1 otherwise) returns the input:
   any size n >= 2 (align_corners) / n >= 1 (not), all modes and paddings *)
Theorem C20_grid_identity : forall m p (ac : bool) H W im i j,
  ((if ac then 2 else 1) <= H)%Z -> ((if ac then 2 else 1) <= W)%Z -> (0 <= i < H)%Z -> (0 <= j < W)%Z ->
  grid_sample2 m p ac H W im (centre_coord ac W j) (centre_coord ac H i) == im i j.
Proof. exact identity_grid2. Qed.
Print Assumptions C20_grid_identity.

Theorem C20_grid_identity_3d : forall m p (ac : bool) D H W im k i j,
  ((if ac then 2 else 1) <= D)%Z -> ((if ac then 2 else 1) <= H)%Z -> ((if ac then 2 else 1) <= W)%Z ->
  (0 <= k < D)%Z -> (0 <= i < H)%Z -> (0 <= j < W)%Z ->
  grid_sample3 m p ac D H W im (centre_coord ac W j) (centre_coord ac H i) (centre_coord ac D k) == im k i j.
Proof. exact identity_grid3. Qed.
Print Assumptions C20_grid_identity_3d.

(* n = 1 with align_corners: the pixel-centre formula divides by zero, but every grid value addresses the only pixel *)
Theorem C20_grid_identity_single : forall m p im gx gy, grid_sample2 m p true 1 1 im gx gy == im 0%Z 0%Z.
Proof. exact identity_grid2_single. Qed.
Print Assumptions C20_grid_identity_single.

(* sampling is linear in the input (for every grid point, mode, padding) ... *)
Theorem C20_grid_linear : forall a b im1 im2 ty tx,
  sample2 (fun i j => a * im1 i j + b * im2 i j) ty tx == a * sample2 im1 ty tx + b * sample2 im2 ty tx.
Proof. exact sample2_linear. Qed.
Print Assumptions C20_grid_linear.

Theorem C20_grid_linear_3d : forall a b im1 im2 tz ty tx,
  sample3 (fun k i j => a * im1 k i j + b * im2 k i j) tz ty tx == a * sample3 im1 tz ty tx + b * sample3 im2 tz ty tx.
Proof. exact sample3_linear. Qed.
Print Assumptions C20_grid_linear_3d.

(* ... and the reshape wrapper (as repaired) samples a complex tensor as the pair (real part, imaginary part), each channel of
   batch element k with the grid of batch element k, for every batch layout *)
Theorem C20_grid_complex_alike : forall (T G O : Type) (inner : T -> G -> O) xb gb C xre xim g k c, (0 <= c < C)%Z ->
  wrap_complex T G O inner xb gb C xre xim g k c
  = (wrap_real T G O inner xb gb xre g k c, wrap_real T G O inner xb gb xim g k c).
Proof. exact wrap_complex_is_componentwise. Qed.
Print Assumptions C20_grid_complex_alike.

(* border padding = zeros padding on the clipped coordinate; with border padding the bilinear weights always sum to one *)
Theorem C20_grid_border : forall m ac n x,
  axis_taps m PBorder ac n x = filter (fun t => inb n (fst t)) (taps1 m (clip n (unnormalize ac n x)))
  /\ ((1 <= n)%Z -> wsum (axis_taps Bilinear PBorder ac n x) == 1).
Proof. intros. split; [reflexivity|apply border_bilinear_sum1]. Qed.
Print Assumptions C20_grid_border.

(* the backward kernel (scatter-add) is the transpose of the forward gather: <A x, y> = <x, A^T y> for every grid *)
Theorem C20_grid_adjoint : forall H W (x : Z -> Z -> Q) outs,
  Forall (fun o => Forall (fun a => (0 <= fst a < H)%Z) (fst (fst o)) /\ Forall (fun a => (0 <= fst a < W)%Z) (snd (fst o))) outs ->
  GridSample.qsum (map (fun o => sample2 x (fst (fst o)) (snd (fst o)) * snd o) outs)
  == GridSample.qsum (map (fun i => GridSample.qsum (map (fun j => x i j * adjoint2 outs i j) (zrange W))) (zrange H)).
Proof. exact adjoint2_is_transpose. Qed.
Print Assumptions C20_grid_adjoint.

Theorem C20_grid_adjoint_3d : forall D H W (x : Z -> Z -> Z -> Q) outs,
  Forall (fun o => match o with (tz, ty, tx, _) =>
     Forall (fun a => (0 <= fst a < D)%Z) tz /\ Forall (fun a => (0 <= fst a < H)%Z) ty /\ Forall (fun a => (0 <= fst a < W)%Z) tx end) outs ->
  GridSample.qsum (map (fun o => match o with (tz, ty, tx, y) => sample3 x tz ty tx * y end) outs)
  == GridSample.qsum (map (fun k => GridSample.qsum (map (fun i => GridSample.qsum (map (fun j => x k i j * adjoint3 outs k i j)
        (zrange W))) (zrange H))) (zrange D)).
Proof. exact adjoint3_is_transpose. Qed.
Print Assumptions C20_grid_adjoint_3d.

(* the hypothesis of the adjoint theorems holds for the taps of every grid point *)
Theorem C20_grid_taps_in_range : forall m p ac n x, Forall (fun a => (0 <= fst a < n)%Z) (axis_taps m p ac n x).
Proof. exact axis_taps_idx_in_range. Qed.
Print Assumptions C20_grid_taps_in_range.

(* ----------------------------------------------------------------------- bicubic (2-D; cubic convolution, A = -3/4) *)
(* the four aten coefficients sum to one for every fractional position; hence the taps of an axis sum to one always under
   border padding (index clipping) and under zeros padding when the four neighbours are inside *)
Theorem C20_grid_bicubic_weights : forall t ac n x,
  cc2 (t + 1) + cc1 t + cc1 (1 - t) + cc2 (2 - t) == 1
  /\ wsum (axis_taps_bicubic PBorder ac n x) == 1
  /\ (forallb (fun t => inb n (fst t)) (bicubic_taps1 (unnormalize ac n x)) = true -> wsum (axis_taps_bicubic PZeros ac n x) == 1).
Proof. intros. split; [apply cubic_coeffs_sum1|]. split; [apply bicubic_border_sum1|apply bicubic_zeros_sum_inside]. Qed.
Print Assumptions C20_grid_bicubic_weights.

(* bicubic reproduces constants: every grid point under border padding, 4x4 neighbourhood inside under zeros padding *)
Theorem C20_grid_bicubic_const : forall c ac H W gx gy,
  grid_sample2_bicubic PBorder ac H W (fun _ _ => c) gx gy == c
  /\ (forallb (fun t => inb H (fst t)) (bicubic_taps1 (unnormalize ac H gy)) = true ->
      forallb (fun t => inb W (fst t)) (bicubic_taps1 (unnormalize ac W gx)) = true ->
      grid_sample2_bicubic PZeros ac H W (fun _ _ => c) gx gy == c).
Proof. intros. split; [apply bicubic_const_border|apply bicubic_const_zeros]. Qed.
Print Assumptions C20_grid_bicubic_const.

(* bicubic: on-pixel grid points and the identity grid return the input (both paddings, both conventions, all sizes) *)
Theorem C20_grid_bicubic_identity : forall p (ac : bool) H W im,
  (forall gx gy i j, (0 <= i < H)%Z -> (0 <= j < W)%Z ->
     unnormalize ac H gy == inject_Z i -> unnormalize ac W gx == inject_Z j -> grid_sample2_bicubic p ac H W im gx gy == im i j)
  /\ (((if ac then 2 else 1) <= H)%Z -> ((if ac then 2 else 1) <= W)%Z -> forall i j, (0 <= i < H)%Z -> (0 <= j < W)%Z ->
      grid_sample2_bicubic p ac H W im (centre_coord ac W j) (centre_coord ac H i) == im i j).
Proof.
  intros. split; [intros; apply grid_sample2_bicubic_on_pixel; assumption|intros; apply identity_grid2_bicubic; assumption].
Qed.
Print Assumptions C20_grid_bicubic_identity.

(* the bounded bicubic neighbours are in range: C20_grid_linear and C20_grid_adjoint (stated for arbitrary taps) apply *)
Theorem C20_grid_bicubic_taps_in_range : forall p ac n x, (1 <= n)%Z -> Forall (fun a => (0 <= fst a < n)%Z) (axis_taps_bicubic p ac n x).
Proof. exact axis_taps_bicubic_in_range. Qed.
Print Assumptions C20_grid_bicubic_taps_in_range.

(* ======================================================================= SliceProjectionOp *)

(* all matrix weights are >= 0 for a non-negative profile: any rotation matrix, shift, width, volume shape *)
(* ---- padding_mode='reflection' (model of aten's reflect_coordinates + clip; tied to the code by family grid_reflection: sampling with
   reflection padding at g = sampling with border padding at the model's reflected position) ---- *)
(* the reflected coordinate always lies inside the reflection interval [min, min + span] (pixel-centre borders for align_corners,
   outer pixel edges otherwise), for every coordinate however far outside *)
Theorem C20_grid_reflect_range : forall (tl th : Z) (x : Q), (tl < th)%Z ->
  inject_Z tl / 2 <= reflectQ tl th x <= inject_Z tl / 2 + inject_Z (th - tl) / 2.
Proof. intros tl th x H. exact (reflect_range tl th H x). Qed.
Print Assumptions C20_grid_reflect_range.
(* coordinates inside are left alone *)
Theorem C20_grid_reflect_fixed : forall (tl th : Z) (x : Q), (tl < th)%Z ->
  inject_Z tl / 2 <= x <= inject_Z tl / 2 + inject_Z (th - tl) / 2 -> reflectQ tl th x == x.
Proof. intros tl th x H. exact (reflect_fixed tl th H x). Qed.
Print Assumptions C20_grid_reflect_fixed.
(* positions mirrored at the lower border are sampled alike *)
Theorem C20_grid_reflect_even : forall (tl th : Z) (x : Q), reflectQ tl th (2 * (inject_Z tl / 2) - x) == reflectQ tl th x.
Proof. exact reflect_even. Qed.
Print Assumptions C20_grid_reflect_even.
(* a grid location on a pixel centre addresses that pixel (identity grid gives the input back), both align_corners settings *)
Theorem C20_grid_reflect_on_pixel : forall ac n j, (2 <= n)%Z -> (0 <= j < n)%Z -> pad_reflect ac n (inject_Z j) == inject_Z j.
Proof. exact pad_reflect_on_pixel. Qed.
Print Assumptions C20_grid_reflect_on_pixel.
Example C20_grid_reflect_example :
  reflectQ 0 6 (-(5 # 4)) == 5 # 4 /\ reflectQ 0 6 (17 # 4) == 7 # 4 /\ reflectQ (-1) 7 (-(3 # 2)) == 1 # 2 /\ reflectQ (-1) 7 (9 # 1) == 1.
Proof. vm_compute. repeat split; reflexivity. Qed.

Theorem C20_slice_nonneg : forall g r c, (forall d, 0 <= prof g d) -> forall e, In e (row g r c) -> 0 <= snd e.
Proof. exact row_nonneg. Qed.
Print Assumptions C20_slice_nonneg.

(* coalescing duplicates and dividing by their number returns the weight of the voxel *)
Theorem C20_slice_duplicates : forall g pr e, In e (coalesced g pr) ->
  snd e == weight g pr (fst e) /\ inside g (fst e) = true /\ In (fst e) (cands g pr).
Proof. exact coalesced_spec. Qed.
Print Assumptions C20_slice_duplicates.

(* every row sums to fraction_in_view * s / (s + 1e-6), between 0 and the fraction in view;
   a constant volume gives constant * row sum *)
Theorem C20_slice_rowsum : forall g r c,
  row_sum g r c == fraction_in_view g (pixel_rot g r c) * (raw_sum g (pixel_rot g r c) / (raw_sum g (pixel_rot g r c) + eps))
  /\ ((forall d, 0 <= prof g d) -> 0 <= row_sum g r c <= fraction_in_view g (pixel_rot g r c))
  /\ fraction_in_view g (pixel_rot g r c) <= 1
  /\ forall v, project g (fun _ => v) r c == v * row_sum g r c.
Proof.
  intros. split; [apply row_sum_spec|]. split; [apply row_sum_bounds|]. split; [apply fraction_in_view_le1|].
  intros; apply project_const.
Qed.
Print Assumptions C20_slice_rowsum.

(* whole support inside the volume: the row sums to s/(s+1e-6) <= 1, and to at least 1 - 1e-6 when the raw weights sum to >= 1 *)
Theorem C20_slice_rowsum_inside : forall g r c, (forall d, 0 <= prof g d) ->
  all_in_view g (pixel_rot g r c) -> (0 < npos g r c)%Z ->
  row_sum g r c * (raw_sum g (pixel_rot g r c) + eps) == raw_sum g (pixel_rot g r c)
  /\ row_sum g r c <= 1
  /\ (1 <= raw_sum g (pixel_rot g r c) -> 1 - eps <= row_sum g r c).
Proof. exact row_sum_inside. Qed.
Print Assumptions C20_slice_rowsum_inside.

(* AXIS-ALIGNED ROTATIONS REDUCE TO WEIGHTED SLICING.  Every axis-permuting rotation is a signed permutation matrix
   sperm_mat a0 a1 a2 b0 b1 b2 (M e_z = +-e_a0 the rotated normal, M e_y = +-e_a1, M e_x = +-e_a2).  For ANY shift (integer,
   half-integer or other), width, profile and every volume shape whose sizes satisfy ny = n_a1, nx = n_a2 modulo 2 (otherwise the
   rotated pixel centres lie between voxels and the operator interpolates in the plane, which is not slicing):
   each entry of the row of slice pixel (r, c) is  profile(signed distance along the normal) * norm  on the voxel line
   {pt : pt_a1 = lat_y, pt_a2 = lat_x} through the rotated pixel position and 0 on every other voxel. *)
Theorem C20_slice_axis_aligned_is_weighted_slicing : forall g r c a0 a1 a2 b0 b1 b2,
  is_perm a0 a1 a2 -> rot g = sperm_mat a0 a1 a2 b0 b1 b2 -> Proper (Qeq ==> Qeq) (prof g) ->
  Z.even (ny g) = Z.even (comp a1 (dimv g)) -> Z.even (nx g) = Z.even (comp a2 (dimv g)) ->
  exists a, a == line_n g a0 b0 /\
  forall pt w, In (pt, w) (row g r c) ->
    w == (if ((comp a1 pt =? lat_y g a1 b1 r) && (comp a2 pt =? lat_x g a2 b2 c))%Z
          then prof g (sgn b0 * (a - inject_Z (comp a0 pt))) else 0)
         * (fraction_in_view g (pixel_rot g r c) / (raw_sum g (pixel_rot g r c) + eps)).
Proof. exact row_sperm. Qed.
Print Assumptions C20_slice_axis_aligned_is_weighted_slicing.

(* the parity side conditions hold for every cubic volume under every axis-permuting rotation ... *)
Theorem C20_slice_axis_aligned_cubic : forall g r c a0 a1 a2 b0 b1 b2,
  is_perm a0 a1 a2 -> rot g = sperm_mat a0 a1 a2 b0 b1 b2 -> Proper (Qeq ==> Qeq) (prof g) ->
  nz g = ny g -> ny g = nx g ->
  exists a, a == line_n g a0 b0 /\
  forall pt w, In (pt, w) (row g r c) ->
    w == (if ((comp a1 pt =? lat_y g a1 b1 r) && (comp a2 pt =? lat_x g a2 b2 c))%Z
          then prof g (sgn b0 * (a - inject_Z (comp a0 pt))) else 0)
         * (fraction_in_view g (pixel_rot g r c) / (raw_sum g (pixel_rot g r c) + eps)).
Proof. exact row_sperm_cubic. Qed.
Print Assumptions C20_slice_axis_aligned_cubic.

(* ... and for every volume shape when the in-plane axes are kept (identity, axis flips, 180 degree rotations) *)
Theorem C20_slice_axis_keeping_parity : forall g,
  Z.even (ny g) = Z.even (comp AY (dimv g)) /\ Z.even (nx g) = Z.even (comp AX (dimv g)).
Proof. exact parity_axis_keeping. Qed.
Print Assumptions C20_slice_axis_keeping_parity.

(* the identity rotation, all shapes (special case, stated with plain coordinates) *)
Theorem C20_slice_identity_is_weighted_slicing : forall g r c, rot g = I3 -> Proper (Qeq ==> Qeq) (prof g) ->
  exists a, a == line_z g /\
  forall z y x w, In ((z, y, x), w) (row g r c) ->
    w == (if ((y =? pix_y g r) && (x =? pix_x g c))%Z then prof g (a - inject_Z z) else 0)
         * (fraction_in_view g (pixel_rot g r c) / (raw_sum g (pixel_rot g r c) + eps)).
Proof. exact row_identity. Qed.
Print Assumptions C20_slice_identity_is_weighted_slicing.

(* the signed permutation matrices are the literal 0/+-1 matrices handed to the operator *)
Example C20_sperm_examples :
  sperm_mat AZ AY AX true true true = I3
  /\ sperm_mat AZ AX AY true true false = ((1, 0, 0), (0, 0, -1 # 1), (0, 1, 0))          (* 90 degrees about z *)
  /\ sperm_mat AY AX AZ true true true = ((0, 0, 1), (1, 0, 0), (0, 1, 0))                (* 120 degrees about (1,1,1) *)
  /\ sperm_mat AZ AY AX true false false = ((1, 0, 0), (0, -1 # 1, 0), (0, 0, -1 # 1)).    (* 180 degrees about z *)
Proof. repeat split; reflexivity. Qed.

(* rectangular profile of half-width h: taps are exactly those with |d| <= h (weight 1 before normalisation, hence all equal),
   and the candidate window floor(z_line) - w .. floor(z_line) + w + 1 contains all of them as soon as w >= h *)
Theorem C20_slice_rect_support : forall h d (pz : Q) (w z : Z),
  rect h d == (if Qle_bool (Qabs d) h then 1 else 0)
  /\ (h <= inject_Z w -> Qabs (pz - inject_Z z) <= h -> (Qfloor pz - w <= z <= Qfloor pz + w + 1)%Z).
Proof. intros. split; [apply rect_spec|apply support_in_window]. Qed.
Print Assumptions C20_slice_rect_support.

(* THE WEIGHTS FOLLOW THE PROFILE OVER ITS WHOLE SUPPORT: any axis-permuting rotation + rectangular profile of half-width
   h <= width: EVERY in-volume voxel of the line with |distance along the normal| <= h has an entry in the row and all of them
   carry the same weight fraction_in_view / (s + 1e-6) (width 6 -> 6 equal taps) *)
Theorem C20_slice_rect_taps : forall g r c a0 a1 a2 b0 b1 b2 h,
  is_perm a0 a1 a2 -> rot g = sperm_mat a0 a1 a2 b0 b1 b2 -> prof g = rect h -> 0 <= h -> h <= inject_Z (width g) ->
  Z.even (ny g) = Z.even (comp a1 (dimv g)) -> Z.even (nx g) = Z.even (comp a2 (dimv g)) ->
  forall pt, inside g pt = true -> comp a1 pt = lat_y g a1 b1 r -> comp a2 pt = lat_x g a2 b2 c ->
  Qabs (line_n g a0 b0 - inject_Z (comp a0 pt)) <= h ->
  exists w, In (pt, w) (row g r c)
            /\ w == fraction_in_view g (pixel_rot g r c) / (raw_sum g (pixel_rot g r c) + eps).
Proof. exact rect_sperm_taps. Qed.
Print Assumptions C20_slice_rect_taps.

(* the same for the operator as __init__ builds it (width := _find_width): the hypothesis h <= width is a theorem *)
Theorem C20_slice_rect_taps_built : forall n0 n1 n2 a0 a1 a2 b0 b1 b2 sh h r c,
  let g := mk n0 n1 n2 (sperm_mat a0 a1 a2 b0 b1 b2) sh (rect h) in
  is_perm a0 a1 a2 -> 0 <= h -> (Qfloor h <= max_shape g)%Z -> (2 * Qfloor h + 1 < 100)%Z ->
  Z.even (ny g) = Z.even (comp a1 (dimv g)) -> Z.even (nx g) = Z.even (comp a2 (dimv g)) ->
  forall pt, inside g pt = true -> comp a1 pt = lat_y g a1 b1 r -> comp a2 pt = lat_x g a2 b2 c ->
  Qabs (line_n g a0 b0 - inject_Z (comp a0 pt)) <= h ->
  exists w, In (pt, w) (row g r c)
            /\ w == fraction_in_view g (pixel_rot g r c) / (raw_sum g (pixel_rot g r c) + eps).
Proof. exact rect_sperm_taps_built. Qed.
Print Assumptions C20_slice_rect_taps_built.

(* ROWS SUM TO ONE INSIDE THE VOLUME (axis-permuting rotation, rectangular profile 1/2 <= h <= width): if every voxel of the
   pixel's line within distance h of the slice lies in the volume, the row sums to one within the 1e-6 regulariser; with
   C20_slice_rowsum a constant volume v therefore gives v * (1 - delta), 0 <= delta <= 1e-6 *)
Theorem C20_slice_axis_aligned_rows_sum_to_one : forall g r c a0 a1 a2 b0 b1 b2 h,
  is_perm a0 a1 a2 -> rot g = sperm_mat a0 a1 a2 b0 b1 b2 -> prof g = rect h -> (1 # 2) <= h -> h <= inject_Z (width g) ->
  Z.even (ny g) = Z.even (comp a1 (dimv g)) -> Z.even (nx g) = Z.even (comp a2 (dimv g)) ->
  (forall pt, comp a1 pt = lat_y g a1 b1 r -> comp a2 pt = lat_x g a2 b2 c ->
              Qabs (line_n g a0 b0 - inject_Z (comp a0 pt)) <= h -> inside g pt = true) ->
  1 - eps <= row_sum g r c <= 1.
Proof. exact rect_sperm_row_sums_to_one. Qed.
Print Assumptions C20_slice_axis_aligned_rows_sum_to_one.

(* _find_width (as repaired: integer test points -mx..mx, cdf thresholds 1 % / 99 %), ALL sizes mx:
   a profile that is the indicator of the integers L..R on the test grid (-mx <= L <= R <= mx, fewer than 100 of them, so
   that one tap is more than 1 % of the total) has width max(|L|, |R|) + 1 *)
Theorem C20_find_width_indicator : forall p L R mx,
  (forall t : Z, p (inject_Z t) == if ((L <=? t) && (t <=? R))%Z then 1 else 0) ->
  (- mx <= L)%Z -> (L <= R)%Z -> (R <= mx)%Z -> (R - L + 1 < 100)%Z ->
  find_width mx p = (Z.max (Z.abs L) (Z.abs R) + 1)%Z.
Proof. exact find_width_indicator. Qed.
Print Assumptions C20_find_width_indicator.

(* symmetric rectangle |d| <= h, every h >= 0 with floor h <= mx and 2 floor h + 1 < 100: width = floor h + 1 (>= h) *)
Theorem C20_find_width_rect : forall h mx, 0 <= h -> (Qfloor h <= mx)%Z -> (2 * Qfloor h + 1 < 100)%Z ->
  find_width mx (rect h) = (Qfloor h + 1)%Z /\ h <= inject_Z (find_width mx (rect h)).
Proof. intros. split; [apply find_width_rect|apply find_width_rect_covers]; assumption. Qed.
Print Assumptions C20_find_width_rect.

(* asymmetric rectangle lo <= d <= hi: width = max(|ceil lo|, |floor hi|) + 1 (both ends count, not only the right one) *)
Theorem C20_find_width_arect : forall lo hi mx,
  (- mx <= Qceiling lo)%Z -> (Qceiling lo <= Qfloor hi)%Z -> (Qfloor hi <= mx)%Z -> (Qfloor hi - Qceiling lo + 1 < 100)%Z ->
  find_width mx (arect lo hi) = (Z.max (Z.abs (Qceiling lo)) (Z.abs (Qfloor hi)) + 1)%Z.
Proof. exact find_width_arect. Qed.
Print Assumptions C20_find_width_arect.

Example C20_find_width_examples :
  find_width 11 (arect (-7 # 2) (1 # 2)) = 4%Z /\ find_width 11 (arect (-1 # 2) (7 # 2)) = 4%Z /\ find_width 9 (rect 3) = 4%Z.
Proof. vm_compute. repeat split; reflexivity. Qed.

(* before the repair the test grid had two points and the width was 1 for every profile; now a width-6 rectangle gives 6 taps *)
Example C20_width6_six_equal_taps :
  let g := mk 9 5 5 I3 (1 # 2) (rect 3) in
  width g = 4%Z /\
  map (fun e => (fst e, Qred (snd e))) (filter (fun e => negb (Qeq_bool (snd e) 0)) (row g 4 4))
  = map (fun z => ((z, 2, 2)%Z, Qred ((1 # 6) * (6 / (6 + eps))))) [2; 3; 4; 5; 6; 7]%Z.
Proof. vm_compute. split; reflexivity. Qed.

(* non-vacuity: bilinear sample half-way between pixels, zeros padding beyond the border, identity grid *)
Example C20_grid_example :
  Qred (grid_sample2 Bilinear PZeros true 2 3 (im2_of 2 3 [1; 2; 3; 4; 5; 6]) (1 # 2) 0) = (4 # 1)
  /\ Qred (grid_sample2 Bilinear PZeros false 2 3 (im2_of 2 3 [1; 2; 3; 4; 5; 6]) 1 (-1 # 2)) = (3 # 2)
  /\ Qred (grid_sample2 Nearest PBorder false 2 3 (im2_of 2 3 [1; 2; 3; 4; 5; 6]) 2 (-2)) = (3 # 1).
Proof. vm_compute. repeat split; reflexivity. Qed.
