(* C03 - Fourier operators compute the MR encoding model at the trajectory points (FFT path, symbolic phases).
   An entry Some e stands for c * exp(-2 pi i e / N_enc) with c = 1/sqrt(N_enc); None is a structural zero. *)
From MrVerif Require Import Base.Prelude Model.ZeroPad Model.Fourier Proofs.FourierProofs.

Theorem C03_shift_convention : forall N k' r, 0 < N ->
  fft_shifted_exp N k' r = ((k' - N / 2) * (r - N / 2)) mod N.
Proof. exact fft_shift_convention. Qed.
Print Assumptions C03_shift_convention.

Theorem C03_fft_path : forall n N k r e, 0 < n -> 0 < N ->
  fourier_entry n N k r = Some e -> e = (k * (r - n / 2)) mod N /\ 0 <= r < n /\ - (N / 2) <= k < N - N / 2.
Proof. exact fourier_entry_spec. Qed.
Print Assumptions C03_fft_path.

Theorem C03_every_sample_contributes : forall n N k r, 0 < n <= N -> 0 <= r < n -> - (N / 2) <= k < N - N / 2 ->
  fourier_entry n N k r = Some ((k * (r - n / 2)) mod N).
Proof. exact fourier_entry_total. Qed.
Print Assumptions C03_every_sample_contributes.

Theorem C03_crop_case : forall n N k r, 0 < N < n -> 0 <= r < n ->
  fourier_entry n N k r <> None -> n / 2 - N / 2 <= r < n / 2 - N / 2 + N.
Proof. exact fourier_entry_crop. Qed.
Print Assumptions C03_crop_case.

Theorem C03_adjoint_is_conjugate_transpose : forall n N r k', 0 < n -> 0 < N -> ifft_entry n N r k' = fft_entry n N k' r.
Proof. exact fft_adjoint_entry. Qed.
Print Assumptions C03_adjoint_is_conjugate_transpose.

Theorem C03_dispatch_independent : forall n N k r, 0 < n <= N -> 0 <= r < n -> - (N / 2) <= k < N - N / 2 ->
  fourier_entry n N k r = Some (nufft_spec_exp n N k r).
Proof. exact dispatch_independent. Qed.
Print Assumptions C03_dispatch_independent.

(* non-vacuity: recon 5 / enc 8 (the mixed-parity case that was off by one sample before the repair) *)
Example C03_example_5_8 : fourier_table 5 8 [-4; 0; 3] =
  [[Some 0; Some 4; Some 0; Some 4; Some 0]; [Some 0; Some 0; Some 0; Some 0; Some 0]; [Some 2; Some 5; Some 0; Some 3; Some 6]].
Proof. vm_compute. reflexivity. Qed.

(* without cropping the pure FFT operator is unitary: for every N >= 1, in any commutative *-ring without zero divisors
   that contains a primitive N-th root of unity zeta with |zeta| = 1 and a real c with c^2 N = 1 (the complex numbers with
   zeta = exp(-2 pi i/N), c = 1/sqrt N being the intended instance), the columns of the centred DFT matrix
   F[k',r] = c zeta^e(k',r) - with e the exponent table of the model that is compared with the code - are orthonormal *)
From MrVerif Require Import Base.StarRing Base.Sums Proofs.RootsOfUnity.
Theorem C03_unitary : forall (R : StarRing) (zeta : R) (N : nat),
  (0 < N)%nat -> kpow R zeta N = k1 -> (forall d, (0 < d < N)%nat -> kpow R zeta d <> k1) ->
  (forall a b : R, kmul a b = k0 -> a = k0 \/ b = k0) -> kmul (kconj zeta) zeta = k1 ->
  forall c : R, kconj c = c -> kmul (kmul c c) (knat R N) = k1 ->
  forall r s, (r < N)%nat -> (s < N)%nat ->
  sum N (fun k' => kmul (kconj (F_entry R zeta N c k' r)) (F_entry R zeta N c k' s)) = if Nat.eqb r s then k1 else k0.
Proof. exact dft_unitary. Qed.
Print Assumptions C03_unitary.

(* non-vacuity: the Gaussian integers contain the primitive 4th root of unity -i; (no real c with 4 c^2 = 1 exists in Z[i],
   so the normalisation hypothesis is met in the Gaussian rationals / the complex numbers; here the unnormalised
   orthogonality is evaluated) *)
Example C03_roots_example : map (fun d => sum (R:=GRing) 4 (fun k => kpow GRing ((0, -1)%Z : G) (k * d))) [0; 1; 2; 3]%nat
  = [(4, 0); (0, 0); (0, 0); (0, 0)]%Z.
Proof. vm_compute. reflexivity. Qed.

(* N-D: every transformed axis of an N-D entry obeys the 1-D statement, and the set of per-axis phase factors does not
   depend on the order in which the transform axes (with their sizes) are listed *)
From Coq Require Import Permutation.
Theorem C03_nd_axes : forall ns Ns ks rs es,
  Forall (fun n => 0 < n) ns -> Forall (fun N => 0 < N) Ns -> fftn_entry ns Ns ks rs = Some es ->
  Forall2 (fun e '(n, N, k, r) => e = ((k - N / 2) * (r + left_pad n N - N / 2)) mod N /\ 0 <= r < n /\ 0 <= k < N)
          es (combine (combine (combine ns Ns) ks) rs).
Proof. exact fftn_entry_spec. Qed.
Print Assumptions C03_nd_axes.

Theorem C03_axis_order_irrelevant : forall l l', Permutation l l' ->
  match entries l, entries l' with Some es, Some es' => Permutation es es' | None, None => True | _, _ => False end.
Proof. exact entries_perm. Qed.
Print Assumptions C03_axis_order_irrelevant.
