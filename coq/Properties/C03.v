(* C03 - Fourier operators compute the MR encoding model at the trajectory points (FFT path, symbolic phases).
   An entry Some e stands for c * exp(-2 pi i e / N_enc) with c = 1/sqrt(N_enc); None is a structural zero. *)
From MrVerif Require Import Base.Prelude Model.ZeroPad Model.Fourier Proofs.FourierProofs.

Theorem C03_shift_convention : forall N k' r, 0 < N ->
  fft_shifted_exp N k' r = ((k' - N / 2) * (r - N / 2)) mod N.
Proof. exact fft_shift_convention. Qed.
Print Assumptions C03_shift_convention.

Theorem C03_fft_path : forall n N k r e, 0 < n -> 0 < N ->
  fourier_entry n N k r = Some e -> e = (k * (r - n / 2)) mod N /\ 0 <= r < n /\ - (N / 2) <= k < N - N / 2.
Proof. exact fourier_entry_spec. Qed.
Print Assumptions C03_fft_path.

Theorem C03_every_sample_contributes : forall n N k r, 0 < n <= N -> 0 <= r < n -> - (N / 2) <= k < N - N / 2 ->
  fourier_entry n N k r = Some ((k * (r - n / 2)) mod N).
Proof. exact fourier_entry_total. Qed.
Print Assumptions C03_every_sample_contributes.

Theorem C03_crop_case : forall n N k r, 0 < N < n -> 0 <= r < n ->
  fourier_entry n N k r <> None -> n / 2 - N / 2 <= r < n / 2 - N / 2 + N.
Proof. exact fourier_entry_crop. Qed.
Print Assumptions C03_crop_case.

Theorem C03_adjoint_is_conjugate_transpose : forall n N r k', 0 < n -> 0 < N -> ifft_entry n N r k' = fft_entry n N k' r.
Proof. exact fft_adjoint_entry. Qed.
Print Assumptions C03_adjoint_is_conjugate_transpose.

Theorem C03_dispatch_independent : forall n N k r, 0 < n <= N -> 0 <= r < n -> - (N / 2) <= k < N - N / 2 ->
  fourier_entry n N k r = Some (nufft_spec_exp n N k r).
Proof. exact dispatch_independent. Qed.
Print Assumptions C03_dispatch_independent.

(* non-vacuity: recon 5 / enc 8 (the mixed-parity case that was off by one sample before the repair) *)
Example C03_example_5_8 : fourier_table 5 8 [-4; 0; 3] =
  [[Some 0; Some 4; Some 0; Some 4; Some 0]; [Some 0; Some 0; Some 0; Some 0; Some 0]; [Some 2; Some 5; Some 0; Some 3; Some 6]].
Proof. vm_compute. reflexivity. Qed.
