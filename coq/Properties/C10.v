(* C10 - Calls are pure: arguments, operators and source objects are never mutated.
   (partial by nature: python aliasing is approximated statically)
   Part 1: the inventory of ALL in-place sites of src/mrpro is regenerated on every run by harness/translate/effects.py
           into Gen/effects_gen.v together with the obligation  forallb (site_ok gen_allow) gen_effects = true
           (vm_compute over the finite table); C10_no_foreign_write is the lifting of that check to a statement about
           every site of the table.
   Part 2: C10_history / C10_interleave: in the transition system of Model/Effects.v (cells with values and version
           counters), calls that only write their own temporaries leave every caller-owned cell unchanged after any
           history and make every result independent of the history.
   The dynamic monitor of harness/props/C10.py ties both to the implementation (before/after snapshots of arguments,
   versions, state_dicts; results against a fresh instance) on seeded call histories. *)
From MrVerif Require Import Base.Prelude Model.Effects Proofs.EffectsProofs.
Local Open Scope nat_scope.

(* every site of a table that passes the check writes an object created in its own function or is on the allow-list *)
Theorem C10_no_foreign_write : forall allow table, forallb (site_ok allow) table = true ->
  forall s, In s table -> s_origin s = OFresh \/ exists a, In a allow /\ allow_matches s a = true.
Proof. exact table_ok_forall. Qed.
Print Assumptions C10_no_foreign_write.

(* for every history h of such calls and every further call c: the caller-owned cells (values AND versions) are as
   before, and c returns what it returns on a fresh instance *)
Theorem C10_history : forall owned s h c, owned <= List.length s ->
  Forall (fun c' => call_ok owned c' = true) h -> call_ok owned c = true ->
  firstn owned (run s h) = firstn owned s /\ snd (step (run s h) c) = snd (step s c).
Proof. exact history_pure. Qed.
Print Assumptions C10_history.

(* interleaving with calls on other inputs changes nothing *)
Theorem C10_interleave : forall owned s h1 h2 c, owned <= List.length s ->
  Forall (fun c' => call_ok owned c' = true) h1 -> Forall (fun c' => call_ok owned c' = true) h2 -> call_ok owned c = true ->
  snd (step (run s h1) c) = snd (step (run s h2) c) /\ firstn owned (run s h1) = firstn owned (run s h2).
Proof. exact history_interleave. Qed.
Print Assumptions C10_interleave.

(* the hypothesis is needed: one write to an existing cell (the historical `sigma[sigma < 1e-8] += 1e-6`) changes the
   caller's cell, bumps its version, and makes the second call return something else *)
Theorem C10_foreign_write_refuted : exists s c,
  firstn 1 (run s [c]) <> firstn 1 s /\ snd (step (run s [c]) c) <> snd (step s c).
Proof.
  exists [mkCell 0 0],
         (mkCall [0] [] [(WCell 0, fun v => (nth 0 v 0 + 1)%Z)] (fun v => nth 0 v 0%Z)).
  vm_compute. split; discriminate.
Qed.
Print Assumptions C10_foreign_write_refuted.

(* non-vacuity: prox_convex_conj after the fix: sigma is read, a temporary is clamped in place, the caller's cell stays *)
Example C10_example :
  let c := mkCall [0] [fun v => nth 0 v 0%Z] [(WTemp 0, fun v => (nth 0 v 0 + 1)%Z)] (fun v => (nth 0 v 0 + 1)%Z) in
  call_ok 1 c = true /\ firstn 1 (run [mkCell 0 5] [c; c; c]) = [mkCell 0 5]
  /\ snd (step (run [mkCell 0 5] [c; c]) c) = 1%Z.
Proof. vm_compute. repeat split. Qed.
