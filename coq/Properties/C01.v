(* C01 - adjoint identity <A u, v> = <u, A^H v> for every operator and every operand.
   R ranges over every commutative *-ring (the complex numbers being the intended instance; Z and Z[i] the executed
   ones); sizes, index maps, kernels, scalings and trees are universally quantified. *)
From MrVerif Require Import Base.Prelude Base.StarRing Base.Sums Model.OpAlg Model.ElemOps
  Proofs.OpAlgProofs Proofs.ElemOpsProofs Proofs.AlongProofs Proofs.ElemOpsWf.

(* composition, sum, scaling by scalars/tensors on either side, .H, and block stacking preserve adjointness *)
Theorem C01_closure : forall (R : StarRing) (t : tree R),
  well_shaped t -> leaves_ok adjoint_pair t -> adjoint_pair (den t).
Proof. exact closure_adjoint. Qed.
Print Assumptions C01_closure.

Theorem C01_identity_zero : forall (R : StarRing) n m, adjoint_pair (idop (R:=R) n) /\ adjoint_pair (zeroop (R:=R) n m).
Proof. intros. split; [apply idop_adjoint|apply zeroop_adjoint]. Qed.
Print Assumptions C01_identity_zero.

(* EinsumOp with a matrix, PCACompressionOp, the sparse matrix of SliceProjectionOp: M and conj(M)^T *)
Theorem C01_matrix : forall (R : StarRing) m n (M : nat -> nat -> R), adjoint_pair (matop m n M).
Proof. exact matop_adjoint. Qed.
Print Assumptions C01_matrix.

(* CartesianSamplingOp for EVERY trajectory: repeated, out-of-range, permuted, missing samples *)
Theorem C01_cartesian_sampling : forall (R : StarRing) nr ns idx, adjoint_pair (cart_sampling (R:=R) nr ns idx).
Proof. exact cart_sampling_adjoint. Qed.
Print Assumptions C01_cartesian_sampling.

(* the adjoint as it was before the repair (scatter_: last writer wins) is refuted by a repeated sample *)
Theorem C01_cartesian_sampling_overwrite_refuted :
  exists nr ns idx, ~ adjoint_pair (cart_sampling_overwrite (R:=ZRing) nr ns idx).
Proof. exact cart_sampling_overwrite_not_adjoint. Qed.
Print Assumptions C01_cartesian_sampling_overwrite_refuted.

(* ZeroPadOp: pad and crop, every pair of sizes of either parity *)
Theorem C01_zeropad : forall (R : StarRing) old new, adjoint_pair (zeropad_op (R:=R) old new).
Proof. exact zeropad_adjoint. Qed.
Print Assumptions C01_zeropad.

(* RearrangeOp: any permutation with its inverse *)
Theorem C01_rearrange : forall (R : StarRing) n p q,
  (forall i, (i < n)%nat -> (p i < n)%nat /\ q (p i) = i) -> (forall j, (j < n)%nat -> (q j < n)%nat /\ p (q j) = j) ->
  adjoint_pair (perm_op (R:=R) n p q).
Proof. exact perm_adjoint. Qed.
Print Assumptions C01_rearrange.

Theorem C01_density_compensation : forall (R : StarRing) n d, adjoint_pair (diag_op (R:=R) n d).
Proof. exact diag_adjoint. Qed.
Print Assumptions C01_density_compensation.

Theorem C01_sensitivity : forall (R : StarRing) ncoil npix csm, adjoint_pair (sens_op (R:=R) ncoil npix csm).
Proof. exact sens_adjoint. Qed.
Print Assumptions C01_sensitivity.

(* FiniteDifferenceOp along one axis: any real 3-tap kernel (forward, backward, central), zero and circular boundary, any length *)
Theorem C01_finite_difference : forall (R : StarRing) circ n (a b c : R),
  kconj a = a -> kconj b = b -> kconj c = c -> adjoint_pair (findiff_op circ n a b c).
Proof. exact findiff_adjoint. Qed.
Print Assumptions C01_finite_difference.

(* any of the above applied along one axis of an N-D row-major tensor (pre, n, post) *)
Theorem C01_along_axis : forall (R : StarRing) pre post (A : linop R), adjoint_pair A -> adjoint_pair (along pre post A).
Proof. exact along_adjoint. Qed.
Print Assumptions C01_along_axis.

(* non-vacuity: a composite over Z[i] that is run: (2+i) * (pad 3->4 along the middle axis of (2,3,2)) @ matrix *)
Example C01_example_runs :
  let A := prod_right (R:=GRing) (fun _ => ((2, 1)%Z : G)) (along 2 2 (zeropad_op (R:=GRing) 3 4)) in
  inner (R:=GRing) (ran A) (fwd A (fun i => ((Z.of_nat i, 1)%Z : G))) (fun i => ((1, Z.of_nat i)%Z : G))
  = inner (R:=GRing) (dom A) (fun i => ((Z.of_nat i, 1)%Z : G)) (adj A (fun i => ((1, Z.of_nat i)%Z : G))).
Proof. vm_compute. reflexivity. Qed.

(* ---- WaveletOp (ptwt wavedec / waverec, mode 'zero'): filter-bank model, Model/Wavelet.v ---- *)
From MrVerif Require Import Model.Wavelet Proofs.WaveletProofs.

(* every number of levels, every filter length, every signal length (odd intermediate lengths included), every ring: when the
   reconstruction filters are the reversed conjugated decomposition filters (orthogonal wavelets: haar, db, sym, coif),
   waverec is the adjoint of wavedec *)
Theorem C01_wavelet_multilevel : forall (R : StarRing) level L n (flo fhi glo ghi : nat -> R),
  filters_match L flo glo -> filters_match L fhi ghi -> adjoint_pair (wavedec_op level L n flo fhi glo ghi).
Proof. exact wavedec_adjoint. Qed.
Print Assumptions C01_wavelet_multilevel.

(* two dimensions (wavedec2 / waverec2 on a row-major (n1, n2) image: the filter bank along the last axis, then along the first; bands
   [aa, ad, da, dd] per level, recursion on aa): the same statement for every level count and image size *)
Theorem C01_wavelet_2d : forall (R : StarRing) level L n1 n2 (flo fhi glo ghi : nat -> R),
  filters_match L flo glo -> filters_match L fhi ghi -> adjoint_pair (wavedec2_op level L n1 n2 flo fhi glo ghi).
Proof. exact wavedec2_adjoint. Qed.
Print Assumptions C01_wavelet_2d.

(* three dimensions (wavedec3 / waverec3 on a row-major (n1, n2, n3) volume; bands aaa, aad, ada, add, daa, dad, dda, ddd per level) *)
Theorem C01_wavelet_3d : forall (R : StarRing) level L n1 n2 n3 (flo fhi glo ghi : nat -> R),
  filters_match L flo glo -> filters_match L fhi ghi -> adjoint_pair (wavedec3_op level L n1 n2 n3 flo fhi glo ghi).
Proof. exact wavedec3_adjoint. Qed.
Print Assumptions C01_wavelet_3d.

(* ... and only then: for signals of length >= 2 one level is an adjoint pair iff both filter pairs match. This decides
   known finding KF-01 for every wavelet from its filter bank alone: bior/rbio (other than 1.1) have rec <> reversed dec. *)
Theorem C01_wavelet_adjoint_iff : forall (R : StarRing) L n (flo fhi glo ghi : nat -> R), (2 <= n)%nat ->
  (adjoint_pair (dwt1 L n flo fhi glo ghi) <-> filters_match L flo glo /\ filters_match L fhi ghi).
Proof. exact dwt1_adjoint_iff. Qed.
Print Assumptions C01_wavelet_adjoint_iff.

(* the boolean test evaluated by the harness on PyWavelets' filter banks is the hypothesis of the two theorems *)
Theorem C01_wavelet_filter_test_sound : forall dec rc, filters_match_b dec rc = true ->
  filters_match (R:=ZRing) (length dec) (zvec (rev dec)) (zvec rc).
Proof. exact filters_match_b_sound. Qed.
Print Assumptions C01_wavelet_filter_test_sound.

(* non-vacuity: two Haar levels (integer-scaled filters) on a signal of length 6 (inner length 3 is odd) *)
Example C01_wavelet_example :
  let A := wavedec_Z 2 2 6 [1;1] [-1;1] [1;1] [1;-1] in
  filters_match_b [1;1] [1;1] && filters_match_b [-1;1] [1;-1] = true /\
  dense_adj A = map (fun i => map (fun col => nth i col 0) (dense_fwd A)) (seq 0 (ran A)) /\ ran A = 7%nat.
Proof. vm_compute. repeat split; reflexivity. Qed.
