(* C13 - Rotations, proper and improper, obey the group laws of O(3).
   Model: Model/Rotation.v (quaternion (q0,q1,q2,w) + improper flag, matrix (+/-) M(q)); Model/Euler.v (real part).
   The polynomial statements hold over EVERY commutative ring and for ALL quaternions (unit or not); with |q| = 1
   (which Rotation's constructor establishes by normalising) they read: orthogonal, det = +/-1, inverse, ...
   Tie to /repo: translator obligations Gen/rotation_gen.v (source of _compose_quaternions_single and
   _quaternion_to_matrix = qmul / qmat) and the correspondence families of harness/props/C13.py. *)
From MrVerif Require Import Base.Prelude Base.StarRing Model.Rotation Model.Euler
  Proofs.RotationProofs Proofs.RotationBatchProofs Proofs.RotationRealProofs Proofs.RotationPowProofs Proofs.RotationIndexProofs.
From Coq Require Import Reals QArith Qcanon.

(* matrix(p @ q) = matrix(p) matrix(q), flags combined by XOR *)
Theorem C13_matrix_of_composition : forall (R : StarRing) (p q : rot R), rmat R (rcompose R p q) = mmul R (rmat R p) (rmat R q).
Proof. exact rmat_compose. Qed.
Print Assumptions C13_matrix_of_composition.

(* (p @ q)(v) = p(q(v)) *)
Theorem C13_apply_composition : forall (R : StarRing) (p q : rot R) (v : vec3 R),
  rapply R (rcompose R p q) false v = rapply R p false (rapply R q false v).
Proof. exact rapply_compose. Qed.
Print Assumptions C13_apply_composition.

Theorem C13_associative : forall (R : StarRing) (p q r : rot R), rcompose R (rcompose R p q) r = rcompose R p (rcompose R q r).
Proof. exact rcompose_assoc. Qed.
Print Assumptions C13_associative.

(* as_matrix is orthogonal (M^T M = |q|^4 I, = I for the stored unit quaternion) ... *)
Theorem C13_orthogonal : forall (R : StarRing) (r : rot R),
  mmul R (mtrans R (rmat R r)) (rmat R r) = mscal R (kmul (qnorm2 R (fst r)) (qnorm2 R (fst r))) (mid R)
  /\ mmul R (rmat R r) (mtrans R (rmat R r)) = mscal R (kmul (qnorm2 R (fst r)) (qnorm2 R (fst r))) (mid R).
Proof. intros; split; [apply rmat_orthogonal | apply rmat_orthogonal']. Qed.
Print Assumptions C13_orthogonal.

(* ... with determinant (+1 or -1) |q|^6, the sign matching the improper flag (the `det` property returns sgn) *)
Theorem C13_determinant : forall (R : StarRing) (r : rot R),
  mdet R (rmat R r) = kmul (sgn R (snd r)) (kmul (kmul (qnorm2 R (fst r)) (qnorm2 R (fst r))) (qnorm2 R (fst r))).
Proof. exact rmat_det. Qed.
Print Assumptions C13_determinant.

(* norms multiply, so unit quaternions stay unit under composition and inversion; signs multiply <-> flags XOR *)
Theorem C13_norm_and_sign : forall (R : StarRing) (p q : rot R),
  qnorm2 R (fst (rcompose R p q)) = kmul (qnorm2 R (fst p)) (qnorm2 R (fst q))
  /\ qnorm2 R (fst (rinv R p)) = qnorm2 R (fst p)
  /\ sgn R (snd (rcompose R p q)) = kmul (sgn R (snd p)) (sgn R (snd q)).
Proof. intros R [p fp] [q fq]; cbn [rcompose rinv fst snd]; repeat split; [apply qnorm2_mul | apply qnorm2_conj | apply sgn_xorb]. Qed.
Print Assumptions C13_norm_and_sign.

(* p @ p.inv() (and p.inv() @ p) is the proper rotation with quaternion (0,0,0,|p|^2): the identity *)
Theorem C13_inverse : forall (R : StarRing) (p : rot R),
  rcompose R p (rinv R p) = ((k0, k0, k0, qnorm2 R (fst p)), false)
  /\ rcompose R (rinv R p) p = ((k0, k0, k0, qnorm2 R (fst p)), false)
  /\ rmat R (rcompose R p (rinv R p)) = mscal R (kmul (qnorm2 R (fst p)) (qnorm2 R (fst p))) (mid R)
  /\ rmat R (rinv R p) = mtrans R (rmat R p).
Proof. intros; repeat split; [apply rcompose_inv_r | apply rcompose_inv_l | apply rmat_compose_inv | apply rmat_inv]. Qed.
Print Assumptions C13_inverse.

(* p(v, inverse=True) undoes p(v), in both orders, and equals p.inv()(v) *)
Theorem C13_apply_inverse : forall (R : StarRing) (p : rot R) (v : vec3 R),
  rapply R p true (rapply R p false v) = vscal R (kmul (qnorm2 R (fst p)) (qnorm2 R (fst p))) v
  /\ rapply R p false (rapply R p true v) = vscal R (kmul (qnorm2 R (fst p)) (qnorm2 R (fst p))) v
  /\ rapply R p true v = rapply R (rinv R p) false v.
Proof. intros; repeat split; [apply rapply_inverse_undoes | apply rapply_inverse_undoes' | apply rapply_inverse_is_inv]. Qed.
Print Assumptions C13_apply_inverse.

(* identity is neutral *)
Theorem C13_identity : forall (R : StarRing) (p : rot R), rcompose R p (rid R) = p /\ rcompose R (rid R) p = p /\ rmat R (rid R) = mid R.
Proof. intros; repeat split; [apply rcompose_id_r | apply rcompose_id_l | apply qmat_one]. Qed.
Print Assumptions C13_identity.

(* the exact shortcuts of __pow__ (n = 0, 1, -1) are the n-fold composition; p ** 0 is the identity *)
Theorem C13_pow_shortcuts : forall (R : StarRing) (n : Z) (p r : rot R), rpow_shortcut R n p = Some r -> r = rpow R n p.
Proof. exact rpow_shortcut_ok. Qed.
Print Assumptions C13_pow_shortcuts.
Theorem C13_pow_zero : forall (R : StarRing) (p : rot R), rpow R 0 p = rid R.
Proof. exact rpow_0. Qed.
Print Assumptions C13_pow_zero.

(* n-fold composition: exponent laws, flag = flag && odd n, matrix = n-th matrix power (so (-M)^n = (-1)^n M^n) *)
Theorem C13_pow_laws : forall (R : StarRing) (p : rot R),
  (forall m n : nat, rpow_nat R (m + n) p = rcompose R (rpow_nat R m p) (rpow_nat R n p))
  /\ (forall n : Z, snd (rpow R n p) = pow_flag n (snd p))
  /\ (forall n : nat, rmat R (rpow_nat R n p) = mpow_nat R n (rmat R p))
  /\ (forall n : Z, (0 < n)%Z -> rpow R (- n)%Z p = rpow R n (rinv R p)).
Proof. intros; repeat split; intros; [apply rpow_nat_add | apply rpow_flag | apply rmat_pow_nat | now apply rpow_neg]. Qed.
Print Assumptions C13_pow_laws.

(* De Moivre (reals): powers of (sin(phi) u, cos(phi)), |u| = 1 *)
Theorem C13_de_moivre : forall (u : vecR) (phi : R) (n : nat), dot3 RRing u u = 1%R ->
  qpow_nat RRing n (polar u phi) = polar u (INR n * phi)%R.
Proof. exact de_moivre. Qed.
Print Assumptions C13_de_moivre.

(* __pow__ outside the shortcuts, Rotation.from_rotvec(n * rotvec, inversion = flag && odd n), IS the n-fold composition for
   every integer n, for proper and improper rotations (the repaired behaviour), given that rotvec = t u (|u| = 1) is a
   rotation vector of the stored quaternion (from_rotvec(as_rotvec(q)) = q: C12_rotvec_roundtrip) *)
Theorem C13_pow_is_repeated_composition : forall (u : vecR) (t : R) (f : bool) (n : Z), dot3 RRing u u = 1%R ->
  rpow_code n (vscal RRing t u) f = rpow RRing n (from_rotvec (vscal RRing t u), f).
Proof. exact pow_is_repeated_composition. Qed.
Print Assumptions C13_pow_is_repeated_composition.

(* batch edits act element-wise: for ANY observation `obs` of elements and any per-element operations that commute with it,
   observing after a history of edits = replaying the history on the observations *)
Theorem C13_edits_natural : forall (R : StarRing) (E M : Type) (dE : E) (fe : elem_op R -> E -> E) (fm : elem_op R -> M -> M)
    (obs : E -> M) (good : elem_op R -> Prop), (forall k e, good k -> obs (fe k e) = fm k (obs e)) ->
  forall (h : list (edit R E)) (st : list E), Forall (edit_good R E good) h ->
  map (map obs) (trace R E dE fe h st) = trace R M (obs dE) fm (map (map_edit R E M obs) h) (map obs st).
Proof. exact trace_natural. Qed.
Print Assumptions C13_edits_natural.

(* instance: the matrices of a batch under every history of __getitem__ / __setitem__ / concatenate / reshape / invert_axes
   evolve by the same edits applied to the list of matrices (gather, scatter, append, normalise, negate) *)
Theorem C13_history_matrices : forall (h : list (edit RRing rotR)) (st : list rotR), Forall structural h ->
  map (map (rmat RRing)) (rot_trace RRing Rinv sqrt Rltb h st)
  = trace RRing matR (rmat RRing (rid RRing)) m_elem (map (map_edit RRing rotR matR (rmat RRing)) h) (map (rmat RRing) st).
Proof. exact history_matrices. Qed.
Print Assumptions C13_history_matrices.

(* every history, including reflect and the quaternion component setters (which may denormalise): no edit mixes elements ... *)
Theorem C13_history_local : forall (R : StarRing) (E : Type) (dE : E) (fe : elem_op R -> E -> E) (st : list E) (e : edit R E) (x : E),
  In x (step R E dE fe st e) -> from_old R E dE fe st (edit_values R E e) x.
Proof. exact step_local. Qed.
Print Assumptions C13_history_local.
(* ... and the matrix of every element of every reachable state is (+/-) M(stored quaternion): orthogonal up to |q|^4 with the
   determinant sign given by the flag *)
Theorem C13_history_invariant : forall (h : list (edit RRing rotR)) (st : list rotR),
  Forall (fun r => mmul RRing (mtrans RRing (rmat RRing r)) (rmat RRing r)
                     = mscal RRing (qnorm2 RRing (fst r) * qnorm2 RRing (fst r))%R (mid RRing)
                   /\ mdet RRing (rmat RRing r) = (sgn RRing (snd r) * (qnorm2 RRing (fst r) * qnorm2 RRing (fst r) * qnorm2 RRing (fst r)))%R)
         (rot_run RRing Rinv sqrt Rltb h st).
Proof. exact history_invariant. Qed.
Print Assumptions C13_history_invariant.

(* index expressions resolved IN THE MODEL (not by numpy) on a 1-D batch: integers (negative allowed) and slices with positive step,
   Python slice.indices semantics.  Selected positions are inside the batch and pairwise different; i and i - n select the same
   element and anything outside [-n, n) is rejected; the k-th element of a slice is start + k step and the slice is maximal *)
Theorem C13_index_positions : forall (n : nat) (ix : index1) (pos : list nat), resolve_index n ix = Some pos ->
  Forall (fun p => (p < n)%nat) pos /\ NoDup pos.
Proof. intros; split; [eapply resolve_in_range | eapply resolve_nodup]; eassumption. Qed.
Print Assumptions C13_index_positions.
Theorem C13_index_int : forall (n : nat) (i : Z),
  ((0 <= i < Z.of_nat n)%Z -> resolve_index n (IInt i) = Some [Z.to_nat i] /\ resolve_index n (IInt (i - Z.of_nat n)) = Some [Z.to_nat i])
  /\ ((i < - Z.of_nat n \/ Z.of_nat n <= i)%Z -> resolve_index n (IInt i) = None).
Proof. intros; split; [apply resolve_int | apply resolve_int_reject]. Qed.
Print Assumptions C13_index_int.
Theorem C13_index_slice : forall (n : nat) (a b st : option Z), let step := match st with None => 1%Z | Some s => s end in (0 < step)%Z ->
  let start := clamp_index (Z.of_nat n) 0 a in let stop := clamp_index (Z.of_nat n) (Z.of_nat n) b in
  exists pos, resolve_index n (ISlice a b st) = Some pos
    /\ (forall k, (k < length pos)%nat -> nth k pos 0%nat = Z.to_nat (start + Z.of_nat k * step)%Z)
    /\ ((start < stop)%Z -> (stop <= start + Z.of_nat (length pos) * step)%Z) /\ ((stop <= start)%Z -> pos = []).
Proof. exact resolve_slice. Qed.
Print Assumptions C13_index_slice.
(* __getitem__ with such an index: one element per selected position, in order; __setitem__ then __getitem__ with the same index reads
   the assigned value back, leaves every other element alone and keeps the batch size; both commute with taking matrices *)
Theorem C13_getitem_setitem : forall (E : Type) (d : E) (ix : index1) (vals l l' : list E) (pos : list nat),
  resolve_index (length l) ix = Some pos -> length vals = length pos -> setitem_ix ix vals l = Some l' ->
  getitem_ix d ix l' = Some vals /\ length l' = length l /\ (forall j, ~ In j pos -> nth j l' d = nth j l d).
Proof. exact setitem_getitem. Qed.
Print Assumptions C13_getitem_setitem.
Theorem C13_getitem_elements : forall (E : Type) (d : E) (ix : index1) (l g : list E) (pos : list nat),
  resolve_index (length l) ix = Some pos -> getitem_ix d ix l = Some g ->
  length g = length pos /\ forall k, (k < length pos)%nat -> nth k g d = nth (nth k pos 0%nat) l d.
Proof. exact getitem_elements. Qed.
Print Assumptions C13_getitem_elements.
Theorem C13_index_natural : forall (E M : Type) (obs : E -> M) (d : E) (ix : index1) (vals l : list E),
  option_map (map obs) (getitem_ix d ix l) = getitem_ix (obs d) ix (map obs l)
  /\ option_map (map obs) (setitem_ix ix vals l) = setitem_ix ix (map obs vals) (map obs l).
Proof. intros; split; [apply getitem_natural | apply setitem_natural]. Qed.
Print Assumptions C13_index_natural.

(* normalisation (constructor, reshape, invert_axes): matrix M(q)/|q|^2, unit norm afterwards, identity on unit quaternions *)
Theorem C13_normalize : forall q : quatR,
  qmat RRing (r_normalize q) = mscal RRing (/ qnorm2 RRing q)%R (qmat RRing q)
  /\ (qnorm2 RRing q <> 0%R -> qnorm2 RRing (r_normalize q) = 1%R)
  /\ (qnorm2 RRing q = 1%R -> r_normalize q = q).
Proof. intros; repeat split; [apply qmat_normalize | apply qnorm2_normalize | apply normalize_unit]. Qed.
Print Assumptions C13_normalize.

(* reflect(): the Householder reflection I - 2 v v^T/(v.v) about the plane perpendicular to the rotation axis v, applied after
   the (normalised) rotation; invert_axes(): minus the matrix *)
Theorem C13_reflect : forall r : rotR, let v := qvec RRing (fst r) in (0 < dot3 RRing v v)%R ->
  rmat RRing (r_elem KReflect r)
  = mmul RRing (mscal RRing (/ dot3 RRing v v)%R (householder RRing v)) (mscal RRing (/ qnorm2 RRing (fst r))%R (rmat RRing r)).
Proof. exact reflect_matrix. Qed.
Print Assumptions C13_reflect.
Theorem C13_invert_axes : forall (R : StarRing) (p : rot R), rmat R (rinvert_axes R p) = mopp R (rmat R p).
Proof. exact rmat_invert_axes. Qed.
Print Assumptions C13_invert_axes.

(* applying a rotation to SpatialDimension(x,y,z) = applying it to the vector (z,y,x) and reading the result back as (z,y,x) *)
Theorem C13_spatial_dimension : forall (R : StarRing) (p : rot R) (i : bool) (x y z : R),
  let r := rapply R p i (z, y, x) in rapply_sd R p i x y z = (v2 r, v1 r, v0 r).
Proof. exact rapply_sd_spec. Qed.
Print Assumptions C13_spatial_dimension.

(* non-vacuity (exact rationals): an improper p = (1,2,2,4)/5 and a proper q = (2,3,6,0)/7 *)
Example C13_example_compose :
  let p := qrot_lit 1 2 2 4 5 true in let q := qrot_lit 2 3 6 0 7 false in
  qm (rmat QcRing (rcompose QcRing p q)) = qm (mmul QcRing (rmat QcRing p) (rmat QcRing q))
  /\ snd (rcompose QcRing p q) = true
  /\ qm (rmat QcRing (rpow QcRing 3 p)) = qm (mopp QcRing (rmat QcRing (rpow QcRing 3 (fst p, false))))
  /\ qz (mdet QcRing (rmat QcRing (rpow QcRing (-3) p))) = (-1, 1)%Z.
Proof. vm_compute. repeat split; reflexivity. Qed.
Example C13_example_history :
  fst (qc_history [EdReflect; EdSetComp 2%nat [qcq 1 2; qcq 0 1]; EdGather [1%nat; 0%nat]] [qrot_lit 1 2 2 4 5 true; qrot_lit 2 3 6 0 7 false]) = true.
Proof. vm_compute. reflexivity. Qed.
Example C13_example_index :
  resolve_index 5 (ISlice (Some (-4)%Z) None (Some 2%Z)) = Some [1%nat; 3%nat] /\ resolve_index 5 (IInt (-1)) = Some [4%nat]
  /\ resolve_index 5 (IInt 5) = None /\ resolve_index 5 (ISlice (Some 3%Z) (Some 1%Z) None) = Some [].
Proof. vm_compute. repeat split; reflexivity. Qed.
