(* C15 - Re-organising k-space data keeps every sample with its location and header.
   Theorems about the index-map model of the KData transformations (Model/KTransform.v); the model is tied to
   /repo/src/mrpro/data/_kdata/*.py, utils/split_idx.py on every run by harness/props/C15.py, which applies random operation
   sequences to KData objects loaded from real files and compares all id arrays exactly with `run` under vm_compute. *)
From MrVerif Require Import Base.Prelude Base.Tensor Model.KTransform Proofs.KTransformProofs.

(* one operation: every sample of the result is a sample of the argument (same coil), paired with the trajectory point (all
   three components, read through broadcasting) and the header row it had there; for every valid argument *)
Theorem C15_pairing_step : forall op k k', op_ok op k -> inv k -> apply_op op k = inr k' -> refines k' k /\ inv k'.
Proof. exact apply_op_refines. Qed.
Print Assumptions C15_pairing_step.

(* every finite sequence of operations (stopping at the first one that raises) *)
Theorem C15_pairing : forall ops k, inv k -> run_ok ops k ->
  refines (fst (fst (run ops k))) k /\ inv (fst (fst (run ops k))).
Proof. exact run_refines. Qed.
Print Assumptions C15_pairing.

(* the same for EVERY per-readout header array at once (scan_counter, idx labels, ... - all AcqInfo tensors go through the same
   code path): rs is any set of arrays that avoids the label a split overwrites and center_sample (array 7) when
   remove_readout_os is used, whose values are shifted with the window (C15_os_crop_window) *)
Theorem C15_pairing_all_header_arrays : forall (rs : Z -> Prop) ops k, inv_on rs k -> run_ok_on rs ops k ->
  refines_on rs (fst (fst (run ops k))) k /\ inv_on rs (fst (fst (run ops k))).
Proof. exact run_refines_on. Qed.
Print Assumptions C15_pairing_all_header_arrays.

(* samples are dropped / duplicated exactly as the operation specifies *)
Theorem C15_multiset_select : forall subset label k k', select_other_subset subset label k = inr k' ->
  nO k' = Z.of_nat (length (other_index k label subset)) /\
  forall o c a b j, fd k' o c a b j = fd k (nth (Z.to_nat o) (other_index k label subset) 0) c a b j.
Proof. exact select_spec. Qed.
Print Assumptions C15_multiset_select.

Theorem C15_multiset_split : forall sidx label k k', split_k1 sidx label k = inr k' ->
  forall o s c a b j, 0 <= s < Z.of_nat (length sidx) ->
    fd k' (o * Z.of_nat (length sidx) + s) c a b j = fd k o c a (zfun2 sidx s b) j.
Proof. exact split_k1_spec. Qed.
Print Assumptions C15_multiset_split.

(* a merge of k2 into k1 is a regrouping: every (k2, k1) line of the source is line k2 * n_k1 + k1 of the result and every
   line of the result arises from exactly one (k2, k1): nothing dropped, nothing duplicated *)
Theorem C15_multiset_rearrange : forall k k', 0 < n1 k -> rearrange_k2_k1_into_k1 k = inr k' ->
  n2 k' = 1 /\ n1 k' = n2 k * n1 k /\ nO k' = nO k /\ nC k' = nC k /\ n0 k' = n0 k /\
  (forall o c a b j, 0 <= a < n2 k -> 0 <= b < n1 k ->
     0 <= a * n1 k + b < n1 k' /\ fd k' o c 0 (a * n1 k + b) j = fd k o c a b j /\
     (forall m, ft k' m o 0 (a * n1 k + b) j = ft k m o a b j)) /\
  (forall b', 0 <= b' < n1 k' -> exists a b, 0 <= a < n2 k /\ 0 <= b < n1 k /\ b' = a * n1 k + b /\
     forall a2 b2, 0 <= b2 < n1 k -> b' = a2 * n1 k + b2 -> a2 = a /\ b2 = b).
Proof. exact rearrange_bijection. Qed.
Print Assumptions C15_multiset_rearrange.

(* a split whose index table hits every k1 line exactly once (no overlap, no cyclic wrap) is a regrouping as well *)
Theorem C15_multiset_split_regrouping : forall sidx label k k', split_k1 sidx label k = inr k' ->
  (forall b, 0 <= b < n1 k -> exists s e, 0 <= s < Z.of_nat (length sidx) /\ 0 <= e < Z.of_nat (length (hd [] sidx)) /\ zfun2 sidx s e = b /\
     forall s2 e2, 0 <= s2 < Z.of_nat (length sidx) -> 0 <= e2 < Z.of_nat (length (hd [] sidx)) -> zfun2 sidx s2 e2 = b -> s2 = s /\ e2 = e) ->
  forall o c a b j, 0 <= b < n1 k -> 0 <= o ->
    exists s e, 0 <= s < Z.of_nat (length sidx) /\ 0 <= e < n1 k' /\ fd k' (o * Z.of_nat (length sidx) + s) c a e j = fd k o c a b j /\
      forall s2 e2, 0 <= s2 < Z.of_nat (length sidx) -> 0 <= e2 < n1 k' -> zfun2 sidx s2 e2 = b -> s2 = s /\ e2 = e.
Proof. exact split_k1_regrouping. Qed.
Print Assumptions C15_multiset_split_regrouping.

(* remove_readout_os, k-space side (full): for a readout as long as the encoding matrix the window
   [start, start + recon) with start = enc // 2 - recon // 2 lies inside the readout; exactly recon samples remain; data positions,
   every trajectory component and center_sample (array 7) are taken from / shifted by the same window; the header matrix is
   updated so that a second call is the identity.
   Not covered by a theorem (checked on the implementation by the family numeric_claims): the VALUES along k0 are
   FFT - crop - FFT of the source readout, i.e. IFFT(result) = centre crop of IFFT(data); compress_coils is an orthogonal
   projection onto the dominant coil subspace. *)
Theorem C15_os_crop_window : forall k k', reconx k < encx k -> 0 < reconx k -> n0 k = encx k -> remove_readout_os k = inr k' ->
  let start := encx k / 2 - reconx k / 2 in
  0 <= start /\ start + reconx k <= n0 k /\
  n0 k' = reconx k /\ encx k' = reconx k /\ reconx k' = reconx k /\
  nO k' = nO k /\ nC k' = nC k /\ n2 k' = n2 k /\ n1 k' = n1 k /\
  (forall o c a b j, fd k' o c a b j = fd k o c a b (start + j)) /\
  (forall m o a b j, ft k' m o a b j = ft k m o a b (start + j)) /\
  (forall r o a b, fi k' r o a b = if r =? 7 then fi k r o a b - start else fi k r o a b) /\
  remove_readout_os k' = inr k'.
Proof. exact remove_os_full. Qed.
Print Assumptions C15_os_crop_window.

(* retained samples = exactly the window, each once *)
Theorem C15_multiset_os_window : forall k k', reconx k < encx k -> 0 < reconx k -> n0 k = encx k -> remove_readout_os k = inr k' ->
  let start := encx k / 2 - reconx k / 2 in
  (forall j, 0 <= j < n0 k' -> start <= start + j < start + reconx k /\ 0 <= start + j < n0 k) /\
  (forall js, start <= js < start + reconx k -> exists j, 0 <= j < n0 k' /\ start + j = js /\ forall j', start + j' = js -> j' = j).
Proof. exact remove_os_window. Qed.
Print Assumptions C15_multiset_os_window.

(* center_sample stays consistent with the trajectory: kx = sample number - center_sample before implies the same after *)
Theorem C15_os_center_sample_consistent : forall k k', reconx k < encx k -> 0 < reconx k -> n0 k = encx k -> remove_readout_os k = inr k' ->
  (forall o a b j, ft k 2 o a b j = j - fi k 7 o a b) -> forall o a b j, ft k' 2 o a b j = j - fi k' 7 o a b.
Proof. exact remove_os_kfreq_consistent. Qed.
Print Assumptions C15_os_center_sample_consistent.

(* a readout centred in the encoding matrix comes out centred in the recon matrix: kx is the centred grid j - recon // 2, it is 0 at
   the new centre sample recon // 2, and for odd recon size it is symmetric around 0 (for every parity of the encoding size) *)
Theorem C15_os_centred_symmetric : forall k k', reconx k < encx k -> 0 < reconx k -> n0 k = encx k -> remove_readout_os k = inr k' ->
  (forall o a b, fi k 7 o a b = encx k / 2) -> (forall o a b j, ft k 2 o a b j = j - encx k / 2) ->
  (forall o a b, fi k' 7 o a b = encx k' / 2) /\
  (forall o a b j, ft k' 2 o a b j = j - encx k' / 2) /\
  (forall o a b, ft k' 2 o a b (encx k' / 2) = 0) /\
  (Z.odd (reconx k) = true -> forall o a b j, ft k' 2 o a b (n0 k' - 1 - j) = - ft k' 2 o a b j).
Proof. exact remove_os_centred. Qed.
Print Assumptions C15_os_centred_symmetric.

(* shapes: the label tensor written by a split fits the data for every number of "other" entries (since the repair of KF-04:
   'other_split -> (other other_split) k2 k1'), and labels every new entry with its block number *)
Theorem C15_split_label_shape : forall sidx label k k', split_k1 sidx label k = inr k' ->
  fst (fst (ish k' label)) = nO k'.
Proof. intros sidx label k k' E. destruct (split_k1_label_shape _ _ _ _ E) as [-> ->]. cbn. reflexivity. Qed.
Print Assumptions C15_split_label_shape.

(* the pre-repair label tensor (repeat(linspace, 'other -> other k2 k1'): first axis = number of blocks) did not fit as soon as
   the data had more than one "other" entry *)
Theorem C15_split_label_shape_legacy_refuted : forall sidx label k k', split_k1 sidx label k = inr k' -> 1 < nO k -> sidx <> [] ->
  Z.of_nat (length sidx) <> nO k'.
Proof.
  intros sidx label k k' E H1 Hs. destruct (split_k1_label_shape _ _ _ _ E) as [_ ->].
  destruct sidx; [congruence|]. cbn [length]. nia.
Qed.
Print Assumptions C15_split_label_shape_legacy_refuted.

(* split_idx: blocks of np_per_block consecutive indices (mod n), block starts np_per_block - np_overlap apart, as many
   blocks as fit into the (cyclically extended) index *)
Theorem C15_split_idx_spec : forall n per ov cyc nb f, 0 < n -> split_idx n per ov cyc = Some (nb, f) ->
  ov < per /\ (forall s b, f s b = (s * (per - ov) + b) mod n) /\
  nb = ((if cyc then n + Z.min (per - ov) n else n) - per) / (per - ov) + 1 /\
  per <= (if cyc then n + Z.min (per - ov) n else n).
Proof. exact split_idx_spec. Qed.
Print Assumptions C15_split_idx_spec.

Theorem C15_split_idx_blocks : forall n per ov cyc nb f, 0 < n -> split_idx n per ov cyc = Some (nb, f) ->
  forall s b, 0 <= s < nb -> 0 <= b < per ->
    s * (per - ov) + b < (if cyc then n + Z.min (per - ov) n else n) /\
    (b + 1 < per -> f s (b + 1) = (f s b + 1) mod n) /\ f (s + 1) 0 = (f s 0 + (per - ov)) mod n.
Proof. exact split_idx_blocks. Qed.
Print Assumptions C15_split_idx_blocks.

(* ---- witnesses ---- *)
(* other = 1, 1 coil, k2 = 2, k1 = 2, k0 = 2; kz depends on k2 only, ky is constant, kx depends on k0 only *)
Definition ex_k : fds :=
  of_lists [1; 1; 2; 2; 2] [11; 11; 12; 12; 13; 13; 14; 14]
           [[1; 2; 1; 1]; [1; 1; 1; 1]; [1; 1; 1; 2]] [[100; 101]; [0]; [-1; 0]]
           [[1; 2; 3; 4]; [0;0;0;0]; [0;0;0;0]; [0;0;0;0]; [0;0;0;0]; [0;0;0;0]; [0;0;0;0]; [1;1;1;1]] [1; 1; 1; 1; 1; 1] 2 2.

(* a trajectory that depends on k2 but not on k1: merging k2 into k1 leaves it with k1 axis 2 instead of 4 (KF-C15-1) *)
Example C15_rearrange_broadcast_refuted :
  exists k', rearrange_k2_k1_into_k1 ex_k = inr k' /\ traj_consistent ex_k = true /\ traj_consistent k' = false.
Proof. eexists. split; [reflexivity|]. vm_compute. split; reflexivity. Qed.

(* ... and splitting along the axis on which the whole trajectory is broadcast raises IndexError *)
Example C15_split_broadcast_axis_refuted : split_k1 [[0]; [1]] 4 ex_k = inl ErrIndex.
Proof. vm_compute. reflexivity. Qed.

(* 6 -> 3 samples (even -> odd): kx = -3..2 with centre sample 3 becomes kx = -1, 0, 1 with centre sample 1 *)
Definition ex_os : fds :=
  of_lists [1; 1; 1; 1; 6] [5; 5; 5; 5; 5; 5] [[1; 1; 1; 1]; [1; 1; 1; 1]; [1; 1; 1; 6]] [[0]; [0]; [-3; -2; -1; 0; 1; 2]]
           [[1]; [0]; [0]; [0]; [0]; [0]; [0]; [3]] [1; 1; 1; 1; 1; 1] 6 3.
Example C15_example_os :
  match remove_readout_os ex_os with
  | inr k' => (n0 k', map (ft k' 2 0 0 0) [0; 1; 2], fi k' 7 0 0 0, encx k') = (3, [-1; 0; 1], 1, 3)
  | inl _ => False
  end.
Proof. vm_compute. reflexivity. Qed.

Example C15_example_run :
  let '(kf, e, n) := run [OpSplitK2 [[1]; [0]] 5; OpSelect [1] 5] ex_k in
  (fst (fst (fst (fst (tabulate kf)))), snd (fst (fst (fst (tabulate kf)))), e, n) = ([1; 1; 1; 2; 2], [11; 11; 12; 12], None, 2).
Proof. vm_compute. reflexivity. Qed.
