(* C15 - Re-organising k-space data keeps every sample with its location and header.
   Theorems about the index-map model of the KData transformations (Model/KTransform.v); the model is tied to
   /repo/src/mrpro/data/_kdata/*.py, utils/split_idx.py on every run by harness/props/C15.py, which applies random operation
   sequences to KData objects loaded from real files and compares all id arrays exactly with `run` under vm_compute. *)
From MrVerif Require Import Base.Prelude Base.Tensor Model.KTransform Proofs.KTransformProofs.

(* one operation: every sample of the result is a sample of the argument (same coil), paired with the trajectory point (all
   three components, read through broadcasting) and the header row it had there; for every valid argument *)
Theorem C15_pairing_step : forall op k k', op_ok op k -> inv k -> apply_op op k = inr k' -> refines k' k /\ inv k'.
Proof. exact apply_op_refines. Qed.
Print Assumptions C15_pairing_step.

(* every finite sequence of operations (stopping at the first one that raises) *)
Theorem C15_pairing : forall ops k, inv k -> run_ok ops k ->
  refines (fst (fst (run ops k))) k /\ inv (fst (fst (run ops k))).
Proof. exact run_refines. Qed.
Print Assumptions C15_pairing.

(* samples are dropped / duplicated exactly as the operation specifies *)
Theorem C15_multiset_select : forall subset label k k', select_other_subset subset label k = inr k' ->
  nO k' = Z.of_nat (length (other_index k label subset)) /\
  forall o c a b j, fd k' o c a b j = fd k (nth (Z.to_nat o) (other_index k label subset) 0) c a b j.
Proof. exact select_spec. Qed.
Print Assumptions C15_multiset_select.

Theorem C15_multiset_split : forall sidx label k k', split_k1 sidx label k = inr k' ->
  forall o s c a b j, 0 <= s < Z.of_nat (length sidx) ->
    fd k' (o * Z.of_nat (length sidx) + s) c a b j = fd k o c a (zfun2 sidx s b) j.
Proof. exact split_k1_spec. Qed.
Print Assumptions C15_multiset_split.

(* remove_readout_os on positions: the window [start, start + recon) with start = enc // 2 - recon // 2 for data, every
   trajectory component and center_sample.  _partial: that IFFT(result) equals the centre crop of IFFT(data), and that
   compress_coils is an orthogonal projection onto the dominant coil subspace, are checked on the implementation only
   (family numeric_claims); the model treats the coil axis and the values along k0 as opaque. *)
Theorem C15_os_crop_window_partial : forall k k', reconx k < encx k -> remove_readout_os k = inr k' ->
  forall o c a b j, fd k' o c a b j = fd k o c a b ((encx k / 2 - reconx k / 2) + j) /\
                    (forall m, ft k' m o a b j = ft k m o a b ((encx k / 2 - reconx k / 2) + j)) /\
                    fi k' 7 o a b = fi k 7 o a b - (encx k / 2 - reconx k / 2).
Proof. exact remove_os_spec. Qed.
Print Assumptions C15_os_crop_window_partial.

(* shapes: the label tensor written by a split fits the data iff there was a single "other" entry before (KF-04) *)
Theorem C15_split_label_shape : forall sidx label k k', split_k1 sidx label k = inr k' -> nO k = 1 ->
  fst (fst (ish k' label)) = nO k'.
Proof. intros sidx label k k' E H1. destruct (split_k1_label_shape _ _ _ _ E) as [-> ->]. cbn. lia. Qed.
Print Assumptions C15_split_label_shape.

Theorem C15_split_label_shape_refuted : forall sidx label k k', split_k1 sidx label k = inr k' -> 1 < nO k -> sidx <> [] ->
  fst (fst (ish k' label)) <> nO k'.
Proof.
  intros sidx label k k' E H1 Hs. destruct (split_k1_label_shape _ _ _ _ E) as [-> ->]. cbn.
  destruct sidx; [congruence|]. cbn [length]. nia.
Qed.
Print Assumptions C15_split_label_shape_refuted.

(* split_idx: blocks of np_per_block consecutive indices (mod n), block starts np_per_block - np_overlap apart, as many
   blocks as fit into the (cyclically extended) index *)
Theorem C15_split_idx_spec : forall n per ov cyc nb f, 0 < n -> split_idx n per ov cyc = Some (nb, f) ->
  ov < per /\ (forall s b, f s b = (s * (per - ov) + b) mod n) /\
  nb = ((if cyc then n + Z.min (per - ov) n else n) - per) / (per - ov) + 1 /\
  per <= (if cyc then n + Z.min (per - ov) n else n).
Proof. exact split_idx_spec. Qed.
Print Assumptions C15_split_idx_spec.

Theorem C15_split_idx_blocks : forall n per ov cyc nb f, 0 < n -> split_idx n per ov cyc = Some (nb, f) ->
  forall s b, 0 <= s < nb -> 0 <= b < per ->
    s * (per - ov) + b < (if cyc then n + Z.min (per - ov) n else n) /\
    (b + 1 < per -> f s (b + 1) = (f s b + 1) mod n) /\ f (s + 1) 0 = (f s 0 + (per - ov)) mod n.
Proof. exact split_idx_blocks. Qed.
Print Assumptions C15_split_idx_blocks.

(* ---- witnesses ---- *)
(* other = 1, 1 coil, k2 = 2, k1 = 2, k0 = 2; kz depends on k2 only, ky is constant, kx depends on k0 only *)
Definition ex_k : fds :=
  of_lists [1; 1; 2; 2; 2] [11; 11; 12; 12; 13; 13; 14; 14]
           [[1; 2; 1; 1]; [1; 1; 1; 1]; [1; 1; 1; 2]] [[100; 101]; [0]; [-1; 0]]
           [[1; 2; 3; 4]; [0;0;0;0]; [0;0;0;0]; [0;0;0;0]; [0;0;0;0]; [0;0;0;0]; [0;0;0;0]; [1;1;1;1]] [1; 1; 1; 1; 1; 1] 2 2.

(* a trajectory that depends on k2 but not on k1: merging k2 into k1 leaves it with k1 axis 2 instead of 4 (KF-C15-1) *)
Example C15_rearrange_broadcast_refuted :
  exists k', rearrange_k2_k1_into_k1 ex_k = inr k' /\ traj_consistent ex_k = true /\ traj_consistent k' = false.
Proof. eexists. split; [reflexivity|]. vm_compute. split; reflexivity. Qed.

(* ... and splitting along the axis on which the whole trajectory is broadcast raises IndexError *)
Example C15_split_broadcast_axis_refuted : split_k1 [[0]; [1]] 4 ex_k = inl ErrIndex.
Proof. vm_compute. reflexivity. Qed.

Example C15_example_run :
  let '(kf, e, n) := run [OpSplitK2 [[1]; [0]] 5; OpSelect [1] 5] ex_k in
  (fst (fst (fst (fst (tabulate kf)))), snd (fst (fst (fst (tabulate kf)))), e, n) = ([1; 1; 1; 2; 2], [11; 11; 12; 12], None, 2).
Proof. vm_compute. reflexivity. Qed.
