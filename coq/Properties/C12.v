(* C12 - Rotation agrees with the reference implementation it reimplements (scipy.spatial.transform.Rotation).
   Theorems: the kernels of the model (tied to /repo by Gen/rotation_gen.v and by the correspondence families of
   harness/props/C12.py) ARE the reference semantics: quaternion -> matrix is the conjugation action v |-> q v q^*,
   composition is the Hamilton product, matrix -> quaternion returns +-q, from_euler is the product of the elementary
   rotations in the documented order, from_rotvec / as_rotvec round-trip.
   as_euler (Bernardes-Viollet) is proved in the regular case for all sequences (C12_as_euler_regular) and at exact gimbal
   lock (C12_as_euler_gimbal); in the band 0 < |second angle - lock| <= 1e-7 the code's answer is approximate (not covered).
   align_vectors for one vector pair / the primary pair of the infinite-weight branch maps b onto a exactly (C12_align_single_pair,
   C12_align_antiparallel).  mean: sign invariance of the accumulated matrix and the mean of copies of one rotation (C12_mean_sign_invariant,
   C12_mean_of_copies).  NOT proved (decided by three-way correspondence implementation / scipy only, see C12.py): general means (eigenvectors),
   align_vectors with several finite weights (SVD), from_matrix on non-orthogonal input. *)
From MrVerif Require Import Base.Prelude Base.StarRing Model.Rotation Model.Euler
  Proofs.RotationProofs Proofs.RotationRealProofs Proofs.RotationPowProofs Proofs.EulerProofs Proofs.EulerAnglesProofs
  Proofs.EulerGimbalProofs Proofs.AlignProofs Proofs.MeanProofs.
From Coq Require Import Reals.

(* _quaternion_to_matrix is the standard rotation matrix of q: M(q) v = vector part of q (v,0) q^*; and M(q) = M(-q) *)
Theorem C12_quat_matrix : forall (R : StarRing) (q : quat R) (v : vec3 R),
  mapply R (qmat R q) v = qrot R q v /\ qmat R (qopp R q) = qmat R q.
Proof. intros; split; [apply qmat_is_conjugation | apply qmat_opp]. Qed.
Print Assumptions C12_quat_matrix.

(* composition = Hamilton product (scalar last): (pw qv + qw pv + pv x qv, pw qw - pv.qv) *)
Theorem C12_compose : forall (R : StarRing) (p q : quat R),
  qmul R p q = let pv := qvec R p in let qv := qvec R q in
               let v := vadd R (vadd R (vscal R (q3 p) qv) (vscal R (q3 q) pv)) (cross3 R pv qv) in
               (v0 v, v1 v, v2 v, ksub (kmul (q3 p) (q3 q)) (dot3 R pv qv)).
Proof. exact qmul_textbook. Qed.
Print Assumptions C12_compose.

(* as_matrix of the inverse is the transpose *)
Theorem C12_inverse : forall (R : StarRing) (q : quat R), qmat R (qconj R q) = mtrans R (qmat R q).
Proof. exact qmat_conj. Qed.
Print Assumptions C12_inverse.

(* _matrix_to_quaternion on the matrix of a unit quaternion: every candidate whose pivot is non-zero gives q or -q, and the
   candidate chosen by argmax has pivot >= 1 *)
Theorem C12_matrix_quat_roundtrip : forall (i : nat) (q : quatR), qnorm2 RRing q = 1%R ->
  (nth_pivot i (qmat RRing q) <> 0%R -> matrix_to_quat i (qmat RRing q) = q \/ matrix_to_quat i (qmat RRing q) = qopp RRing q)
  /\ ((i <= 3)%nat -> (forall j, (j <= 3)%nat -> (nth_pivot j (qmat RRing q) <= nth_pivot i (qmat RRing q))%R) ->
      (1 <= nth_pivot i (qmat RRing q))%R).
Proof. intros i q H; split; [now apply matrix_quat_roundtrip | now apply max_pivot_ge_1]. Qed.
Print Assumptions C12_matrix_quat_roundtrip.

(* from_euler: intrinsic = E_a(t1) E_b(t2) E_c(t3), extrinsic = E_c(t3) E_b(t2) E_a(t1), for all axes (0,1,2 = stored component,
   mrpro letters z,y,x) and all angles; E are the elementary rotation matrices; also 1 and 2 axes; result is a unit quaternion *)
Theorem C12_from_euler : forall (a b c : nat) (t1 t2 t3 : R),
  qmat RRing (from_euler true [a; b; c] [t1; t2; t3]) = mmul RRing (mmul RRing (elem_matrix a t1) (elem_matrix b t2)) (elem_matrix c t3)
  /\ qmat RRing (from_euler false [a; b; c] [t1; t2; t3]) = mmul RRing (elem_matrix c t3) (mmul RRing (elem_matrix b t2) (elem_matrix a t1)).
Proof. exact from_euler_product. Qed.
Print Assumptions C12_from_euler.
Theorem C12_from_euler_short : forall (a b : nat) (t1 t2 : R),
  qmat RRing (from_euler true [a; b] [t1; t2]) = mmul RRing (elem_matrix a t1) (elem_matrix b t2)
  /\ qmat RRing (from_euler false [a; b] [t1; t2]) = mmul RRing (elem_matrix b t2) (elem_matrix a t1)
  /\ qmat RRing (from_euler true [a] [t1]) = elem_matrix a t1.
Proof. exact from_euler_two. Qed.
Print Assumptions C12_from_euler_short.
Theorem C12_from_euler_unit : forall (i : bool) (a b c : nat) (t1 t2 t3 : R), qnorm2 RRing (from_euler i [a; b; c] [t1; t2; t3]) = 1%R.
Proof. exact from_euler_unit. Qed.
Print Assumptions C12_from_euler_unit.

(* rotation vectors: from_rotvec(t u) = (sin(t/2) u, cos(t/2)) for every real t and unit u (incl. t = 0 via the sinc branch) *)
Theorem C12_from_rotvec : forall (u : vecR) (t : R), dot3 RRing u u = 1%R -> from_rotvec (vscal RRing t u) = polar u (t / 2)%R.
Proof. exact from_rotvec_polar. Qed.
Print Assumptions C12_from_rotvec.
(* as_rotvec (angle = 2 atan2(|v|, w), scale angle/sin(angle/2), 2 at angle 0 = the sinc branch) followed by from_rotvec is the
   identity on every quaternion (sin(phi) u, cos(phi)), |u| = 1, 0 <= phi < pi, i.e. rotation angles in [0, 2 pi): this covers the
   canonical quaternions (w >= 0: angles in [0, pi]) that as_rotvec is applied to, incl. the end points angle = 0 and angle = pi *)
Theorem C12_rotvec_roundtrip : forall (u : vecR) (phi : R), dot3 RRing u u = 1%R -> (0 <= phi < PI)%R ->
  as_rotvec (polar u phi) = vscal RRing (2 * phi)%R u /\ from_rotvec (as_rotvec (polar u phi)) = polar u phi.
Proof. intros; split; [now apply as_rotvec_polar | now apply rotvec_roundtrip]. Qed.
Print Assumptions C12_rotvec_roundtrip.

(* the model's atan2 is the polar angle: cos/sin of atan2(y, x) are x/r, y/r *)
Theorem C12_atan2_polar : forall y x : R, (0 < x * x + y * y)%R ->
  cos (atan2 y x) = (x / sqrt (x * x + y * y))%R /\ sin (atan2 y x) = (y / sqrt (x * x + y * y))%R.
Proof. exact atan2_spec. Qed.
Print Assumptions C12_atan2_polar.

(* as_euler (model of _quaternion_to_euler, Bernardes-Viollet), REGULAR case, for all 24 sequences (every triple of stored axes with
   different neighbours, proper Euler and Tait-Bryan alike) x extrinsic/intrinsic and every unit quaternion for which the code's
   gimbal-lock test is negative (|angle_1| > 1e-7 and |angle_1 - pi| > 1e-7 before the pi/2 shift): from_euler applied to the
   extracted (wrapped) angles is the same rotation.  The singular branch (gimbal lock) is not covered: correspondence only. *)
Theorem C12_as_euler_regular : forall (quat : quatR) (seq : nat * nat * nat) (extrinsic : bool),
  valid_seq seq -> qnorm2 RRing quat = 1%R -> euler_regular quat seq extrinsic ->
  let '(e0, e1, e2) := quaternion_to_euler quat seq extrinsic in let '(s0, s1, s2) := seq in
  qmat RRing (from_euler (negb extrinsic) [s0; s1; s2] [e0; e1; e2]) = qmat RRing quat.
Proof. exact as_euler_regular. Qed.
Print Assumptions C12_as_euler_regular.
(* ... and AT gimbal lock (the quantities (c, d) or (a, b) of the algorithm vanish exactly: second angle 0 / pi for proper Euler, -pi/2 / pi/2
   for Tait-Bryan sequences), where the code sets the third angle to 0 and gives the whole in-plane rotation to the first: same statement,
   all sequences, extrinsic and intrinsic.  (Repair 09a2fb1 made the code test for the lock before shifting the second angle; the model
   has the repaired order.) *)
Theorem C12_as_euler_gimbal : forall (quat : quatR) (seq : nat * nat * nat) (extrinsic : bool),
  valid_seq seq -> qnorm2 RRing quat = 1%R -> euler_lock quat seq extrinsic ->
  let '(e0, e1, e2) := quaternion_to_euler quat seq extrinsic in let '(s0, s1, s2) := seq in
  qmat RRing (from_euler (negb extrinsic) [s0; s1; s2] [e0; e1; e2]) = qmat RRing quat.
Proof. exact as_euler_gimbal. Qed.
Print Assumptions C12_as_euler_gimbal.
(* the algebra behind both: ANY polar form (a,b,c,d) = n (cos A cos hs, cos A sin hs, sin A cos hd, sin A sin hd) reproduces the quaternion *)
Theorem C12_as_euler_polar : forall (quat : quatR) (q r s0 : nat) (A hs hd : R),
  (q < 3)%nat -> (r < 3)%nat -> (s0 < 3)%nat -> q <> r -> r <> s0 -> euler_polar quat q r s0 A hs hd ->
  let '(sym, sign, _) := euler_abcd quat q r s0 in
  from_euler false [q; r; s0] [(hs - hd)%R; if sym then (2 * A)%R else (2 * A - PI / 2)%R; if sym then (hs + hd)%R else ((hs + hd) * sign)%R] = quat.
Proof. exact ext_core_polar. Qed.
Print Assumptions C12_as_euler_polar.
(* non-vacuity: the identity is at the lock of every proper Euler sequence, the half turn about the middle axis at the other lock *)
Example C12_gimbal_examples :
  euler_lock (0, 0, 0, 1)%R (0, 1, 0)%nat true /\ qnorm2 RRing (0, 0, 0, 1)%R = 1%R /\
  euler_lock (0, 1, 0, 0)%R (2, 1, 2)%nat false /\ qnorm2 RRing (0, 1, 0, 0)%R = 1%R.
Proof.
  unfold euler_lock, abcd_lock1, abcd_lock2, euler_abcd, abcd_sym; cbn; repeat split; try (left; split; ring); try (right; split; ring); ring.
Qed.
(* before wrapping to (-pi, pi] the extracted angles reproduce the quaternion itself (not only up to sign) *)
Theorem C12_as_euler_core : forall (quat : quatR) (q r s0 : nat), (q < 3)%nat -> (r < 3)%nat -> (s0 < 3)%nat -> q <> r -> r <> s0 ->
  qnorm2 RRing quat = 1%R -> abcd_regular quat q r s0 ->
  let '(e0, e1, e2) := euler_core quat q r s0 in from_euler false [q; r; s0] [e0; e1; e2] = quat.
Proof. exact ext_core. Qed.
Print Assumptions C12_as_euler_core.

(* Rodrigues' formula as translated from _axisangle_to_matrix (Gen: gen_axisangle_to_matrix = rodrigues) is the matrix of the
   half-angle quaternion (sin(t/2) u, cos(t/2)) for a unit axis *)
Theorem C12_rodrigues : forall (u : vecR) (t : R), dot3 RRing u u = 1%R ->
  rodrigues RRing u (cos t) (sin t) = qmat RRing (polar u (t / 2)%R).
Proof. exact rodrigues_half_angle. Qed.
Print Assumptions C12_rodrigues.

(* non-vacuity: exact rationals; extrinsic 'zy' (stored axes 0,1) with half-angle (sin,cos) = (3/5,4/5), (5/13,12/13) *)
Example C12_example_euler :
  qq (from_euler_sc QcRing false [0%nat; 1%nat] [(qcq 3 5, qcq 4 5); (qcq 5 13, qcq 12 13)])
  = qq (qmul QcRing (elementary_sc QcRing 1 (qcq 5 13) (qcq 12 13)) (elementary_sc QcRing 0 (qcq 3 5) (qcq 4 5))).
Proof. vm_compute. reflexivity. Qed.

(* ---- align_vectors, one vector pair (also the primary pair when one weight is infinite): the code builds Rodrigues' matrix about b x a with
   the angle atan2(|b x a|, a . b) (statements pinned by the translator, ALIGN_PINS).  That angle has cosine a . b and sine |b x a|, and the
   matrix maps b onto a exactly - for all unit vectors that are not (anti)parallel *)
Theorem C12_align_angle : forall (a b : vecR) (s : R),
  dot3 RRing a a = 1%R -> dot3 RRing b b = 1%R -> (0 < s)%R -> (s * s)%R = dot3 RRing (cross3 RRing b a) (cross3 RRing b a) ->
  cos (atan2 s (dot3 RRing a b)) = dot3 RRing a b /\ sin (atan2 s (dot3 RRing a b)) = s.
Proof. exact align_angle. Qed.
Print Assumptions C12_align_angle.
Theorem C12_align_single_pair : forall (a b : vecR) (s : R),
  dot3 RRing a a = 1%R -> dot3 RRing b b = 1%R -> (0 < s)%R -> (s * s)%R = dot3 RRing (cross3 RRing b a) (cross3 RRing b a) ->
  mapply RRing (rodrigues RRing (vscal RRing (/ s)%R (cross3 RRing b a)) (dot3 RRing a b) s) b = a.
Proof. exact align_single_pair. Qed.
Print Assumptions C12_align_single_pair.
(* antiparallel pair (repair 3492450): the half turn about a unit axis orthogonal to b maps b onto -b = a; the axis the code picks
   (zero at the smallest component, the other two swapped with one sign flipped) is orthogonal to the vector *)
Theorem C12_align_antiparallel : forall (b u : vecR), dot3 RRing u u = 1%R -> dot3 RRing u b = 0%R ->
  mapply RRing (rodrigues RRing u (-1)%R 0%R) b = vscal RRing (-1)%R b.
Proof. exact align_antiparallel. Qed.
Print Assumptions C12_align_antiparallel.
Theorem C12_align_antiparallel_axis : forall a0 a1 a2 : R,
  dot3 RRing (0, a2, - a1)%R (a0, a1, a2) = 0%R /\ dot3 RRing (- a2, 0, a0)%R (a0, a1, a2) = 0%R /\ dot3 RRing (a1, - a0, 0)%R (a0, a1, a2) = 0%R.
Proof. exact antiparallel_axis_orthogonal. Qed.
Print Assumptions C12_align_antiparallel_axis.

(* ---- mean: the code forms K = sum_i w_i q_i q_i^T and takes the eigenvector of the largest eigenvalue (torch.linalg.eigh: oracle).
   K does not depend on the signs of the stored quaternions (q ~ -q), and for copies of one rotation (any signs, any weights) K = (sum w) q q^T:
   K q = (sum w) |q|^2 q and K vanishes on the orthogonal complement of q, so with positive total weight the mean is that rotation *)
Theorem C12_mean_sign_invariant : forall (R : StarRing) (s : list bool) (l : list (R * quat R)) a b, kmat R (flip R s l) a b = kmat R l a b.
Proof. exact kmat_sign_invariant. Qed.
Print Assumptions C12_mean_sign_invariant.
Theorem C12_mean_of_copies : forall (R : StarRing) (q : quat R) (l : list (R * quat R)), all_pm R q l ->
  (forall a, (a < 4)%nat -> kapply R l q a = kmul (kmul (wsum R l) (qdot R q q)) (qcomp R a q)) /\
  (forall x a, qdot R q x = k0 -> kapply R l x a = k0).
Proof. intros R q l H. split; [intros a Ha; exact (mean_identical_eigen R q l a H Ha)|intros x a Hx; exact (mean_identical_orthogonal R q l x a H Hx)]. Qed.
Print Assumptions C12_mean_of_copies.
