(* C12 - Rotation agrees with the reference implementation it reimplements (scipy.spatial.transform.Rotation).
   Theorems: the kernels of the model (tied to /repo by Gen/rotation_gen.v and by the correspondence families of
   harness/props/C12.py) ARE the reference semantics: quaternion -> matrix is the conjugation action v |-> q v q^*,
   composition is the Hamilton product, matrix -> quaternion returns +-q, from_euler is the product of the elementary
   rotations in the documented order, from_rotvec / as_rotvec round-trip.
   NOT proved (decided by three-way correspondence implementation / scipy only, see C12.py): as_euler (Bernardes-Viollet)
   incl. gimbal lock, mean, align_vectors, the end points angle = 0 and pi of the rotation vector maps, from_matrix on
   non-orthogonal input. *)
From MrVerif Require Import Base.Prelude Base.StarRing Model.Rotation Model.Euler
  Proofs.RotationProofs Proofs.RotationRealProofs Proofs.RotationPowProofs Proofs.EulerProofs.
From Coq Require Import Reals.

(* _quaternion_to_matrix is the standard rotation matrix of q: M(q) v = vector part of q (v,0) q^*; and M(q) = M(-q) *)
Theorem C12_quat_matrix : forall (R : StarRing) (q : quat R) (v : vec3 R),
  mapply R (qmat R q) v = qrot R q v /\ qmat R (qopp R q) = qmat R q.
Proof. intros; split; [apply qmat_is_conjugation | apply qmat_opp]. Qed.
Print Assumptions C12_quat_matrix.

(* composition = Hamilton product (scalar last): (pw qv + qw pv + pv x qv, pw qw - pv.qv) *)
Theorem C12_compose : forall (R : StarRing) (p q : quat R),
  qmul R p q = let pv := qvec R p in let qv := qvec R q in
               let v := vadd R (vadd R (vscal R (q3 p) qv) (vscal R (q3 q) pv)) (cross3 R pv qv) in
               (v0 v, v1 v, v2 v, ksub (kmul (q3 p) (q3 q)) (dot3 R pv qv)).
Proof. exact qmul_textbook. Qed.
Print Assumptions C12_compose.

(* as_matrix of the inverse is the transpose *)
Theorem C12_inverse : forall (R : StarRing) (q : quat R), qmat R (qconj R q) = mtrans R (qmat R q).
Proof. exact qmat_conj. Qed.
Print Assumptions C12_inverse.

(* _matrix_to_quaternion on the matrix of a unit quaternion: every candidate whose pivot is non-zero gives q or -q, and the
   candidate chosen by argmax has pivot >= 1 *)
Theorem C12_matrix_quat_roundtrip : forall (i : nat) (q : quatR), qnorm2 RRing q = 1%R ->
  (nth_pivot i (qmat RRing q) <> 0%R -> matrix_to_quat i (qmat RRing q) = q \/ matrix_to_quat i (qmat RRing q) = qopp RRing q)
  /\ ((i <= 3)%nat -> (forall j, (j <= 3)%nat -> (nth_pivot j (qmat RRing q) <= nth_pivot i (qmat RRing q))%R) ->
      (1 <= nth_pivot i (qmat RRing q))%R).
Proof. intros i q H; split; [now apply matrix_quat_roundtrip | now apply max_pivot_ge_1]. Qed.
Print Assumptions C12_matrix_quat_roundtrip.

(* from_euler: intrinsic = E_a(t1) E_b(t2) E_c(t3), extrinsic = E_c(t3) E_b(t2) E_a(t1), for all axes (0,1,2 = stored component,
   mrpro letters z,y,x) and all angles; E are the elementary rotation matrices; also 1 and 2 axes; result is a unit quaternion *)
Theorem C12_from_euler : forall (a b c : nat) (t1 t2 t3 : R),
  qmat RRing (from_euler true [a; b; c] [t1; t2; t3]) = mmul RRing (mmul RRing (elem_matrix a t1) (elem_matrix b t2)) (elem_matrix c t3)
  /\ qmat RRing (from_euler false [a; b; c] [t1; t2; t3]) = mmul RRing (elem_matrix c t3) (mmul RRing (elem_matrix b t2) (elem_matrix a t1)).
Proof. exact from_euler_product. Qed.
Print Assumptions C12_from_euler.
Theorem C12_from_euler_short : forall (a b : nat) (t1 t2 : R),
  qmat RRing (from_euler true [a; b] [t1; t2]) = mmul RRing (elem_matrix a t1) (elem_matrix b t2)
  /\ qmat RRing (from_euler false [a; b] [t1; t2]) = mmul RRing (elem_matrix b t2) (elem_matrix a t1)
  /\ qmat RRing (from_euler true [a] [t1]) = elem_matrix a t1.
Proof. exact from_euler_two. Qed.
Print Assumptions C12_from_euler_short.
Theorem C12_from_euler_unit : forall (i : bool) (a b c : nat) (t1 t2 t3 : R), qnorm2 RRing (from_euler i [a; b; c] [t1; t2; t3]) = 1%R.
Proof. exact from_euler_unit. Qed.
Print Assumptions C12_from_euler_unit.

(* rotation vectors: from_rotvec(t u) = (sin(t/2) u, cos(t/2)) for every real t and unit u (incl. t = 0 via the sinc branch) *)
Theorem C12_from_rotvec : forall (u : vecR) (t : R), dot3 RRing u u = 1%R -> from_rotvec (vscal RRing t u) = polar u (t / 2)%R.
Proof. exact from_rotvec_polar. Qed.
Print Assumptions C12_from_rotvec.
(* _partial: round trip only for rotation angles 2 phi in (0, 2 pi) and with the angle computed as 2 acos(w) (= 2 atan2(|v|, w) of
   the code for unit q); the end points (angle 0: sinc branch of as_rotvec; angle pi exactly) are decided by correspondence *)
Theorem C12_rotvec_roundtrip_partial : forall (u : vecR) (phi : R), dot3 RRing u u = 1%R -> (0 < phi < PI)%R ->
  from_rotvec (as_rotvec (polar u phi)) = polar u phi.
Proof. exact rotvec_roundtrip. Qed.
Print Assumptions C12_rotvec_roundtrip_partial.

(* non-vacuity: exact rationals; extrinsic 'zy' (stored axes 0,1) with half-angle (sin,cos) = (3/5,4/5), (5/13,12/13) *)
Example C12_example_euler :
  qq (from_euler_sc QcRing false [0%nat; 1%nat] [(qcq 3 5, qcq 4 5); (qcq 5 13, qcq 12 13)])
  = qq (qmul QcRing (elementary_sc QcRing 1 (qcq 5 13) (qcq 12 13)) (elementary_sc QcRing 0 (qcq 3 5) (qcq 4 5))).
Proof. vm_compute. reflexivity. Qed.
