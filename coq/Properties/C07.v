(* C07 - reconstructions equal their defining linear-algebra problems. *)
From MrVerif Require Import Base.Prelude Base.StarRing Base.Sums Model.OpAlg Model.ElemOps Model.CG Model.Recon
  Proofs.OpAlgProofs Proofs.CGProofs Proofs.CGProofsInst Proofs.ReconProofs.
From Coq Require Import QArith Qcanon.

(* direct reconstruction = S^H F^H W^H y (W^H = W for a real density compensation), linear in the data, and the
   adjoint of the acquisition model W F S *)
Theorem C07_direct : forall (R : StarRing) (W F S : linop R),
  (forall y j, adj (comp W (comp F S)) y j = adj S (adj F (adj W y)) j) /\
  (dom W = ran F -> dom F = ran S -> wf W -> wf F -> wf S -> wf (adjop (comp W (comp F S)))) /\
  (dom W = ran F -> dom F = ran S -> adjoint_pair W -> adjoint_pair F -> adjoint_pair S -> adjoint_pair (adjop (comp W (comp F S)))).
Proof. intros. split; [intros; apply direct_is_adjoint_chain|split; [apply direct_linear|apply direct_adjoint_pair]]. Qed.
Print Assumptions C07_direct.

Theorem C07_real_dcf_selfadjoint : forall (R : StarRing) n (d : nat -> R) y i, (forall k, kconj (d k) = d k) ->
  adj (diag_op n d) y i = fwd (diag_op n d) y i.
Proof. exact diag_real_selfadjoint. Qed.
Print Assumptions C07_real_dcf_selfadjoint.

(* the operator handed to CG is self-adjoint, so the CG theorems of C06 apply *)
Theorem C07_normal_operator_selfadjoint : forall (R : StarRing) (A W B : linop R) (lam : R),
  adjoint_pair A -> dom W = ran A -> ran W = ran A -> dom B = dom A -> ran B = dom A ->
  selfadj R W -> selfadj R B -> kconj lam = lam ->
  selfadj R (lsum (comp (adjop A) (comp W A)) (prod_right (fun _ => lam) B)).
Proof. exact normal_operator_selfadjoint. Qed.
Print Assumptions C07_normal_operator_selfadjoint.

(* (regularised) iterative SENSE returns the n-th CG iterate of (A^H W A + lambda B) x = A^H W y + lambda x0 started at the
   right-hand side with tolerance 0 *)
Theorem C07_sense_is_cg : forall AHWA B lam AHWy x0 n,
  reg_sense AHWA B lam AHWy x0 n =
  cgQ (fst (reg_system AHWA B lam AHWy x0)) q0 (snd (reg_system AHWA B lam AHWy x0)) (Some (snd (reg_system AHWA B lam AHWy x0))) n.
Proof. exact reg_sense_is_cg. Qed.
Print Assumptions C07_sense_is_cg.

(* lambda = 0: the regularised reconstruction is the unregularised one *)
Theorem C07_lambda_zero : forall AHWA B AHWy x0 n,
  reg_sense AHWA B q0 AHWy x0 n = cgQ AHWA q0 AHWy (Some AHWy) n /\ reg_sense AHWA B q0 AHWy x0 n = iter_sense AHWA AHWy n.
Proof. exact reg_sense_lambda_zero. Qed.
Print Assumptions C07_lambda_zero.

(* with enough iterations (residual exactly zero) the image solves the regularised normal equations *)
Theorem C07_converged_solves : forall AHWA B lam AHWy x0 n res trace x r k,
  reg_sense AHWA B lam AHWy x0 n = Done res trace -> In (x, r, k) trace ->
  let H := fst (reg_system AHWA B lam AHWy x0) in let rhs := snd (reg_system AHWA B lam AHWy x0) in
  length (mvQ H x) = length rhs -> r = map (fun _ => q0) rhs -> mvQ H x = rhs.
Proof. exact reg_sense_converged. Qed.
Print Assumptions C07_converged_solves.

Example C07_example : reg_sense_run [[2#1;0#1];[0#1;1#1]] [[1#1;0#1];[0#1;1#1]] (1#1) [3#1;1#1] [0#1;1#1] 3
  = (0%nat, [(1,1);(1,1)]%Z, snd (reg_sense_run [[2#1;0#1];[0#1;1#1]] [[1#1;0#1];[0#1;1#1]] (1#1) [3#1;1#1] [0#1;1#1] 3)).
Proof. vm_compute. reflexivity. Qed.
