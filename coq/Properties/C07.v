(* C07 - reconstructions equal their defining linear-algebra problems. *)
From MrVerif Require Import Base.Prelude Base.StarRing Base.Sums Model.OpAlg Model.ElemOps Model.CG Model.Recon
  Proofs.OpAlgProofs Proofs.CGProofs Proofs.CGProofsInst Proofs.ReconProofs Proofs.PrewhitenProofs.
From Coq Require Import QArith Qcanon.

(* direct reconstruction = S^H F^H W^H y (W^H = W for a real density compensation), linear in the data, and the
   adjoint of the acquisition model W F S *)
Theorem C07_direct : forall (R : StarRing) (W F S : linop R),
  (forall y j, adj (comp W (comp F S)) y j = adj S (adj F (adj W y)) j) /\
  (dom W = ran F -> dom F = ran S -> wf W -> wf F -> wf S -> wf (adjop (comp W (comp F S)))) /\
  (dom W = ran F -> dom F = ran S -> adjoint_pair W -> adjoint_pair F -> adjoint_pair S -> adjoint_pair (adjop (comp W (comp F S)))).
Proof. intros. split; [intros; apply direct_is_adjoint_chain|split; [apply direct_linear|apply direct_adjoint_pair]]. Qed.
Print Assumptions C07_direct.

Theorem C07_real_dcf_selfadjoint : forall (R : StarRing) n (d : nat -> R) y i, (forall k, kconj (d k) = d k) ->
  adj (diag_op n d) y i = fwd (diag_op n d) y i.
Proof. exact diag_real_selfadjoint. Qed.
Print Assumptions C07_real_dcf_selfadjoint.

(* the operator handed to CG is self-adjoint, so the CG theorems of C06 apply *)
Theorem C07_normal_operator_selfadjoint : forall (R : StarRing) (A W B : linop R) (lam : R),
  adjoint_pair A -> dom W = ran A -> ran W = ran A -> dom B = dom A -> ran B = dom A ->
  selfadj R W -> selfadj R B -> kconj lam = lam ->
  selfadj R (lsum (comp (adjop A) (comp W A)) (prod_right (fun _ => lam) B)).
Proof. exact normal_operator_selfadjoint. Qed.
Print Assumptions C07_normal_operator_selfadjoint.

(* (regularised) iterative SENSE returns the n-th CG iterate of (A^H W A + lambda B) x = A^H W y + lambda x0 started at the
   right-hand side with tolerance 0 *)
Theorem C07_sense_is_cg : forall AHWA B lam AHWy x0 n,
  reg_sense AHWA B lam AHWy x0 n =
  cgQ (fst (reg_system AHWA B lam AHWy x0)) q0 (snd (reg_system AHWA B lam AHWy x0)) (Some (snd (reg_system AHWA B lam AHWy x0))) n.
Proof. exact reg_sense_is_cg. Qed.
Print Assumptions C07_sense_is_cg.

(* lambda = 0: the regularised reconstruction is the unregularised one *)
Theorem C07_lambda_zero : forall AHWA B AHWy x0 n,
  reg_sense AHWA B q0 AHWy x0 n = cgQ AHWA q0 AHWy (Some AHWy) n /\ reg_sense AHWA B q0 AHWy x0 n = iter_sense AHWA AHWy n.
Proof. exact reg_sense_lambda_zero. Qed.
Print Assumptions C07_lambda_zero.

(* with enough iterations (residual exactly zero) the image solves the regularised normal equations *)
Theorem C07_converged_solves : forall AHWA B lam AHWy x0 n res trace x r k,
  reg_sense AHWA B lam AHWy x0 n = Done res trace -> In (x, r, k) trace ->
  let H := fst (reg_system AHWA B lam AHWy x0) in let rhs := snd (reg_system AHWA B lam AHWy x0) in
  length (mvQ H x) = length rhs -> r = map (fun _ => q0) rhs -> mvQ H x = rhs.
Proof. exact reg_sense_converged. Qed.
Print Assumptions C07_converged_solves.

Example C07_example : reg_sense_run [[2#1;0#1];[0#1;1#1]] [[1#1;0#1];[0#1;1#1]] (1#1) [3#1;1#1] [0#1;1#1] 3
  = (0%nat, [(1,1);(1,1)]%Z, snd (reg_sense_run [[2#1;0#1];[0#1;1#1]] [[1#1;0#1];[0#1;1#1]] (1#1) [3#1;1#1] [0#1;1#1] 3)).
Proof. vm_compute. reflexivity. Qed.

(* "Prewhitening maps the noise scan itself to unit coil covariance": prewhiten_kspace forms C = (1/m) N N^H over all m noise samples,
   L = torch.linalg.cholesky(C) and X = torch.linalg.solve_triangular(L, data).  With the contracts of the two torch calls (L L^H = C, L
   invertible; L X = N when the data are the noise scan itself) the whitened noise has covariance (1/m) X X^H = I - for every number of
   coils and samples and every commutative *-ring (s stands for 1/m).  The contracts themselves are checked on the implementation. *)
Theorem C07_prewhiten_unit_covariance : forall (R : StarRing) n m (s : R) (N L Li X : nat -> nat -> R),
  meq R n n (mm R n L (mH R L)) (cov R m s N) -> meq R n n (mm R n Li L) (mI R) -> meq R n m (mm R n L X) N ->
  meq R n n (cov R m s X) (mI R).
Proof. exact prewhiten_unit_covariance. Qed.
Print Assumptions C07_prewhiten_unit_covariance.
(* non-vacuity: two coils, two samples over Z: N = L = [[1,0],[1,1]], C = L L^T = [[1,1],[1,2]], L^-1 = [[1,0],[-1,1]], X = identity *)
Example C07_prewhiten_example :
  let L : nat -> nat -> Z := fun i j => match i, j with 0%nat, 0%nat => 1%Z | 1%nat, 0%nat => 1%Z | 1%nat, 1%nat => 1%Z | _, _ => 0%Z end in
  let Li : nat -> nat -> Z := fun i j => match i, j with 0%nat, 0%nat => 1%Z | 1%nat, 0%nat => (-1)%Z | 1%nat, 1%nat => 1%Z | _, _ => 0%Z end in
  meq ZRing 2 2 (mm ZRing 2 L (mH ZRing L)) (cov ZRing 2 1%Z L) /\ meq ZRing 2 2 (mm ZRing 2 Li L) (mI ZRing) /\
  meq ZRing 2 2 (mm ZRing 2 L (mI ZRing)) L.
Proof.
  cbv zeta. repeat split; intros [|[|i]] [|[|j]] Hi Hj; try lia; vm_compute; reflexivity.
Qed.
