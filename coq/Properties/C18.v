(* C18 - Moving or converting data preserves content, dtype kind and aliasing rules.
   Theorems about the model of MoveDataMixin.to / cpu / double / single / half / clone (Model/MoveData.v: object graph
   = heap of Tensor / Mixin / Spatial(Dimension) / Module / Plain nodes, _to with its memo keyed by object id, fuel =
   nesting depth).  The model is tied to /repo/src/mrpro/data/MoveDataMixin.py (+ SpatialDimension.apply_) on every run
   by the exact graph correspondence of harness/props/C18.py on real containers.
   All theorems quantify over every well-founded (acyclic, post-order numbered) object graph, every field path (any
   nesting depth) and every call descriptor; "call_top ... = Some" excludes only dangling ids and a cyclic graph, on
   which python raises RecursionError and the model runs out of fuel (C18_cycle_example). *)
From MrVerif Require Import Base.Prelude Model.MoveData Proofs.MoveDataProofs Proofs.MoveDataTotal.
Local Open Scope nat_scope.

(* the three argument parsers of to() and the shortcuts hand these (dtype, copy) to _to *)
Theorem C18_parsers : forall d cp,
  parse (ToDevice (Some d) cp) = mkC (Some d) cp /\ parse (ToDevice None cp) = mkC None cp
  /\ parse (ToDtype d cp) = mkC (Some d) cp /\ parse (ToTensor d cp) = mkC (Some d) cp
  /\ parse (Cpu cp) = mkC None cp /\ parse (Double cp) = mkC (Some (mkD FReal P64)) cp
  /\ parse (Single cp) = mkC (Some (mkD FReal P32)) cp /\ parse (Half cp) = mkC (Some (mkD FReal P16)) cp
  /\ parse Clone = mkC None true.
Proof. intros. repeat split. Qed.
Print Assumptions C18_parsers.

(* every tensor field, at any depth, is again a tensor at the same path: real stays real, complex stays complex, int and
   bool keep their dtype; float/complex tensors get the precision of the requested dtype (whatever its own kind), or keep
   theirs when no dtype is given *)
Theorem C18_kind : forall a h ns root r h' p x t,
  wf_heap h -> root < length h -> call_top a h ns root = Some (r, h') ->
  resolve h root p = Some x -> nth_error h x = Some (NTensor t) ->
  exists z t', resolve h' r p = Some z /\ nth_error h' z = Some (NTensor t')
               /\ t_kind t' = t_kind t /\ t_prec t' = requested_prec a t.
Proof. exact call_kind. Qed.
Print Assumptions C18_kind.

Theorem C18_requested_prec : forall a t,
  requested_prec a t = match c_dtype (parse a), t_kind t with
                       | Some d, KFloat | Some d, KComplex => d_prec d
                       | _, _ => t_prec t end.
Proof. reflexivity. Qed.
Print Assumptions C18_requested_prec.

(* the same for the parameters and buffers of module fields (Rotation) *)
Theorem C18_kind_module : forall a h ns root r h' p x ts,
  wf_heap h -> root < length h -> call_top a h ns root = Some (r, h') ->
  resolve h root p = Some x -> nth_error h x = Some (NModule ts) ->
  exists z ts', resolve h' r p = Some z /\ nth_error h' z = Some (NModule ts')
    /\ Forall2 (fun t t' => t_kind t' = t_kind t /\ t_content t' = t_content t /\ t_prec t' = requested_prec a t) ts ts'.
Proof. exact call_kind_module. Qed.
Print Assumptions C18_kind_module.

(* contents: every node reachable in the source has a counterpart of the same class at the same path with the same
   content id (tensors, module tensors, plain objects) / the same number of fields (containers, recursively) *)
Theorem C18_values : forall a h ns root r h' p x nd,
  wf_heap h -> root < length h -> call_top a h ns root = Some (r, h') ->
  resolve h root p = Some x -> nth_error h x = Some nd ->
  exists z nd', resolve h' r p = Some z /\ nth_error h' z = Some nd' /\ node_conv (parse a) nd nd'.
Proof. exact call_values. Qed.
Print Assumptions C18_values.

(* aliasing: two field paths (any depth, through any containers incl. SpatialDimension components) that lead to one
   object in the source lead to one object in the result - for every copy flag *)
Theorem C18_alias : forall a h ns root r h' p q x,
  wf_heap h -> root < length h -> call_top a h ns root = Some (r, h') -> p <> [] -> q <> [] ->
  resolve h root p = Some x -> resolve h root q = Some x ->
  exists z, resolve h' r p = Some z /\ resolve h' r q = Some z.
Proof. exact call_alias. Qed.
Print Assumptions C18_alias.

(* copy=True / clone(): nothing reachable in the result shares a storage with any tensor (or module tensor) of the
   source, and every mutable plain object, module and container of the result is a new object *)
Theorem C18_fresh : forall a h ns root r h' p z n',
  wf_heap h -> root < length h -> heap_below ns h -> c_copy (parse a) = true ->
  call_top a h ns root = Some (r, h') -> resolve h' r p = Some z -> nth_error h' z = Some n' ->
  (forall i n s, nth_error h i = Some n -> In s (storages n) -> ~ In s (storages n'))
  /\ (match n' with NPlain _ false | NTensor _ => True | _ => length h <= z end).
Proof. exact call_fresh. Qed.
Print Assumptions C18_fresh.

(* for EVERY copy flag module fields (Rotation) of the result are new objects whose tensors share no storage with the
   source: the module is deep-copied before Module._apply converts it *)
Theorem C18_module_fresh : forall a h ns root r h' p z ts',
  wf_heap h -> root < length h -> heap_below ns h ->
  call_top a h ns root = Some (r, h') -> resolve h' r p = Some z -> nth_error h' z = Some (NModule ts') ->
  length h <= z /\ forall i n s, nth_error h i = Some n -> In s (storages n) -> ~ In s (map t_storage ts').
Proof. exact call_module_fresh. Qed.
Print Assumptions C18_module_fresh.

(* the source is untouched, for every call and every copy flag: every node of the source heap is unchanged (the call
   only allocates) *)
Theorem C18_source_untouched : forall a h ns root r h',
  wf_heap h -> root < length h -> call_top a h ns root = Some (r, h') ->
  forall i n, nth_error h i = Some n -> nth_error h' i = Some n.
Proof. exact call_source_untouched. Qed.
Print Assumptions C18_source_untouched.

(* the hypothesis `call_top ... = Some` of the theorems above is satisfiable on every acyclic graph: the call returns
   (the fuel never runs out) *)
Theorem C18_total : forall a h ns root, wf_heap h -> root < length h ->
  exists r h', call_top a h ns root = Some (r, h').
Proof. exact call_total. Qed.
Print Assumptions C18_total.

(* non-vacuity: a KData-like graph: header {spatial [t0 t0 t1], rotation module, dict}, data (complex), traj {t0, view of t1, t0};
   double(copy=True): all float/complex at P64, the int tensor untouched, t0 converted ONCE (node 10) and shared by the
   SpatialDimension and the trajectory *)
Example C18_example :
  encode_result (call_top (Double true)
    [NTensor (mkT KFloat P32 0 0 false); NTensor (mkT KInt P32 1 1 false); NSpatial [0; 0; 1];
     NModule [mkT KFloat P32 2 2 false; mkT KBool P16 3 3 false]; NPlain 4 true; NMixin [2; 3; 4];
     NTensor (mkT KComplex P32 4 5 false); NTensor (mkT KInt P32 1 6 true); NMixin [0; 7; 0]; NMixin [5; 6; 8]] 5 9)
  = Some (19, [(0, [0; 1; 0; 0; 0]); (0, [2; 1; 1; 1; 0]); (2, [0; 0; 1]); (3, [0; 1; 2; 2; 0; 3; 0; 3; 3; 0]); (4, [4; 1]);
               (1, [2; 3; 4]); (0, [1; 1; 4; 5; 0]); (0, [2; 1; 1; 6; 1]); (1, [0; 7; 0]); (1, [5; 6; 8]);
               (0, [0; 2; 5; 0; 0]); (0, [2; 1; 6; 1; 0]); (2, [10; 10; 11]); (3, [0; 2; 7; 2; 0; 3; 0; 8; 3; 0]); (4, [4; 1]);
               (1, [12; 13; 14]); (0, [1; 2; 9; 5; 0]); (0, [2; 1; 10; 6; 0]); (1, [10; 17; 10]); (1, [15; 16; 18])]).
Proof. vm_compute. reflexivity. Qed.

(* single() without copy on {Rotation(float64), float32 tensor}: the module is copied and converted (node 3, new storage),
   the source module (node 0) keeps float64, the float32 tensor is shared *)
Example C18_module_nocopy_example :
  encode_result (call_top (Single false) [NModule [mkT KFloat P64 0 0 false]; NTensor (mkT KFloat P32 1 1 false); NMixin [0; 1]] 2 2)
  = Some (4, [(3, [0; 2; 0; 0; 0]); (0, [0; 1; 1; 1; 0]); (1, [0; 1]); (3, [0; 1; 2; 0; 0]); (1, [3; 1])]).
Proof. vm_compute. reflexivity. Qed.

(* a cyclic graph: python raises RecursionError, the model runs out of fuel *)
Example C18_cycle_example : call_top Clone [NMixin [1]; NMixin [0]] 0 0 = None.
Proof. vm_compute. reflexivity. Qed.

(* without copy and without a dtype nothing is allocated except the shallow copies of the containers *)
Example C18_nocopy_example :
  call_top (Cpu false) [NTensor (mkT KFloat P32 0 0 false); NMixin [0; 0]] 1 1
  = Some (2, [NTensor (mkT KFloat P32 0 0 false); NMixin [0; 0]; NMixin [0; 0]]).
Proof. vm_compute. reflexivity. Qed.
