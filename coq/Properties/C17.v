(* C17 - Signal models match their closed forms; constraints are invertible and bounded.
   Statements over the Coq reals about Model/SignalModels.v (X_code = what forward() evaluates per element) and
   Model/Constraints.v.  The models are tied to /repo/src on every run by the regenerated obligations of
   Gen/models_gen.v and Gen/constraints_gen.v (ast translators) and by per-case `interval` lemmas against the
   implementation's float64 outputs and autograd gradients (harness/props/C17.py). *)
From Coq Require Import Reals Lra List.
From Coquelicot Require Import Coquelicot.
From MrVerif Require Import Model.Constraints Model.SignalModels Proofs.ConstraintsProofs Proofs.SignalModelsProofs
  Proofs.SignalModelsDerivProofs.
Import ListNotations.
Open Scope R_scope.

(* ================= constraints ================================================================================= *)
(* two-sided bounds a < b, any steepness beta > 0: strictly increasing, into the open interval, bijective onto it *)
Theorem C17_sigmoid : forall a b beta, a < b -> 0 < beta ->
  (forall x y, x < y -> fwd_ab a b beta x < fwd_ab a b beta y) /\
  (forall x, a < fwd_ab a b beta x < b) /\
  (forall x, inv_ab a b beta (fwd_ab a b beta x) = x) /\
  (forall y, a < y < b -> fwd_ab a b beta (inv_ab a b beta y) = y).
Proof.
  intros a b beta Hab Hb. repeat split.
  - intros; apply fwd_ab_increasing; assumption.
  - apply fwd_ab_range; assumption.
  - apply fwd_ab_range; assumption.
  - intros; apply inv_fwd_ab; assumption.
  - intros; apply fwd_inv_ab; assumption.
Qed.
Print Assumptions C17_sigmoid.

(* lower bound only, (a, +inf), for ALL beta > 0 (softplus_inverse as repaired) *)
Theorem C17_softplus_lower : forall a beta, 0 < beta ->
  (forall x y, x < y -> fwd_lo a beta x < fwd_lo a beta y) /\
  (forall x, a < fwd_lo a beta x) /\
  (forall x, inv_lo a beta (fwd_lo a beta x) = x) /\
  (forall y, a < y -> fwd_lo a beta (inv_lo a beta y) = y).
Proof.
  intros a beta Hb. repeat split.
  - intros; apply fwd_lo_increasing; assumption.
  - intros; apply fwd_lo_range; assumption.
  - intros; apply inv_fwd_lo; assumption.
  - intros; apply fwd_inv_lo; assumption.
Qed.
Print Assumptions C17_softplus_lower.

(* upper bound only, (-inf, b) *)
Theorem C17_softplus_upper : forall b beta, 0 < beta ->
  (forall x y, x < y -> fwd_hi b beta x < fwd_hi b beta y) /\
  (forall x, fwd_hi b beta x < b) /\
  (forall x, inv_hi b beta (fwd_hi b beta x) = x) /\
  (forall y, y < b -> fwd_hi b beta (inv_hi b beta y) = y).
Proof.
  intros b beta Hb. repeat split.
  - intros; apply fwd_hi_increasing; assumption.
  - intros; apply fwd_hi_range; assumption.
  - intros; apply inv_fwd_hi; assumption.
  - intros; apply fwd_inv_hi; assumption.
Qed.
Print Assumptions C17_softplus_upper.

(* the raw transforms, for all beta > 0 *)
Theorem C17_softplus_inverse : forall beta, 0 < beta ->
  (forall x, softplus_inverse beta (softplus beta x) = x) /\ (forall y, 0 < y -> softplus beta (softplus_inverse beta y) = y).
Proof. intros beta Hb. split; intros; [apply softplus_inv_fwd|apply softplus_fwd_inv]; assumption. Qed.
Print Assumptions C17_softplus_inverse.

Theorem C17_sigmoid_inverse : forall beta, 0 < beta ->
  (forall x, sigmoid_inverse beta (sigmoid beta x) = x) /\ (forall y, 0 < y < 1 -> sigmoid beta (sigmoid_inverse beta y) = y).
Proof. intros beta Hb. split; intros; [apply sigmoid_inv_fwd|apply sigmoid_fwd_inv]; try assumption; lra. Qed.
Print Assumptions C17_sigmoid_inverse.

Theorem C17_sigmoid_derivative_positive : forall a b beta x, a < b -> 0 < beta ->
  is_derive (fun t => fwd_ab a b beta t) x ((b - a) * beta * sigmoid beta x * (1 - sigmoid beta x)) /\
  0 < (b - a) * beta * sigmoid beta x * (1 - sigmoid beta x).
Proof.
  intros a b beta x Hab Hb. split; [apply fwd_ab_derive|].
  pose proof (sigmoid_range beta x) as [H0 H1].
  apply Rmult_lt_0_compat; [apply Rmult_lt_0_compat; [apply Rmult_lt_0_compat|]|]; lra.
Qed.
Print Assumptions C17_sigmoid_derivative_positive.

(* the operator's if/elif chain: every (lb, ub) takes some branch (no input is ever dropped), and for finite / None bounds
   it is the documented transformation; (None, None) is the identity *)
Theorem C17_branches_total : forall lb ub bs bp x,
  constraint_fwd lb ub bs bp x <> NoBranch /\ constraint_inv lb ub bs bp x <> NoBranch.
Proof. intros. split; [apply constraint_fwd_total|apply constraint_inv_total]. Qed.
Print Assumptions C17_branches_total.

Theorem C17_branch_selection : forall a b bs bp x,
  constraint_fwd (XFin a) (XFin b) bs bp x = Ok (fwd_ab a b bs x) /\
  constraint_inv (XFin a) (XFin b) bs bp x = Ok (inv_ab a b bs x) /\
  (forall ub, unbounded_above ub -> constraint_fwd (XFin a) ub bs bp x = Ok (fwd_lo a bp x)
                                 /\ constraint_inv (XFin a) ub bs bp x = Ok (inv_lo a bp x)) /\
  (forall lb, unbounded_below lb -> constraint_fwd lb (XFin b) bs bp x = Ok (fwd_hi b bp x)
                                 /\ constraint_inv lb (XFin b) bs bp x = Ok (inv_hi b bp x)) /\
  constraint_fwd XNone XNone bs bp x = Ok x /\ constraint_inv XNone XNone bs bp x = Ok x.
Proof.
  intros. repeat split.
  - apply constraint_fwd_fin_open; assumption.
  - apply constraint_inv_fin_open; assumption.
  - apply constraint_fwd_open_fin; assumption.
  - apply constraint_inv_open_fin; assumption.
Qed.
Print Assumptions C17_branch_selection.

(* code = documentation for every bound pair except when an infinity is written on a side whose other side is open *)
Theorem C17_forward_documented_partial : forall lb ub bs bp x,
  ~ inf_unconstrained lb ub -> documented_fwd lb ub bs bp x <> NonReal ->
  constraint_fwd lb ub bs bp x = documented_fwd lb ub bs bp x.
Proof. exact constraint_fwd_documented. Qed.
Print Assumptions C17_forward_documented_partial.

(* ... and the documented "(-inf, inf) means not constrained at all" does not hold for the code: on (-inf, None),
   (-inf, +inf), (None, +inf) it adds the infinite bound to a softplus instead of passing x through (finding KF-C17-1) *)
Theorem C17_infinite_bounds_refuted : forall lb ub bs bp x, inf_unconstrained lb ub ->
  documented_fwd lb ub bs bp x = Ok x /\ constraint_fwd lb ub bs bp x = NonReal.
Proof. exact constraint_fwd_inf_refuted. Qed.
Print Assumptions C17_infinite_bounds_refuted.

(* more inputs than bounds: the remaining ones pass through; the number of outputs is the number of inputs *)
Theorem C17_extra_inputs_pass_through : forall bounds bs bp xs,
  length (forward_list bounds bs bp xs) = length xs /\ length (inverse_list bounds bs bp xs) = length xs /\
  forall i, (length bounds <= i)%nat ->
    nth_error (forward_list bounds bs bp xs) i = option_map Ok (nth_error xs i) /\
    nth_error (inverse_list bounds bs bp xs) i = option_map Ok (nth_error xs i).
Proof.
  intros. split; [apply forward_list_length|]. split; [apply inverse_list_length|].
  intros i Hi. split; [apply forward_list_passthrough|apply inverse_list_passthrough]; exact Hi.
Qed.
Print Assumptions C17_extra_inputs_pass_through.

Theorem C17_forward_elementwise : forall bounds bs bp xs i lb ub x,
  nth_error bounds i = Some (lb, ub) -> nth_error xs i = Some x ->
  nth_error (forward_list bounds bs bp xs) i = Some (constraint_fwd lb ub bs bp x).
Proof. exact forward_list_elementwise. Qed.
Print Assumptions C17_forward_elementwise.

(* ================= signal models: code expression = documented closed form ======================================= *)
Theorem C17_model_eq_doc_ir : forall m0 t1 ti, ir_code m0 t1 ti = ir_doc m0 t1 ti.
Proof. exact ir_eq_doc. Qed.
Print Assumptions C17_model_eq_doc_ir.
Theorem C17_model_eq_doc_sr : forall m0 t1 ti, sr_code m0 t1 ti = sr_doc m0 t1 ti.
Proof. exact sr_eq_doc. Qed.
Print Assumptions C17_model_eq_doc_sr.
Theorem C17_model_eq_doc_mono : forall m0 tc t, mono_code m0 tc t = mono_doc m0 tc t.
Proof. exact mono_eq_doc. Qed.
Print Assumptions C17_model_eq_doc_mono.
Theorem C17_model_limits : forall m0 t, ir_code m0 t 0 = - m0 /\ sr_code m0 t 0 = 0 /\ mono_code m0 t 0 = m0.
Proof. intros. repeat split; [apply ir_at_0|apply sr_at_0|apply mono_at_0]. Qed.
Print Assumptions C17_model_limits.

(* MOLLI: a(1 - c e^{-t/T1s}), T1s = T1/(c-1); and with c = b/a the original a - b e^{-t/T1s} of the cited paper *)
Theorem C17_model_eq_doc_molli : forall a c t1 ti, t1 <> 0 -> c <> 1 -> molli_code a c t1 ti = molli_doc a c t1 ti.
Proof. exact molli_eq_doc. Qed.
Print Assumptions C17_model_eq_doc_molli.
Theorem C17_model_eq_paper_molli : forall a b t1 ti, a <> 0 -> t1 <> 0 -> b <> a ->
  molli_code a (b / a) t1 ti = molli_orig a b t1 ti.
Proof. exact molli_eq_orig. Qed.
Print Assumptions C17_model_eq_paper_molli.
(* the docstring prints a(1 - c)e^{..} (misplaced parenthesis); that literal reading is not what is computed *)
Theorem C17_molli_docstring_literal_refuted : exists a c t1 ti, t1 > 0 /\ molli_code a c t1 ti <> molli_docstring_literal a c t1 ti.
Proof. exact molli_docstring_literal_differs. Qed.
Print Assumptions C17_molli_docstring_literal_refuted.

(* transient steady state: M0s + (Minit - M0s) e^{-t/T1s} with T1s, M0s, Minit as in the docstring *)
Theorem C17_model_eq_doc_tss : forall m0 t1 fa delay scal tr t, 0 < t1 -> 0 < tr -> 0 < cos fa ->
  tss_code m0 t1 fa delay scal tr t = tss_doc m0 t1 fa delay scal tr t.
Proof. intros. apply tss_eq_doc; [lra|apply tss_domain; assumption]. Qed.
Print Assumptions C17_model_eq_doc_tss.

(* WASABI: the sinc form of the code = c - d (u^2/(u^2+v^2)) sin^2(pi tp sqrt(u^2+v^2)) for EVERY argument, and = the
   sin^2(atan(w1/dw)) sin^2(sqrt(w1^2+dw^2) tp/2) form of the paper off resonance *)
Theorem C17_model_eq_doc_wasabi : forall b0 rb1 c d b1n g off tp,
  wasabi_code b0 rb1 c d b1n g off tp = wasabi_doc b0 rb1 c d b1n g off tp.
Proof. exact wasabi_eq_doc. Qed.
Print Assumptions C17_model_eq_doc_wasabi.
Theorem C17_model_eq_paper_wasabi : forall b0 rb1 c d b1n g off tp, off <> b0 ->
  wasabi_code b0 rb1 c d b1n g off tp = wasabi_paper b0 rb1 c d b1n g off tp.
Proof. exact wasabi_eq_paper. Qed.
Print Assumptions C17_model_eq_paper_wasabi.
Theorem C17_model_eq_doc_wasabiti : forall b0 rb1 t1 b1n g off tp trec,
  wasabiti_code b0 rb1 t1 b1n g off tp trec = wasabiti_doc b0 rb1 t1 b1n g off tp trec.
Proof. exact wasabiti_eq_doc. Qed.
Print Assumptions C17_model_eq_doc_wasabiti.

(* ================= derivatives ================================================================================= *)
Theorem C17_derivatives_ir : forall m0 t1 ti, t1 <> 0 ->
  is_derive (fun x => ir_code x t1 ti) m0 (ir_d_m0 m0 t1 ti) /\ is_derive (fun x => ir_code m0 x ti) t1 (ir_d_t1 m0 t1 ti).
Proof. intros. split; [apply ir_derive_m0|apply ir_derive_t1; assumption]. Qed.
Print Assumptions C17_derivatives_ir.
Theorem C17_derivatives_sr : forall m0 t1 ti, t1 <> 0 ->
  is_derive (fun x => sr_code x t1 ti) m0 (sr_d_m0 m0 t1 ti) /\ is_derive (fun x => sr_code m0 x ti) t1 (sr_d_t1 m0 t1 ti).
Proof. intros. split; [apply sr_derive_m0|apply sr_derive_t1; assumption]. Qed.
Print Assumptions C17_derivatives_sr.
Theorem C17_derivatives_mono : forall m0 tc t, tc <> 0 ->
  is_derive (fun x => mono_code x tc t) m0 (mono_d_m0 m0 tc t) /\ is_derive (fun x => mono_code m0 x t) tc (mono_d_tc m0 tc t).
Proof. intros. split; [apply mono_derive_m0|apply mono_derive_tc; assumption]. Qed.
Print Assumptions C17_derivatives_mono.
Theorem C17_derivatives_molli : forall a c t1 ti, t1 <> 0 ->
  is_derive (fun x => molli_code x c t1 ti) a (molli_d_a a c t1 ti) /\
  is_derive (fun x => molli_code a x t1 ti) c (molli_d_c a c t1 ti) /\
  is_derive (fun x => molli_code a c x ti) t1 (molli_d_t1 a c t1 ti).
Proof. intros. split; [|split]; [apply molli_derive_a|apply molli_derive_c|apply molli_derive_t1]; assumption. Qed.
Print Assumptions C17_derivatives_molli.
Theorem C17_derivatives_tss : forall m0 t1 fa delay scal tr t, 0 < t1 -> 0 < tr -> 0 < cos fa ->
  is_derive (fun x => tss_code x t1 fa delay scal tr t) m0 (tss_d_m0 m0 t1 fa delay scal tr t) /\
  is_derive (fun x => tss_code m0 x fa delay scal tr t) t1 (tss_d_t1 m0 t1 fa delay scal tr t) /\
  is_derive (fun x => tss_code m0 t1 x delay scal tr t) fa (tss_d_fa m0 t1 fa delay scal tr t).
Proof.
  intros m0 t1 fa delay scal tr t Ht Htr Hc. pose proof (tss_den_domain t1 fa tr Ht Htr Hc) as Hd.
  split; [|split]; [apply tss_derive_m0|apply tss_derive_t1|apply tss_derive_fa]; try assumption; lra.
Qed.
Print Assumptions C17_derivatives_tss.
(* WASABI / WASABITI: all parameters; for d/d b0_shift under B1 <> 0 and for d/d relative_b1 off resonance (there the sinc
   argument stays away from 0 along the whole line, so the code is the sin(pi w)/(pi w) expression as a function of that
   parameter).  _partial: d/d relative_b1 exactly on resonance (offset = b0_shift) is not covered. *)
Theorem C17_derivatives_wasabi_partial : forall b0 rb1 c d b1n g off tp, tp <> 0 ->
  is_derive (fun x => wasabi_code b0 rb1 x d b1n g off tp) c (wasabi_d_c b0 rb1 c d b1n g off tp) /\
  is_derive (fun x => wasabi_code b0 rb1 c x b1n g off tp) d (wasabi_d_d b0 rb1 c d b1n g off tp) /\
  (b1n * rb1 * g <> 0 -> is_derive (fun x => wasabi_code x rb1 c d b1n g off tp) b0 (wasabi_d_b0 b0 rb1 c d b1n g off tp)) /\
  (off - b0 <> 0 -> is_derive (fun x => wasabi_code b0 x c d b1n g off tp) rb1 (wasabi_d_rb1 b0 rb1 c d b1n g off tp)).
Proof.
  intros. split; [apply wasabi_derive_c|]. split; [apply wasabi_derive_d|].
  split; intro; [apply wasabi_derive_b0|apply wasabi_derive_rb1]; assumption.
Qed.
Print Assumptions C17_derivatives_wasabi_partial.
Theorem C17_derivatives_wasabiti_partial : forall b0 rb1 t1 b1n g off tp trec, t1 <> 0 -> tp <> 0 ->
  is_derive (fun x => wasabiti_code b0 rb1 x b1n g off tp trec) t1 (wasabiti_d_t1 b0 rb1 t1 b1n g off tp trec) /\
  (b1n * rb1 * g <> 0 -> is_derive (fun x => wasabiti_code x rb1 t1 b1n g off tp trec) b0 (wasabiti_d_b0 b0 rb1 t1 b1n g off tp trec)) /\
  (off - b0 <> 0 -> is_derive (fun x => wasabiti_code b0 x t1 b1n g off tp trec) rb1 (wasabiti_d_rb1 b0 rb1 t1 b1n g off tp trec)).
Proof.
  intros. split; [apply wasabiti_derive_t1; assumption|].
  split; intro; [apply wasabiti_derive_b0|apply wasabiti_derive_rb1]; assumption.
Qed.
Print Assumptions C17_derivatives_wasabiti_partial.

(* ================= shapes ======================================================================================== *)
(* time-like axis first; the rest is the broadcast of the trailing dims of the time tensor (padded on the right with ones,
   i.e. aligned with the LEADING parameter dims) with the parameter shape; for any number of dims *)
Theorem C17_shape : forall T ts ps, (length ts <= length ps)%nat ->
  model_out_shape (T :: ts) ps = option_map (cons T) (bc_aligned (unsqueeze_right ts (length ps - length ts)) ps).
Proof. exact model_out_shape_time_first. Qed.
Print Assumptions C17_shape.
Theorem C17_shape_vector_time : forall T ps, model_out_shape [T] ps = Some (T :: ps).
Proof. exact model_out_shape_vector_time. Qed.
Print Assumptions C17_shape_vector_time.
Theorem C17_shape_rank : forall T ts ps r, (length ts <= length ps)%nat ->
  model_out_shape (T :: ts) ps = Some r -> exists r', r = T :: r' /\ length r' = length ps.
Proof. exact model_out_shape_rank. Qed.
Print Assumptions C17_shape_rank.
Theorem C17_shape_seqparam : forall ss ps, (length ss <= length ps)%nat ->
  length (seqparam_shape ss ps) = length ps /\ forall i, nth i (seqparam_shape ss ps) 1%nat = nth i ss 1%nat.
Proof. exact seqparam_shape_spec. Qed.
Print Assumptions C17_shape_seqparam.

(* non-vacuity *)
Example C17_shape_example : model_out_shape [5; 2]%nat [2; 1; 4; 4]%nat = Some [5; 2; 1; 4; 4]%nat.
Proof. reflexivity. Qed.
Example C17_shape_example_mismatch : model_out_shape [5; 3]%nat [2; 1; 4; 4]%nat = None.
Proof. reflexivity. Qed.
Example C17_branch_example : constraint_fwd XNegInf XPosInf 1 1 0 = NonReal /\ constraint_fwd XNone XNone 1 1 0 = Ok 0.
Proof. split; reflexivity. Qed.

(* ---- the shape computation as the implementation does it (rank taken from the FIRST parameter) ---- *)
Theorem C17_shape_impl_partial : forall T ts p0 pbc, length p0 = length pbc ->
  model_shape_impl (T :: ts) p0 pbc [] = match model_out_shape (T :: ts) pbc with Some r => ShapeOk r | None => BroadcastError end.
Proof. exact model_shape_impl_documented. Qed.
Print Assumptions C17_shape_impl_partial.
Theorem C17_shape_impl_seqparam_partial : forall tshape p0 pbc ss, length p0 = length pbc ->
  model_shape_impl tshape p0 pbc [ss] =
  match model_out_shape tshape pbc with
  | Some r => match broadcast r (seqparam_shape ss pbc) with Some r' => ShapeOk r' | None => BroadcastError end
  | None => BroadcastError
  end.
Proof. exact model_shape_impl_seqparam. Qed.
Print Assumptions C17_shape_impl_seqparam_partial.
(* a first parameter of lower rank than another one (scalar m0, t1 map): the time axis is not put first - silently when the
   sizes happen to match, with a broadcasting error otherwise (finding KF-C17-2) *)
Theorem C17_shape_first_param_rank_refuted :
  model_shape_impl [2]%nat [] [2; 2]%nat [] = ShapeOk [2; 2]%nat /\ model_out_shape [2]%nat [2; 2]%nat = Some [2; 2; 2]%nat
  /\ model_shape_impl [3]%nat [] [2; 2]%nat [] = BroadcastError /\ model_out_shape [3]%nat [2; 2]%nat = Some [3; 2; 2]%nat.
Proof. exact shape_first_param_rank_counterexample. Qed.
Print Assumptions C17_shape_first_param_rank_refuted.
(* 0-dim parameters with 0-dim sequence parameters (unsqueeze_right(x, 0) of a 0-dim tensor, repaired in /repo): shape (T) *)
Example C17_shape_scalar_seqparam : model_shape_impl [4]%nat [] [] [[]; []; []] = ShapeOk [4]%nat.
Proof. reflexivity. Qed.
