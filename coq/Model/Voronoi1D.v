(* Model of mrpro.algorithms.dcf.dcf_voronoi.dcf_1d (exact, executable over Q).

   python:  traj_sorted, inverse, counts = torch.unique(round(traj, 15), sorted=True, return_inverse, return_counts)
            >= 3 values: cat(first, conv1d(traj_sorted, [-1/2, 0, 1/2]), last);  2 values: (diff, diff);  1 value: ones
            dcf = nan_to_num(central_diff / counts)[inverse]
   Rounding to 15 decimals is the identity on the dyadic inputs used by the harness (and exact arithmetic has no
   near-duplicates), nan_to_num is the identity because counts >= 1.

   Second half: the neighbour characterisation (weight of a value in a finite multiset through its nearest lower /
   upper neighbour); Proofs/Voronoi1DProofs.v shows that the code-shaped computation equals it. *)
From Coq Require Import QArith Qminmax List.
Import ListNotations.
Open Scope Q_scope.

(* ---- torch.unique(sorted=True): strictly increasing list of the distinct values ---- *)
Fixpoint uinsert (x : Q) (l : list Q) : list Q :=
  match l with
  | [] => [x]
  | y :: r => match x ?= y with
              | Lt => x :: l
              | Eq => l
              | Gt => y :: uinsert x r
              end
  end.
Definition unique (l : list Q) : list Q := fold_right uinsert [] l.

(* counts: number of samples equal to a value *)
Fixpoint count (x : Q) (l : list Q) : nat :=
  match l with [] => O | y :: r => if Qeq_bool x y then S (count x r) else count x r end.
Definition qnat (n : nat) : Q := inject_Z (Z.of_nat n).

(* inverse: position of a sample in the sorted distinct values *)
Fixpoint index (x : Q) (u : list Q) : nat :=
  match u with [] => O | y :: r => if Qeq_bool x y then O else S (index x r) end.

(* conv1d with kernel (-1/2, 0, 1/2), 'valid' *)
Fixpoint conv3 (u : list Q) : list Q :=
  match u with
  | a :: r => match r with
              | _ :: c :: _ => ((-1 # 2) * a + (1 # 2) * c) :: conv3 r
              | _ => []
              end
  | [] => []
  end.

Definition central_diff (u : list Q) : list Q :=
  match u with
  | [] => []
  | [_] => [1]
  | [a; b] => [b - a; b - a]
  | a :: b :: _ =>
      let n := length u in
      (b - a) :: conv3 u ++ [nth (n - 1) u 0 - nth (n - 2) u 0]
  end.

Fixpoint map2 {A B C} (f : A -> B -> C) (l : list A) (m : list B) : list C :=
  match l, m with a :: l', b :: m' => f a b :: map2 f l' m' | _, _ => [] end.

Definition dcf_1d (traj : list Q) : list Q :=
  let u := unique traj in
  let cnt := map (fun s => qnat (count s traj)) u in
  let w := map2 Qdiv (central_diff u) cnt in
  map (fun x => nth (index x u) w 0) traj.

(* ---- neighbour characterisation ---- *)
Definition Qlt_bool (a b : Q) : bool := negb (Qle_bool b a).

(* max {s in l | s < x} *)
Fixpoint lower (l : list Q) (x : Q) : option Q :=
  match l with
  | [] => None
  | s :: r => if Qlt_bool s x
              then match lower r x with None => Some s | Some a => Some (Qmax s a) end
              else lower r x
  end.
(* min {s in l | x < s} *)
Fixpoint upper (l : list Q) (x : Q) : option Q :=
  match l with
  | [] => None
  | s :: r => if Qlt_bool x s
              then match upper r x with None => Some s | Some a => Some (Qmin s a) end
              else upper r x
  end.

(* length assigned to the value x among the values of l: the Voronoi cell [(a+x)/2, (x+b)/2] for an interior value,
   twice the half cell at the two ends (edge rule of the code), 1 for a single value *)
Definition cell_len (l : list Q) (x : Q) : Q :=
  match lower l x, upper l x with
  | Some a, Some b => (b - a) / 2
  | None, Some b => b - x
  | Some a, None => x - a
  | None, None => 1
  end.

Definition weight (l : list Q) (x : Q) : Q := cell_len l x / qnat (count x l).

(* 1-D Voronoi cell as a set: y is at least as close to p as to any sample *)
Definition cell1 (l : list Q) (p y : Q) : Prop := forall q, In q l -> (y - p) * (y - p) <= (y - q) * (y - q).
