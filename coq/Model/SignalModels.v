(* C17 - signal models of mrpro.operators.models over the reals (definitions only).
   X_code  : the expression the forward() of the class evaluates per element (kept syntactically close to the source; tied to
             the source by Gen/models_gen.v and by per-case `interval` lemmas against the implementation's float64 output);
   X_doc   : the documented closed form (class docstring / cited paper);
   X_d_p   : the analytic partial derivative w.r.t. parameter p (compared with autograd).
   Shape model: shapes are lists of nat; unsqueeze_right / unsqueeze_left / torch broadcasting. *)
From Coq Require Import Reals List Arith.
Import ListNotations.
Open Scope R_scope.

(* torch.sinc: sin(pi x)/(pi x), 1 at 0 *)
Definition sinc (x : R) : R := if Req_EM_T x 0 then 1 else sin (PI * x) / (PI * x).

(* ---- InversionRecovery / SaturationRecovery / MonoExponentialDecay ------------------------------------------------ *)
Definition ir_code (m0 t1 ti : R) : R := m0 * (1 - 2 * exp (- (ti / t1))).
Definition ir_doc (m0 t1 ti : R) : R := m0 - 2 * m0 * exp (- ti * / t1).           (* M0 (1 - 2 e^{-TI/T1}) *)
Definition ir_d_m0 (m0 t1 ti : R) : R := 1 - 2 * exp (- (ti / t1)).
Definition ir_d_t1 (m0 t1 ti : R) : R := - (2 * m0 * ti * exp (- (ti / t1))) / (t1 * t1).

Definition sr_code (m0 t1 ti : R) : R := m0 * (1 - exp (- (ti / t1))).
Definition sr_doc (m0 t1 ti : R) : R := m0 - m0 * exp (- ti * / t1).               (* M0 (1 - e^{-TI/T1}) *)
Definition sr_d_m0 (m0 t1 ti : R) : R := 1 - exp (- (ti / t1)).
Definition sr_d_t1 (m0 t1 ti : R) : R := - (m0 * ti * exp (- (ti / t1))) / (t1 * t1).

Definition mono_code (m0 tc t : R) : R := m0 * exp (- (t / tc)).
Definition mono_doc (m0 tc t : R) : R := m0 * exp (- t * / tc).                    (* M0 e^{-t/T} *)
Definition mono_d_m0 (m0 tc t : R) : R := exp (- (t / tc)).
Definition mono_d_tc (m0 tc t : R) : R := m0 * t * exp (- (t / tc)) / (tc * tc).

(* ---- MOLLI ------------------------------------------------------------------------------------------------- *)
Definition molli_code (a c t1 ti : R) : R := a * (1 - c * exp (ti / t1 * (1 - c))).
(* Messroghli 2004: a - b e^{-t/T1s},  T1s = T1 / (b/a - 1);   mrpro's parametrisation: c = b/a *)
Definition molli_orig (a b t1 ti : R) : R := a - b * exp (- ti / (t1 / (b / a - 1))).
Definition molli_doc (a c t1 ti : R) : R := a * (1 - c * exp (- ti / (t1 / (c - 1)))).
(* the formula as literally printed in the class docstring, a(1 - c)e^{-t/T1s}: a misplaced parenthesis *)
Definition molli_docstring_literal (a c t1 ti : R) : R := a * (1 - c) * exp (- ti / (t1 / (c - 1))).
Definition molli_d_a (a c t1 ti : R) : R := 1 - c * exp (ti / t1 * (1 - c)).
Definition molli_d_c (a c t1 ti : R) : R := - a * exp (ti / t1 * (1 - c)) * (1 - c * ti / t1).
Definition molli_d_t1 (a c t1 ti : R) : R := a * c * (1 - c) * ti * exp (ti / t1 * (1 - c)) / (t1 * t1).

(* ---- TransientSteadyStateWithPreparation ---------------------------------------------------------------------- *)
(* arguments: m0 t1 flip_angle; then the attributes delay_after_preparation, m0_scaling_preparation, repetition_time,
   sampling_time (alphabetical, as the translator orders them) *)
Definition tss_code (m0 t1 fa delay scal tr t : R) : R :=
  let m_start := m0 * scal in
  let m_start := m0 + (m_start - m0) * exp (- (delay / t1)) in
  let ln_cos_tr := ln (cos fa) / tr in
  let r1_star := 1 / t1 - ln_cos_tr in
  let m0_star := m0 / (1 - t1 * ln_cos_tr) in
  m0_star + (m_start - m0_star) * exp (- t * r1_star).
(* docstring: M0s + (Minit - M0s) e^{-t/T1s},  Minit = M0 + (s M0 - M0) e^{-dt/T1},  T1s = 1/(1/T1 - ln(cos a)/TR),
   M0s = M0 T1s/T1   (T1s, M0s: the starred quantities) *)
Definition tss_t1_star (t1 fa tr : R) : R := 1 / (1 / t1 - ln (cos fa) / tr).
Definition tss_doc (m0 t1 fa delay scal tr t : R) : R :=
  let t1s := tss_t1_star t1 fa tr in
  let m0s := m0 * t1s / t1 in
  let minit := m0 + (scal * m0 - m0) * exp (- delay / t1) in
  m0s + (minit - m0s) * exp (- t / t1s).
Definition tss_d_m0 (m0 t1 fa delay scal tr t : R) : R :=
  let l := ln (cos fa) / tr in
  let e := exp (- t * (1 / t1 - l)) in
  / (1 - t1 * l) * (1 - e) + (1 + (scal - 1) * exp (- (delay / t1))) * e.
Definition tss_d_t1 (m0 t1 fa delay scal tr t : R) : R :=
  let l := ln (cos fa) / tr in
  let e := exp (- t * (1 / t1 - l)) in
  let ms := m0 + (m0 * scal - m0) * exp (- (delay / t1)) in
  let m0s := m0 / (1 - t1 * l) in
  let dm0s := m0 * l / ((1 - t1 * l) * (1 - t1 * l)) in
  let dms := (m0 * scal - m0) * exp (- (delay / t1)) * (delay / (t1 * t1)) in
  dm0s + (dms - dm0s) * e + (ms - m0s) * e * (t / (t1 * t1)).
Definition tss_d_fa (m0 t1 fa delay scal tr t : R) : R :=
  let l := ln (cos fa) / tr in
  let dl := - sin fa / cos fa / tr in
  let e := exp (- t * (1 / t1 - l)) in
  let ms := m0 + (m0 * scal - m0) * exp (- (delay / t1)) in
  let m0s := m0 / (1 - t1 * l) in
  let dm0s := m0 * t1 * dl / ((1 - t1 * l) * (1 - t1 * l)) in
  dm0s - dm0s * e + (ms - m0s) * e * (t * dl).

(* ---- WASABI / WASABITI ----------------------------------------------------------------------------------------- *)
(* arguments: forward parameters, then the attributes used by forward in alphabetical order (b1_nom gamma offsets tp) *)
Definition wasabi_code (b0_shift relative_b1 c d b1_nom gamma offsets tp : R) : R :=
  let delta_x := offsets - b0_shift in
  let b1 := b1_nom * relative_b1 in
  c - d * (PI * b1 * gamma * tp) ^ 2 * sinc (tp * sqrt ((b1 * gamma) ^ 2 + delta_x ^ 2)) ^ 2.
(* Schuenke & Zaiss 2016, eq. for Z(dw) (without the modulus):
   c - d sin^2(atan(w1/dw)) sin^2(sqrt(w1^2 + dw^2) tp / 2),  w1 = 2 pi gamma B1,  dw = 2 pi (offset - b0_shift) *)
Definition wasabi_paper (b0_shift relative_b1 c d b1_nom gamma offsets tp : R) : R :=
  let w1 := 2 * PI * (gamma * (b1_nom * relative_b1)) in
  let dw := 2 * PI * (offsets - b0_shift) in
  c - d * sin (atan (w1 / dw)) ^ 2 * sin (sqrt (w1 ^ 2 + dw ^ 2) * tp / 2) ^ 2.
(* the same with sin^2(atan(u/v)) written as u^2/(u^2+v^2) (also valid on resonance, dw = 0) *)
Definition wasabi_doc (b0_shift relative_b1 c d b1_nom gamma offsets tp : R) : R :=
  let u := gamma * (b1_nom * relative_b1) in
  let v := offsets - b0_shift in
  c - d * (u ^ 2 / (u ^ 2 + v ^ 2)) * sin (PI * tp * sqrt (u ^ 2 + v ^ 2)) ^ 2.
(* the code's expression with sinc unfolded away from its removable singularity (used by the per-case lemmas) *)
Definition wasabi_nz (b0_shift relative_b1 c d b1_nom gamma offsets tp : R) : R :=
  let delta_x := offsets - b0_shift in
  let b1 := b1_nom * relative_b1 in
  let w := tp * sqrt ((b1 * gamma) ^ 2 + delta_x ^ 2) in
  c - d * (PI * b1 * gamma * tp) ^ 2 * (sin (PI * w) / (PI * w)) ^ 2.
Definition wasabi_d_c (b0_shift relative_b1 c d b1_nom gamma offsets tp : R) : R := 1.
Definition wasabi_d_d (b0_shift relative_b1 c d b1_nom gamma offsets tp : R) : R :=
  let delta_x := offsets - b0_shift in
  let b1 := b1_nom * relative_b1 in
  - ((PI * b1 * gamma * tp) ^ 2 * sinc (tp * sqrt ((b1 * gamma) ^ 2 + delta_x ^ 2)) ^ 2).
(* d/d b0_shift and d/d relative_b1 of wasabi_nz (valid where the sinc argument is not 0) *)
Definition wasabi_d_b0 (b0_shift relative_b1 c d b1_nom gamma offsets tp : R) : R :=
  let v := offsets - b0_shift in
  let u := b1_nom * relative_b1 * gamma in
  let s := sqrt (u ^ 2 + v ^ 2) in
  let w := tp * s in
  let q := sin (PI * w) / (PI * w) in
  let dq := (cos (PI * w) * (PI * w) - sin (PI * w)) / (PI * w * w) in     (* d/dw of sin(pi w)/(pi w) *)
  - d * (PI * u * tp) ^ 2 * (2 * q * dq * (tp * (- v / s))).
Definition wasabi_d_rb1 (b0_shift relative_b1 c d b1_nom gamma offsets tp : R) : R :=
  let v := offsets - b0_shift in
  let u := b1_nom * relative_b1 * gamma in
  let du := b1_nom * gamma in
  let s := sqrt (u ^ 2 + v ^ 2) in
  let w := tp * s in
  let q := sin (PI * w) / (PI * w) in
  let dq := (cos (PI * w) * (PI * w) - sin (PI * w)) / (PI * w * w) in
  - d * (2 * (PI * u * tp) * (PI * du * tp) * q ^ 2 + (PI * u * tp) ^ 2 * (2 * q * dq * (tp * (u * du / s)))).

(* arguments: b0_shift rb1 t1; attributes b1_nom gamma offsets tp trec *)
Definition wasabiti_code (b0_shift rb1 t1 b1_nom gamma offsets tp trec : R) : R :=
  let b1 := b1_nom * rb1 in
  let da := offsets - b0_shift in
  let mz_initial := 1 - exp (- trec / t1) in
  mz_initial * (1 - 2 * (PI * b1 * gamma * tp) ^ 2 * sinc (tp * sqrt ((b1 * gamma) ^ 2 + da ^ 2)) ^ 2).
Definition wasabiti_nz (b0_shift rb1 t1 b1_nom gamma offsets tp trec : R) : R :=
  let b1 := b1_nom * rb1 in
  let da := offsets - b0_shift in
  let w := tp * sqrt ((b1 * gamma) ^ 2 + da ^ 2) in
  (1 - exp (- trec / t1)) * (1 - 2 * (PI * b1 * gamma * tp) ^ 2 * (sin (PI * w) / (PI * w)) ^ 2).
(* Schuenke et al. 2023: saturation recovery during trec times the WASABI line shape with c = 1, d = 2 *)
Definition wasabiti_doc (b0_shift rb1 t1 b1_nom gamma offsets tp trec : R) : R :=
  sr_doc 1 t1 trec * wasabi_doc b0_shift rb1 1 2 b1_nom gamma offsets tp.
Definition wasabiti_d_t1 (b0_shift rb1 t1 b1_nom gamma offsets tp trec : R) : R :=
  let b1 := b1_nom * rb1 in
  let da := offsets - b0_shift in
  - (exp (- trec / t1) * (trec / (t1 * t1)))
  * (1 - 2 * (PI * b1 * gamma * tp) ^ 2 * sinc (tp * sqrt ((b1 * gamma) ^ 2 + da ^ 2)) ^ 2).

(* d/d b0_shift and d/d rb1: the saturation-recovery factor times the WASABI line-shape derivative with c = 1, d = 2 *)
Definition wasabiti_d_b0 (b0_shift rb1 t1 b1_nom gamma offsets tp trec : R) : R :=
  sr_code 1 t1 trec * wasabi_d_b0 b0_shift rb1 1 2 b1_nom gamma offsets tp.
Definition wasabiti_d_rb1 (b0_shift rb1 t1 b1_nom gamma offsets tp trec : R) : R :=
  sr_code 1 t1 trec * wasabi_d_rb1 b0_shift rb1 1 2 b1_nom gamma offsets tp.

(* ---- shapes -------------------------------------------------------------------------------------------------- *)
(* mrpro.utils.reshape.unsqueeze_right / unsqueeze_left: reshape to shape + n ones / n ones + shape;
   a negative n gives an empty tuple of ones in Python, which is what truncated subtraction on nat gives at the call sites *)
Definition unsqueeze_right (s : list nat) (n : nat) : list nat := s ++ repeat 1%nat n.
Definition unsqueeze_left (s : list nat) (n : nat) : list nat := repeat 1%nat n ++ s.

(* torch broadcasting of two shapes: right-aligned, sizes equal or one of them 1 *)
Definition bc_dim (a b : nat) : option nat :=
  if Nat.eqb a b then Some a else if Nat.eqb a 1 then Some b else if Nat.eqb b 1 then Some a else None.
Fixpoint bc_aligned (a b : list nat) : option (list nat) :=
  match a, b with
  | [], [] => Some []
  | x :: a', y :: b' =>
      match bc_dim x y, bc_aligned a' b' with Some d, Some r => Some (d :: r) | _, _ => None end
  | _, _ => None
  end.
Definition broadcast (a b : list nat) : option (list nat) :=
  let n := Nat.max (length a) (length b) in
  bc_aligned (unsqueeze_left a (n - length a)) (unsqueeze_left b (n - length b)).

(* shape of the output of a model whose time-like vector has shape tshape = (T, ...) and whose (already mutually broadcast)
   parameters have shape pshape: ti = unsqueeze_right(self.ti, m0.ndim - (self.ti.ndim - 1)); then broadcasting *)
Definition model_out_shape (tshape pshape : list nat) : option (list nat) :=
  broadcast (unsqueeze_right tshape (length pshape - (length tshape - 1))) pshape.
(* a per-voxel sequence parameter without time axis: unsqueeze_right(self.p, m0.ndim - self.p.ndim) *)
Definition seqparam_shape (sshape pshape : list nat) : list nat :=
  unsqueeze_right sshape (length pshape - length sshape).

(* ---- shapes as the implementation computes them ---------------------------------------------------------------- *)
(* unsqueeze_right = x.reshape(( *x.shape, *(n*(1,)) )) (one tuple argument; total, also for a 0-dim tensor with n = 0) *)
Fixpoint unsq_all (l : list (list nat)) (rank : nat) : list (list nat) :=
  match l with
  | [] => []
  | s :: r => unsqueeze_right s (rank - length s) :: unsq_all r rank
  end.
Inductive shape_res : Type := ShapeOk (s : list nat) | BroadcastError.
(* tshape: shape of the time-like tensor (non-empty); p0: shape of the FIRST forward parameter, whose rank the code uses for
   every unsqueeze_right count; pbc: broadcast shape of all forward parameters; seqs: shapes of the attributes that are
   unsqueezed without a time axis (transient steady state model: repetition_time, m0_scaling_preparation,
   delay_after_preparation; 0-dim when given as python floats) *)
Definition model_shape_impl (tshape p0 pbc : list nat) (seqs : list (list nat)) : shape_res :=
  match fold_left (fun acc s => match acc with Some a => broadcast a s | None => None end) (unsq_all seqs (length p0))
                  (broadcast (unsqueeze_right tshape (length p0 - (length tshape - 1))) pbc) with
  | Some r => ShapeOk r
  | None => BroadcastError
  end.
