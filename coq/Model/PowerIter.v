(* C19 - executable model of LinearOperator.operator_norm (power iteration, src/mrpro/operators/LinearOperator.py)
   and of the combination rule of LinearOperatorMatrix.operator_norm.

   One definition, polymorphic in the field; executed on exact rationals (Qc).  No square root is needed:
   the implementation keeps a normalised vector v = u/|u| and reports sqrt(<v, G v>), G = A^H A; the model keeps
   the pair (u, <u,u>) and reports the SQUARE of the estimate, q = <u, G u> / <u, u> (the same number, because
   v is normalised: initially (repaired code) and after every step).  The next vector G v/|G v| is represented
   by u' = G u, or by u itself when G u = 0 (repaired code: a start vector in the kernel is kept, the estimate stays 0).  The isclose test compares square roots; it enters as a boolean function [close q q_old] of the
   squared estimates (for Qc: evaluated with square roots rounded down to 2^-64, see [closeQ]; the harness
   skips cases within 1e-6 of the decision boundary).
   Batched use (dim = (-1,) on a stack of matrices): all problems advance in lockstep and the loop stops only
   when every problem is close (torch.isclose(...).all()).
   Vectors are lists with the zero-padded operations of Model/CG.v. *)
From Coq Require Import List Bool Arith ZArith.
Import ListNotations.
From MrVerif Require Import Model.CG.

Section PowerIter.
  Variable F : Type.
  Variables (f0 : F) (fadd fmul : F -> F -> F) (fdiv : F -> F -> F).
  Variable feqb : F -> F -> bool.
  Variable close : F -> F -> bool.  (* (atol > 0 or rtol > 0) and isclose(sqrt q, sqrt q_old, atol, rtol) *)

  Notation vec := (list F).
  Notation dot' := (dot F f0 fadd fmul).

  (* squared estimate: <v, G v> for v = u/|u|; 0/0 (u = 0: the normalisation divided by zero) is explicit *)
  Definition rq (G : vec -> vec) (u : vec) : option F := sdiv F f0 fdiv feqb (dot' u (G u)) (dot' u u).

  Fixpoint all_some {A} (l : list (option A)) : option (list A) :=
    match l with
    | [] => Some []
    | None :: _ => None
    | Some a :: l' => match all_some l' with None => None | Some r => Some (a :: r) end
    end.

  Fixpoint all_close (qs olds : list F) : bool :=
    match qs, olds with
    | q :: qs', o :: olds' => close q o && all_close qs' olds'
    | _, _ => true
    end.

  Record pstate := mkP { pu : list vec; pold : list F }.
  Inductive pres := PStop (est : list F) | PFail | PNext (est : list F) (st : pstate).

  Variable Gs : list (vec -> vec).   (* one operator A^H A per batch element *)

  (* vector = where(|G v| > 0, G v / |G v|, v): a vector in the kernel of the operator is kept (repaired code; before, 0/0 gave nan) *)
  Definition next_vec (G : vec -> vec) (u : vec) : vec := let w := G u in if feqb (dot' w w) f0 then u else w.
  Definition apply_all (us : list vec) : list vec := map (fun Gu => next_vec (fst Gu) (snd Gu)) (combine Gs us).

  (* one pass through the loop body *)
  Definition pstep (st : pstate) : pres :=
    match all_some (map (fun Gu => rq (fst Gu) (snd Gu)) (combine Gs (pu st))) with
    | None => PFail
    | Some qs =>
      if all_close qs (pold st) then PStop qs
      else PNext qs (mkP (apply_all (pu st)) qs)     (* vector = vector_new/|vector_new|; op_norm_old = op_norm; callback *)
    end.

  (* result: squared final estimate per batch element (None: nan), and the squared values given to the callback *)
  Fixpoint ploop (fuel : nat) (st : pstate) (last : list F) : option (list F) * list (list F) :=
    match fuel with
    | O => (Some last, [])
    | S fuel' =>
      match pstep st with
      | PFail => (None, [])
      | PStop qs => (Some qs, [])
      | PNext qs st' => let (r, t) := ploop fuel' st' qs in (r, qs :: t)
      end
    end.

  Inductive poutcome :=
  | PErrIter                          (* ValueError: max_iterations < 1 *)
  | PErrZero                          (* ValueError: zero start vector *)
  | PDiverged (trace : list (list F))
  | PDone (est2 : list F) (trace : list (list F)).

  Definition operator_norm_sq (v0s : list vec) (max_iterations : nat) : poutcome :=
    if Nat.eqb max_iterations 0 then PErrIter
    else if existsb (fun v => feqb (dot' v v) f0) v0s then PErrZero
    else match ploop max_iterations (mkP v0s (map (fun _ => f0) v0s)) [] with
         | (Some e, t) => PDone e t
         | (None, t) => PDiverged t
         end.

  (* LinearOperatorMatrix.operator_norm on the squares: norms.square().sum(-2) ... amax(-1); [n2] = rows of squared norms *)
  Variable fmax : F -> F -> F.
  Fixpoint col_sums (rows : list (list F)) : list F :=
    match rows with
    | [] => []
    | [r] => r
    | r :: rows' => vadd F fadd r (col_sums rows')
    end.
  Definition matrix_norm_sq (n2 : list (list F)) : F :=
    match col_sums n2 with [] => f0 | c :: cs => fold_left fmax cs c end.
End PowerIter.

Arguments PErrIter {F}. Arguments PErrZero {F}. Arguments PDiverged {F}. Arguments PDone {F}.
Arguments mkP {F}. Arguments pu {F}. Arguments pold {F}.

(* ---- executed instance ---- *)
From Coq Require Import QArith Qabs Qcanon.

(* sqrt rounded down to a multiple of 2^-64 *)
Definition sqrtQ (q : Q) : Q := (Z.sqrt ((Qnum q * 2 ^ 128) / Zpos (Qden q)) # (2 ^ 64))%Q.
Definition Qltb (a b : Q) : bool := if Qlt_le_dec a b then true else false.
Definition closeQ (atol rtol : Q) (q qold : Qc) : bool :=
  (Qltb 0 atol || Qltb 0 rtol) &&
  (let a := sqrtQ (this q) in let b := sqrtQ (this qold) in negb (Qltb (atol + rtol * b) (Qabs (a - b)))).

Definition Qc_max (a b : Qc) : Qc := if Qc_ltb a b then b else a.

Definition pnormQ (Ms : list (list (list Q))) (atol rtol : Q) (v0s : list (list Q)) (n : nat)
  : nat * list (Z * Z) * list (list (Z * Z)) :=
  let G M := fun u => matvec Qc (Q2Qc 0) Qcplus Qcmult (map qcs M) u in
  match operator_norm_sq Qc (Q2Qc 0) Qcplus Qcmult Qcdiv Qc_eq_bool (closeQ atol rtol) (map G Ms) (map qcs v0s) n with
  | PErrIter => (3%nat, [], [])
  | PErrZero => (2%nat, [], [])
  | PDiverged t => (1%nat, [], map qv t)
  | PDone e t => (0%nat, qv e, map qv t)
  end.

Definition matrix_normQ (n2 : list (list Q)) : Z * Z :=
  let r := matrix_norm_sq Qc (Q2Qc 0) Qcplus Qc_max (map qcs n2) in (Qnum (this r), Zpos (Qden (this r))).
