(* WaveletOp (src/mrpro/operators/WaveletOp.py) on top of ptwt.wavedec / ptwt.waverec with mode='zero'.
   One analysis level of ptwt (conv_transform.py): zero padding by L-2 on the left (and L-2, or L-1 for odd lengths, on
   the right), then torch conv1d (cross-correlation) with stride 2 and the *flipped* decomposition filters; one
   synthesis level: conv_transpose1d with stride 2 and the reconstruction filters (not flipped), then dropping L-2
   entries on the left and what exceeds the finer level's length on the right.
   Here  f k = dec[L-1-k]  (the flipped decomposition filter that conv1d sees)  and  g k = rec[k]. *)
From MrVerif Require Import Base.Prelude Base.StarRing Base.Sums Model.OpAlg Model.ZeroPad Model.ElemOps.
Local Open Scope nat_scope.

Section Wavelet.
  Variable R : StarRing.
  Local Open Scope K_scope.
  Notation vec := (nat -> R).
  Notation linop := (linop R).

  (* the zero-extended signal *)
  Definition zext (n : nat) (x : vec) (i : Z) : R :=
    if ((0 <=? i) && (i <? Z.of_nat n))%Z then x (Z.to_nat i) else k0.

  (* number of coefficients per band of one level: floor((n + L - 1) / 2)  (WaveletOp.__init__:
     ceil(n/2) + L//2 - 1 for the even filter lengths of pywt) *)
  Definition wlen (L n : nat) : nat := ((n + L - 1) / 2)%nat.

  (* conv1d(pad(x), f, stride=2):  out[j] = sum_k f[k] * xpad[2j + k],  xpad[i] = x[i - (L-2)] *)
  Definition analysis (L n : nat) (f : vec) (x : vec) : vec :=
    fun j => sum L (fun k => f k * zext n x (2 * Z.of_nat j + Z.of_nat k - (Z.of_nat L - 2))%Z).

  (* conv_transpose1d(c, g, stride=2)[i] = sum_{2j+k=i} g[k] c[j];  result[t] = that at i = t + (L-2) *)
  Definition synthesis (L m : nat) (g : vec) (c : vec) : vec :=
    fun t => sum m (fun j => sum L (fun k =>
      if (2 * Z.of_nat j + Z.of_nat k =? Z.of_nat t + (Z.of_nat L - 2))%Z then g k * c j else k0)).

  (* one band as an operator n -> m *)
  Definition band_op (L n m : nat) (f g : vec) : linop :=
    {| dom := n; ran := m; fwd := analysis L n f; adj := synthesis L m g |}.

  (* block diagonal of two operators (used to recurse on the approximation band and keep the detail band) *)
  Definition bdiag (A B : linop) : linop :=
    {| dom := dom A + dom B; ran := ran A + ran B;
       fwd := fun x i => if Nat.ltb i (ran A) then fwd A x i else fwd B (fun j => x (dom A + j)%nat) (i - ran A)%nat;
       adj := fun y j => if Nat.ltb j (dom A) then adj A y j else adj B (fun i => y (ran A + i)%nat) (j - dom A)%nat |}.

  (* one level: x -> [a ; d]  (torch.stack of the two filters, then split);  adjoint = sum of the two syntheses *)
  Definition dwt1 (L n : nat) (flo fhi glo ghi : vec) : linop :=
    vstack (band_op L n (wlen L n) flo glo) (band_op L n (wlen L n) fhi ghi).

  (* wavedec with `level` levels: result [a_level, d_level, ..., d_1] concatenated (WaveletOp._coeff_to_stacked_tensor);
     waverec undoes the levels from the coarsest one. *)
  Fixpoint wavedec_op (level : nat) (L n : nat) (flo fhi glo ghi : vec) : linop :=
    match level with
    | O => idop (R:=R) n
    | S l => comp (bdiag (wavedec_op l L (wlen L n) flo fhi glo ghi) (idop (R:=R) (wlen L n)))
                  (dwt1 L n flo fhi glo ghi)
    end.

  (* ---- two dimensions (ptwt.wavedec2 / waverec2: conv2d with the outer products of the filters = the 1-D transform along the last
          axis followed by the 1-D transform along the first; image flattened row-major (n1, n2)) ---- *)
  (* one band: filter pair (fa, ga) along the rows index (axis -2), (fb, gb) along the columns index (axis -1) *)
  Definition band2_op (L n1 n2 : nat) (fa ga fb gb : vec) : linop :=
    comp (along 1 (wlen L n2) (band_op L n1 (wlen L n1) fa ga)) (along n1 1 (band_op L n2 (wlen L n2) fb gb)).
  (* one level: [aa; ad; da; dd] = ptwt's (ll, (lh, hl, hh)) with lh = outer(hi, lo): hi along axis -2, lo along axis -1 *)
  Definition dwt2 (L n1 n2 : nat) (flo fhi glo ghi : vec) : linop :=
    vstack (band2_op L n1 n2 flo glo flo glo)
      (vstack (band2_op L n1 n2 fhi ghi flo glo)
        (vstack (band2_op L n1 n2 flo glo fhi ghi) (band2_op L n1 n2 fhi ghi fhi ghi))).
  Fixpoint wavedec2_op (level : nat) (L n1 n2 : nat) (flo fhi glo ghi : vec) : linop :=
    match level with
    | O => idop (R:=R) (n1 * (n2 * 1))
    | S l => let m1 := wlen L n1 in let m2 := wlen L n2 in
             comp (bdiag (wavedec2_op l L m1 m2 flo fhi glo ghi) (idop (R:=R) (1 * (m1 * m2) + (1 * (m1 * m2) + 1 * (m1 * m2)))))
                  (dwt2 L n1 n2 flo fhi glo ghi)
    end.

  (* ---- three dimensions (ptwt.wavedec3 / waverec3): the 1-D bank along the last, the middle and the first axis of a row-major
          (n1, n2, n3) volume; bands in the order aaa, aad, ada, add, daa, dad, dda, ddd (one letter per axis, first axis first), which is
          the order of WaveletOp._format_coeffs_3d / _undo_format_coeffs_3d ---- *)
  Definition band3_op (L n1 n2 n3 : nat) (fa ga fb gb fc gc : vec) : linop :=
    let m2 := wlen L n2 in let m3 := wlen L n3 in
    comp (along 1 (m2 * m3) (band_op L n1 (wlen L n1) fa ga))
      (comp (along n1 m3 (band_op L n2 m2 fb gb)) (along (n1 * n2) 1 (band_op L n3 m3 fc gc))).
  Definition dwt3 (L n1 n2 n3 : nat) (flo fhi glo ghi : vec) : linop :=
    let b (a1 a2 a3 : bool) := band3_op L n1 n2 n3 (if a1 then fhi else flo) (if a1 then ghi else glo) (if a2 then fhi else flo) (if a2 then ghi else glo)
                                           (if a3 then fhi else flo) (if a3 then ghi else glo) in
    vstack (b false false false) (vstack (b false false true) (vstack (b false true false) (vstack (b false true true)
      (vstack (b true false false) (vstack (b true false true) (vstack (b true true false) (b true true true))))))).
  Fixpoint wavedec3_op (level : nat) (L n1 n2 n3 : nat) (flo fhi glo ghi : vec) : linop :=
    match level with
    | O => idop (R:=R) ((n1 * n2) * (n3 * 1))
    | S l => let m1 := wlen L n1 in let m2 := wlen L n2 in let m3 := wlen L n3 in
             let e := (1 * (m1 * (m2 * m3)))%nat in
             comp (bdiag (wavedec3_op l L m1 m2 m3 flo fhi glo ghi) (idop (R:=R) (e + (e + (e + (e + (e + (e + e))))))))
                  (dwt3 L n1 n2 n3 flo fhi glo ghi)
    end.

  (* the filter-bank condition of orthogonal wavelets: rec = reversed (conjugated) dec, i.e. g = conj f *)
  Definition filters_match (L : nat) (f g : vec) : Prop := forall k, (k < L)%nat -> g k = kconj (f k).
End Wavelet.

Arguments zext {R}. Arguments analysis {R}. Arguments synthesis {R}. Arguments band_op {R}. Arguments bdiag {R}.
Arguments dwt1 {R}. Arguments wavedec_op {R}. Arguments filters_match {R}.
Arguments band2_op {R}. Arguments dwt2 {R}. Arguments wavedec2_op {R}.
Arguments band3_op {R}. Arguments dwt3 {R}. Arguments wavedec3_op {R}.

(* ---- executable helpers for the correspondence (filters as integer lists; pywt's float64 coefficients are dyadic
        rationals and are scaled to integers by the harness) ---- *)
Definition zvec (l : list Z) : nat -> Z := fun i => nth i l 0%Z.
Definition wavedec_Z (level L n : nat) (dec_lo dec_hi rec_lo rec_hi : list Z) : linop ZRing :=
  wavedec_op (R:=ZRing) level L n (zvec (rev dec_lo)) (zvec (rev dec_hi)) (zvec rec_lo) (zvec rec_hi).
Definition wavedec2_Z (level L n1 n2 : nat) (dec_lo dec_hi rec_lo rec_hi : list Z) : linop ZRing :=
  wavedec2_op (R:=ZRing) level L n1 n2 (zvec (rev dec_lo)) (zvec (rev dec_hi)) (zvec rec_lo) (zvec rec_hi).
Definition wavedec3_Z (level L n1 n2 n3 : nat) (dec_lo dec_hi rec_lo rec_hi : list Z) : linop ZRing :=
  wavedec3_op (R:=ZRing) level L n1 n2 n3 (zvec (rev dec_lo)) (zvec (rev dec_hi)) (zvec rec_lo) (zvec rec_hi).
Definition dense_fwd (A : linop ZRing) : list (list Z) :=
  map (fun j => map (fun i => fwd A (delta (R:=ZRing) j) i) (seq 0 (ran A))) (seq 0 (dom A)).
Definition dense_adj (A : linop ZRing) : list (list Z) :=
  map (fun i => map (fun j => adj A (delta (R:=ZRing) i) j) (seq 0 (dom A))) (seq 0 (ran A)).
Definition filters_match_b (dec rc : list Z) : bool :=
  (Nat.eqb (length dec) (length rc)) && forallb (fun k => Z.eqb (nth k rc 0%Z) (nth k (rev dec) 0%Z)) (seq 0 (length dec)).
