(* C17 - model of mrpro.operators.ConstraintsOp over the reals (definitions only).
   The four static transforms are the documented functions; `constraint_fwd` / `constraint_inv` mirror the branch structure
   of ConstraintsOp.forward / inverse as it is in the source (first matching branch of the if/elif chain), over bounds that are
   None, -inf, +inf or a finite real.  Tied to the source by Gen/constraints_gen.v (translator) and by per-case `interval`
   lemmas (harness/props/C17.py). *)
From Coq Require Import Reals List Bool.
Import ListNotations.
Open Scope R_scope.

(* F.sigmoid(beta x);  torch.logit(y)/beta;  -(1/beta) logsigmoid(-beta x);  y + log(-expm1(-beta y))/beta *)
Definition sigmoid (beta x : R) : R := 1 / (1 + exp (- (beta * x))).
Definition sigmoid_inverse (beta y : R) : R := ln (y / (1 - y)) / beta.
Definition softplus (beta x : R) : R := ln (1 + exp (beta * x)) / beta.
Definition softplus_inverse (beta y : R) : R := y + ln (1 - exp (- (beta * y))) / beta.

(* the documented per-element transformations for the three kinds of constrained intervals *)
Definition fwd_ab (a b beta x : R) : R := a + (b - a) * sigmoid beta x.
Definition inv_ab (a b beta y : R) : R := sigmoid_inverse beta ((y - a) / (b - a)).
Definition fwd_lo (a beta x : R) : R := a + softplus beta x.
Definition inv_lo (a beta y : R) : R := softplus_inverse beta (y - a).
Definition fwd_hi (b beta x : R) : R := b - softplus beta (- x).
Definition inv_hi (b beta y : R) : R := - softplus_inverse beta (- (y - b)).

(* a bound as the constructor accepts it: None, float('-inf'), float('inf') or a finite number *)
Inductive xbound : Type := XNone | XNegInf | XPosInf | XFin (r : R).
Definition is_none (b : xbound) : bool := match b with XNone => true | _ => false end.
Definition is_neginf (b : xbound) : bool := match b with XNegInf => true | _ => false end.
Definition is_posinf (b : xbound) : bool := match b with XPosInf => true | _ => false end.
Definition fin (b : xbound) : option R := match b with XFin r => Some r | _ => None end.

(* result of one element: a real number, arithmetic with a None / infinite bound (not a real number: +-inf, nan or a
   TypeError in the implementation), or no branch taken (the item would be dropped) *)
Inductive cres : Type := Ok (r : R) | NonReal | NoBranch.

Definition with1 (b : xbound) (f : R -> R) : cres := match fin b with Some v => Ok (f v) | None => NonReal end.
Definition with2 (lb ub : xbound) (f : R -> R -> R) : cres :=
  match fin lb, fin ub with Some a, Some b => Ok (f a b) | _, _ => NonReal end.

(* ConstraintsOp.forward, one (item, lb, ub) triple; bs = beta_sigmoid, bp = beta_softplus *)
Definition constraint_fwd (lb ub : xbound) (bs bp x : R) : cres :=
  if (negb (is_none lb) && negb (is_neginf lb)) && (negb (is_none ub) && negb (is_posinf ub))
  then with2 lb ub (fun a b => fwd_ab a b bs x)
  else if negb (is_none lb) && (is_none ub || is_posinf ub)
  then with1 lb (fun a => fwd_lo a bp x)
  else if (is_none lb || is_neginf lb) && negb (is_none ub)
  then with1 ub (fun b => fwd_hi b bp x)
  else if (is_none lb || is_neginf lb) && (is_none ub || is_posinf ub)
  then Ok x
  else NoBranch.

Definition constraint_inv (lb ub : xbound) (bs bp y : R) : cres :=
  if (negb (is_none lb) && negb (is_neginf lb)) && (negb (is_none ub) && negb (is_posinf ub))
  then with2 lb ub (fun a b => inv_ab a b bs y)
  else if negb (is_none lb) && (is_none ub || is_posinf ub)
  then with1 lb (fun a => inv_lo a bp y)
  else if (is_none lb || is_neginf lb) && negb (is_none ub)
  then with1 ub (fun b => inv_hi b bp y)
  else if (is_none lb || is_neginf lb) && (is_none ub || is_posinf ub)
  then Ok y
  else NoBranch.

(* what the documentation promises: None and the infinity of the matching sign both mean "not constrained on that side" *)
Definition unbounded_below (lb : xbound) : Prop := lb = XNone \/ lb = XNegInf.
Definition unbounded_above (ub : xbound) : Prop := ub = XNone \/ ub = XPosInf.
Definition documented_fwd (lb ub : xbound) (bs bp x : R) : cres :=
  match lb, ub with
  | XFin a, XFin b => Ok (fwd_ab a b bs x)
  | XFin a, (XNone | XPosInf) => Ok (fwd_lo a bp x)
  | (XNone | XNegInf), XFin b => Ok (fwd_hi b bp x)
  | (XNone | XNegInf), (XNone | XPosInf) => Ok x
  | _, _ => NonReal   (* empty intervals such as (+inf, _) or (_, -inf): outside the documentation *)
  end.

(* the tuple level: zip(x, lower_bounds, upper_bounds, strict=False), then the remaining inputs are appended unchanged *)
Fixpoint forward_list (bounds : list (xbound * xbound)) (bs bp : R) (xs : list R) : list cres :=
  match bounds, xs with
  | (lb, ub) :: bt, x :: xt => constraint_fwd lb ub bs bp x :: forward_list bt bs bp xt
  | _, _ => map Ok xs
  end.
Fixpoint inverse_list (bounds : list (xbound * xbound)) (bs bp : R) (ys : list R) : list cres :=
  match bounds, ys with
  | (lb, ub) :: bt, y :: yt => constraint_inv lb ub bs bp y :: inverse_list bt bs bp yt
  | _, _ => map Ok ys
  end.
