(* C08 - executable tensor layer (exact Gaussian rationals) of the mrpro functionals: broadcasting of weight / target /
   sigma to the shape of x, reduction over [dim] (python negative indices), divide_by_n, keepdim, sigma validation,
   ScaledProximableFunctional and ProximableFunctionalSeparableSum.  Definitions only; mirrors the Python source
   statement by statement (see Model/Functionals.v for the sources).
   Domain guard: weight, target and sigma broadcast *to the shape of x* (they do not enlarge it). *)
From Coq Require Import QArith Qabs Qminmax.
From MrVerif Require Import Base.Prelude Base.Tensor Model.Functionals.
Local Open Scope Q_scope.

(* a tensor: shape and row-major data; complex dtype flag kept separately where the code looks at it *)
Definition tens : Type := (list Z * list CQ)%type.

(* index of a broadcast operand: right-aligned, size-1 axes pinned to 0 *)
Fixpoint bidx (st idx : list Z) : list Z :=
  match st, idx with
  | s :: r, i :: ir => (if (s =? 1)%Z then 0%Z else i) :: bidx r ir
  | _, _ => []
  end.
Definition bget (sx : list Z) (t : tens) (idx : list Z) : CQ :=
  let k := (length sx - length (fst t))%nat in
  tget cq0 (fst t) (snd t) (bidx (fst t) (skipn k idx)).

(* ---- reduction ------------------------------------------------------------------------------------- *)
(* dim=None and an empty dim both reduce over all dimensions (torch.sum / torch.mean with dim=()) *)
Definition norm_dims (nd : Z) (dim : option (list Z)) : list Z :=
  match dim with None | Some [] => zrange nd | Some ds => map (fun d => (d mod nd)%Z) ds end.
Definition zmem (i : Z) (l : list Z) : bool := existsb (Z.eqb i) l.
Fixpoint mapi_from {A B} (k : Z) (f : Z -> A -> B) (l : list A) : list B :=
  match l with [] => [] | a :: r => f k a :: mapi_from (k + 1)%Z f r end.
Definition kshape (sx dims : list Z) : list Z := mapi_from 0%Z (fun i s => if zmem i dims then 1%Z else s) sx.
Definition rshape (sx dims : list Z) : list Z := mapi_from 0%Z (fun i s => if zmem i dims then s else 1%Z) sx.
Fixpoint dropi_from (k : Z) (dims sx : list Z) : list Z :=
  match sx with [] => [] | s :: r => if zmem k dims then dropi_from (k + 1)%Z dims r else s :: dropi_from (k + 1)%Z dims r end.
Definition outshape (sx dims : list Z) (keepdim : bool) : list Z := if keepdim then kshape sx dims else dropi_from 0%Z dims sx.
Definition qsum (l : list Q) : Q := fold_left (fun a b => Qred (a + b)) l 0.
Definition map2z (a b : list Z) : list Z := map (fun p => (fst p + snd p)%Z) (combine a b).
(* flat positions (in x) of the elements reduced into output position oflat *)
Definition red_indices (sx dims : list Z) (oflat : Z) : list Z :=
  let ks := kshape sx dims in let rs := rshape sx dims in
  let oi := unravel ks oflat in
  map (fun rflat => ravel sx (map2z oi (unravel rs rflat))) (zrange (numel rs)).
(* torch.sum(value, dim, keepdim): out[o] = sum over the reduced sub-box *)
Definition reduce_sum (sx dims : list Z) (vals : list Q) : list Q :=
  map (fun oflat => qsum (map (znth 0 vals) (red_indices sx dims oflat))) (zrange (numel (kshape sx dims))).
(* number of reduced elements (torch.mean) *)
Definition nred (sx dims : list Z) : Z := numel (rshape sx dims).
(* ElementaryFunctional._divide_by_n: math.prod(shape[i] for i in self.dim), python indexing; all elements when dim is None
   or (since the repair de813cf) empty.  nprox_legacy is the pre-repair reading, kept for the refutation. *)
Definition nprox_legacy (sx : list Z) (dim : option (list Z)) : Z :=
  match dim with
  | None => numel sx
  | Some ds => fold_right Z.mul 1%Z (map (fun d => znth 1%Z sx (d mod Z.of_nat (length sx))%Z) ds)
  end.
Definition nprox (sx : list Z) (dim : option (list Z)) : Z :=
  match dim with
  | None | Some [] => numel sx
  | Some ds => fold_right Z.mul 1%Z (map (fun d => znth 1%Z sx (d mod Z.of_nat (length sx))%Z) ds)
  end.

(* ---- elementary functionals ---------------------------------------------------------------------------- *)
Inductive fkind := KL1 | KL1R | KL2 | KZero.   (* MSE is KL2 with its own divide_by_n default *)
Record espec := { ek : fkind; ew : tens; ewc : bool; eb : tens; ebc : bool;
                  edim : option (list Z); edivn : bool; ekeep : bool }.

Definition qre (q : Q) : CQ := (q, 0).

(* value of one element of  phi(weight * (x - target))  before reduction *)
Definition elem_val (k : fkind) (wc dc : bool) (w b x : CQ) : Q :=
  match k with
  | KL1 => cqabs (cqmul w (cqsub x b))
  | KL2 => let a := cqmul w (cqsub x b) in cqnorm2 a          (* .abs().square() *)
  | KL1R => let d := cqsub x b in
            if dc then (if wc then Qred (Qabs (fst w * fst d) + Qabs (snd w * snd d))
                        else Qred (Qabs (fst w * fst d) + Qabs (fst w * snd d)))
            else Qred (Qabs (fst w * fst d))     (* real data: (self.weight.real * diff).abs() *)
  | KZero => 0
  end.

Definition elem_prox (k : fkind) (wc : bool) (n : Q) (w b : CQ) (sigma : Q) (x : CQ) : CQ :=
  match k with
  | KL1 => let d := cqsub x b in
           let thr := cqabs (cqscale (/ n) (cqscale sigma w)) in
           cqadd (cqscale (reluQ (cqabs d - thr)) (cqsgn d)) b
  | KL1R => let d := cqsub x b in
            let thr := cqscale (/ n) (cqscale sigma w) in
            let thr_im := if wc then snd thr else fst thr in
            cqadd (softQ (fst d) (Qabs (fst thr)), softQ (snd d) (Qabs thr_im)) b
  | KL2 => let c := cqscale (/ n) (cqscale (2 * sigma) (cqmul (cqconj w) w)) in
           cqdiv (cqadd x (cqmul c b)) (cqadd (qre 1) c)
  | KZero => x
  end.

Definition elem_pcc (k : fkind) (wc : bool) (n : Q) (w b : CQ) (sigma : Q) (x : CQ) : CQ :=
  match k with
  | KL1 => let d := cqsub x (cqscale sigma b) in
           let thr := Qabs (cqabs w / n) in
           cqscale (Qmin (cqabs d) thr) (cqsgn d)
  | KL2 => let ws := cqscale (/ n) (cqmul (cqconj w) w) in
           cqdiv (cqmul (cqscale 2 ws) (cqsub x (cqscale sigma b))) (cqadd (qre sigma) (cqscale 2 ws))
  | KZero => if Qeq_bool sigma 0 then x else cq0
  | KL1R => let s := tweakQ sigma in   (* generic fallback of ProximableFunctional *)
            cqsub x (cqscale s (elem_prox KL1R wc n w b (/ s) (cqscale (/ s) x)))
  end.

Definition sigma_ok (sg : tens) : bool := forallb (fun z => if Qlt_le_dec (fst z) 0 then false else true) (snd sg).

Definition nfacQ (divn : bool) (N : Z) : Q := if divn then inject_Z N else 1.

(* forward: value = phi(weight * (x - target)); torch.sum / torch.mean over dim *)
Definition e_forward (e : espec) (xc : bool) (x : tens) : tens :=
  let sx := fst x in
  let dims := norm_dims (Z.of_nat (length sx)) (edim e) in
  match ek e with
  | KZero => (outshape sx dims (ekeep e), map (fun _ => cq0) (zrange (numel (kshape sx dims))))
  | _ =>
    let vals := tbuild sx (fun idx => elem_val (ek e) (ewc e) (xc || ebc e) (bget sx (ew e) idx) (bget sx (eb e) idx) (tget cq0 sx (snd x) idx)) in
    let red := reduce_sum sx dims vals in
    let n := nfacQ (edivn e) (nred sx dims) in
    (outshape sx dims (ekeep e), map (fun v => qre (Qred (v / n))) red)
  end.

Definition e_pointwise (f : fkind -> bool -> Q -> CQ -> CQ -> Q -> CQ -> CQ) (e : espec) (x sg : tens) : option tens :=
  if sigma_ok sg then
    let sx := fst x in
    let n := nfacQ (edivn e) (nprox sx (edim e)) in
    Some (sx, tbuild sx (fun idx => f (ek e) (ewc e) n (bget sx (ew e) idx) (bget sx (eb e) idx) (fst (bget sx sg idx)) (tget cq0 sx (snd x) idx)))
  else None.   (* _throw_if_negative_or_complex -> ValueError *)
Definition e_prox := e_pointwise elem_prox.
Definition e_pcc := e_pointwise elem_pcc.

(* ---- scaled functionals (scalar scale) and separable sums --------------------------------------------------- *)
Inductive func := FElem (e : espec) | FScaled (a : Q) (f : func).

Definition tscale (a : Q) (t : tens) : tens := (fst t, map (cqscale a) (snd t)).

Fixpoint f_forward (f : func) (xc : bool) (x : tens) : tens :=
  match f with
  | FElem e => e_forward e xc x
  | FScaled a g => tscale a (f_forward g xc x)                    (* self.scale * self.functional(x)[0] *)
  end.

Fixpoint f_prox (f : func) (x sg : tens) : option tens :=
  match f with
  | FElem e => e_prox e x sg
  | FScaled a g => if Qlt_le_dec a 0 then None else f_prox g x (tscale a sg)     (* functional.prox(x, sigma * scale) *)
  end.

Fixpoint f_pcc (f : func) (x sg : tens) : option tens :=
  match f with
  | FElem e => e_pcc e x sg
  | FScaled a g => if Qlt_le_dec a 0 then None else
      match f_pcc g (tscale (/ a) x) (tscale (/ a) sg) with       (* scale * functional.prox_convex_conj(x/scale, sigma/scale) *)
      | Some r => Some (tscale a r) | None => None end
  end.

(* ProximableFunctionalSeparableSum *)
Definition tadd (a b : tens) : tens :=
  match fst a, fst b with
  | [], _ => (fst b, map (fun z => cqadd (hd cq0 (snd a)) z) (snd b))
  | _, [] => (fst a, map (fun z => cqadd z (hd cq0 (snd b))) (snd a))
  | _, _ => (fst a, map (fun p => cqadd (fst p) (snd p)) (combine (snd a) (snd b)))
  end.
Fixpoint s_forward (fs : list (func * bool * tens)) : option tens :=
  match fs with
  | [] => None
  | [(f, xc, x)] => Some (f_forward f xc x)
  | (f, xc, x) :: r => match s_forward r with Some t => Some (tadd (f_forward f xc x) t) | None => None end
  end.
Definition s_prox (fs : list (func * bool * tens)) (sg : tens) : list (option tens) :=
  map (fun p => f_prox (fst (fst p)) (snd p) sg) fs.
Definition s_pcc (fs : list (func * bool * tens)) (sg : tens) : list (option tens) :=
  map (fun p => f_pcc (fst (fst p)) (snd p) sg) fs.

(* ---- output for the harness: numerators / denominators as integers --------------------------------------- *)
Definition qout (q : Q) : Z * Z := let r := Qred q in (Qnum r, Zpos (Qden r)).
Definition tout (t : tens) : list Z * list ((Z * Z) * (Z * Z)) := (fst t, map (fun z => (qout (fst z), qout (snd z))) (snd t)).
Definition oout (o : option tens) := option_map tout o.
