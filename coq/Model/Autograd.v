(* Model of the autograd wiring of linear operators:
   - _AutogradWrapper (LinearOperator.__init_subclass__(adjoint_as_backward=True), used by FourierOp):
     forward(fw, bw, x) = fw x;  backward = _AutogradWrapper.apply(bw, fw, grad);  jvp = _AutogradWrapper.apply(fw, bw, tangent)
   - _MatrixMultiplication of SliceProjectionOp: real/complex branches of forward and backward with a separately stored
     adjoint matrix
   - AdjointGridSample: backward w.r.t. y is the forward grid sampler. *)
From MrVerif Require Import Base.Prelude Base.StarRing Base.Sums Model.OpAlg.
Local Open Scope nat_scope.

Section Wrapper.
  Variable R : StarRing.
  Notation vec := (nat -> R).

  (* a differentiable node: its function, its vector-Jacobian product and its Jacobian-vector product are nodes again *)
  (* the function computed by the k-th derivative node reached through backward: W(fw,bw) -> W(bw,fw) -> W(fw,bw) ... *)
  Fixpoint wrapper_vjp_fn (k : nat) (fw bw : vec -> vec) : vec -> vec :=
    match k with O => fw | S k' => wrapper_vjp_fn k' bw fw end.
  (* jvp never swaps: W(fw,bw).jvp = W(fw,bw) *)
  Fixpoint wrapper_jvp_fn (k : nat) (fw bw : vec -> vec) : vec -> vec :=
    match k with O => fw | S k' => wrapper_jvp_fn k' fw bw end.
  (* mixed histories of differentiation: true = backward (vjp), false = forward mode (jvp) *)
  Fixpoint wrapper_fn (h : list bool) (fw bw : vec -> vec) : vec -> vec :=
    match h with
    | [] => fw
    | true :: h' => wrapper_fn h' bw fw
    | false :: h' => wrapper_fn h' fw bw
    end.
End Wrapper.

(* complex numbers as pairs over a commutative ring, for the dtype branches of _MatrixMultiplication *)
Section ComplexPairs.
  Variable R : StarRing.
  Local Open Scope K_scope.
  Definition C2 := (R * R)%type.
  Definition cadd (a b : C2) : C2 := (fst a + fst b, snd a + snd b).
  Definition cmul (a b : C2) : C2 := (fst a * fst b - snd a * snd b, fst a * snd b + snd a * fst b).
  Definition cconj (a : C2) : C2 := (fst a, - snd a).
  Definition of_real (a : R) : C2 := (a, k0).
  Definition re (a : C2) : R := fst a.

  (* forward: one term matrix_entry * x_entry of `matrix @ x` in each dtype branch *)
  (* x complex, matrix complex:  matrix @ x *)
  Definition mm_fwd_cc (m x : C2) : C2 := cmul m x.
  (* x complex, matrix real:  torch.complex(matrix @ x.real, matrix @ x.imag) *)
  Definition mm_fwd_rc (m : R) (x : C2) : C2 := (m * fst x, m * snd x).
  (* x real, matrix complex:  torch.complex(matrix.real @ x, matrix.imag @ x) *)
  Definition mm_fwd_cr (m : C2) (x : R) : C2 := (fst m * x, snd m * x).
  (* backward, x complex: the three branches *)
  Definition mm_bwd_c_cc (ma g : C2) : C2 := cmul ma g.
  Definition mm_bwd_c_cr (ma : C2) (g : R) : C2 := (fst ma * g, snd ma * g).
  Definition mm_bwd_c_rc (ma : R) (g : C2) : C2 := (ma * fst g, ma * snd g).
  (* backward, x real: grad = ma.real @ g.real (- ma.imag @ g.imag if both complex) *)
  Definition mm_bwd_r_cc (ma g : C2) : R := fst ma * fst g - snd ma * snd g.
  Definition mm_bwd_r_rr (ma g : R) : R := ma * g.
  Definition mm_bwd_r_cr (ma : C2) (g : R) : R := fst ma * g.
  Definition mm_bwd_r_rc (ma : R) (g : C2) : R := ma * fst g.
End ComplexPairs.
Arguments wrapper_vjp_fn {R}. Arguments wrapper_jvp_fn {R}. Arguments wrapper_fn {R}.
