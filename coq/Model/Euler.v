(* Real-number part of the model of src/mrpro/data/Rotation.py (definitions only): the instance of the ring model on R,
   normalisation, polar form / rotation vectors (from_rotvec with sinc, as_rotvec), elementary rotations and from_euler. *)
From MrVerif Require Import Base.Prelude Base.StarRing Model.Rotation.
From Coq Require Import Reals.

Definition RRing : StarRing.
Proof.
  refine {| K := R; k0 := 0%R; k1 := 1%R; kadd := Rplus; kmul := Rmult; ksub := Rminus; kopp := Ropp;
            kconj := fun a => a; k_ring := RTheory |}; reflexivity.
Defined.
Definition Rltb (x y : R) : bool := if Rlt_dec x y then true else false.

Local Open Scope R_scope.
Notation quatR := (quat RRing). Notation vecR := (vec3 RRing). Notation matR := (mat3 RRing). Notation rotR := (rot RRing).

(* the per-element operations of the batch model on R *)
Definition r_elem : elem_op RRing -> rotR -> rotR := elem_apply RRing Rinv sqrt Rltb.
Definition r_normalize : quatR -> quatR := qnormalize RRing Rinv sqrt.
(* matrix-level counterparts: a (scaled) orthogonal matrix is normalised by the length of its first column *)
Definition mnormalize (m : matR) : matR := mscal RRing (/ sqrt (dot3 RRing (col RRing v0 m) (col RRing v0 m))) m.
Definition m_elem (k : elem_op RRing) (m : matR) : matR :=
  match k with
  | KNormalize => mnormalize m
  | KInvertAxes => mopp RRing (mnormalize m)
  | _ => m      (* reflect / component setters have no matrix-level counterpart; see RotationRealProofs *)
  end.

(* unit quaternion with axis u and HALF angle phi *)
Definition polar (u : vecR) (phi : R) : quatR := (sin phi * v0 u, sin phi * v1 u, sin phi * v2 u, cos phi).
(* from_rotvec: angle = |rv|; scale = sinc(angle/(2 pi))/2 = sin(angle/2)/angle (1/2 at angle 0) *)
Definition rotvec_scale (a : R) : R := if Req_EM_T a 0 then / 2 else sin (a / 2) / a.
Definition from_rotvec (rv : vecR) : quatR :=
  let a := sqrt (dot3 RRing rv rv) in
  let k := rotvec_scale a in (k * v0 rv, k * v1 rv, k * v2 rv, cos (a / 2)).
(* atan2 as the polar angle in (-pi, pi] of the point (x, y) (= torch.atan2(y, x) away from the origin) *)
Definition atan2 (y x : R) : R :=
  let r := sqrt (x * x + y * y) in if Rlt_dec y 0 then - acos (x / r) else acos (x / r).
Definition hypot (x y : R) : R := sqrt (x * x + y * y).
(* as_rotvec of a canonical (w >= 0) quaternion: angle = 2 atan2(|v|, w); rotvec = angle/sin(angle/2) * v
   (scale 2/sinc(angle/(2 pi)) in the code, i.e. 2 at angle 0) *)
Definition as_rotvec (q : quatR) : vecR :=
  let a := 2 * atan2 (sqrt (dot3 RRing (qvec RRing q) (qvec RRing q))) (q3 q) in
  let k := if Req_EM_T a 0 then 2 else a / sin (a / 2) in (k * q0 q, k * q1 q, k * q2 q).
(* __pow__ for an integer n outside the shortcuts: from_rotvec(n * rotvec) with the parity flag *)
Definition rpow_code (n : Z) (rv : vecR) (f : bool) : rotR := (from_rotvec (vscal RRing (IZR n) rv), pow_flag n f).

(* _make_elementary_quat / from_euler with s = sin(angle/2), c = cos(angle/2) (see elementary_sc / from_euler_sc) *)
Definition half_sc (t : R) : R * R := (sin (t / 2), cos (t / 2)).
Definition elementary (axis : nat) (angle : R) : quatR := elementary_sc RRing axis (sin (angle / 2)) (cos (angle / 2)).
Definition from_euler (intrinsic : bool) (axes : list nat) (angles : list R) : quatR :=
  from_euler_sc RRing intrinsic axes (map half_sc angles).
Definition deg2rad (x : R) : R := x * PI / 180.
(* the elementary rotation matrices about the stored axes 0,1,2 *)
Definition elem_matrix (axis : nat) (t : R) : matR :=
  match axis with
  | 0%nat => ((1, 0, 0), (0, cos t, - sin t), (0, sin t, cos t))
  | 1%nat => ((cos t, 0, sin t), (0, 1, 0), (- sin t, 0, cos t))
  | _ => ((cos t, - sin t, 0), (sin t, cos t, 0), (0, 0, 1))
  end.

(* _matrix_to_quaternion: candidate row i divided by 2 sqrt(pivot_i) (relu is the identity on the non-negative pivots of a rotation
   matrix; the code takes i = argmax of the pivots) *)
Definition nth_pivot (i : nat) (m : matR) : R :=
  let '(p0, p1, p2, p3) := m2q_pivots RRing m in match i with 0%nat => p0 | 1%nat => p1 | 2%nat => p2 | _ => p3 end.
Definition matrix_to_quat (i : nat) (m : matR) : quatR := qscal RRing (/ (2 * sqrt (nth_pivot i m))) (m2q_candidate RRing i m).
Definition nth_comp (i : nat) (q : quatR) : R := match i with 0%nat => q0 q | 1%nat => q1 q | 2%nat => q2 q | _ => q3 q end.

(* ---- as_euler: model of _quaternion_to_euler (Bernardes-Viollet) ---- *)
(* (q - r) * (r - s) * (s - q) // 2 : +1 for an even, -1 for an odd permutation of (0,1,2) *)
Definition perm_sign (q r s : nat) : R :=
  IZR ((Z.of_nat q - Z.of_nat r) * (Z.of_nat r - Z.of_nat s) * (Z.of_nat s - Z.of_nat q) / 2).
(* angles += (angles < -pi) * 2 pi; angles -= (angles > pi) * 2 pi *)
Definition wrap_angle (x : R) : R :=
  let x1 := if Rlt_dec x (- PI) then x + 2 * PI else x in if Rlt_dec PI x1 then x1 - 2 * PI else x1.
Definition gimbal_eps : R := / 10000000.
(* the quaternion with scalar part w and vector components vq, vr, vs at the stored positions q, r, s *)
Definition of_comps (q r s : nat) (w vq vr vs : R) : quatR :=
  set_comp RRing q vq (set_comp RRing r vr (set_comp RRing s vs (0, 0, 0, w))).
(* the intermediate quantities of the algorithm: (symmetric, sign, a, b, c, d) *)
Definition euler_abcd (quat : quatR) (q r s0 : nat) : bool * R * (R * R * R * R) :=
  let symmetric := Nat.eqb q s0 in
  let s := if symmetric then (3 - q - r)%nat else s0 in
  let sign := perm_sign q r s in
  let w := q3 quat in let cq := nth_comp q quat in let cr := nth_comp r quat in let cs := nth_comp s quat in
  (symmetric, sign, if symmetric then abcd_sym RRing w cq cr cs sign else abcd_asym RRing w cq cr cs sign).
Definition quaternion_to_euler (quat : quatR) (seq : nat * nat * nat) (extrinsic : bool) : R * R * R :=
  let '(s0, s1, s2) := seq in
  let '(q, r, s) := if extrinsic then (s0, s1, s2) else (s2, s1, s0) in
  let '(symmetric, sign, (a, b, c, d)) := euler_abcd quat q r s in
  let angles_1 := 2 * atan2 (hypot c d) (hypot a b) in
  let case1 := if Rle_dec (Rabs angles_1) gimbal_eps then true else false in
  let case2 := if Rle_dec (Rabs (angles_1 - PI)) gimbal_eps then true else false in
  let half_sum := atan2 b a in
  let half_diff := atan2 d c in
  let angles_0 := half_sum - half_diff in
  let angles_2 := half_sum + half_diff in
  let angles_2 := if symmetric then angles_2 else angles_2 * sign in
  let angles_1 := if symmetric then angles_1 else angles_1 - PI / 2 in
  let '(angles_0, angles_2) := if extrinsic then (angles_0, angles_2) else (angles_2, angles_0) in
  let regular := negb case1 && negb case2 in
  let angles_2 := if regular then angles_2 else 0 in
  let singular := (if case1 then 2 * half_sum else 0) + (if case2 then 2 * half_diff * (if extrinsic then -1 else 1) else 0) in
  let singular := if negb symmetric && negb extrinsic then singular * sign else singular in
  let angles_0 := if regular then angles_0 else singular in
  (wrap_angle angles_0, wrap_angle angles_1, wrap_angle angles_2).
(* the regularity condition tested by the code (case == 0) *)
Definition euler_regular (quat : quatR) (seq : nat * nat * nat) (extrinsic : bool) : Prop :=
  let '(s0, s1, s2) := seq in
  let '(q, r, s) := if extrinsic then (s0, s1, s2) else (s2, s1, s0) in
  let '(_, _, (a, b, c, d)) := euler_abcd quat q r s in
  let angles_1 := 2 * atan2 (hypot c d) (hypot a b) in
  gimbal_eps < Rabs angles_1 /\ gimbal_eps < Rabs (angles_1 - PI).
Definition valid_seq (seq : nat * nat * nat) : Prop :=
  let '(s0, s1, s2) := seq in (s0 < 3)%nat /\ (s1 < 3)%nat /\ (s2 < 3)%nat /\ s0 <> s1 /\ s1 <> s2.

(* the regular-case angles before the intrinsic swap and the wrap to (-pi, pi] *)
Definition euler_core (quat : quatR) (q r s0 : nat) : R * R * R :=
  let '(sym, sign, (a, b, c, d)) := euler_abcd quat q r s0 in
  let A := atan2 (hypot c d) (hypot a b) in let hs := atan2 b a in let hd := atan2 d c in
  (hs - hd, if sym then 2 * A else 2 * A - PI / 2, if sym then hs + hd else (hs + hd) * sign).
Definition abcd_regular (quat : quatR) (q r s0 : nat) : Prop :=
  let '(_, _, (a, b, c, d)) := euler_abcd quat q r s0 in 0 < a * a + b * b /\ 0 < c * c + d * d.

