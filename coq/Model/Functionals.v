(* C08 - scalar cores of the mrpro functionals, exactly as the Python code computes them.
   Sources: src/mrpro/operators/Functional.py, functionals/{L1Norm,L1NormViewAsReal,L2NormSquared,MSE,ZeroFunctional}.py,
   ProximableFunctionalSeparableSum.py.

   Part R: the model over Coq reals (what the theorems of Properties/C08.v speak about).
   Part Q: the executable twin over exact rationals / Gaussian rationals (what the harness runs with vm_compute).
   Definitions only.  [n] is the divide_by_n factor: the number N of reduced elements if divide_by_n else 1. *)
From Coq Require Import Reals QArith Qabs Qminmax Qreals ZArith List.
Import ListNotations.

(* ================================================================================================ *)
(* Part R                                                                                            *)
(* ================================================================================================ *)
Local Open Scope R_scope.

Definition sgnR (x : R) : R := if Rlt_dec 0 x then 1 else if Rlt_dec x 0 then -1 else 0.   (* torch.sgn, real *)
Definition reluR (x : R) : R := Rmax x 0.                                                    (* torch.relu *)
Definition softR (d t : R) : R := sgnR d * reluR (Rabs d - t).   (* sgn(diff) * relu(|diff| - threshold) *)
Definition sq (x : R) : R := x * x.

(* the divide_by_n factor *)
Definition nfac (divn : bool) (N : nat) : R := if divn then INR N else 1.

(* ---- real elements ------------------------------------------------------------------------------- *)
(* L1Norm: value = |w (x - b)|; prox: threshold = |w*sigma/n|; prox_convex_conj: clamp to |(|w|/n)| *)
Definition l1_val (w b x : R) : R := Rabs (w * (x - b)).
Definition l1_prox (n w b sigma x : R) : R := softR (x - b) (Rabs (w * sigma / n)) + b.
Definition l1_pcc (n w b sigma x : R) : R :=
  let d := x - sigma * b in sgnR d * Rmin (Rabs d) (Rabs (Rabs w / n)).

(* L2NormSquared / MSE: value = |w (x-b)|^2; prox = (x + c b) / (1 + c), c = conj(w) w 2 sigma / n *)
Definition l2_val (w b x : R) : R := sq (Rabs (w * (x - b))).
Definition l2_prox (n w b sigma x : R) : R := let c := w * w * 2 * sigma / n in (x + c * b) / (1 + c).
Definition l2_pcc (n w b sigma x : R) : R :=
  let ws := w * w / n in (2 * ws * (x - sigma * b)) / (sigma + 2 * ws).

(* ZeroFunctional *)
Definition zero_val (x : R) : R := 0.
Definition zero_prox (sigma x : R) : R := x.
Definition zero_pcc (sigma x : R) : R := if Req_EM_T sigma 0 then x else 0.

(* ProximableFunctional.prox_convex_conj (generic fallback, used by L1NormViewAsReal):
   sigma = torch.where(sigma < 1e-8, sigma + 1e-6, sigma);  x - sigma * prox(x / sigma, 1 / sigma) *)
Definition tweak (sigma : R) : R := if Rlt_dec sigma (1 / 100000000) then sigma + 1 / 1000000 else sigma.
Definition pcc_fallback (prox : R -> R -> R) (sigma x : R) : R :=
  let s := tweak sigma in x - s * prox (1 / s) (x / s).

(* ---- complex elements: C = R * R ------------------------------------------------------------------ *)
Definition C : Type := (R * R)%type.
Definition cre (z : C) := fst z.
Definition cim (z : C) := snd z.
Definition cadd (a b : C) : C := (fst a + fst b, snd a + snd b).
Definition csub (a b : C) : C := (fst a - fst b, snd a - snd b).
Definition cmul (a b : C) : C := (fst a * fst b - snd a * snd b, fst a * snd b + snd a * fst b).
Definition cscale (s : R) (a : C) : C := (s * fst a, s * snd a).
Definition cnorm2 (z : C) : R := fst z * fst z + snd z * snd z.
Definition cabs (z : C) : R := sqrt (cnorm2 z).                                  (* torch.abs, complex *)
Definition csgn (z : C) : C :=                                                    (* torch.sgn, complex: z/|z|, 0 at 0 *)
  if Req_EM_T (cabs z) 0 then (0, 0) else (fst z / cabs z, snd z / cabs z).
Definition csoft (d : C) (t : R) : C := cscale (reluR (cabs d - t)) (csgn d).

(* L1Norm on complex data with complex weight: threshold = |w * sigma / n| *)
Definition cl1_val (w b x : C) : R := cabs (cmul w (csub x b)).
Definition cl1_prox (n : R) (w b : C) (sigma : R) (x : C) : C :=
  cadd (csoft (csub x b) (cabs (cscale (sigma / n) w))) b.
Definition cl1_pcc (n : R) (w b : C) (sigma : R) (x : C) : C :=
  let d := csub x (cscale sigma b) in cscale (Rmin (cabs d) (Rabs (cabs w / n))) (csgn d).

(* L2NormSquared on complex data: conj(w) * w = |w|^2 (real) *)
Definition cl2_val (w b x : C) : R := sq (cabs (cmul w (csub x b))).
Definition cl2_prox (n : R) (w b : C) (sigma : R) (x : C) : C :=
  let c := cnorm2 w * 2 * sigma / n in cscale (/ (1 + c)) (cadd x (cscale c b)).
Definition cl2_pcc (n : R) (w b : C) (sigma : R) (x : C) : C :=
  let ws := cnorm2 w / n in cscale (/ (sigma + 2 * ws)) (cscale (2 * ws) (csub x (cscale sigma b))).

(* L1NormViewAsReal: the documented value, weights (wr, wi) acting on real and imaginary part
   (wi = wr when the weight is real), and the prox the code computes *)
Definition l1r_val (wr wi : R) (b x : C) : R := Rabs (wr * (fst x - fst b)) + Rabs (wi * (snd x - snd b)).
Definition l1r_prox (n wr wi : R) (b : C) (sigma : R) (x : C) : C :=
  (softR (fst x - fst b) (Rabs (wr * sigma / n)) + fst b, softR (snd x - snd b) (Rabs (wi * sigma / n)) + snd b).
(* what L1NormViewAsReal.forward evaluates: wc = weight.is_complex(), dc = (x - target).is_complex();
   for real data only the real part of a complex weight acts ((self.weight.real * diff).abs(), repaired in f138c0a) *)
Definition l1r_val_code (wc dc : bool) (w b x : C) : R :=
  let d := csub x b in
  if dc then (if wc then Rabs (fst w * fst d) + Rabs (snd w * snd d) else Rabs (fst w * fst d) + Rabs (fst w * snd d))
  else Rabs (fst w * fst d).
(* Legacy: the definition before f138c0a, which used the complex modulus of the weight on real data (KF-C08-1) *)
Definition l1r_val_code_legacy (wc dc : bool) (w b x : C) : R :=
  let d := csub x b in
  if dc then (if wc then Rabs (fst w * fst d) + Rabs (snd w * snd d) else Rabs (fst w * fst d) + Rabs (fst w * snd d))
  else (if wc then cabs (cmul w (fst d, 0)) else Rabs (fst w * fst d)).
Definition cpcc_fallback (prox : R -> C -> C) (sigma : R) (x : C) : C :=
  let s := tweak sigma in csub x (cscale s (prox (1 / s) (cscale (/ s) x))).

Definition czero_pcc (sigma : R) (x : C) : C := if Req_EM_T sigma 0 then x else (0, 0).

(* ---- ScaledProximableFunctional (scale a) ---------------------------------------------------------- *)
Definition sc_prox {X} (a : R) (prox : R -> X -> X) (sigma : R) (x : X) : X := prox (sigma * a) x.
Definition sc_pcc (a : R) (pcc : R -> R -> R) (sigma x : R) : R := a * pcc (sigma / a) (x / a).
Definition csc_pcc (a : R) (pcc : R -> C -> C) (sigma : R) (x : C) : C := cscale a (pcc (sigma / a) (cscale (/ a) x)).

(* ---- sums over index lists (a reduced batch / a whole tensor / a separable sum) -------------------- *)
Fixpoint sumR {A} (g : A -> R) (l : list A) : R := match l with [] => 0 | a :: r => g a + sumR g r end.
(* torch.sum / torch.mean over the reduced elements *)
Definition reduce_list {A} (divn : bool) (g : A -> R) (l : list A) : R :=
  if divn then sumR g l / INR (length l) else sumR g l.

(* ================================================================================================ *)
(* Part Q: executable twin                                                                           *)
(* ================================================================================================ *)
Local Open Scope Q_scope.

Definition sgnQ (x : Q) : Q := if Qlt_le_dec 0 x then 1 else if Qlt_le_dec x 0 then -1 else 0.
Definition reluQ (x : Q) : Q := Qmax x 0.
Definition softQ (d t : Q) : Q := Qred (sgnQ d * reluQ (Qabs d - t)).

Definition l1_valQ (w b x : Q) : Q := Qred (Qabs (w * (x - b))).
Definition l1_proxQ (n w b sigma x : Q) : Q := Qred (softQ (x - b) (Qabs (w * sigma / n)) + b).
Definition l1_pccQ (n w b sigma x : Q) : Q :=
  let d := x - sigma * b in Qred (sgnQ d * Qmin (Qabs d) (Qabs (Qabs w / n))).
Definition l2_valQ (w b x : Q) : Q := let a := Qabs (w * (x - b)) in Qred (a * a).
Definition l2_proxQ (n w b sigma x : Q) : Q := let c := w * w * 2 * sigma / n in Qred ((x + c * b) / (1 + c)).
Definition l2_pccQ (n w b sigma x : Q) : Q :=
  let ws := w * w / n in Qred ((2 * ws * (x - sigma * b)) / (sigma + 2 * ws)).
Definition tweakQ (sigma : Q) : Q := if Qlt_le_dec sigma (1 # 100000000) then sigma + (1 # 1000000) else sigma.

(* Gaussian rationals *)
Definition CQ : Type := (Q * Q)%type.
Definition cq0 : CQ := (0, 0).
Definition cqred (z : CQ) : CQ := (Qred (fst z), Qred (snd z)).
Definition cqadd (a b : CQ) : CQ := cqred (fst a + fst b, snd a + snd b).
Definition cqsub (a b : CQ) : CQ := cqred (fst a - fst b, snd a - snd b).
Definition cqmul (a b : CQ) : CQ := cqred (fst a * fst b - snd a * snd b, fst a * snd b + snd a * fst b).
Definition cqconj (a : CQ) : CQ := (fst a, - snd a).
Definition cqscale (s : Q) (a : CQ) : CQ := cqred (s * fst a, s * snd a).
Definition cqnorm2 (z : CQ) : Q := Qred (fst z * fst z + snd z * snd z).
Definition cqdiv (a b : CQ) : CQ := cqscale (/ cqnorm2 b) (cqmul a (cqconj b)).
(* exact square root of a non-negative rational whose reduced numerator and denominator are perfect squares
   (floor otherwise; [qsqrt_ok] tells which) *)
Definition qsqrt (q : Q) : Q := let r := Qred q in (Z.sqrt (Qnum r) # Pos.sqrt (Qden r)).
Definition qsqrt_ok (q : Q) : bool := Qeq_bool (qsqrt q * qsqrt q) q.
Definition cqabs (z : CQ) : Q :=
  if Qeq_bool (snd z) 0 then Qred (Qabs (fst z)) else if Qeq_bool (fst z) 0 then Qred (Qabs (snd z)) else qsqrt (cqnorm2 z).
Definition cqabs_ok (z : CQ) : bool := Qeq_bool (cqabs z * cqabs z) (cqnorm2 z).
Definition cqsgn (z : CQ) : CQ :=
  let a := cqabs z in if Qeq_bool a 0 then cq0 else cqred (fst z / a, snd z / a).
