(* Model of src/mrpro/utils/zero_pad_or_crop.py (normalize_index, zero_pad_or_crop) and ZeroPadOp. *)
From MrVerif Require Import Base.Prelude Base.Tensor.

(* normalize_index: None = raises IndexError *)
Definition normalize_index (ndim idx : Z) : option Z :=
  if (0 <=? idx) && (idx <? ndim) then Some idx
  else if (- ndim <=? idx) && (idx <? 0) then Some (ndim + idx)
  else None.

(* amount of zeros inserted before the data along one axis (negative: crop); python floor division *)
Definition left_pad (old new : Z) : Z := new / 2 - old / 2.
Definition right_pad (old new : Z) : Z := (new - old) - left_pad old new.

(* 1-D action on index functions: pads (old < new) and crops (old > new) *)
Definition pad1 {A} (zero : A) (old new : Z) (x : Z -> A) : Z -> A :=
  fun j => let i := j - left_pad old new in
           if (0 <=? j) && (j <? new) && (0 <=? i) && (i <? old) then x i else zero.

(* ---- N-D: which target shape do (dim, new_shape) select ---- *)
Fixpoint all_some {A} (l : list (option A)) : option (list A) :=
  match l with
  | [] => Some []
  | None :: _ => None
  | Some a :: r => match all_some r with Some r' => Some (a :: r') | None => None end
  end.

Fixpoint zmem (a : Z) (l : list Z) : bool := match l with [] => false | b :: r => (a =? b) || zmem a r end.
Fixpoint znodup (l : list Z) : bool := match l with [] => true | a :: r => negb (zmem a r) && znodup r end.

(* python: new_shape[dim.index(i)] if i in dim else s *)
Fixpoint lookup (i : Z) (dims sizes : list Z) : option Z :=
  match dims, sizes with
  | d :: dr, s :: sr => if i =? d then Some s else lookup i dr sr
  | _, _ => None
  end.

Inductive pad_error := ErrIndex | ErrValue.

(* dim = None: the last len(new_shape) axes *)
Definition target_shape (shape : list Z) (dim : option (list Z)) (sizes : list Z) : pad_error + list Z :=
  let ndim := Z.of_nat (length shape) in
  if (Z.of_nat (length shape) <? Z.of_nat (length sizes)) then inl ErrValue else
  match dim with
  | None => inr (firstn (length shape - length sizes) shape ++ sizes)
  | Some dims =>
      if negb (Nat.eqb (length dims) (length sizes)) then inl ErrValue else
      match all_some (map (normalize_index ndim) dims) with
      | None => inl ErrIndex
      | Some nd =>
          if negb (znodup nd) then inl ErrValue else
          inr (map (fun '(i, s) => match lookup i nd sizes with Some s' => s' | None => s end)
                   (combine (zrange ndim) shape))
      end
  end.

(* N-D pad/crop on multi-index functions *)
Fixpoint padN {A} (zero : A) (olds news : list Z) (x : list Z -> A) (j : list Z) : A :=
  match olds, news, j with
  | [], [], [] => x []
  | o :: os, n :: ns, j0 :: jr =>
      let i := j0 - left_pad o n in
      if (0 <=? j0) && (j0 <? n) && (0 <=? i) && (i <? o)
      then padN zero os ns (fun ir => x (i :: ir)) jr else zero
  | _, _, _ => zero
  end.

(* executable wrapper on flat row-major data *)
Definition zero_pad_or_crop {A} (zero : A) (shape : list Z) (data : list A) (dim : option (list Z)) (sizes : list Z)
  : pad_error + (list Z * list A) :=
  match target_shape shape dim sizes with
  | inl e => inl e
  | inr news => inr (news, tbuild news (padN zero shape news (tget zero shape data)))
  end.
