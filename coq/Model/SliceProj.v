(* C20 - model of mrpro.operators.SliceProjectionOp.projection_matrix and _find_width (definitions only, exact over Q,
   executable for rational rotation matrices).

   Vectors and points are ordered (z, y, x) as in the source.  A rotation is given by its 3x3 matrix (rows), acting on
   (z, y, x) vectors exactly as `rotation(tensor)` = as_matrix() @ v does; `rotation(v, inverse=True)` is the transpose.
   One output pixel (r, c) of the (max_shape x max_shape) slice:
     p     = (nz/2 - 1/2 + shift, start_y + r, start_x + c),   start = (n - max_shape) // 2
     pr    = M (p - centre) + centre,                          centre = (n/2 - 1/2) per axis
     cands = floor(pr + M (k,0,0) + o)  for the 8 offsets o in {0,1}^3 (outer) and k = -w..w (inner), with multiplicity
     weight(pt) = relu(1 - |d_y|) * relu(1 - |d_x|) * profile(d_z),   d = M^T (pr - pt)
     mask  = pt inside the volume; fraction_in_view = #(mask & weight > 0) / #(weight > 0)  (with multiplicity)
     coalesce: duplicates of an in-volume point are summed and then divided by their number
     row normalisation: every entry * fraction_in_view / (row sum + 1e-6). *)
From MrVerif Require Import Base.Prelude.
From Coq Require Import QArith Qround Qabs Qminmax.
Local Open Scope Q_scope.

Definition vec3 := (Q * Q * Q)%type.
Definition mat3 := (vec3 * vec3 * vec3)%type.
Definition pt3 := (Z * Z * Z)%type.

Definition dot3 (a b : vec3) : Q :=
  match a, b with (a0, a1, a2), (b0, b1, b2) => a0 * b0 + a1 * b1 + a2 * b2 end.
Definition mv (M : mat3) (v : vec3) : vec3 :=
  match M with (r0, r1, r2) => (dot3 r0 v, dot3 r1 v, dot3 r2 v) end.
Definition transpose (M : mat3) : mat3 :=
  match M with ((a, b, c), (d, e, f), (g, h, i)) => ((a, d, g), (b, e, h), (c, f, i)) end.
Definition vadd (a b : vec3) : vec3 := match a, b with (a0, a1, a2), (b0, b1, b2) => (a0 + b0, a1 + b1, a2 + b2) end.
Definition vsub (a b : vec3) : vec3 := match a, b with (a0, a1, a2), (b0, b1, b2) => (a0 - b0, a1 - b1, a2 - b2) end.
Definition vofz (p : pt3) : vec3 := match p with (a, b, c) => (inject_Z a, inject_Z b, inject_Z c) end.
Definition vfloor (v : vec3) : pt3 := match v with (a, b, c) => (Qfloor a, Qfloor b, Qfloor c) end.
Definition relu (x : Q) : Q := Qmax x 0.    (* clamp_min(0) *)
Definition pt_eqb (p q : pt3) : bool :=
  match p, q with (a, b, c), (d, e, f) => ((a =? d) && (b =? e) && (c =? f))%Z end.

Definition half (n : Z) : Q := inject_Z n / 2 - (1 # 2).

Record geom := { nz : Z; ny : Z; nx : Z; rot : mat3; shift : Q; width : Z; prof : Q -> Q }.

Definition max_shape (g : geom) : Z := Z.max (nz g) (Z.max (ny g) (nx g)).
Definition centre (g : geom) : vec3 := (half (nz g), half (ny g), half (nx g)).

Definition pixel (g : geom) (r c : Z) : vec3 :=
  (half (nz g) + shift g,
   inject_Z ((ny g - max_shape g) / 2 + r),     (* Python floor division *)
   inject_Z ((nx g - max_shape g) / 2 + c)).

Definition pixel_rot (g : geom) (r c : Z) : vec3 :=
  vadd (mv (rot g) (vsub (pixel g r c) (centre g))) (centre g).

Definition offsets : list pt3 :=
  [(0,0,0); (0,0,1); (0,1,0); (0,1,1); (1,0,0); (1,0,1); (1,1,0); (1,1,1)]%Z.
Definition ray_ks (w : Z) : list Z := map (fun i => (i - w)%Z) (zrange (2 * w + 1)).

Definition cands (g : geom) (pr : vec3) : list pt3 :=
  flat_map (fun o => map (fun k => vfloor (vadd (vadd pr (mv (rot g) (inject_Z k, 0, 0))) (vofz o))) (ray_ks (width g)))
           offsets.

Definition weight_yx (d : vec3) : Q := match d with (_, dy, dx) => relu (1 - Qabs dy) * relu (1 - Qabs dx) end.
Definition weight (g : geom) (pr : vec3) (pt : pt3) : Q :=
  let d := mv (transpose (rot g)) (vsub pr (vofz pt)) in
  weight_yx d * prof g (fst (fst d)).

Definition inside (g : geom) (pt : pt3) : bool :=
  match pt with (z, y, x) => ((z <? nz g) && (0 <=? z) && (y <? ny g) && (0 <=? y) && (x <? nx g) && (0 <=? x))%Z end.

Definition qpos (q : Q) : bool := negb (Qle_bool q 0).
Definition count {A} (f : A -> bool) (l : list A) : Z := Z.of_nat (length (filter f l)).

Definition fraction_in_view (g : geom) (pr : vec3) : Q :=
  let cs := cands g pr in
  inject_Z (count (fun pt => inside g pt && qpos (weight g pr pt)) cs)
  / inject_Z (count (fun pt => qpos (weight g pr pt)) cs).

Fixpoint qsum (l : list Q) : Q := match l with [] => 0 | a :: r => a + qsum r end.

(* first occurrences, in order (the order does not matter for the dense row) *)
Fixpoint dedup (l : list pt3) : list pt3 :=
  match l with
  | [] => []
  | p :: r => p :: filter (fun q => negb (pt_eqb p q)) (dedup r)
  end.

(* sparse_coo_tensor(...).coalesce() of the masked weights, divided by the coalesced ones *)
Definition coalesced (g : geom) (pr : vec3) : list (pt3 * Q) :=
  let ins := filter (inside g) (cands g pr) in
  map (fun pt => let dup := filter (pt_eqb pt) ins in
                 (pt, qsum (map (weight g pr) dup) / inject_Z (Z.of_nat (length dup))))
      (dedup ins).

Definition eps : Q := 1 # 1000000.

Definition row (g : geom) (r c : Z) : list (pt3 * Q) :=
  let pr := pixel_rot g r c in
  let co := coalesced g pr in
  let s := qsum (map snd co) in
  let norm := fraction_in_view g pr / (s + eps) in
  map (fun e => (fst e, snd e * norm)) co.

(* dense entry of the matrix row *)
Definition entry (g : geom) (r c : Z) (pt : pt3) : Q :=
  qsum (map (fun e => if pt_eqb (fst e) pt then snd e else 0) (row g r c)).

(* the slice value of a volume *)
Definition project (g : geom) (vol : pt3 -> Q) (r c : Z) : Q :=
  qsum (map (fun e => snd e * vol (fst e)) (row g r c)).

(* number of candidates with positive weight (0 means that the implementation divides 0 / 0) *)
Definition npos (g : geom) (r c : Z) : Z :=
  let pr := pixel_rot g r c in count (fun pt => qpos (weight g pr pt)) (cands g pr).

(* ---- _find_width (as repaired): profile at every integer distance -max..max, cdf thresholds 0.01 / 0.99 ---- *)
Fixpoint cumsum (acc : Q) (l : list Q) : list Q :=
  match l with [] => [] | a :: r => (acc + a) :: cumsum (acc + a) r end.

(* test_values[np.argmax(flags)] : the first flagged value, the first value if none is flagged *)
Fixpoint first_true (tv : list Z) (flags : list bool) (default : Z) : Z :=
  match tv, flags with
  | t :: tr, f :: fr => if f then t else first_true tr fr default
  | _, _ => default
  end.

Definition find_width (mx : Z) (p : Q -> Q) : Z :=
  let tv := map (fun i => (i - mx)%Z) (zrange (2 * mx + 1)) in
  let pv := map (fun t => p (inject_Z t)) tv in
  let tot := qsum pv in
  let cdf := map (fun s => s / tot) (cumsum 0 pv) in
  let left := first_true tv (map (fun v => negb (Qle_bool v (1 # 100))) cdf) (- mx)%Z in
  let right := first_true tv (map (fun v => negb (Qle_bool v (99 # 100))) cdf) (- mx)%Z in
  (Z.max (Z.abs left) (Z.abs right) + 1)%Z.

(* profiles *)
Definition rect (h : Q) (d : Q) : Q := if Qle_bool (Qabs d) h then 1 else 0.           (* lambda x: (x.abs() <= h).float() *)
Definition arect (lo hi : Q) (d : Q) : Q := if Qle_bool lo d && Qle_bool d hi then 1 else 0.   (* lambda x: ((x >= lo) & (x <= hi)).float() *)
Definition smoothed_rect0 (fwhm : Q) (d : Q) : Q := if Qle_bool (Qabs (d * 2 / fwhm)) 1 then 1 else 0.  (* SliceSmoothedRectangular(fwhm, 0) *)

(* ---- execution / printing ---- *)
Definition qout (q : Q) : Z * Z := let r := Qred q in (Qnum r, Zpos (Qden r)).

Definition mk (nz ny nx : Z) (M : mat3) (shift : Q) (p : Q -> Q) : geom :=
  {| nz := nz; ny := ny; nx := nx; rot := M; shift := shift; prof := p;
     width := find_width (Z.max nz (Z.max ny nx)) p |}.

(* all rows: for each output pixel (row-major) the number of positive candidates and the non-zero entries of the row *)
Definition run (g : geom) : list (Z * list (pt3 * (Z * Z))) :=
  flat_map (fun r => map (fun c => (npos g r c, map (fun e => (fst e, qout (snd e)))
                                                    (filter (fun e => negb (Qeq_bool (snd e) 0)) (row g r c))))
                         (zrange (max_shape g))) (zrange (max_shape g)).
