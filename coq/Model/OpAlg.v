(* Linear-operator calculus of src/mrpro/operators/LinearOperator.py and LinearOperatorMatrix.py.
   An operator model carries forward and adjoint *separately* (each mirrors its own Python method). *)
From MrVerif Require Import Base.Prelude Base.StarRing Base.Sums.
Local Open Scope nat_scope.

Section OpAlg.
  Variable R : StarRing.
  Local Open Scope K_scope.
  Notation vec := (nat -> R).

  Record linop := { dom : nat; ran : nat; fwd : vec -> vec; adj : vec -> vec }.

  (* <A u, v> = <u, A^H v> *)
  Definition adjoint_pair (A : linop) : Prop :=
    forall u v, inner (ran A) (fwd A u) v = inner (dom A) u (adj A v).

  (* superposition on the m output entries, and dependence on the first n input entries only *)
  Definition linear_map (m : nat) (f : vec -> vec) : Prop :=
    forall a b x y i, (i < m)%nat -> f (fun j => a * x j + b * y j) i = a * f x i + b * f y i.
  Definition ext_map (n m : nat) (f : vec -> vec) : Prop :=
    forall x y, (forall j, (j < n)%nat -> x j = y j) -> forall i, (i < m)%nat -> f x i = f y i.
  Definition wf (A : linop) : Prop :=
    linear_map (ran A) (fwd A) /\ ext_map (dom A) (ran A) (fwd A) /\
    linear_map (dom A) (adj A) /\ ext_map (ran A) (dom A) (adj A).

  (* ---- combinators (LinearOperator.py) ---- *)
  (* LinearOperatorComposition: forward = op1(op2(x)); adjoint = op2.adjoint(op1.adjoint(x)) *)
  Definition comp (A B : linop) : linop :=
    {| dom := dom B; ran := ran A; fwd := fun x => fwd A (fwd B x); adj := fun y => adj B (adj A y) |}.
  (* LinearOperatorSum: reduce(add, op(x)); adjoint reduce(add, op.adjoint(x)) *)
  Definition lsum (A B : linop) : linop :=
    {| dom := dom A; ran := ran A; fwd := fun x i => fwd A x i + fwd B x i; adj := fun y j => adj A y j + adj B y j |}.
  (* LinearOperatorElementwiseProductRight: scalar * A(x); adjoint A^H(x * conj scalar). A python scalar is a constant s. *)
  Definition prod_right (s : vec) (A : linop) : linop :=
    {| dom := dom A; ran := ran A; fwd := fun x i => s i * fwd A x i;
       adj := fun y => adj A (fun i => y i * kconj (s i)) |}.
  (* LinearOperatorElementwiseProductLeft: A(scalar * x); adjoint A^H(x) * conj scalar *)
  Definition prod_left (A : linop) (s : vec) : linop :=
    {| dom := dom A; ran := ran A; fwd := fun x => fwd A (fun j => s j * x j);
       adj := fun y j => adj A y j * kconj (s j) |}.
  (* AdjointLinearOperator *)
  Definition adjop (A : linop) : linop :=
    {| dom := ran A; ran := dom A; fwd := adj A; adj := fwd A |}.
  Definition idop (n : nat) : linop := {| dom := n; ran := n; fwd := fun x => x; adj := fun y => y |}.
  Definition zeroop (n m : nat) : linop := {| dom := n; ran := m; fwd := fun _ _ => k0; adj := fun _ _ => k0 |}.

  (* LinearOperatorMatrix: a row [A B] acts on the concatenation of its inputs, a column [A; B] returns the
     concatenation of its outputs; a matrix is a column of rows; .H is the transposed matrix of adjoints. *)
  Definition hstack (A B : linop) : linop :=
    {| dom := dom A + dom B; ran := ran A;
       fwd := fun x i => fwd A x i + fwd B (fun j => x (dom A + j)%nat) i;
       adj := fun y j => if Nat.ltb j (dom A) then adj A y j else adj B y (j - dom A)%nat |}.
  Definition vstack (A B : linop) : linop :=
    {| dom := dom A; ran := ran A + ran B;
       fwd := fun x i => if Nat.ltb i (ran A) then fwd A x i else fwd B x (i - ran A)%nat;
       adj := fun y j => adj A y j + adj B (fun i => y (ran A + i)%nat) j |}.

  (* ---- expression trees over the combinators ---- *)
  Inductive tree : Type :=
  | Leaf (A : linop)
  | TComp (t1 t2 : tree) | TSum (t1 t2 : tree)
  | TProdR (s : vec) (t : tree) | TProdL (t : tree) (s : vec)
  | TAdj (t : tree) | TH (t1 t2 : tree) | TV (t1 t2 : tree).

  Fixpoint den (t : tree) : linop :=
    match t with
    | Leaf A => A
    | TComp a b => comp (den a) (den b)
    | TSum a b => lsum (den a) (den b)
    | TProdR s a => prod_right s (den a)
    | TProdL a s => prod_left (den a) s
    | TAdj a => adjop (den a)
    | TH a b => hstack (den a) (den b)
    | TV a b => vstack (den a) (den b)
    end.

  Fixpoint well_shaped (t : tree) : Prop :=
    match t with
    | Leaf _ => True
    | TComp a b => well_shaped a /\ well_shaped b /\ dom (den a) = ran (den b)
    | TSum a b => well_shaped a /\ well_shaped b /\ dom (den a) = dom (den b) /\ ran (den a) = ran (den b)
    | TProdR _ a | TProdL a _ | TAdj a => well_shaped a
    | TH a b => well_shaped a /\ well_shaped b /\ ran (den a) = ran (den b)
    | TV a b => well_shaped a /\ well_shaped b /\ dom (den a) = dom (den b)
    end.

  Fixpoint leaves_ok (P : linop -> Prop) (t : tree) : Prop :=
    match t with
    | Leaf A => P A
    | TComp a b | TSum a b | TH a b | TV a b => leaves_ok P a /\ leaves_ok P b
    | TProdR _ a | TProdL a _ | TAdj a => leaves_ok P a
    end.

  (* dense matrix of a map: column j = image of the j-th basis vector *)
  Definition matrix_of (f : vec -> vec) (i j : nat) : R := f (delta j) i.

  (* ---- generic dense-matrix operator (EinsumOp 'i j, j -> i', PCA, sparse projection matrices) ---- *)
  Definition matop (m n : nat) (M : nat -> nat -> R) : linop :=
    {| dom := n; ran := m;
       fwd := fun x i => sum n (fun j => M i j * x j);
       adj := fun y j => sum m (fun i => kconj (M i j) * y i) |}.
End OpAlg.

Arguments dom {R}. Arguments ran {R}. Arguments fwd {R}. Arguments adj {R}.
Arguments adjoint_pair {R}. Arguments linear_map {R}. Arguments ext_map {R}. Arguments wf {R}.
Arguments comp {R}. Arguments lsum {R}. Arguments prod_right {R}. Arguments prod_left {R}. Arguments adjop {R}.
Arguments idop {R}. Arguments zeroop {R}. Arguments hstack {R}. Arguments vstack {R}.
Arguments Leaf {R}. Arguments TComp {R}. Arguments TSum {R}. Arguments TProdR {R}. Arguments TProdL {R}.
Arguments TAdj {R}. Arguments TH {R}. Arguments TV {R}.
Arguments den {R}. Arguments well_shaped {R}. Arguments leaves_ok {R}. Arguments matrix_of {R}. Arguments matop {R}.
