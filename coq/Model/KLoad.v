(* Model of KData.from_file (src/mrpro/data/_kdata/KData.py), the default acquisition filter (acq_filters.py, enums.AcqFlags)
   and the sort / reshape applied alike to the k-space data, every AcqInfo field (rearrange_acq_info_fields) and raw-shape
   trajectories (KTrajectoryRawShape.sort_and_reshape).  Definitions only.

   An acquisition carries its 14 index labels in KDIM_SORT_LABELS order
       k1 k2 average slice contrast phase repetition set user0 user1 user2 user3 user4 user7
   its flag bit mask, its coil count, and three opaque payload ids: the row of the stacked data tensor, the row of every
   AcqInfo field and the row of a raw-shape trajectory that were read from this acquisition.  The model only moves ids. *)
From MrVerif Require Import Base.Prelude.

Record acq := mkAcq { labels : list Z; flags : Z; coils : Z; did : Z; iid : Z; tid : Z }.

(* ---- enums.AcqFlags / acq_filters.DEFAULT_IGNORE_FLAGS -------------------------------------------------------------- *)
(* ISMRMRD flag number n (1-based) has bit mask 1 << (n-1); Python's Flag/auto() enumerates exactly these. *)
Definition flag_mask (n : Z) : Z := Z.shiftl 1 (n - 1).
Definition ACQ_IS_NOISE_MEASUREMENT := flag_mask 19.
Definition ACQ_IS_PARALLEL_CALIBRATION := flag_mask 20.
Definition ACQ_IS_PARALLEL_CALIBRATION_AND_IMAGING := flag_mask 21.
Definition ACQ_IS_REVERSE := flag_mask 22.
Definition ACQ_IS_NAVIGATION_DATA := flag_mask 23.
Definition ACQ_IS_PHASECORR_DATA := flag_mask 24.
Definition ACQ_IS_HPFEEDBACK_DATA := flag_mask 26.
Definition ACQ_IS_DUMMYSCAN_DATA := flag_mask 27.
Definition ACQ_IS_PHASE_STABILIZATION_REFERENCE := flag_mask 30.
Definition ACQ_IS_PHASE_STABILIZATION := Z.shiftl 1 30.        (* enums.py: 1 << 30 (repaired; was 30 << 1) *)

Definition DEFAULT_IGNORE_FLAGS : Z :=
  fold_right Z.lor 0 [ACQ_IS_NOISE_MEASUREMENT; ACQ_IS_DUMMYSCAN_DATA; ACQ_IS_HPFEEDBACK_DATA; ACQ_IS_NAVIGATION_DATA;
                      ACQ_IS_PHASECORR_DATA; ACQ_IS_PHASE_STABILIZATION; ACQ_IS_PHASE_STABILIZATION_REFERENCE;
                      ACQ_IS_PARALLEL_CALIBRATION].

(* is_image_acquisition: not DEFAULT_IGNORE_FLAGS.value & acquisition.flags *)
Definition is_image_flags (f : Z) : bool := Z.land DEFAULT_IGNORE_FLAGS f =? 0.
Definition is_image_acquisition (a : acq) : bool := is_image_flags (flags a).
(* KNoise.from_file: is_noise_acquisition *)
Definition is_noise_acquisition (a : acq) : bool := negb (Z.land ACQ_IS_NOISE_MEASUREMENT (flags a) =? 0).

(* ---- small list utilities ------------------------------------------------------------------------------------------ *)
Definition lmin (l : list Z) : Z := match l with [] => 0 | x :: r => fold_right Z.min x r end.
Definition lmax (l : list Z) : Z := match l with [] => 0 | x :: r => fold_right Z.max x r end.

Fixpoint list_eqb (a b : list Z) : bool :=
  match a, b with
  | [], [] => true
  | x :: a', y :: b' => (x =? y) && list_eqb a' b'
  | _, _ => false
  end.

(* lexicographic order on integer tuples *)
Fixpoint lex_leb (a b : list Z) : bool :=
  match a, b with
  | [], _ => true
  | _ :: _, [] => false
  | x :: a', y :: b' => (x <? y) || ((x =? y) && lex_leb a' b')
  end.

(* ---- coil-count selection ------------------------------------------------------------------------------------------- *)
(* n_coils_available = {acq.data.shape[0]}; if more than one: header receiverChannels if present else the maximum *)
Definition select_coils (receiver_channels : option Z) (l : list acq) : list acq :=
  let cs := map coils l in
  if lmin cs =? lmax cs then l
  else let n := match receiver_channels with Some n => n | None => lmax cs end in
       filter (fun a => coils a =? n) l.

Definition kept (receiver_channels : option Z) (l : list acq) : list acq :=
  select_coils receiver_channels (filter is_image_acquisition l).

(* ---- (n_k1, n_k2) from the unique-count logic ----------------------------------------------------------------------- *)
Definition other_key (a : acq) : list Z := skipn 2 (labels a).       (* OTHER_LABELS *)
Definition other_k2_key (a : acq) : list Z := skipn 1 (labels a).    (* OTHER_LABELS and k2 *)

(* number of acquisitions that share a's label combination (torch.unique(..., dim=1, return_counts=True)) *)
Definition count_key (key : acq -> list Z) (l : list acq) (a : acq) : Z :=
  Z.of_nat (length (filter (fun b => list_eqb (key b) (key a)) l)).
Definition counts (key : acq -> list Z) (l : list acq) : list Z := map (count_key key l) l.

(* torch.unique(counts) is sorted: [0] is the minimum, len == 1 iff min = max *)
Definition decide_shape (l : list acq) : Z * Z :=            (* (n_k1, n_k2) *)
  let c2 := counts other_k2_key l in
  let co := counts other_key l in
  if lmin c2 =? lmax c2 then (lmin c2, lmin co / lmin c2)
  else if lmin co =? lmax co then (1, lmin co)
  else (1, 1).

(* ---- np.lexsort(acq_indices): stable, last key (user7) primary, first key (k1) least significant --------------------- *)
Definition sort_key (a : acq) : list Z := rev (labels a).
Definition acq_leb (a b : acq) : bool := lex_leb (sort_key a) (sort_key b).

Fixpoint insert_by {A} (leb : A -> A -> bool) (x : A) (l : list A) : list A :=
  match l with
  | [] => [x]
  | y :: l' => if leb x y then x :: l else y :: insert_by leb x l'
  end.
(* stable: fold from the right, an element goes in front of the first element that is not smaller *)
Definition isort_by {A} (leb : A -> A -> bool) (l : list A) : list A := fold_right (insert_by leb) [] l.

(* the index array sort_idx *)
Definition lexsort (l : list acq) : list nat :=
  map fst (isort_by (fun p q => acq_leb (snd p) (snd q)) (combine (seq 0 (length l)) l)).

(* fancy indexing x[sort_idx] of a per-acquisition array *)
Definition take (idx : list nat) (x : list Z) : list Z := map (fun i => nth i x 0) idx.

(* ---- from_file ------------------------------------------------------------------------------------------------------ *)
Inductive load_error := ErrNoAcquisitions (* ValueError *) | ErrReshape (* einops: (other k2 k1) does not divide *).

(* result: (n_other, n_k2, n_k1), then the flat row-major (other, k2, k1) id arrays of data, AcqInfo fields, raw trajectory *)
Definition load (receiver_channels : option Z) (l : list acq)
  : load_error + ((Z * Z * Z) * list Z * list Z * list Z) :=
  let k := kept receiver_channels l in
  let n := Z.of_nat (length k) in
  if n =? 0 then inl ErrNoAcquisitions            (* if not acquisitions: raise ValueError *)
  else
    let n_k1 := fst (decide_shape k) in
    let n_k2 := snd (decide_shape k) in
    if n mod (n_k1 * n_k2) =? 0 then
      let sort_idx := lexsort k in
      inr ((n / (n_k1 * n_k2), n_k2, n_k1),
           take sort_idx (map did k), take sort_idx (map iid k), take sort_idx (map tid k))
    else inl ErrReshape.

(* labels of the acquisitions in output order (what acq_info.idx.* hold after the sort) *)
Definition loaded_labels (receiver_channels : option Z) (l : list acq) : list (list Z) :=
  map labels (isort_by acq_leb (kept receiver_channels l)).

(* KNoise.from_file: the noise acquisitions in file order, nothing else *)
Definition load_noise (l : list acq) : list Z := map did (filter is_noise_acquisition l).

(* ---- bookkeeping tables that the translator (harness/translate/kload.py) regenerates from the source on every run ------ *)
(* the index fields of AcqIdx *)
Inductive idx_label := L_k1 | L_k2 | L_average | L_slice | L_contrast | L_phase | L_repetition | L_set | L_segment
                     | L_user0 | L_user1 | L_user2 | L_user3 | L_user4 | L_user5 | L_user6 | L_user7.

(* KData.KDIM_SORT_LABELS: the order in which `labels` of an acquisition lists the index values; np.lexsort takes the LAST
   entry as the primary key, hence sort_key = rev labels *)
Definition sort_labels : list idx_label :=
  [L_k1; L_k2; L_average; L_slice; L_contrast; L_phase; L_repetition; L_set; L_user0; L_user1; L_user2; L_user3; L_user4; L_user7].
(* KData.OTHER_LABELS: everything but k1, k2, in the same order (other_key = skipn 2 labels, other_k2_key = skipn 1 labels) *)
Definition other_labels : list idx_label :=
  [L_average; L_slice; L_contrast; L_phase; L_repetition; L_set; L_user0; L_user1; L_user2; L_user3; L_user4; L_user7].

(* enums.AcqFlags: name -> bit mask, by the numbering of ISMRMRD_AcquisitionFlags in ismrmrd.h (flag n has mask 1 << (n-1)) *)
Module FlagTable.
  Import String.
  Local Open Scope string_scope.
  Definition acq_flag_table : list (string * Z) :=
    [("ACQ_NO_FLAG", 0);
     ("ACQ_FIRST_IN_ENCODE_STEP1", flag_mask 1); ("ACQ_LAST_IN_ENCODE_STEP1", flag_mask 2);
     ("ACQ_FIRST_IN_ENCODE_STEP2", flag_mask 3); ("ACQ_LAST_IN_ENCODE_STEP2", flag_mask 4);
     ("ACQ_FIRST_IN_AVERAGE", flag_mask 5); ("ACQ_LAST_IN_AVERAGE", flag_mask 6);
     ("ACQ_FIRST_IN_SLICE", flag_mask 7); ("ACQ_LAST_IN_SLICE", flag_mask 8);
     ("ACQ_FIRST_IN_CONTRAST", flag_mask 9); ("ACQ_LAST_IN_CONTRAST", flag_mask 10);
     ("ACQ_FIRST_IN_PHASE", flag_mask 11); ("ACQ_LAST_IN_PHASE", flag_mask 12);
     ("ACQ_FIRST_IN_REPETITION", flag_mask 13); ("ACQ_LAST_IN_REPETITION", flag_mask 14);
     ("ACQ_FIRST_IN_SET", flag_mask 15); ("ACQ_LAST_IN_SET", flag_mask 16);
     ("ACQ_FIRST_IN_SEGMENT", flag_mask 17); ("ACQ_LAST_IN_SEGMENT", flag_mask 18);
     ("ACQ_IS_NOISE_MEASUREMENT", flag_mask 19); ("ACQ_IS_PARALLEL_CALIBRATION", flag_mask 20);
     ("ACQ_IS_PARALLEL_CALIBRATION_AND_IMAGING", flag_mask 21); ("ACQ_IS_REVERSE", flag_mask 22);
     ("ACQ_IS_NAVIGATION_DATA", flag_mask 23); ("ACQ_IS_PHASECORR_DATA", flag_mask 24);
     ("ACQ_LAST_IN_MEASUREMENT", flag_mask 25); ("ACQ_IS_HPFEEDBACK_DATA", flag_mask 26);
     ("ACQ_IS_DUMMYSCAN_DATA", flag_mask 27); ("ACQ_IS_RTFEEDBACK_DATA", flag_mask 28);
     ("ACQ_IS_SURFACECOILCORRECTIONSCAN_DATA", flag_mask 29); ("ACQ_IS_PHASE_STABILIZATION_REFERENCE", flag_mask 30);
     ("ACQ_IS_PHASE_STABILIZATION", flag_mask 31);
     ("ACQ_COMPRESSION1", flag_mask 53); ("ACQ_COMPRESSION2", flag_mask 54); ("ACQ_COMPRESSION3", flag_mask 55);
     ("ACQ_COMPRESSION4", flag_mask 56);
     ("ACQ_USER1", flag_mask 57); ("ACQ_USER2", flag_mask 58); ("ACQ_USER3", flag_mask 59); ("ACQ_USER4", flag_mask 60);
     ("ACQ_USER5", flag_mask 61); ("ACQ_USER6", flag_mask 62); ("ACQ_USER7", flag_mask 63); ("ACQ_USER8", flag_mask 64)].
  (* the names in DEFAULT_IGNORE_FLAGS (a set: the order of the | operands is irrelevant, the translator sorts them) *)
  Definition ignore_flag_names : list string :=
    ["ACQ_IS_DUMMYSCAN_DATA"; "ACQ_IS_HPFEEDBACK_DATA"; "ACQ_IS_NAVIGATION_DATA"; "ACQ_IS_NOISE_MEASUREMENT";
     "ACQ_IS_PARALLEL_CALIBRATION"; "ACQ_IS_PHASECORR_DATA"; "ACQ_IS_PHASE_STABILIZATION"; "ACQ_IS_PHASE_STABILIZATION_REFERENCE"].
  Fixpoint lookup_flag (tbl : list (string * Z)) (name : string) : Z :=
    match tbl with [] => 0 | (n, v) :: r => if String.eqb n name then v else lookup_flag r name end.
  (* the mask computed from a (name -> value) table and a list of names *)
  Definition mask_of (tbl : list (string * Z)) (names : list string) : Z := fold_right Z.lor 0 (map (lookup_flag tbl) names).
  (* Python's Flag auto(): the next power of two above the largest value so far *)
  Definition next_auto (m : Z) : Z := (if Z.eqb m 0 then 1 else 2 ^ (Z.log2 m + 1))%Z.
End FlagTable.
