(* Models of the trajectory calculators (src/mrpro/data/traj_calculators/*.py).  Definitions only.
   A calculator sees, for every position of the sorted header, the readout's indices, centre sample, flags and length. *)
From MrVerif Require Import Base.Prelude Model.KLoad.
From Coq Require Import QArith Qabs Qminmax.
Local Open Scope Z_scope.

Record readout := mkReadout { r_k1 : Z; r_k2 : Z; r_center : Z; r_flags : Z; r_n : Z }.

(* KTrajectoryCalculator._kfreq: k0 = linspace(0, n-1, n) - center_sample; rows with ACQ_IS_REVERSE are flipped along k0 *)
Definition is_reversed (r : readout) : bool := negb (Z.land (r_flags r) ACQ_IS_REVERSE =? 0).
Definition kfreq (r : readout) (j : Z) : Z :=
  if is_reversed r then (r_n r - 1 - j) - r_center r else j - r_center r.

(* KTrajectoryCartesian: (kz, ky, kx) of sample j of readout r *)
Definition cartesian (k1_center k2_center : Z) (r : readout) (j : Z) : Z * Z * Z :=
  (r_k2 r - k2_center, r_k1 r - k1_center, kfreq r j).

(* KTrajectoryRadial2D in polar form: radius along the readout and the multiple of `angle` (kz = 0) *)
Definition radial2d_polar (r : readout) (j : Z) : Z * Z := (kfreq r j, r_k1 r).

(* KTrajectoryRpe: radius along the phase-encoding line (k1 - centre, shifted by shift[k2 mod len] except at the centre),
   multiple of `angle` = k2, and kx = kfreq *)
Definition rpe_krad (shifts : list Q) (k1_center : Z) (r : readout) : Q :=
  let kr := r_k1 r - k1_center in
  match shifts with
  | [] => inject_Z kr
  | _ => let s := nth (Z.to_nat (r_k2 r mod Z.of_nat (length shifts))) shifts 0%Q in
         if kr =? 0 then 0%Q else (inject_Z kr + s)%Q
  end.
Definition rpe_polar (shifts : list Q) (k1_center : Z) (r : readout) (j : Z) : Q * Z * Z :=
  (Qred (rpe_krad shifts k1_center r), r_k2 r, kfreq r j).

(* KTrajectoryIsmrmrd: columns of acq.traj: kx = column 0, ky = column 1, kz = column 2 or zeros (2 columns) *)
Definition stored_traj (ncols : Z) (row : list Z) : Z * Z * Z :=   (* (kz, ky, kx) *)
  (if ncols =? 2 then 0 else nth 2 row 0, nth 1 row 0, nth 0 row 0).

(* KTrajectoryPulseq.reshape_pulseq_traj: k * (encoding_size / (2 max|k|)) -- a division: None = not finite *)
Definition qabs_max (ks : list Q) : Q := fold_right (fun k m => Qmax (Qabs k) m) 0%Q ks.
Definition safe_div (a b : Q) : option Q := if Qeq_bool b 0 then None else Some (a / b)%Q.

Definition pulseq_rescale (enc : Z) (ks : list Q) : option (list Q) :=
  let m := qabs_max ks in
  if Qle_bool m 0 then Some ks                        (* repaired: a direction without gradients stays zero *)
  else match safe_div (inject_Z enc) (2 * m) with
       | Some s => Some (map (fun k => Qred (k * s)) ks)
       | None => None
       end.

(* the behaviour before the repair (0 * enc / (2*0)): kept to show what the guard is for *)
Definition pulseq_rescale_unguarded (enc : Z) (ks : list Q) : option (list Q) :=
  match safe_div (inject_Z enc) (2 * qabs_max ks) with
  | Some s => Some (map (fun k => Qred (k * s)) ks)
  | None => None
  end.

(* A calculator is called with the *sorted and reshaped* header: position p of the result is computed from the readout
   whose AcqInfo row was moved to p.  `table` lists the readouts by AcqInfo row id, `info_ids` is the third component of
   KLoad.load. *)
Definition on_sorted_header {T} (f : readout -> Z -> T) (table : list readout) (info_ids : list Z) : list (list T) :=
  map (fun id => let r := nth (Z.to_nat id) table (mkReadout 0 0 0 0 0) in map (f r) (zrange (r_n r))) info_ids.

Definition loaded_info_ids (res : load_error + ((Z * Z * Z) * list Z * list Z * list Z)) : list Z :=
  match res with inr (_, _, i, _) => i | inl _ => [] end.
