(* Model of the 2-D path of mrpro.algorithms.dcf.dcf_voronoi.dcf_2d3d_voronoi (exact, executable over Q) and of the
   decomposition of DcfData.from_traj_voronoi into 1-D factors and a joint Voronoi part.

   python:  unique points (np.unique axis=1, inverse, counts); four far corner sites at 10*max|k|;
            scipy Voronoi; shoelace area of each region; IQR outlier replacement; (dcf / counts)[inverse].
   The Voronoi region of a site p is modelled geometrically: a large box (it contains every region of a real site,
   see cell_in_box in the proofs' comment) clipped successively by the perpendicular-bisector half-planes
   {x | |x-p|^2 <= |x-q|^2} of all other sites q (Sutherland-Hodgman with exact rational intersection points). *)
From Coq Require Import QArith Qminmax Qabs Qround List ZArith.
From MrVerif Require Import Model.Voronoi1D.
Import ListNotations.
Open Scope Q_scope.

Definition pt := (Q * Q)%type.

Definition cross (p q : pt) : Q := fst p * snd q - snd p * fst q.

(* np.cross(v[:-1], v[1:]).sum() *)
Fixpoint path_sum (l : list pt) : Q :=
  match l with
  | a :: r => match r with b :: _ => cross a b + path_sum r | [] => 0 end
  | [] => 0
  end.

(* ... + np.cross(v[-1], v[0]) : twice the signed area *)
Definition shoelace2 (l : list pt) : Q :=
  match l with [] => 0 | a :: _ => path_sum l + cross (last l a) a end.

Definition area (l : list pt) : Q := Qabs (shoelace2 l) / 2.

(* half-plane  a*x + b*y - c <= 0 *)
Definition hp := (Q * Q * Q)%type.
Definition hval (h : hp) (x : pt) : Q := let '(a, b, c) := h in a * fst x + b * snd x - c.
Definition inside (h : hp) (x : pt) : bool := Qle_bool (hval h x) 0.

Definition dist2 (x p : pt) : Q := (fst x - fst p) * (fst x - fst p) + (snd x - snd p) * (snd x - snd p).

(* |x-p|^2 <= |x-q|^2  <->  2 (q-p).x - (|q|^2 - |p|^2) <= 0 *)
Definition bisector (p q : pt) : hp :=
  (2 * (fst q - fst p), 2 * (snd q - snd p),
   (fst q * fst q + snd q * snd q) - (fst p * fst p + snd p * snd p)).

(* intersection of the segment s-e with the boundary line of h (used only when s, e are on different sides) *)
Definition inter (h : hp) (s e : pt) : pt :=
  let hs := hval h s in let he := hval h e in
  let t := hs / (hs - he) in
  (Qred (fst s + t * (fst e - fst s)), Qred (snd s + t * (snd e - snd s))).

Fixpoint clip_edges (h : hp) (prev : pt) (l : list pt) : list pt :=
  match l with
  | [] => []
  | cur :: r =>
      (match inside h prev, inside h cur with
       | true, true => [cur]
       | true, false => [inter h prev cur]
       | false, true => [inter h prev cur; cur]
       | false, false => []
       end) ++ clip_edges h cur r
  end.

Definition clip (h : hp) (l : list pt) : list pt :=
  match l with [] => [] | a :: _ => clip_edges h (last l a) l end.

Definition cell_poly (box : list pt) (p : pt) (others : list pt) : list pt :=
  fold_left (fun poly q => clip (bisector p q) poly) others box.

(* ---- unique / inverse / counts for points ---- *)
Definition pt_eqb (p q : pt) : bool := Qeq_bool (fst p) (fst q) && Qeq_bool (snd p) (snd q).
Fixpoint pmem (p : pt) (l : list pt) : bool := match l with [] => false | q :: r => pt_eqb p q || pmem p r end.
Fixpoint punique (l : list pt) : list pt :=
  match l with [] => [] | p :: r => let u := punique r in if pmem p u then u else p :: u end.
Fixpoint pcount (p : pt) (l : list pt) : nat :=
  match l with [] => O | q :: r => if pt_eqb p q then S (pcount p r) else pcount p r end.
Fixpoint pindex (p : pt) (u : list pt) : nat :=
  match u with [] => O | q :: r => if pt_eqb p q then O else S (pindex p r) end.

Definition maxabs (l : list pt) : Q :=
  fold_right (fun p m => Qmax (Qmax (Qabs (fst p)) (Qabs (snd p))) m) 0 l.

(* product([-1, 1], repeat=2) * furthest_corner * 10 *)
Definition corners (m : Q) : list pt :=
  let c := 10 * m in [(- c, - c); (- c, c); (c, - c); (c, c)].
Definition bigbox (m : Q) : list pt :=
  let c := 20 * m in [(- c, - c); (c, - c); (c, c); (- c, c)].

(* area of the Voronoi region of every distinct point (order of `punique`) *)
Definition cell_areas (u : list pt) : list Q :=
  let m := maxabs u in
  let sites := u ++ corners m in
  map (fun p => Qred (area (cell_poly (bigbox m) p (filter (fun q => negb (pt_eqb p q)) sites)))) u.

(* ---- outlier rule ---- *)
(* np.percentile(sorted, 100*num/den), linear interpolation *)
Definition percentile (sorted : list Q) (num den : Z) : Q :=
  let n := Z.of_nat (length sorted) in
  let pos := inject_Z ((n - 1) * num) / inject_Z den in
  let lo := Qfloor pos in
  let frac := pos - inject_Z lo in
  let a := nth (Z.to_nat lo) sorted 0 in
  let b := nth (Z.to_nat (Z.min (lo + 1) (n - 1))) sorted 0 in
  a + frac * (b - a).

Definition qsum (l : list Q) : Q := fold_right Qplus 0 l.

Fixpoint qinsert (x : Q) (l : list Q) : list Q :=
  match l with [] => [x] | y :: r => if Qle_bool x y then x :: l else y :: qinsert x r end.
Definition qsort (l : list Q) : list Q := fold_right qinsert [] l.

(* returns (upper_bound, fill_value) *)
Definition outlier_params (dcf : list Q) : Q * Q :=
  let s := qsort dcf in
  let q1 := percentile s 1 4 in
  let q3 := percentile s 3 4 in
  let ub := q3 + (3 # 2) * (q3 - q1) in
  let nout := length (filter (fun v => Qlt_bool ub v) dcf) in
  let m := (length s - nout)%nat in
  let hs := Z.to_nat ((99 * Z.of_nat m) / 100) in       (* int(0.99 * m) *)
  let top := firstn (m - hs) (skipn hs s) in
  (ub, Qred (qsum top / qnat (length top))).

Definition replace_outliers (dcf : list Q) : list Q :=
  let '(ub, fill) := outlier_params dcf in
  map (fun v => if Qlt_bool ub v then fill else v) dcf.

(* (dcf / counts)[inverse] *)
Definition dcf_2d (traj : list pt) : list Q :=
  let u := punique traj in
  let d := replace_outliers (cell_areas u) in
  let w := map2 Qdiv d (map (fun p => qnat (pcount p traj)) u) in
  map (fun p => Qred (nth (pindex p u) w 0)) traj.

(* everything the harness wants to see: raw areas per sample, upper bound, fill value, final weights *)
Definition dcf_2d_full (traj : list pt) : list Q * (Q * Q) * list Q :=
  let u := punique traj in
  let a := cell_areas u in
  (map (fun p => nth (pindex p u) a 0) traj, outlier_params a, dcf_2d traj).

(* 2-D Voronoi cell as a set *)
Definition cell2 (P : list pt) (p x : pt) : Prop := forall q, In q P -> dist2 x p <= dist2 x q.

(* ---- DcfData.from_traj_voronoi: decomposition (one `other` entry; shapes are (k2, k1, k0)) ---- *)
Record ktensor := { kshape : list nat; kdata : list Q }.   (* row-major, 3 dims *)

Definition kget (k : ktensor) (idx : list nat) : Q :=
  match kshape k, idx with
  | [s2; s1; s0], [i2; i1; i0] =>
      let j2 := if Nat.eqb s2 1 then O else i2 in
      let j1 := if Nat.eqb s1 1 then O else i1 in
      let j0 := if Nat.eqb s0 1 then O else i0 in
      nth ((j2 * s1 + j1) * s0 + j0) (kdata k) 0
  | _, _ => 0
  end.

Definition nonsingleton (d : nat) (k : ktensor) : bool := negb (Nat.eqb (nth d (kshape k) 1%nat) 1).

Definition set_nth (d v : nat) (idx : list nat) : list nat :=
  firstn d idx ++ v :: skipn (S d) idx.

Definition bshape (ks : list ktensor) : list nat :=
  map (fun d => fold_right (fun k m => Nat.max (nth d (kshape k) 1%nat) m) 1%nat ks) [0; 1; 2]%nat.

Definition all_idx (sh : list nat) : list (list nat) :=
  match sh with
  | [s2; s1; s0] => flat_map (fun i2 => flat_map (fun i1 => map (fun i0 => [i2; i1; i0]) (seq 0 s0)) (seq 0 s1)) (seq 0 s2)
  | _ => []
  end.

(* which k tensors (by position in ks) are handled how: per spatial dim d either a 1-D factor of tensor j, or nothing;
   plus the set of tensors needing the joint Voronoi *)
Definition plan_dim (ks : list ktensor) (d : nat) : list nat :=
  filter (fun j => nonsingleton d (nth j ks {| kshape := [1;1;1]%nat; kdata := [0] |})) (seq 0 (length ks)).

Definition union (a b : list nat) : list nat := a ++ filter (fun j => negb (existsb (Nat.eqb j) a)) b.

Definition plan (ks : list ktensor) : list (nat * nat) * list nat :=
  fold_left (fun '(ones, vor) d =>
               match plan_dim ks d with
               | [j] => (ones ++ [(d, j)], vor)
               | [] => (ones, vor)
               | js => (ones, union vor js)
               end) [0; 1; 2]%nat ([], []).

Definition kdummy : ktensor := {| kshape := [1; 1; 1]%nat; kdata := [0] |}.

(* value of the 1-D factor along dim d of tensor k at index idx: smap(dcf_1d, k, (d,)) *)
Definition factor1 (k : ktensor) (d : nat) (idx : list nat) : Q :=
  let n := nth d (kshape k) 1%nat in
  let line := map (fun v => kget k (set_nth d v idx)) (seq 0 n) in
  nth (nth d idx O) (dcf_1d line) 0.

(* None: a 3-D joint part (no executable model).  Some f: f idx is the modelled weight. *)
Definition from_traj (ks : list ktensor) : option (list nat * list Q) :=
  let '(ones, vor) := plan ks in
  let sh := bshape ks in
  let f1 idx := fold_right (fun '(d, j) acc => factor1 (nth j ks kdummy) d idx * acc) 1 ones in
  match vor with
  | [] => Some (sh, map (fun idx => Qred (f1 idx)) (all_idx sh))
  | [ja; jb] =>
      let ka := nth ja ks kdummy in let kb := nth jb ks kdummy in
      let vsh := bshape [ka; kb] in
      let vidx := all_idx vsh in
      let w := dcf_2d (map (fun idx => (kget ka idx, kget kb idx)) vidx) in
      let vget idx := match vsh, idx with
                      | [s2; s1; s0], [i2; i1; i0] =>
                          let j2 := if Nat.eqb s2 1 then O else i2 in
                          let j1 := if Nat.eqb s1 1 then O else i1 in
                          let j0 := if Nat.eqb s0 1 then O else i0 in
                          nth ((j2 * s1 + j1) * s0 + j0) w 0
                      | _, _ => 0
                      end in
      Some (sh, map (fun idx => Qred (f1 idx * vget idx)) (all_idx sh))
  | _ => None
  end.
