(* C20 - model of mrpro.operators.GridSamplingOp (definitions only, exact over Q, executable).

   GridSamplingOp.forward = __reshape_wrapper around torch.nn.functional.grid_sample,
   GridSamplingOp.adjoint = __reshape_wrapper around aten.grid_sampler_{2d,3d}_backward (the input gradient).
   What is modelled of the aten kernel (its contract as used by mrpro, validated by the correspondence run):
     - unnormalisation of a grid coordinate for align_corners True / False,
     - padding modes zeros (neighbours outside contribute nothing) and border (coordinate clipped to [0,n-1] first),
     - bilinear (= tensor product of the per-axis taps (floor, 1-frac), (floor+1, frac)) and nearest (nearbyint = round
       half to even) in 2-D and 3-D,
     - the backward kernel: every in-range tap (i, w) of output location o adds w * y[o] to the input gradient at i.
   bicubic and reflection are not modelled (implementation-level checks only).
   The last grid axis is ordered (x, y[, z]): component 0 addresses the LAST tensor axis. *)
From MrVerif Require Import Base.Prelude.
From Coq Require Import QArith Qround Qminmax.
Local Open Scope Q_scope.

Inductive interp := Bilinear | Nearest.
Inductive padding := PZeros | PBorder.

(* grid_sampler_unnormalize *)
Definition unnormalize (align_corners : bool) (n : Z) (x : Q) : Q :=
  if align_corners then ((x + 1) / 2) * (inject_Z n - 1)
  else ((x + 1) * inject_Z n - 1) / 2.

(* clip_coordinates: min(n-1, max(x, 0)) *)
Definition clip (n : Z) (x : Q) : Q := Qmin (inject_Z n - 1) (Qmax x 0).

Definition pad_coord (p : padding) (n : Z) (ix : Q) : Q :=
  match p with PZeros => ix | PBorder => clip n ix end.

(* std::nearbyint in the default rounding mode *)
Definition round_half_even (q : Q) : Z :=
  let f := Qfloor q in
  let r := q - inject_Z f in
  match Qcompare r (1 # 2) with
  | Lt => f
  | Gt => (f + 1)%Z
  | Eq => if Z.even f then f else (f + 1)%Z
  end.

(* the taps (index, weight) of one axis before the bounds test *)
Definition taps1 (m : interp) (ix : Q) : list (Z * Q) :=
  match m with
  | Bilinear => let i0 := Qfloor ix in let fr := ix - inject_Z i0 in [(i0, 1 - fr); ((i0 + 1)%Z, fr)]
  | Nearest => [(round_half_even ix, 1)]
  end.

Definition inb (n i : Z) : bool := ((0 <=? i) && (i <? n))%Z.

(* taps of one axis for a normalised grid coordinate x: only in-range neighbours are kept (within_bounds) *)
Definition axis_taps (m : interp) (p : padding) (ac : bool) (n : Z) (x : Q) : list (Z * Q) :=
  filter (fun t => inb n (fst t)) (taps1 m (pad_coord p n (unnormalize ac n x))).

Fixpoint qsum (l : list Q) : Q := match l with [] => 0 | a :: r => a + qsum r end.

(* ---- 2-D ---- *)
Definition sample2 (im : Z -> Z -> Q) (ty tx : list (Z * Q)) : Q :=
  qsum (map (fun a => qsum (map (fun b => snd a * snd b * im (fst a) (fst b)) tx)) ty).

Definition grid_sample2 (m : interp) (p : padding) (ac : bool) (H W : Z) (im : Z -> Z -> Q) (gx gy : Q) : Q :=
  sample2 im (axis_taps m p ac H gy) (axis_taps m p ac W gx).

(* ---- 3-D ---- *)
Definition sample3 (im : Z -> Z -> Z -> Q) (tz ty tx : list (Z * Q)) : Q :=
  qsum (map (fun a => qsum (map (fun b => qsum (map (fun c =>
     snd a * snd b * snd c * im (fst a) (fst b) (fst c)) tx)) ty)) tz).

Definition grid_sample3 (m : interp) (p : padding) (ac : bool) (D H W : Z) (im : Z -> Z -> Z -> Q) (gx gy gz : Q) : Q :=
  sample3 im (axis_taps m p ac D gz) (axis_taps m p ac H gy) (axis_taps m p ac W gx).

(* ---- the backward kernel (adjoint): scatter-add of w * y[o] over all output locations o ---- *)
Definition tap_at (t : list (Z * Q)) (i : Z) : Q :=
  qsum (map (fun a => if (fst a =? i)%Z then snd a else 0) t).

(* outs : for every output location its (ty, tx) taps and the value y there *)
Definition adjoint2 (outs : list (list (Z * Q) * list (Z * Q) * Q)) (iy ix : Z) : Q :=
  qsum (map (fun o => match o with (ty, tx, y) => tap_at ty iy * tap_at tx ix * y end) outs).

Definition adjoint3 (outs : list (list (Z * Q) * list (Z * Q) * list (Z * Q) * Q)) (iz iy ix : Z) : Q :=
  qsum (map (fun o => match o with (tz, ty, tx, y) => tap_at tz iz * tap_at ty iy * tap_at tx ix * y end) outs).

(* ---- bicubic (2-D only in aten): cubic convolution with A = -3/4 (get_cubic_upsample_coefficients).  The coordinate is
   unnormalised but NOT clipped; the four neighbours floor-1 .. floor+2 are fetched with get_value_bounded: zeros padding drops
   out-of-range neighbours, border padding clips the neighbour INDEX to [0, n-1].  The backward kernel adds w * y to the same
   (bounded) neighbours. ---- *)
Definition cubicA : Q := -3 # 4.
Definition cc1 (x : Q) : Q := ((cubicA + 2) * x - (cubicA + 3)) * x * x + 1.                       (* cubic_convolution1 *)
Definition cc2 (x : Q) : Q := ((cubicA * x - 5 * cubicA) * x + 8 * cubicA) * x - 4 * cubicA.      (* cubic_convolution2 *)

Definition bicubic_taps1 (ix : Q) : list (Z * Q) :=
  let i0 := Qfloor ix in let t := ix - inject_Z i0 in
  [((i0 - 1)%Z, cc2 (t + 1)); (i0, cc1 t); ((i0 + 1)%Z, cc1 (1 - t)); ((i0 + 2)%Z, cc2 (2 - t))].

Definition clampZ (n i : Z) : Z := Z.min (n - 1) (Z.max i 0).

Definition axis_taps_bicubic (p : padding) (ac : bool) (n : Z) (x : Q) : list (Z * Q) :=
  let taps := bicubic_taps1 (unnormalize ac n x) in
  match p with
  | PZeros => filter (fun t => inb n (fst t)) taps
  | PBorder => map (fun t => (clampZ n (fst t), snd t)) taps
  end.

Definition grid_sample2_bicubic (p : padding) (ac : bool) (H W : Z) (im : Z -> Z -> Q) (gx gy : Q) : Q :=
  sample2 im (axis_taps_bicubic p ac H gy) (axis_taps_bicubic p ac W gx).

(* ---- flat tensors for execution ---- *)
Definition qnth (l : list Q) (i : Z) : Q := if (i <? 0)%Z then 0 else nth (Z.to_nat i) l 0.
Definition im2_of (H W : Z) (d : list Q) : Z -> Z -> Q := fun i j => qnth d (i * W + j)%Z.
Definition im3_of (D H W : Z) (d : list Q) : Z -> Z -> Z -> Q := fun k i j => qnth d ((k * H + i) * W + j)%Z.

Definition fwd2 m p ac (H W : Z) (d : list Q) (grid : list (Q * Q)) : list Q :=
  map (fun g => Qred (grid_sample2 m p ac H W (im2_of H W d) (fst g) (snd g))) grid.

Definition fwd3 m p ac (D H W : Z) (d : list Q) (grid : list (Q * Q * Q)) : list Q :=
  map (fun g => match g with (gx, gy, gz) => Qred (grid_sample3 m p ac D H W (im3_of D H W d) gx gy gz) end) grid.

Definition adj2 m p ac (H W : Z) (y : list Q) (grid : list (Q * Q)) : list Q :=
  let outs := map (fun gy => match gy with ((gx, gyy), v) => (axis_taps m p ac H gyy, axis_taps m p ac W gx, v) end)
                  (combine grid y) in
  flat_map (fun i => map (fun j => Qred (adjoint2 outs i j)) (zrange W)) (zrange H).

Definition adj3 m p ac (D H W : Z) (y : list Q) (grid : list (Q * Q * Q)) : list Q :=
  let outs := map (fun gy => match gy with ((gx, gyy, gz), v) =>
                    (axis_taps m p ac D gz, axis_taps m p ac H gyy, axis_taps m p ac W gx, v) end) (combine grid y) in
  flat_map (fun k => flat_map (fun i => map (fun j => Qred (adjoint3 outs k i j)) (zrange W)) (zrange H)) (zrange D).

Definition fwd2_bicubic p ac (H W : Z) (d : list Q) (grid : list (Q * Q)) : list Q :=
  map (fun g => Qred (grid_sample2_bicubic p ac H W (im2_of H W d) (fst g) (snd g))) grid.

Definition adj2_bicubic p ac (H W : Z) (y : list Q) (grid : list (Q * Q)) : list Q :=
  let outs := map (fun gy => match gy with ((gx, gyy), v) => (axis_taps_bicubic p ac H gyy, axis_taps_bicubic p ac W gx, v) end)
                  (combine grid y) in
  flat_map (fun i => map (fun j => Qred (adjoint2 outs i j)) (zrange W)) (zrange H).

(* ---- the reshape wrapper (as repaired): x has shape ( *xbatch, *channels, spatial), the grid ( *gbatch, out, dim);
   xbatch and gbatch (same length) broadcast to the batch shape; every channel of a batch element is sampled with the
   grid of that batch element; a complex x is treated as 2 channels (re, im) placed directly AFTER the batch dims.
   Tensors are functions of (flat broadcast batch index, channel index). ---- *)
Fixpoint bshape (xb gb : list Z) : list Z :=
  match xb, gb with
  | a :: r, b :: s => Z.max a b :: bshape r s
  | _, _ => []
  end.

Fixpoint numel_z (shape : list Z) : Z := match shape with [] => 1 | s :: r => s * numel_z r end.

(* flat index into a tensor of shape `from` of the broadcast multi-index idx *)
Fixpoint bidx (from idx : list Z) : Z :=
  match from, idx with
  | s :: r, i :: ir => (if (s =? 1)%Z then 0 else i) * numel_z r + bidx r ir
  | _, _ => 0
  end.

Fixpoint unravel_z (shape : list Z) (flat : Z) : list Z :=
  match shape with
  | [] => []
  | s :: r => (flat / numel_z r)%Z :: unravel_z r (flat mod numel_z r)%Z
  end.

Section Wrapper.
  Variable T G O : Type.               (* one channel of x, one grid, one sampled channel *)
  Variable inner : T -> G -> O.        (* the sampling of one channel with one grid *)

  (* real input: x b c, grid b ; result for broadcast batch index k and channel c *)
  Definition wrap_real (xb gb : list Z) (x : Z -> Z -> T) (g : Z -> G) (k c : Z) : O :=
    let idx := unravel_z (bshape xb gb) k in
    inner (x (bidx xb idx) c) (g (bidx gb idx)).

  (* complex input, C channels: view_as_real(x).moveaxis(-1, n_batchdim) gives 2*C real channels, channel (ri, c)
     at flat position ri * C + c; after sampling the axis is moved back and the pair recombined *)
  Definition wrap_complex (xb gb : list Z) (C : Z) (xre xim : Z -> Z -> T) (g : Z -> G) (k c : Z) : O * O :=
    let xreal := fun b rc => if (rc <? C)%Z then xre b rc else xim b (rc - C)%Z in
    (wrap_real xb gb xreal g k (0 * C + c)%Z, wrap_real xb gb xreal g k (1 * C + c)%Z).
End Wrapper.

(* executable instance: flat data lists; x : ( *xb, C, spatial...) row-major with `sp` elements per channel;
   grid : ( *gb, nout) elements; result ( *bshape, C, nout) row-major *)
Definition slice_q {A} (l : list A) (start len : Z) : list A := firstn (Z.to_nat len) (skipn (Z.to_nat start) l).

Definition run_real {Gt} (inner : list Q -> list Gt -> list Q) (xb gb : list Z) (C sp nout : Z)
    (x : list Q) (grid : list Gt) : list Q :=
  flat_map (fun k => flat_map (fun c =>
      wrap_real _ _ _ inner xb gb (fun b ch => slice_q x ((b * C + ch) * sp) sp) (fun b => slice_q grid (b * nout) nout) k c)
    (zrange C)) (zrange (numel_z (bshape xb gb))).

Definition run_complex {Gt} (inner : list Q -> list Gt -> list Q) (xb gb : list Z) (C sp nout : Z)
    (xre xim : list Q) (grid : list Gt) : list (Q * Q) :=
  flat_map (fun k => flat_map (fun c =>
      let r := wrap_complex _ _ _ inner xb gb C (fun b ch => slice_q xre ((b * C + ch) * sp) sp)
                 (fun b ch => slice_q xim ((b * C + ch) * sp) sp) (fun b => slice_q grid (b * nout) nout) k c in
      combine (fst r) (snd r))
    (zrange C)) (zrange (numel_z (bshape xb gb))).

(* printing helpers: a rational as (numerator, denominator) in lowest terms *)
Definition qout (q : Q) : Z * Z := let r := Qred q in (Qnum r, Zpos (Qden r)).
Definition qouts (l : list Q) : list (Z * Z) := map qout l.
Definition qouts2 (l : list (Q * Q)) : list ((Z * Z) * (Z * Z)) := map (fun p => (qout (fst p), qout (snd p))) l.
