(* Reconstructions as their defining linear-algebra problems (src/mrpro/algorithms/reconstruction/*.py).
   Executable over exact rationals on top of the CG model: the harness supplies the dense (realified) matrices of
   A^H W A, B and the vectors A^H W y, x0 obtained from the model operators. *)
From MrVerif Require Import Base.Prelude Model.CG.
From Coq Require Import QArith Qcanon.

Definition q0 : Qc := Q2Qc 0.
Fixpoint vaddq (u v : list Qc) : list Qc :=
  match u, v with a :: u', b :: v' => (a + b)%Qc :: vaddq u' v' | _, _ => [] end.
Definition vscaleq (c : Qc) (u : list Qc) : list Qc := map (Qcmult c) u.
Fixpoint maddq (A B : list (list Qc)) : list (list Qc) :=
  match A, B with r :: A', s :: B' => vaddq r s :: maddq A' B' | _, _ => [] end.
Definition mscaleq (c : Qc) (A : list (list Qc)) : list (list Qc) := map (vscaleq c) A.

(* RegularizedIterativeSENSEReconstruction.forward:
     operator = A^H W A ; rhs = A^H W y
     if not all(lambda == 0): operator += lambda * B ; rhs += lambda * x0
     cg(operator, rhs, initial_value=rhs, max_iterations=n, tolerance=0) *)
Definition reg_system (AHWA B : list (list Qc)) (lam : Qc) (AHWy x0 : list Qc) : list (list Qc) * list Qc :=
  if Qc_eq_bool lam q0 then (AHWA, AHWy) else (maddq AHWA (mscaleq lam B), vaddq AHWy (vscaleq lam x0)).
Definition reg_sense (AHWA B : list (list Qc)) (lam : Qc) (AHWy x0 : list Qc) (n : nat) : outcome Qc :=
  let '(H, rhs) := reg_system AHWA B lam AHWy x0 in cgQ H q0 rhs (Some rhs) n.
(* IterativeSENSEReconstruction = regularisation weight 0 *)
Definition iter_sense (AHWA : list (list Qc)) (AHWy : list Qc) (n : nat) : outcome Qc :=
  reg_sense AHWA [] q0 AHWy [] n.

Definition reg_sense_run (AHWA B : list (list Q)) (lam : Q) (AHWy x0 : list Q) (n : nat) :=
  q_outcome (reg_sense (map qcs AHWA) (map qcs B) (Q2Qc lam) (qcs AHWy) (qcs x0) n).
