(* C06 - executable model of mrpro.algorithms.optimizers.cg (src/mrpro/algorithms/optimizers/cg.py).

   ONE definition, polymorphic in the scalars (carrier F with the operations of a field and two boolean
   tests) and in the linear operator (any function on vectors): it is executed with F := Qc (exact rationals,
   Model instance [cgQ] below, H := a dense matrix) and it is the object of the theorems of
   Proofs/CGProofs.v, which hold for every field (hence for Qc, the instance that is run, and for R).

   Vectors are lists; the flattened tensor of cg.py (batched systems = the block-diagonal system with one
   global alpha/beta, exactly what torch.vdot(x.flatten(), ...) gives).  All vector operations treat a
   missing entry as 0 (zero padding), which makes the vector-space laws hold for all lists; for the equal
   lengths cg.py enforces (shape check -> [ErrShape]) this is the usual arithmetic.

   A division whose denominator is zero is explicit: the result is [Diverged] (the implementation produces
   inf/nan from that point on). *)
From Coq Require Import List Bool Arith.
Import ListNotations.

Section CGModel.
  Variable F : Type.
  Variables (f0 : F) (fadd fmul fsub : F -> F -> F) (fopp : F -> F) (fdiv : F -> F -> F).
  Variable feqb : F -> F -> bool.   (* a == b *)
  Variable fltb : F -> F -> bool.   (* a < b  *)

  Definition vec := list F.

  Fixpoint vadd (u v : vec) : vec :=
    match u, v with
    | [], _ => v
    | _, [] => u
    | a :: u', b :: v' => fadd a b :: vadd u' v'
    end.

  Definition vscale (c : F) (u : vec) : vec := map (fmul c) u.

  Fixpoint vsub (u v : vec) : vec :=
    match u, v with
    | [], _ => map fopp v
    | _, [] => u
    | a :: u', b :: v' => fsub a b :: vsub u' v'
    end.

  (* torch.vdot on real data: sum_i u_i v_i *)
  Fixpoint dot (u v : vec) : F :=
    match u, v with
    | a :: u', b :: v' => fadd (fmul a b) (dot u' v')
    | _, _ => f0
    end.

  (* dense matrix as list of rows; EinsumOp(matrix, '... i j, ... j -> ... i') *)
  Definition matvec (M : list vec) (v : vec) : vec := map (fun row => dot row v) M.

  (* a / b with the zero denominator made explicit *)
  Definition sdiv (a b : F) : option F := if feqb b f0 then None else Some (fdiv a b).

  (* loop state of cg(): solution, residual, conjugate_vector, residual_norm_squared_previous *)
  Record state := mkState { sx : vec; sr : vec; sp : vec; sprev : option F }.

  Inductive step_result := Stop | Fail | Next (st : state).

  Variable Hop : vec -> vec.   (* operator(.)[0] *)
  Variable tol : F.            (* tolerance *)

  (* one pass through the body of `for iteration in range(max_iterations)` *)
  Definition cg_step (st : state) : step_result :=
    let rr := dot (sr st) (sr st) in
    if feqb rr f0 || (negb (feqb tol f0) && fltb rr (fmul tol tol)) then Stop
    else
      let p' := match sprev st with
                | None => Some (sp st)
                | Some rrp => match sdiv rr rrp with
                              | None => None
                              | Some beta => Some (vadd (sr st) (vscale beta (sp st)))
                              end
                end in
      match p' with
      | None => Fail
      | Some p =>
        let hp := Hop p in
        match sdiv rr (dot p hp) with
        | None => Stop           (* repaired code: <p, H p> == 0 (no curvature along p, or underflow): return the current solution *)
        | Some alpha =>
          Next (mkState (vadd (sx st) (vscale alpha p)) (vsub (sr st) (vscale alpha hp)) p (Some rr))
        end
      end.

  (* the loop: result (None = a division by zero happened: inf/nan in the implementation) and the list of states
     after each completed iteration (what the callback sees, plus the direction as ghost information) *)
  Fixpoint cg_iter (fuel : nat) (st : state) : option vec * list state :=
    match fuel with
    | O => (Some (sx st), [])
    | S fuel' =>
      match cg_step st with
      | Stop => (Some (sx st), [])
      | Fail => (None, [])
      | Next st' => let (res, h) := cg_iter fuel' st' in (res, st' :: h)
      end
    end.

  (* initialisation: initial_value None -> x0 = b; r0 = b - H x0; p = r0.clone(); x = x0.clone() *)
  Definition cg_init (b : vec) (x0 : option vec) : state :=
    let x := match x0 with None => b | Some x => x end in
    let r := vsub b (Hop x) in
    mkState x r r None.

  Inductive outcome :=
  | ErrShape                                            (* ValueError: shapes differ *)
  | Diverged (trace : list (vec * vec * nat))           (* 0 denominator: non-finite result *)
  | Done (x : vec) (trace : list (vec * vec * nat)).    (* returned solution, callback trace (solution, residual, iteration_number) *)

  Fixpoint number (k : nat) (h : list state) : list (vec * vec * nat) :=
    match h with [] => [] | s :: h' => (sx s, sr s, k) :: number (S k) h' end.

  Definition cg_run (b : vec) (x0 : option vec) (max_iterations : nat) : option vec * list state :=
    let st := cg_init b x0 in
    if feqb (dot (sr st) (sr st)) f0 then (Some (sx st), [])
    else cg_iter max_iterations st.

  Definition cg (b : vec) (x0 : option vec) (max_iterations : nat) : outcome :=
    match x0 with
    | Some x => if Nat.eqb (length x) (length b) then
                  match cg_run b x0 max_iterations with
                  | (Some x, h) => Done x (number 0 h) | (None, h) => Diverged (number 0 h) end
                else ErrShape
    | None => match cg_run b x0 max_iterations with
              | (Some x, h) => Done x (number 0 h) | (None, h) => Diverged (number 0 h) end
    end.
End CGModel.

Arguments mkState {F}. Arguments sx {F}. Arguments sr {F}. Arguments sp {F}. Arguments sprev {F}.
Arguments Stop {F}. Arguments Fail {F}. Arguments Next {F}.
Arguments ErrShape {F}. Arguments Diverged {F}. Arguments Done {F}.

(* ---- the executed instance: exact rationals ---- *)
From Coq Require Import QArith Qcanon.

Definition Qc_ltb (a b : Qc) : bool := match (this a ?= this b)%Q with Lt => true | _ => false end.

Definition cgQ (M : list (list Qc)) (tol : Qc) (b : list Qc) (x0 : option (list Qc)) (n : nat) : outcome Qc :=
  cg Qc (Q2Qc 0) Qcplus Qcmult Qcminus Qcopp Qcdiv Qc_eq_bool Qc_ltb
     (matvec Qc (Q2Qc 0) Qcplus Qcmult M) tol b x0 n.

(* printing helpers for the harness: Qc -> (numerator, denominator); (Q itself is printed in decimal notation
   by Coq when the denominator is a power of ten, which the harness parser does not read) *)
Definition qv (v : list Qc) : list (Z * Z) := map (fun q => (Qnum (this q), Zpos (Qden (this q)))) v.
Definition q_outcome (o : outcome Qc) : (nat * list (Z * Z) * list (list (Z * Z) * list (Z * Z) * nat)) :=
  let tr := map (fun e => match e with (x, r, k) => (qv x, qv r, k) end) in
  match o with
  | ErrShape => (2%nat, [], [])
  | Diverged t => (1%nat, [], tr t)
  | Done x t => (0%nat, qv x, tr t)
  end.
Definition qcs (l : list Q) : list Qc := map Q2Qc l.
Definition cgQ_run (M : list (list Q)) (tol : Q) (b : list Q) (x0 : option (list Q)) (n : nat) :=
  q_outcome (cgQ (map qcs M) (Q2Qc tol) (qcs b) (option_map qcs x0) n).
