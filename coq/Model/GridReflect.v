(* C20 - reflection padding of aten's grid sampler (reflect_coordinates in GridSampler.h), as used by
   GridSamplingOp(padding_mode='reflection'):  the unnormalised coordinate is reflected at the image borders
   (align_corners: at the centres of the border pixels, twice_low = 0, twice_high = 2 (n-1); otherwise at the outer pixel
   edges, twice_low = -1, twice_high = 2 n - 1) until it lies inside, then clipped to [0, n-1] (clip_coordinates).
       in = |in - min|;  extra = fmod(in, span);  flips = floor(in / span);  flips even ? extra + min : span - extra + min  *)
From MrVerif Require Import Base.Prelude Model.GridSample.
From Coq Require Import QArith Qround Qminmax Qabs.
Local Open Scope Q_scope.

Definition reflectQ (twice_low twice_high : Z) (x : Q) : Q :=
  if (twice_low =? twice_high)%Z then 0
  else
    let mn := inject_Z twice_low / 2 in
    let span := inject_Z (twice_high - twice_low) / 2 in
    let d := Qabs (x - mn) in
    let flips := Qfloor (d / span) in
    let extra := d - inject_Z flips * span in
    if Z.even flips then extra + mn else span - extra + mn.

Definition reflect_coord (align_corners : bool) (n : Z) (ix : Q) : Q :=
  if align_corners then reflectQ 0 (2 * (n - 1)) ix else reflectQ (-1) (2 * n - 1) ix.

(* padding_mode='reflection': reflect, then clip (compute_coordinates) *)
Definition pad_reflect (align_corners : bool) (n : Z) (ix : Q) : Q := clip n (reflect_coord align_corners n ix).

(* the normalised grid coordinate that addresses the unnormalised position ix (inverse of unnormalize) *)
Definition normalize (align_corners : bool) (n : Z) (ix : Q) : Q :=
  if align_corners then 2 * ix / (inject_Z n - 1) - 1 else (2 * ix + 1) / inject_Z n - 1.

(* for execution: grid coordinate g -> the grid coordinate of the reflected and clipped position *)
Definition reflected_grid_coord (align_corners : bool) (n : Z) (g : Q) : Q :=
  Qred (normalize align_corners n (pad_reflect align_corners n (unnormalize align_corners n g))).
