(* C10 - model of side effects.
   Part 1: the inventory of in-place sites of src/mrpro as emitted by the translator harness/translate/effects.py
           (Gen/effects_gen.v) and the decidable predicate [site_ok] that the regenerated obligation checks.
   Part 2: an abstract transition system over a store of cells with version counters; a call reads cells, writes
           cells and produces an output.  Theorems are in Proofs/EffectsProofs.v / Properties/C10.v. *)
From MrVerif Require Import Base.Prelude.
From Coq Require Import String.

(* ---------------------------------------------------------------------------------------------- *)
(* Part 1: static inventory                                                                        *)
(* ---------------------------------------------------------------------------------------------- *)
Inductive site_kind :=
| KAugAssign        (* x += e, x[i] *= e, self.a -= e ...                         *)
| KSubscriptAssign  (* x[i] = e                                                   *)
| KInplaceCall      (* x.add_(...), x.copy_(...), x.apply_(...), any method ending in "_" *)
| KOutKw            (* f(..., out=x)                                              *)
| KSetAttr.         (* setattr(x, n, v) / object.__setattr__(x, n, v)             *)

Inductive origin :=
| OFresh        (* bound in the function to arithmetic / constructor / clone / deepcopy / torch factory / literal *)
| OParam        (* a bare parameter of the function                                 *)
| OAttr         (* self.<x> (or an attribute chain rooted at a parameter)           *)
| OViewOfParam  (* slicing / reshape / view / expand / as_tensor / unsqueeze ... of a parameter or attribute *)
| OUnknown.     (* anything the dataflow cannot classify                            *)

Record site := mkSite {
  s_module : string;     (* dotted module name, e.g. "mrpro.operators.Functional" *)
  s_function : string;   (* qualified function name, e.g. "ProximableFunctional.prox_convex_conj" *)
  s_line : Z;
  s_kind : site_kind;
  s_origin : origin;
  s_target : string      (* root name of the written object, e.g. "sigma" or "self" *)
}.

(* entry of the committed, justified allow-list harness/translate/effects_allow.json; no line numbers *)
Record allow_entry := mkAllow {
  a_module : string;
  a_function : string;
  a_kind : site_kind;
  a_target : string
}.

Definition kind_eqb (a b : site_kind) : bool :=
  match a, b with
  | KAugAssign, KAugAssign | KSubscriptAssign, KSubscriptAssign | KInplaceCall, KInplaceCall
  | KOutKw, KOutKw | KSetAttr, KSetAttr => true
  | _, _ => false
  end.

Definition is_fresh (o : origin) : bool := match o with OFresh => true | _ => false end.

Definition allow_matches (s : site) (a : allow_entry) : bool :=
  String.eqb (s_module s) (a_module a) && String.eqb (s_function s) (a_function a)
  && kind_eqb (s_kind s) (a_kind a) && String.eqb (s_target s) (a_target a).

(* a site is acceptable when it writes an object created inside the function, or is on the allow-list *)
Definition site_ok (allow : list allow_entry) (s : site) : bool :=
  is_fresh (s_origin s) || existsb (allow_matches s) allow.

(* ---------------------------------------------------------------------------------------------- *)
(* Part 2: transition system                                                                       *)
(* ---------------------------------------------------------------------------------------------- *)
(* A cell is a tensor storage / an object field: a value and an in-place version counter (Tensor._version). *)
Record cell := mkCell { c_val : Z; c_ver : Z }.
Definition store := list cell.            (* cell id = position; calls allocate by appending *)

Definition get (s : store) (i : nat) : cell := nth i s (mkCell 0 0).

Fixpoint set_nth (s : store) (i : nat) (c : cell) : store :=
  match s, i with
  | [], _ => []
  | _ :: r, O => c :: r
  | x :: r, S j => x :: set_nth r j c
  end.

(* in-place write: new value, version + 1 *)
Definition write (s : store) (i : nat) (v : Z) : store := set_nth s i (mkCell v (c_ver (get s i) + 1)).

(* One API call (forward / adjoint / prox / cg / transformation ...) on given arguments:
   - [reads]: ids of the caller-owned cells it may read (arguments, operator buffers, fields of data objects),
   - [temps]: the fresh cells it allocates (initialised from the values read),
   - [writes]: in-place writes; the target is either one of the call's own temporaries (what the inventory calls a Fresh
     site) or an existing cell (a Param / Attr / ViewOfParam / Unknown site),
   - [out]: the returned value, a function of the values read. *)
Inductive wtarget := WTemp (k : nat) | WCell (i : nat).

Record call := mkCall {
  reads : list nat;
  temps : list (list Z -> Z);
  writes : list (wtarget * (list Z -> Z));
  out : list Z -> Z
}.

Definition read_vals (s : store) (c : call) : list Z := map (fun i => c_val (get s i)) (reads c).

Definition alloc_temps (s : store) (c : call) : store :=
  s ++ map (fun f => mkCell (f (read_vals s c)) 0) (temps c).

Definition abs_target (base : nat) (w : wtarget) : nat :=
  match w with WTemp k => (base + k)%nat | WCell i => i end.

Definition do_writes (base : nat) (vals : list Z) (ws : list (wtarget * (list Z -> Z))) (s : store) : store :=
  fold_left (fun st w => write st (abs_target base (fst w)) (snd w vals)) ws s.

(* the store after the call, and the result *)
Definition step (s : store) (c : call) : store * Z :=
  let vals := read_vals s c in
  (do_writes (List.length s) vals (writes c) (alloc_temps s c), out c vals).

Definition run (s : store) (h : list call) : store := fold_left (fun st c => fst (step st c)) h s.

Definition is_temp (w : wtarget) : bool := match w with WTemp _ => true | WCell _ => false end.

(* a call all of whose in-place sites are Fresh, reading only the [owned] caller cells (arguments and object state) *)
Definition call_ok (owned : nat) (c : call) : bool :=
  forallb (fun w => is_temp (fst w)) (writes c) && forallb (fun i => (i <? owned)%nat) (reads c).

(* the dynamic reading of the static inventory: a site writes a temporary iff its origin is Fresh *)
Definition target_of_origin (o : origin) (k i : nat) : wtarget := if is_fresh o then WTemp k else WCell i.
