(* Executable wrappers: dense matrices of operator models over the Gaussian integers. *)
From MrVerif Require Import Base.Prelude Base.StarRing Base.Sums Model.OpAlg Model.ElemOps.
Local Open Scope nat_scope.

Definition gvec (l : list G) : nat -> GRing := fun i => nth i l (0, 0)%Z.
Definition gmat (rows : list (list G)) : nat -> nat -> GRing := fun i j => nth j (nth i rows []) (0, 0)%Z.
Definition natmap (l : list (option nat)) : nat -> option nat := fun i => nth i l None.
Definition natfun (l : list nat) : nat -> nat := fun i => nth i l 0%nat.

(* columns of the forward matrix: column j = fwd (e_j) *)
Definition dense_fwd (A : linop GRing) : list (list G) :=
  map (fun j => map (fwd A (delta j)) (seq 0 (ran A))) (seq 0 (dom A)).
(* columns of the adjoint matrix: column i = adj (e_i) *)
Definition dense_adj (A : linop GRing) : list (list G) :=
  map (fun i => map (adj A (delta i)) (seq 0 (dom A))) (seq 0 (ran A)).
Definition dense (A : linop GRing) := (dense_fwd A, dense_adj A).
Definition apply_fwd (A : linop GRing) (x : list G) : list G := map (fwd A (gvec x)) (seq 0 (ran A)).
Definition apply_adj (A : linop GRing) (y : list G) : list G := map (adj A (gvec y)) (seq 0 (dom A)).

(* CartesianSamplingOp index buffer from integer k-space coordinates (rounded trajectory) and the grid (nz, ny, nx):
   kidx = (kz + nz//2) * ny * nx + (ky + ny//2) * nx + (kx + nx//2); points outside the encoding matrix are dropped *)
Definition cart_index (nz ny nx : Z) (k : Z * Z * Z) : option nat :=
  let '(kz, ky, kx) := k in
  let iz := (kz + nz / 2)%Z in let iy := (ky + ny / 2)%Z in let ix := (kx + nx / 2)%Z in
  if ((0 <=? ix) && (ix <? nx) && (0 <=? iy) && (iy <? ny) && (0 <=? iz) && (iz <? nz))%Z
  then Some (Z.to_nat (iz * ny * nx + iy * nx + ix)) else None.
Definition cart_op (nz ny nx : Z) (ks : list (Z * Z * Z)) : linop GRing :=
  cart_sampling (R:=GRing) (Z.to_nat (nz * ny * nx)) (length ks) (fun s => match nth_error ks s with Some k => cart_index nz ny nx k | None => None end).
