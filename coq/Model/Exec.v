(* Executable wrappers: dense matrices of operator models over the Gaussian integers. *)
From MrVerif Require Import Base.Prelude Base.StarRing Base.Sums Model.OpAlg Model.ElemOps.
Local Open Scope nat_scope.

Definition gvec (l : list G) : nat -> GRing := fun i => nth i l (0, 0)%Z.
Definition gmat (rows : list (list G)) : nat -> nat -> GRing := fun i j => nth j (nth i rows []) (0, 0)%Z.
Definition natmap (l : list (option nat)) : nat -> option nat := fun i => nth i l None.
Definition natfun (l : list nat) : nat -> nat := fun i => nth i l 0%nat.

(* columns of the forward matrix: column j = fwd (e_j) *)
Definition dense_fwd (A : linop GRing) : list (list G) :=
  map (fun j => map (fwd A (delta j)) (seq 0 (ran A))) (seq 0 (dom A)).
(* columns of the adjoint matrix: column i = adj (e_i) *)
Definition dense_adj (A : linop GRing) : list (list G) :=
  map (fun i => map (adj A (delta i)) (seq 0 (dom A))) (seq 0 (ran A)).
Definition dense (A : linop GRing) := (dense_fwd A, dense_adj A).
Definition apply_fwd (A : linop GRing) (x : list G) : list G := map (fwd A (gvec x)) (seq 0 (ran A)).
Definition apply_adj (A : linop GRing) (y : list G) : list G := map (adj A (gvec y)) (seq 0 (dom A)).
