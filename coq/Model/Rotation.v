(* Model of src/mrpro/data/Rotation.py (definitions only).

   A rotation is stored as a quaternion (q0,q1,q2,q3) with the scalar part LAST (q3 = w; component i of the vector
   part multiplies axis i of a vector as stored, i.e. in mrpro's (z,y,x) order) plus a boolean `improper`;
   its matrix is  (+/-) M(q)  (inversion convention).

   Part 1 (Section Quat): the polynomial kernels over an arbitrary commutative ring (Base/StarRing.v; the conjugation of
   the StarRing is not used): Hamilton product as in `_compose_quaternions_single`, `_quaternion_to_matrix`, matrices,
   rotations with flag, composition (`__matmul__`: product and XOR), inverse, application, n-fold composition,
   Rodrigues' formula (`_axisangle_to_matrix`).
   Part 2 (Section Batch): a batch of rotations as a flat row-major list and the edit operations on it
   (__getitem__ as a gather, __setitem__, quaternion_{x,y,z,w} setters, concatenate, reshape, reflect, invert_axes),
   over a ring equipped with (law-free) inverse / square root / comparison so that it runs on Qc and is reasoned about on R.
   Part 3: executable instance on Qc (exact rationals), used by the correspondence harness. *)
From MrVerif Require Import Base.Prelude Base.StarRing.
From Coq Require Import QArith Qcanon.

Section Quat.
  Variable R : StarRing.
  Local Open Scope K_scope.

  Definition k2 : R := k1 + k1.
  Definition vec3 : Type := (R * R * R)%type.
  Definition quat : Type := (R * R * R * R)%type.
  Definition mat3 : Type := (vec3 * vec3 * vec3)%type.     (* rows *)

  Definition v0 (v : vec3) : R := fst (fst v).
  Definition v1 (v : vec3) : R := snd (fst v).
  Definition v2 (v : vec3) : R := snd v.
  Definition q0 (q : quat) : R := fst (fst (fst q)).
  Definition q1 (q : quat) : R := snd (fst (fst q)).
  Definition q2 (q : quat) : R := snd (fst q).
  Definition q3 (q : quat) : R := snd q.
  Definition qvec (q : quat) : vec3 := (q0 q, q1 q, q2 q).

  Definition cross3 (a b : vec3) : vec3 :=
    (v1 a * v2 b - v2 a * v1 b, v2 a * v0 b - v0 a * v2 b, v0 a * v1 b - v1 a * v0 b).
  Definition dot3 (a b : vec3) : R := v0 a * v0 b + v1 a * v1 b + v2 a * v2 b.
  Definition vscal (c : R) (a : vec3) : vec3 := (c * v0 a, c * v1 a, c * v2 a).
  Definition vadd (a b : vec3) : vec3 := (v0 a + v0 b, v1 a + v1 b, v2 a + v2 b).
  Definition vopp (a : vec3) : vec3 := (- v0 a, - v1 a, - v2 a).

  (* Hamilton product p*q, scalar last: (pw qv + qw pv + pv x qv, pw qw - pv.qv) *)
  Definition qmul (p q : quat) : quat :=
    (q3 p * q0 q + q0 p * q3 q + q1 p * q2 q - q2 p * q1 q,
     q3 p * q1 q + q1 p * q3 q + q2 p * q0 q - q0 p * q2 q,
     q3 p * q2 q + q2 p * q3 q + q0 p * q1 q - q1 p * q0 q,
     q3 p * q3 q - q0 p * q0 q - q1 p * q1 q - q2 p * q2 q).
  Definition qconj (q : quat) : quat := (- q0 q, - q1 q, - q2 q, q3 q).     (* inv(): q * (-1,-1,-1,1) *)
  Definition qopp (q : quat) : quat := (- q0 q, - q1 q, - q2 q, - q3 q).
  Definition qscal (c : R) (q : quat) : quat := (c * q0 q, c * q1 q, c * q2 q, c * q3 q).
  Definition qnorm2 (q : quat) : R := q0 q * q0 q + q1 q * q1 q + q2 q * q2 q + q3 q * q3 q.
  Definition qone : quat := (k0, k0, k0, k1).
  Definition qpure (v : vec3) : quat := (v0 v, v1 v, v2 v, k0).

  (* the homogeneous rotation matrix of q (equals the usual one for |q| = 1) *)
  Definition qmat (q : quat) : mat3 :=
    let a := q0 q in let b := q1 q in let c := q2 q in let w := q3 q in
    ((w*w + a*a - b*b - c*c, k2*(a*b) - k2*(c*w),    k2*(a*c) + k2*(b*w)),
     (k2*(a*b) + k2*(c*w),   w*w - a*a + b*b - c*c,  k2*(b*c) - k2*(a*w)),
     (k2*(a*c) - k2*(b*w),   k2*(b*c) + k2*(a*w),    w*w - a*a - b*b + c*c)).
  (* the textbook definition of the rotation by q: v |-> vector part of q (v,0) q^* *)
  Definition qrot (q : quat) (v : vec3) : vec3 := qvec (qmul (qmul q (qpure v)) (qconj q)).

  Definition row0 (m : mat3) : vec3 := fst (fst m).
  Definition row1 (m : mat3) : vec3 := snd (fst m).
  Definition row2 (m : mat3) : vec3 := snd m.
  Definition col (j : vec3 -> R) (m : mat3) : vec3 := (j (row0 m), j (row1 m), j (row2 m)).
  Definition mapply (m : mat3) (v : vec3) : vec3 := (dot3 (row0 m) v, dot3 (row1 m) v, dot3 (row2 m) v).
  Definition mtrans (m : mat3) : mat3 := (col v0 m, col v1 m, col v2 m).
  Definition mmul (a b : mat3) : mat3 :=
    let bt := mtrans b in (mapply bt (row0 a), mapply bt (row1 a), mapply bt (row2 a)).
  Definition mscal (c : R) (m : mat3) : mat3 := (vscal c (row0 m), vscal c (row1 m), vscal c (row2 m)).
  Definition mopp (m : mat3) : mat3 := (vopp (row0 m), vopp (row1 m), vopp (row2 m)).
  Definition mid : mat3 := ((k1, k0, k0), (k0, k1, k0), (k0, k0, k1)).
  Definition mdet (m : mat3) : R := dot3 (row0 m) (cross3 (row1 m) (row2 m)).
  Definition outer (a b : vec3) : mat3 := (vscal (v0 a) b, vscal (v1 a) b, vscal (v2 a) b).
  Definition madd (a b : mat3) : mat3 := (vadd (row0 a) (row0 b), vadd (row1 a) (row1 b), vadd (row2 a) (row2 b)).

  (* ---- rotations with the improper flag ---- *)
  Definition rot : Type := (quat * bool)%type.
  Definition sgn (f : bool) : R := if f then - k1 else k1.                 (* det property: is_improper * -2 + 1 *)
  Definition rmat (r : rot) : mat3 := if snd r then mopp (qmat (fst r)) else qmat (fst r).      (* as_matrix *)
  Definition rcompose (p q : rot) : rot := (qmul (fst p) (fst q), xorb (snd p) (snd q)).         (* __matmul__ *)
  Definition rinv (p : rot) : rot := (qconj (fst p), snd p).                                      (* inv *)
  Definition rid : rot := (qone, false).                                                          (* identity *)
  Definition rapply (p : rot) (inverse : bool) (v : vec3) : vec3 :=                               (* forward *)
    mapply (if inverse then mtrans (rmat p) else rmat p) v.
  Definition rinvert_axes (p : rot) : rot := (fst p, negb (snd p)).
  (* reference meaning of p ** n: n-fold composition, negative n through the inverse *)
  Fixpoint rpow_nat (n : nat) (p : rot) : rot := match n with O => rid | S k => rcompose p (rpow_nat k p) end.
  Definition rpow (n : Z) (p : rot) : rot :=
    if (n <? 0)%Z then rpow_nat (Z.to_nat (- n)) (rinv p) else rpow_nat (Z.to_nat n) p.
  Fixpoint qpow_nat (n : nat) (p : quat) : quat := match n with O => qone | S k => qmul p (qpow_nat k p) end.
  (* the flag that __pow__ attaches for an integer n: the flag itself for odd n, none for even n *)
  Definition pow_flag (n : Z) (f : bool) : bool := f && Z.odd n.
  (* the exact shortcuts of __pow__ *)
  Definition rpow_shortcut (n : Z) (p : rot) : option rot :=
    if (n =? 0)%Z then Some rid else if (n =? -1)%Z then Some (rinv p) else if (n =? 1)%Z then Some p else None.

  (* SpatialDimension(x,y,z) is rotated as the vector (z,y,x) and rebuilt from components (2,1,0) *)
  Definition sd_to_vec (x y z : R) : vec3 := (z, y, x).
  Definition rapply_sd (p : rot) (inverse : bool) (x y z : R) : R * R * R :=
    let r := rapply p inverse (sd_to_vec x y z) in (v2 r, v1 r, v0 r).

  (* Rodrigues' formula as written in _axisangle_to_matrix: unit axis (a,b,c), cos, sin of the angle *)
  Definition rodrigues (u : vec3) (cs sn : R) : mat3 :=
    let t := k1 - cs in let a := v0 u in let b := v1 u in let c := v2 u in
    ((t*a*a + cs,   t*a*b - c*sn, t*a*c + b*sn),
     (t*a*b + c*sn, t*b*b + cs,   t*b*c - a*sn),
     (t*a*c - b*sn, t*b*c + a*sn, t*c*c + cs)).

  (* _matrix_to_quaternion: the four pivots and the four candidate rows (before the division by 2 sqrt(pivot)) *)
  Definition m2q_pivots (m : mat3) : R * R * R * R :=
    let '((m00,m01,m02),(m10,m11,m12),(m20,m21,m22)) := m in
    (k1 + m00 - m11 - m22, k1 - m00 + m11 - m22, k1 - m00 - m11 + m22, k1 + m00 + m11 + m22).
  Definition m2q_candidate (i : nat) (m : mat3) : quat :=
    let '((m00,m01,m02),(m10,m11,m12),(m20,m21,m22)) := m in
    match i with
    | 0%nat => (k1 + m00 - m11 - m22, m10 + m01, m02 + m20, m21 - m12)
    | 1%nat => (m10 + m01, k1 - m00 + m11 - m22, m12 + m21, m02 - m20)
    | 2%nat => (m20 + m02, m21 + m12, k1 - m00 - m11 + m22, m10 - m01)
    | _ => (m21 - m12, m02 - m20, m10 - m01, k1 + m00 + m11 + m22)
    end.

  (* _quaternion_to_euler: the quantities a, b, c, d for proper Euler (first = last axis) and Tait-Bryan sequences, from the scalar part w,
     the components cq, cr, cs at the three axes and the permutation sign *)
  Definition abcd_sym (w cq cr cs sg : R) : R * R * R * R := (w, cq, cr, cs * sg).
  Definition abcd_asym (w cq cr cs sg : R) : R * R * R * R := (w - cr, cq + cs * sg, cr + w, cs * sg - cq).
  (* _make_elementary_quat with s = sin(angle/2), c = cos(angle/2): component `axis` of the stored quaternion = s, w = c *)
  Definition elementary_sc (axis : nat) (s c : R) : quat :=
    match axis with 0%nat => (s, k0, k0, c) | 1%nat => (k0, s, k0, c) | _ => (k0, k0, s, c) end.
  (* from_euler: start with the first elementary rotation; intrinsic composes the next one on the right, extrinsic on the left *)
  Fixpoint from_euler_acc (intrinsic : bool) (acc : quat) (axes : list nat) (scs : list (R * R)) : quat :=
    match axes, scs with
    | a :: axs, (s, c) :: ts =>
        from_euler_acc intrinsic (if intrinsic then qmul acc (elementary_sc a s c) else qmul (elementary_sc a s c) acc) axs ts
    | _, _ => acc
    end.
  Definition from_euler_sc (intrinsic : bool) (axes : list nat) (scs : list (R * R)) : quat :=
    match axes, scs with
    | a :: axs, (s, c) :: ts => from_euler_acc intrinsic (elementary_sc a s c) axs ts
    | _, _ => qone
    end.
End Quat.

Arguments v0 {R}. Arguments v1 {R}. Arguments v2 {R}.
Arguments q0 {R}. Arguments q1 {R}. Arguments q2 {R}. Arguments q3 {R}.

(* ------------------------------------------------------------------------------------------------ *)
(* generic list edits (element type E): the structural part of the batch operations *)
Section ListEdits.
  Variable E : Type.
  Fixpoint set_nth (i : nat) (x : E) (l : list E) : list E :=
    match l, i with
    | [], _ => []
    | _ :: t, O => x :: t
    | h :: t, S k => h :: set_nth k x t
    end.
  (* __getitem__: result position k holds the element of source position (nth k idxs) *)
  Definition gather (d : E) (idxs : list nat) (l : list E) : list E := map (fun i => nth i l d) idxs.
  (* __setitem__: target position (nth k idxs) receives (nth k vals) in order (later writes win, as in torch) *)
  Fixpoint scatter (idxs : list nat) (vals : list E) (l : list E) : list E :=
    match idxs, vals with
    | i :: it, x :: xt => scatter it xt (set_nth i x l)
    | _, _ => l
    end.
End ListEdits.
Arguments set_nth {E}. Arguments gather {E}. Arguments scatter {E}.

(* ---- index expressions on a 1-D batch, resolved in the model (not by numpy): integer (negative allowed) and slice with positive step,
   with Python's slice.indices semantics (None defaults, negative values count from the end, clamping to [0, n]) ---- *)
Inductive index1 : Type := IInt (i : Z) | ISlice (start stop step : option Z).
Definition clamp_index (n d : Z) (o : option Z) : Z :=
  match o with None => d | Some v => Z.max 0 (Z.min n (if (v <? 0)%Z then (v + n)%Z else v)) end.
Definition slice_count (start stop step : Z) : Z := if (stop <=? start)%Z then 0%Z else ((stop - start + step - 1) / step)%Z.
(* flat positions selected by the index in a batch of n rotations; None = the implementation raises (IndexError / ValueError) *)
Definition resolve_index (n : nat) (ix : index1) : option (list nat) :=
  let nz := Z.of_nat n in
  match ix with
  | IInt i => if ((- nz <=? i) && (i <? nz))%Z then Some [Z.to_nat (if (i <? 0)%Z then (i + nz)%Z else i)] else None
  | ISlice a b st =>
      let step := match st with None => 1%Z | Some s => s end in
      if (step <=? 0)%Z then None else
      let start := clamp_index nz 0%Z a in let stop := clamp_index nz nz b in
      Some (map (fun k => Z.to_nat (start + Z.of_nat k * step)%Z) (seq 0 (Z.to_nat (slice_count start stop step))))
  end.
Definition getitem_ix {E : Type} (d : E) (ix : index1) (l : list E) : option (list E) :=
  option_map (fun pos => gather d pos l) (resolve_index (length l) ix).
(* r[ix] = value: `vals` is the value already broadcast to the selection *)
Definition setitem_ix {E : Type} (ix : index1) (vals : list E) (l : list E) : option (list E) :=
  option_map (fun pos => scatter pos vals l) (resolve_index (length l) ix).

Section Batch.
  Variable R : StarRing.
  Variable kinv : R -> R.            (* 1/x  *)
  Variable ksqrt : R -> R.           (* sqrt x *)
  Variable kltb : R -> R -> bool.    (* x < y *)
  Local Open Scope K_scope.

  Definition keqb (x y : R) : bool := negb (kltb x y) && negb (kltb y x).
  (* Rotation.__init__(normalize=True): q / |q| *)
  Definition qnormalize (q : quat R) : quat R := qscal R (kinv (ksqrt (qnorm2 R q))) q.
  (* _canonical_quaternion: w > 0, or w = 0 and the first non-zero of (x,y,z) positive; x,y,z are stored at 2,1,0 *)
  Definition needs_inversion (q : quat R) : bool :=
    let x := q2 q in let y := q1 q in let z := q0 q in let w := q3 q in
    kltb w k0 || (keqb w k0 && (kltb x k0 || (keqb x k0 && (kltb y k0 || (keqb y k0 && kltb z k0))))).
  Definition qcanon (q : quat R) : quat R := if needs_inversion q then qopp R q else q.
  (* __init__(reflection=True): axis, angle of the canonical quaternion; angle += pi; rebuilt and then normalised.
     With |v| = sqrt(v.v), |q| = sqrt(|q|^2):  sin((t+pi)/2) = cos(t/2) = w/|q|,  cos((t+pi)/2) = -sin(t/2) = -|v|/|q| *)
  Definition qreflect (q : quat R) : quat R :=
    let c := qcanon q in
    let nv := ksqrt (dot3 R (qvec R c) (qvec R c)) in
    let nq := ksqrt (qnorm2 R c) in
    let s := q3 c * kinv nq * kinv nv in
    (s * q0 c, s * q1 c, s * q2 c, - (nv * kinv nq)).

  Definition set_comp (c : nat) (a : R) (q : quat R) : quat R :=
    match c with
    | 0%nat => (a, q1 q, q2 q, q3 q) | 1%nat => (q0 q, a, q2 q, q3 q)
    | 2%nat => (q0 q, q1 q, a, q3 q) | _ => (q0 q, q1 q, q2 q, a)
    end.

  (* per-element operations *)
  Inductive elem_op : Type :=
  | KNormalize                      (* reshape: the constructor re-normalises the stored quaternions *)
  | KInvertAxes                     (* invert_axes: flag negated (and re-normalised) *)
  | KReflect                        (* reflect: reflection about the plane perpendicular to the axis *)
  | KSetComp (c : nat) (a : R).     (* quaternion_{z,y,x,w} setter: component c := a, nothing else touched *)
  Definition elem_apply (k : elem_op) (r : rot R) : rot R :=
    match k with
    | KNormalize => (qnormalize (fst r), snd r)
    | KInvertAxes => (qnormalize (fst r), negb (snd r))
    | KReflect => (qreflect (fst r), negb (snd r))
    | KSetComp c a => (set_comp c a (fst r), snd r)
    end.

  (* batch edits on the flat (row-major) list of elements *)
  Inductive edit (E : Type) : Type :=
  | EGather (idxs : list nat)                    (* r = r[index]; idxs = flat source positions selected by the index *)
  | ESetItem (idxs : list nat) (vals : list E)   (* r[index] = value (value already broadcast to the selection) *)
  | EConcat (others : list E)                    (* r = Rotation.concatenate([r, other]) *)
  | EReshape                                     (* r = r.reshape(shape): flat order unchanged, re-normalised *)
  | EReflect | EInvertAxes                       (* r = r.reflect() / r.invert_axes() *)
  | ESetComp (c : nat) (vals : list R).          (* r.quaternion_c = vals (one value per element) *)
  Arguments EGather {E}. Arguments ESetItem {E}. Arguments EConcat {E}. Arguments EReshape {E}.
  Arguments EReflect {E}. Arguments EInvertAxes {E}. Arguments ESetComp {E}.

  (* the structural skeleton, polymorphic in the element type: `f` says what the per-element operations do *)
  Fixpoint map2_setcomp (E : Type) (f : elem_op -> E -> E) (c : nat) (vals : list R) (l : list E) : list E :=
    match l, vals with
    | e :: t, a :: vt => f (KSetComp c a) e :: map2_setcomp E f c vt t
    | _, _ => l
    end.
  Definition step (E : Type) (d : E) (f : elem_op -> E -> E) (st : list E) (e : edit E) : list E :=
    match e with
    | EGather idxs => gather d idxs st
    | ESetItem idxs vals => scatter idxs vals st
    | EConcat others => st ++ others
    | EReshape => map (f KNormalize) st
    | EReflect => map (f KReflect) st
    | EInvertAxes => map (f KInvertAxes) st
    | ESetComp c vals => map2_setcomp E f c vals st
    end.
  Definition run (E : Type) (d : E) (f : elem_op -> E -> E) (h : list (edit E)) (st : list E) : list E :=
    fold_left (step E d f) h st.
  (* all intermediate states, oldest first (what the harness observes after every edit) *)
  Fixpoint trace (E : Type) (d : E) (f : elem_op -> E -> E) (h : list (edit E)) (st : list E) : list (list E) :=
    match h with
    | [] => []
    | e :: h' => let st' := step E d f st e in st' :: trace E d f h' st'
    end.

  Definition rot_step := step (rot R) (rid R) elem_apply.
  Definition rot_run := run (rot R) (rid R) elem_apply.
  Definition rot_trace := trace (rot R) (rid R) elem_apply.
End Batch.
Arguments EGather {R E}. Arguments ESetItem {R E}. Arguments EConcat {R E}. Arguments EReshape {R E}.
Arguments EReflect {R E}. Arguments EInvertAxes {R E}. Arguments ESetComp {R E}.
Arguments KNormalize {R}. Arguments KInvertAxes {R}. Arguments KReflect {R}. Arguments KSetComp {R}.

(* ------------------------------------------------------------------------------------------------ *)
(* executable instance: exact rationals *)
Definition QcRing : StarRing.
Proof.
  refine {| K := Qc; k0 := 0%Qc; k1 := 1%Qc; kadd := Qcplus; kmul := Qcmult; ksub := Qcminus; kopp := Qcopp;
            kconj := fun a => a; k_ring := Qcrt |}; reflexivity.
Defined.

Definition qc_ltb (x y : Qc) : bool := match (x ?= y)%Qc with Lt => true | _ => false end.
(* exact square root of a non-negative rational that is a perfect square; 0 otherwise (see qc_sqrt_exact) *)
Definition qc_sqrt (x : Qc) : Qc :=
  let n := Qnum (this x) in let d := Zpos (Qden (this x)) in
  Q2Qc (Qmake (Z.sqrt n) (Z.to_pos (Z.sqrt d))).
Definition qc_sqrt_exact (x : Qc) : bool :=
  let n := Qnum (this x) in let d := Zpos (Qden (this x)) in
  ((0 <=? n) && (Z.sqrt n * Z.sqrt n =? n) && (Z.sqrt d * Z.sqrt d =? d))%Z.

Definition qcq (a : Z) (b : positive) : Qc := Q2Qc (Qmake a b).
(* rationals are printed as (numerator, denominator) pairs of integers *)
Definition qz (x : Qc) : Z * Z := (Qnum (this x), Zpos (Qden (this x))).
Definition qq (q : quat QcRing) := [qz (q0 q); qz (q1 q); qz (q2 q); qz (q3 q)].
Definition qv (v : vec3 QcRing) := [qz (v0 v); qz (v1 v); qz (v2 v)].
Definition qm (m : mat3 QcRing) : list (Z * Z) :=
  [qz (v0 (row0 _ m)); qz (v1 (row0 _ m)); qz (v2 (row0 _ m));
   qz (v0 (row1 _ m)); qz (v1 (row1 _ m)); qz (v2 (row1 _ m));
   qz (v0 (row2 _ m)); qz (v1 (row2 _ m)); qz (v2 (row2 _ m))].
(* the matrix of the rotation represented by a (not necessarily unit) quaternion: (+/-) M(q) / |q|^2 *)
Definition nmatQ (r : rot QcRing) : mat3 QcRing := mscal QcRing (Qcinv (qnorm2 QcRing (fst r))) (rmat QcRing r).
(* observation of a batch state: per element the matrix of the STORED quaternion (as_matrix does not normalise),
   the flag, and whether every square root taken so far was exact (else the rational model does not apply) *)
Definition obs_state (st : list (rot QcRing)) : list (list (Z * Z) * bool) := map (fun r => (qm (rmat QcRing r), snd r)) st.
Definition qc_elem := elem_apply QcRing Qcinv qc_sqrt qc_ltb.
Definition qc_trace := rot_trace QcRing Qcinv qc_sqrt qc_ltb.
(* exactness of the square roots needed by one per-element operation on one element *)
Definition elem_exact (k : elem_op QcRing) (r : rot QcRing) : bool :=
  match k with
  | KSetComp _ _ => true
  | KReflect => let c := qcanon QcRing qc_ltb (fst r) in
                qc_sqrt_exact (qnorm2 _ c) && qc_sqrt_exact (dot3 _ (qvec _ c) (qvec _ c))
                && negb (Qc_eq_bool (dot3 _ (qvec _ c) (qvec _ c)) 0)
  | _ => qc_sqrt_exact (qnorm2 _ (fst r)) && negb (Qc_eq_bool (qnorm2 _ (fst r)) 0)
  end.
Definition edit_exact (st : list (rot QcRing)) (e : edit QcRing (rot QcRing)) : bool :=
  match e with
  | EReshape => forallb (elem_exact KNormalize) st
  | EReflect => forallb (elem_exact KReflect) st
  | EInvertAxes => forallb (elem_exact KInvertAxes) st
  | _ => true
  end.
Fixpoint trace_exact (h : list (edit QcRing (rot QcRing))) (st : list (rot QcRing)) : bool :=
  match h with
  | [] => true
  | e :: h' => edit_exact st e && trace_exact h' (rot_step QcRing Qcinv qc_sqrt qc_ltb st e)
  end.
Definition qc_history (h : list (edit QcRing (rot QcRing))) (st : list (rot QcRing)) :=
  (trace_exact h st, map obs_state (qc_trace h st)).
(* monomorphic constructor names for the generated case files *)
Definition qrot_lit (a b c d : Z) (n : positive) (f : bool) : rot QcRing := ((qcq a n, qcq b n, qcq c n, qcq d n), f).
Definition QEdit := edit QcRing (rot QcRing).
Definition EdGather (idxs : list nat) : QEdit := EGather idxs.
Definition EdSetItem (idxs : list nat) (vals : list (rot QcRing)) : QEdit := ESetItem idxs vals.
Definition EdConcat (others : list (rot QcRing)) : QEdit := EConcat others.
Definition EdReshape : QEdit := EReshape.
Definition EdReflect : QEdit := EReflect.
Definition EdInvertAxes : QEdit := EInvertAxes.
Definition EdSetComp (c : nat) (vals : list Qc) : QEdit := @ESetComp QcRing _ c vals.

(* observation of getitem / setitem with a model-resolved index on a 1-D batch (None = the index is rejected) *)
Definition qc_getitem (ix : index1) (st : list (rot QcRing)) := option_map obs_state (getitem_ix (rid QcRing) ix st).
Definition qc_setitem (ix : index1) (v : rot QcRing) (st : list (rot QcRing)) :=
  option_map obs_state (match resolve_index (length st) ix with Some pos => setitem_ix ix (repeat v (length pos)) st | None => None end).
