(* Symbolic model of FastFourierOp / FourierOp (FFT path): a matrix entry is None (structural zero) or Some e,
   meaning c * zeta^e with zeta = exp(-2 pi i / N) a primitive N-th root of unity and c = 1/sqrt N ('ortho').
   The model follows the code: ZeroPadOp(recon -> enc), ifftshift, fftn, fftshift, CartesianSamplingOp. *)
From MrVerif Require Import Base.Prelude Model.ZeroPad.

(* torch.fft.fftshift / ifftshift as index maps on one axis of length N:
   fftshift(x)[i] = x[(i - N//2) mod N],  ifftshift(x)[i] = x[(i + N//2) mod N] *)
Definition fftshift_src (N i : Z) : Z := (i - N / 2) mod N.
Definition ifftshift_src (N i : Z) : Z := (i + N / 2) mod N.
(* inverse direction: position where sample r of the input ends up *)
Definition ifftshift_dst (N r : Z) : Z := (r - N / 2) mod N.

(* exponent table of the plain DFT: X[k] = c sum_m z[m] zeta^(k m) *)
Definition dft_exp (N k m : Z) : Z := (k * m) mod N.

(* fftshift(fft(ifftshift(x)))[k'] = c sum_r x[r] zeta^(e k' r):
   output position k' reads DFT bin fftshift_src k'; input sample r sits at position ifftshift_dst r *)
Definition fft_shifted_exp (N k' r : Z) : Z := dft_exp N (fftshift_src N k') (ifftshift_dst N r).

(* with padding/cropping recon n -> enc N in front (ZeroPadOp): image sample r lands on r + left_pad n N *)
Definition fft_entry (n N k' r : Z) : option Z :=
  let r' := r + left_pad n N in
  if (0 <=? r) && (r <? n) && (0 <=? r') && (r' <? N) && (0 <=? k') && (k' <? N)
  then Some (fft_shifted_exp N k' r') else None.

(* adjoint as coded: ifftshift, ifftn, fftshift, then ZeroPadOp.adjoint (enc -> recon).
   entry (r, k') of the adjoint matrix is c * zeta^(-e): we record the exponent of zeta^-1 *)
Definition ifft_shifted_exp (N r' k' : Z) : Z := dft_exp N (fftshift_src N r') (ifftshift_dst N k').
Definition ifft_entry (n N r k' : Z) : option Z :=
  let r' := r - left_pad N n in
  if (0 <=? r) && (r <? n) && (0 <=? r') && (r' <? N) && (0 <=? k') && (k' <? N)
  then Some (ifft_shifted_exp N r' k') else None.

(* FourierOp on an FFT axis: CartesianSamplingOp picks grid position k + N//2 for the integer frequency k *)
Definition fourier_entry (n N k r : Z) : option Z := fft_entry n N (k + N / 2) r.

(* N-D: per-axis exponents (the value is the product over the axes) *)
Fixpoint fftn_entry (ns Ns ks rs : list Z) : option (list Z) :=
  match ns, Ns, ks, rs with
  | [], [], [], [] => Some []
  | n :: ns', N :: Ns', k :: ks', r :: rs' =>
      match fft_entry n N k r, fftn_entry ns' Ns' ks' rs' with
      | Some e, Some es => Some (e :: es)
      | _, _ => None
      end
  | _, _, _, _ => None
  end.

(* executable tables for the correspondence *)
Definition fft_table (n N : Z) : list (list (option Z)) :=
  map (fun k' => map (fun r => fft_entry n N k' r) (zrange n)) (zrange N).
Definition ifft_table (n N : Z) : list (list (option Z)) :=
  map (fun r => map (fun k' => ifft_entry n N r k') (zrange N)) (zrange n).
Definition fourier_table (n N : Z) (ks : list Z) : list (list (option Z)) :=
  map (fun k => map (fun r => fourier_entry n N k r) (zrange n)) ks.
