(* Model of the KData re-organisations (src/mrpro/data/_kdata/KData{Split,Select,Rearrange,RemoveOs}Mixin.py,
   utils/split_idx.py, KData.compress_coils, algorithms/prewhiten_kspace.py).  Definitions only.

   A dataset is three index-aligned id arrays, given as functions of the position so that every operation is an index map:
     fd o c a b j      k-space data over (other, coils, k2, k1, k0)
     ft m o a b j      trajectory component m (0 kz, 1 ky, 2 kx) *as read through broadcasting* at data position (o, k2, k1, k0);
                       the shape (tO, t2, t1, t0) of traj.as_tensor() is derived: KTrajectory reduces every axis along which a
                       component repeats to a singleton, so an axis of as_tensor() is 1 iff all components are constant along it
     fi r o a b        AcqInfo array r over (other, k2, k1): r = 0 scan_counter (the acquisition id), r = 1..6 the idx labels
                       average slice contrast phase repetition set, r = 7 center_sample, r = 8 the orientation of the readout (index of
                       its read/phase/slice frame, proper or improper); ish r is the shape of that array.
   `lims` = length of the encoding limits of the six labels, encx / reconx = encoding / recon matrix size along x. *)
From MrVerif Require Import Base.Prelude Base.Tensor.

Record fds := mkF {
  nO : Z; nC : Z; n2 : Z; n1 : Z; n0 : Z;
  fd : Z -> Z -> Z -> Z -> Z -> Z;
  tbad : bool;                               (* trajectory no longer broadcastable to the data (see rearrange) *)
  ft : Z -> Z -> Z -> Z -> Z -> Z;
  ish : Z -> Z * Z * Z;
  fi : Z -> Z -> Z -> Z -> Z;
  lims : list Z; encx : Z; reconx : Z }.

Inductive kerr := ErrValue | ErrIndex.

(* remove_repeat in KTrajectory.__post_init__ / from_tensor, then broadcasting of the three components in as_tensor() *)
Definition all_pos (k : fds) (p : Z -> Z -> Z -> Z -> bool) : bool :=
  forallb (fun o => forallb (fun a => forallb (fun b => forallb (fun j => p o a b j) (zrange (n0 k))) (zrange (n1 k))) (zrange (n2 k)))
          (zrange (nO k)).
Definition all_comp (k : fds) (o a b j o' a' b' j' : Z) : bool :=
  forallb (fun m => ft k m o a b j =? ft k m o' a' b' j') (zrange 3).
Definition tO (k : fds) : Z := if all_pos k (fun o a b j => all_comp k o a b j 0 a b j) then 1 else nO k.
Definition t2 (k : fds) : Z := if all_pos k (fun o a b j => all_comp k o a b j o 0 b j) then 1 else n2 k.
Definition t1 (k : fds) : Z := if all_pos k (fun o a b j => all_comp k o a b j o a 0 j) then 1 else n1 k.
Definition t0 (k : fds) : Z := if all_pos k (fun o a b j => all_comp k o a b j o a b 0) then 1 else n0 k.

(* ---- utils/split_idx.py: idx.unfold(0, np_per_block, step) after the optional cyclic extension ---------------------- *)
(* None: ValueError (overlap >= np_per_block) or RuntimeError (block longer than the index).  Result: (number of blocks, block s position b -> index into idx) *)
Definition split_idx (n np_per_block np_overlap : Z) (cyclic : bool) : option (Z * (Z -> Z -> Z)) :=
  if np_per_block <=? np_overlap then None else
  let step := np_per_block - np_overlap in
  let len := if cyclic then n + Z.min step n else n in          (* concat(idx, idx[:step]) *)
  if len <? np_per_block then None else                          (* Tensor.unfold: RuntimeError *)
  Some ((len - np_per_block) / step + 1, fun s b => (s * step + b) mod n).                 (* positions >= n are the wrapped copies *)

Definition sidx_table (nb per : Z) (f : Z -> Z -> Z) : list (list Z) :=
  map (fun s => map (f s) (zrange per)) (zrange nb).

(* ---- helpers ---------------------------------------------------------------------------------------------------------- *)
Definition zfun2 (tbl : list (list Z)) (s b : Z) : Z := nth (Z.to_nat b) (nth (Z.to_nat s) tbl []) 0.
Definition ztable_max (tbl : list (list Z)) : Z := fold_right Z.max 0 (concat tbl).
Definition ztable_min (tbl : list (list Z)) : Z := fold_right Z.min 0 (concat tbl).
Definition set_nth (n : nat) (v : Z) (l : list Z) : list Z := firstn n l ++ v :: skipn (S n) l.

(* ---- _split_k2_or_k1_into_other ------------------------------------------------------------------------------------------ *)
(* sidx: 2-D index (ns blocks x per entries), label in 1..6 *)
Definition split_k1 (sidx : list (list Z)) (label : Z) (k : fds) : kerr + fds :=
  let ns := Z.of_nat (length sidx) in
  let per := Z.of_nat (length (hd [] sidx)) in
  if 1 <? nth (Z.to_nat (label - 1)) (lims k) 0 then inl ErrValue                  (* label already used *)
  else if (n1 k <=? ztable_max sidx) || (ztable_min sidx <? 0) then inl ErrIndex   (* data[:, :, :, split_idx, :] *)
  else if t1 k <=? ztable_max sidx then inl ErrIndex                              (* ktraj[:, :, :, split_idx, :] *)
  else inr (mkF (nO k * ns) (nC k) (n2 k) per (n0 k)
                (fun o c a b j => fd k (o / ns) c a (zfun2 sidx (o mod ns) b) j)
                (tbad k)
                (fun m o a b j => ft k m (o / ns) a (zfun2 sidx (o mod ns) b) j)
                (* the new label tensor is repeat(linspace(0, ns-1), 'other_split -> (other other_split) k2 k1', other = nO) (repair of KF-04;
                   before it was 'other -> other k2 k1' with first axis ns, not nO*ns) *)
                (fun r => if r =? label then (nO k * ns, n2 k, per) else let '(_, x2, _) := ish k r in (nO k * ns, x2, per))
                (fun r o a b => if r =? label then o mod ns else fi k r (o / ns) a (zfun2 sidx (o mod ns) b))
                (set_nth (Z.to_nat (label - 1)) ns (lims k)) (encx k) (reconx k)).

Definition split_k2 (sidx : list (list Z)) (label : Z) (k : fds) : kerr + fds :=
  let ns := Z.of_nat (length sidx) in
  let per := Z.of_nat (length (hd [] sidx)) in
  if 1 <? nth (Z.to_nat (label - 1)) (lims k) 0 then inl ErrValue
  else if (n2 k <=? ztable_max sidx) || (ztable_min sidx <? 0) then inl ErrIndex
  else if t2 k <=? ztable_max sidx then inl ErrIndex
  else inr (mkF (nO k * ns) (nC k) per (n1 k) (n0 k)
                (fun o c a b j => fd k (o / ns) c (zfun2 sidx (o mod ns) a) b j)
                (tbad k)
                (fun m o a b j => ft k m (o / ns) (zfun2 sidx (o mod ns) a) b j)
                (fun r => if r =? label then (nO k * ns, per, n1 k) else let '(_, _, x1) := ish k r in (nO k * ns, per, x1))
                (fun r o a b => if r =? label then o mod ns else fi k r (o / ns) (zfun2 sidx (o mod ns) a) b)
                (set_nth (Z.to_nat (label - 1)) ns (lims k)) (encx k) (reconx k)).

(* ---- select_other_subset --------------------------------------------------------------------------------------------------- *)
Definition label_values (k : fds) (label : Z) : list Z :=
  let '(xo, x2, x1) := ish k label in
  flat_map (fun o => flat_map (fun a => map (fun b => fi k label o a b) (zrange x1)) (zrange x2)) (zrange xo).

(* torch.cat([torch.where(idx == label_idx[:, 0, 0])[0] for idx in subset_idx]) *)
Definition other_index (k : fds) (label : Z) (subset : list Z) : list Z :=
  let '(xo, _, _) := ish k label in
  flat_map (fun el => filter (fun o => fi k label o 0 0 =? el) (zrange xo)) subset.

Definition select_other_subset (subset : list Z) (label : Z) (k : fds) : kerr + fds :=
  if negb (forallb (fun el => existsb (Z.eqb el) (label_values k label)) subset) then inl ErrValue
  else
    let oi := other_index k label subset in
    let no := Z.of_nat (length oi) in
    let src o := nth (Z.to_nat o) oi 0 in
    inr (mkF no (nC k) (n2 k) (n1 k) (n0 k)
             (fun o c a b j => fd k (src o) c a b j)
             (tbad k)
             (fun m o a b j => ft k m (src o) a b j)
             (fun r => let '(_, x2, x1) := ish k r in (no, x2, x1))
             (fun r o a b => fi k r (src o) a b)
             (lims k) (encx k) (reconx k)).

(* ---- rearrange_k2_k1_into_k1 ----------------------------------------------------------------------------------------------- *)
(* the trajectory is rearranged on the shape of traj.as_tensor(): (tO, t2, t1, t0) -> (tO, 1, t2*t1, t0); when the trajectory
   depends on k2 but on k1 not at all (t2 = n2 > 1, t1 = 1 < n1) its new k1 axis has n2 entries instead of n2*n1 *)
Definition rearrange_k2_k1_into_k1 (k : fds) : kerr + fds :=
  inr (mkF (nO k) (nC k) 1 (n2 k * n1 k) (n0 k)
           (fun o c a b j => fd k o c (b / n1 k) (b mod n1 k) j)
           (tbad k || ((1 <? t2 k) && (t1 k =? 1) && (1 <? n1 k)))
           (fun m o a b j => ft k m o (b / n1 k) (b mod n1 k) j)
           (fun r => let '(xo, x2, x1) := ish k r in (xo, 1, x2 * x1))
           (fun r o a b => let '(_, _, x1) := ish k r in fi k r o (b / x1) (b mod x1))
           (lims k) (encx k) (reconx k)).

(* ---- remove_readout_os ------------------------------------------------------------------------------------------------------ *)
(* crop window [start, start + recon) with start = enc // 2 - recon // 2, applied to the image along k0, to every trajectory
   component that is not a singleton along k0, and subtracted from center_sample (r = 7).  On ids: output sample j stands
   for source sample start + j (the data values themselves are FFT - crop - FFT of the source readout). *)
(* crop start: the image centre enc // 2 stays the centre recon // 2 *)
Definition os_start (enc recon : Z) : Z := enc / 2 - recon / 2.

Definition remove_readout_os (k : fds) : kerr + fds :=
  if reconx k =? encx k then inr k
  else if encx k <? reconx k then inl ErrValue
  else
    let start := (encx k / 2 - reconx k / 2) in
    let m := Z.min (reconx k) (n0 k - start) in
    inr (mkF (nO k) (nC k) (n2 k) (n1 k) m
             (fun o c a b j => fd k o c a b (start + j))
             (tbad k)
             (fun mm o a b j => ft k mm o a b (start + j))
             (ish k)
             (fun r o a b => if r =? 7 then fi k r o a b - start else fi k r o a b)
             (lims k) m (reconx k)).

(* ---- compress_coils / prewhiten_kspace / clone / to: positions other than the coil axis are untouched ------------------ *)
Definition compress_coils (n : Z) (k : fds) : kerr + fds :=
  inr (mkF (nO k) n (n2 k) (n1 k) (n0 k) (fd k) (tbad k) (ft k) (ish k) (fi k) (lims k) (encx k) (reconx k)).
Definition prewhiten (k : fds) : kerr + fds := inr k.
Definition clone (k : fds) : kerr + fds := inr k.

(* ---- operation sequences ---------------------------------------------------------------------------------------------------- *)
Inductive kop :=
| OpSplitK1 (sidx : list (list Z)) (label : Z)
| OpSplitK2 (sidx : list (list Z)) (label : Z)
| OpSelect (subset : list Z) (label : Z)
| OpRearrange
| OpRemoveOs
| OpCompress (n : Z)
| OpPrewhiten
| OpClone.

Definition apply_op (op : kop) (k : fds) : kerr + fds :=
  match op with
  | OpSplitK1 s l => split_k1 s l k
  | OpSplitK2 s l => split_k2 s l k
  | OpSelect s l => select_other_subset s l k
  | OpRearrange => rearrange_k2_k1_into_k1 k
  | OpRemoveOs => remove_readout_os k
  | OpCompress n => compress_coils n k
  | OpPrewhiten => prewhiten k
  | OpClone => clone k
  end.

(* stops at the first operation that raises; the number of operations done is returned with the state *)
Fixpoint run (ops : list kop) (k : fds) : fds * option kerr * Z :=
  match ops with
  | [] => (k, None, 0)
  | op :: r => match apply_op op k with
               | inl e => (k, Some e, 0)
               | inr k' => let '(kf, e, n) := run r k' in (kf, e, n + 1)
               end
  end.

(* ---- building a dataset from arrays and printing it ---------------------------------------------------------------------- *)
Definition bc (t x : Z) : Z := if t =? 1 then 0 else x.
Definition of_lists (shape : list Z) (data : list Z) (tshapes : list (list Z)) (tdata : list (list Z))
                    (info : list (list Z)) (lims : list Z) (encx reconx : Z) : fds :=
  let dim i := nth i shape 1 in
  mkF (dim 0%nat) (dim 1%nat) (dim 2%nat) (dim 3%nat) (dim 4%nat)
      (fun o c a b j => tget 0 shape data [o; c; a; b; j])
      false
      (fun m o a b j => let s := nth (Z.to_nat m) tshapes [] in
                        tget 0 s (nth (Z.to_nat m) tdata [])
                             [bc (nth 0 s 1) o; bc (nth 1 s 1) a; bc (nth 2 s 1) b; bc (nth 3 s 1) j])
      (fun _ => (dim 0%nat, dim 2%nat, dim 3%nat))
      (fun r o a b => tget 0 [dim 0%nat; dim 2%nat; dim 3%nat] (nth (Z.to_nat r) info []) [o; a; b])
      lims encx reconx.

(* trajectory broadcastable to the data, every AcqInfo array shaped (other, k2, k1) *)
Definition traj_consistent (k : fds) : bool := negb (tbad k).
Definition info_consistent (k : fds) : bool :=
  forallb (fun r => let '(xo, x2, x1) := ish k r in (xo =? nO k) && (x2 =? n2 k) && (x1 =? n1 k)) (zrange 9).

Definition tabulate (k : fds) :=
  ([nO k; nC k; n2 k; n1 k; n0 k],
   tbuild [nO k; nC k; n2 k; n1 k; n0 k] (fun i => fd k (nth 0 i 0) (nth 1 i 0) (nth 2 i 0) (nth 3 i 0) (nth 4 i 0)),
   (traj_consistent k,
    if traj_consistent k
    then map (fun m => tbuild [nO k; n2 k; n1 k; n0 k] (fun i => ft k m (nth 0 i 0) (nth 1 i 0) (nth 2 i 0) (nth 3 i 0))) (zrange 3)
    else []),
   map (fun r => let '(xo, x2, x1) := ish k r in
                 ([xo; x2; x1], tbuild [xo; x2; x1] (fun i => fi k r (nth 0 i 0) (nth 1 i 0) (nth 2 i 0)))) (zrange 9),
   (lims k, encx k, reconx k)).
