(* Deep embedding of what a user can write with linear operators (@, +, scalar/tensor * on either side, .H, .gram)
   with two semantics: [plain] = matrix algebra, [build] = the objects Python constructs, including every shortcut of
   LinearOperator.__matmul__/__add__/__mul__/__rmul__, AdjointLinearOperator.H and the fused .gram rules. *)
From MrVerif Require Import Base.Prelude Base.StarRing Base.Sums Model.OpAlg.
Local Open Scope nat_scope.

Section Algebra.
  Variable R : StarRing.
  (* python's `other == 0` / `other == 1` on a python number *)
  Variables (eq0 eq1 : R -> bool).
  Local Open Scope K_scope.
  Notation vec := (nat -> R).
  Notation linop := (linop R).

  (* a python number, a tensor with a single element, a tensor with more than one element *)
  Inductive scal := SPy (c : R) | ST1 (c : R) | STN (s : vec).
  Definition sval (s : scal) : vec := match s with SPy c => fun _ => c | ST1 c => fun _ => c | STN s => s end.
  Definition sconj (s : scal) : scal :=
    match s with SPy c => SPy (kconj c) | ST1 c => ST1 (kconj c) | STN s => STN (fun i => kconj (s i)) end.
  (* conj(s) * s *)
  Definition sabs2 (s : scal) : scal :=
    match s with SPy c => SPy (kconj c * c) | ST1 c => ST1 (kconj c * c) | STN s => STN (fun i => kconj (s i) * s i) end.

  Inductive expr :=
  | ELeaf (A : linop) | EId (n : nat) | EZero (n m : nat)
  | EComp (a b : expr) | EAdd (a b : expr)
  | EMulR (s : scal) (a : expr)      (* s * A *)
  | EMulL (a : expr) (s : scal)      (* A * s *)
  | EH (a : expr) | EGram (a : expr).

  Fixpoint plain (e : expr) : linop :=
    match e with
    | ELeaf A => A
    | EId n => idop n
    | EZero n m => zeroop n m
    | EComp a b => comp (plain a) (plain b)
    | EAdd a b => lsum (plain a) (plain b)
    | EMulR s a => prod_right (sval s) (plain a)
    | EMulL a s => prod_left (plain a) (sval s)
    | EH a => adjop (plain a)
    | EGram a => comp (adjop (plain a)) (plain a)
    end.

  (* the object graph Python builds (class of the resulting operator) *)
  Inductive bop :=
  | BLeaf (A : linop) | BId (n : nat) | BZero (n m : nat)
  | BComp (a b : bop) | BSum (a b : bop) | BProdR (s : scal) (a : bop) | BProdL (a : bop) (s : scal) | BAdj (a : bop).

  Fixpoint bden (b : bop) : linop :=
    match b with
    | BLeaf A => A
    | BId n => idop n
    | BZero n m => zeroop n m      (* ZeroOp() returns the scalar 0, which broadcasts to zeros *)
    | BComp a c => comp (bden a) (bden c)
    | BSum a c => lsum (bden a) (bden c)
    | BProdR s a => prod_right (sval s) (bden a)
    | BProdL a s => prod_left (bden a) (sval s)
    | BAdj a => adjop (bden a)
    end.

  (* LinearOperator.__matmul__ *)
  Definition b_matmul (a b : bop) : bop :=
    match b with BId _ => a | _ => match a with BId _ => b | _ => BComp a b end end.
  (* LinearOperator.__add__ (operator + operator) *)
  Definition b_add (a b : bop) : bop :=
    match a with BZero _ _ => b | _ => match b with BZero _ _ => a | _ => BSum a b end end.
  (* __rmul__: s * A *)
  Definition b_mulr (s : scal) (a : bop) : bop :=
    match s with
    | SPy c => if eq0 c then BZero (dom (bden a)) (ran (bden a)) else if eq1 c then a else BProdR s a
    | _ => BProdR s a
    end.
  (* __mul__: A * s *)
  Definition b_mull (a : bop) (s : scal) : bop :=
    match s with
    | SPy c => if eq0 c then BZero (dom (bden a)) (ran (bden a)) else if eq1 c then a else BProdL a s
    | _ => BProdL a s
    end.
  (* .H : AdjointLinearOperator(self), except AdjointLinearOperator.H = the original *)
  Definition b_H (a : bop) : bop := match a with BAdj o => o | _ => BAdj a end.

  (* .gram property *)
  Fixpoint b_gram (a : bop) : bop :=
    match a with
    | BComp o1 o2 => b_matmul (b_matmul (b_H o2) (b_gram o1)) o2               (* B^H @ A.gram @ B *)
    | BProdR s o =>
        match s with
        | STN _ => b_matmul (b_H o) (b_mulr (sabs2 s) o)                       (* A^H @ (|s|^2 * A) *)
        | _ => b_mulr (sabs2 s) (b_gram o)                                     (* |s|^2 * A.gram *)
        end
    | BProdL o s => b_mull (b_mulr (sconj s) (b_gram o)) s                     (* conj(s) * A.gram * s *)
    | _ => b_matmul (b_H a) a                                                  (* default: self.H @ self *)
    end.

  Fixpoint build (e : expr) : bop :=
    match e with
    | ELeaf A => BLeaf A
    | EId n => BId n
    | EZero n m => BZero n m
    | EComp a b => b_matmul (build a) (build b)
    | EAdd a b => b_add (build a) (build b)
    | EMulR s a => b_mulr s (build a)
    | EMulL a s => b_mull (build a) s
    | EH a => b_H (build a)
    | EGram a => b_gram (build a)
    end.

  Fixpoint shaped (e : expr) : Prop :=
    match e with
    | ELeaf _ | EId _ | EZero _ _ => True
    | EComp a b => shaped a /\ shaped b /\ dom (plain a) = ran (plain b)
    | EAdd a b => shaped a /\ shaped b /\ dom (plain a) = dom (plain b) /\ ran (plain a) = ran (plain b)
    | EMulR _ a | EMulL a _ | EH a | EGram a => shaped a
    end.
  Fixpoint leaves_wf (e : expr) : Prop :=
    match e with
    | ELeaf A => wf A
    | EId _ | EZero _ _ => True
    | EComp a b | EAdd a b => leaves_wf a /\ leaves_wf b
    | EMulR _ a | EMulL a _ | EH a | EGram a => leaves_wf a
    end.

  (* observational equality of operators: same sizes, same forward and adjoint values *)
  Definition opeq (A B : linop) : Prop :=
    dom A = dom B /\ ran A = ran B /\
    (forall x i, (i < ran A)%nat -> fwd A x i = fwd B x i) /\
    (forall y j, (j < dom A)%nat -> adj A y j = adj B y j).
End Algebra.

Arguments SPy {R}. Arguments ST1 {R}. Arguments STN {R}. Arguments sval {R}.
Arguments ELeaf {R}. Arguments EId {R}. Arguments EZero {R}. Arguments EComp {R}. Arguments EAdd {R}.
Arguments EMulR {R}. Arguments EMulL {R}. Arguments EH {R}. Arguments EGram {R}.
Arguments plain {R}. Arguments build {R}. Arguments bden {R}. Arguments shaped {R}. Arguments leaves_wf {R}. Arguments opeq {R}.
