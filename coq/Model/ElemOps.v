(* Elementary operators of mrpro as flat-vector models (forward and adjoint each from its own Python method). *)
From MrVerif Require Import Base.Prelude Base.StarRing Base.Sums Model.OpAlg Model.ZeroPad.
Local Open Scope nat_scope.

Section ElemOps.
  Variable R : StarRing.
  Local Open Scope K_scope.
  Notation vec := (nat -> R).
  Notation linop := (linop R).

  (* ---- gather along a partial index map, and its two candidate adjoints ---- *)
  (* forward of CartesianSamplingOp (take_along_dim + zero fill), of permutations, of pad/crop: y[s] = x[g s] or 0 *)
  Definition gather (n : nat) (g : nat -> option nat) (x : vec) : vec :=
    fun s => match g s with Some r => if Nat.ltb r n then x r else k0 | None => k0 end.
  (* torch scatter_add_ into zeros: x[r] = sum of y[s] over the s with g s = r *)
  Definition scatter_add (m : nat) (g : nat -> option nat) (y : vec) : vec :=
    fun r => sum m (fun s => match g s with Some r' => if Nat.eqb r' r then y s else k0 | None => k0 end).
  (* torch scatter_ into zeros (CPU): the last writer wins *)
  Fixpoint scatter_last (m : nat) (g : nat -> option nat) (y : vec) (r : nat) : R :=
    match m with
    | O => k0
    | S m' => match g m' with
              | Some r' => if Nat.eqb r' r then y m' else scatter_last m' g y r
              | None => scatter_last m' g y r
              end
    end.

  (* CartesianSamplingOp: grid of nr points, ns samples, idx s = Some (flat grid index) for samples inside the
     encoding matrix, None for samples outside (zero-filled in forward, dropped in adjoint). Adjoint as repaired:
     scatter_add_. *)
  Definition cart_sampling (nr ns : nat) (idx : nat -> option nat) : linop :=
    {| dom := nr; ran := ns; fwd := gather nr idx; adj := scatter_add ns idx |}.
  (* the pre-repair adjoint, kept for the refutation theorem *)
  Definition cart_sampling_overwrite (nr ns : nat) (idx : nat -> option nat) : linop :=
    {| dom := nr; ran := ns; fwd := gather nr idx; adj := scatter_last ns idx |}.

  (* ---- ZeroPadOp along one axis of length old -> new: forward = zero_pad_or_crop(x, padded),
          adjoint = zero_pad_or_crop(x, original) ---- *)
  Definition pad_map (old new : nat) (j : nat) : option nat :=
    let i := (Z.of_nat j - left_pad (Z.of_nat old) (Z.of_nat new))%Z in
    if ((0 <=? i) && (i <? Z.of_nat old) && (Z.of_nat j <? Z.of_nat new))%Z then Some (Z.to_nat i) else None.
  Definition pad_vec (old new : nat) (x : vec) : vec := gather old (pad_map old new) x.
  Definition zeropad_op (old new : nat) : linop :=
    {| dom := old; ran := new; fwd := pad_vec old new; adj := pad_vec new old |}.

  (* ---- RearrangeOp: a permutation p of [0,n) with inverse q: forward gathers with p, adjoint with q ---- *)
  Definition perm_op (n : nat) (p q : nat -> nat) : linop :=
    {| dom := n; ran := n; fwd := gather n (fun i => Some (p i)); adj := gather n (fun j => Some (q j)) |}.

  (* ---- 3-tap correlation (filter_separable with conv1d = cross-correlation), zero or circular boundary ---- *)
  Definition predc (circ : bool) (n i : nat) : option nat :=
    if Nat.eqb i 0 then (if circ then Some (n - 1)%nat else None) else Some (i - 1)%nat.
  Definition succc (circ : bool) (n i : nat) : option nat :=
    if Nat.eqb (i + 1) n then (if circ then Some 0%nat else None) else Some (i + 1)%nat.
  Definition at_opt (n : nat) (x : vec) (o : option nat) : R :=
    match o with Some i => if Nat.ltb i n then x i else k0 | None => k0 end.
  (* y[i] = a x[i-1] + b x[i] + c x[i+1] *)
  Definition stencil3 (circ : bool) (n : nat) (a b c : R) (x : vec) : vec :=
    fun i => a * at_opt n x (predc circ n i) + b * x i + c * at_opt n x (succc circ n i).
  (* FiniteDifferenceOp along one axis: adjoint = correlation with the flipped kernel *)
  Definition findiff_op (circ : bool) (n : nat) (a b c : R) : linop :=
    {| dom := n; ran := n; fwd := stencil3 circ n a b c; adj := stencil3 circ n c b a |}.

  (* ---- SensitivityOp: x[r] -> csm[c,r] * x[r] for every coil c; adjoint sums conj(csm) * y over coils ---- *)
  Definition sens_op (ncoil npix : nat) (csm : nat -> nat -> R) : linop :=
    {| dom := npix; ran := ncoil * npix;
       fwd := fun x i => csm (i / npix)%nat (i mod npix)%nat * x (i mod npix)%nat;
       adj := fun y r => sum ncoil (fun c => kconj (csm c r) * y (c * npix + r)%nat) |}.

  (* ---- DensityCompensationOp / diagonal: EinsumOp('... , ... -> ...') ---- *)
  Definition diag_op (n : nat) (d : vec) : linop :=
    {| dom := n; ran := n; fwd := fun x i => d i * x i; adj := fun y i => kconj (d i) * y i |}.

  (* ---- an operator acting along one axis of a row-major (pre, n, post) tensor ---- *)
  Definition along (pre post : nat) (A : linop) : linop :=
    {| dom := pre * (dom A * post); ran := pre * (ran A * post);
       fwd := fun x i =>
         let a := (i / (ran A * post))%nat in let k' := ((i / post) mod ran A)%nat in let b := (i mod post)%nat in
         fwd A (fun k => x (a * (dom A * post) + (k * post + b))%nat) k';
       adj := fun y j =>
         let a := (j / (dom A * post))%nat in let k := ((j / post) mod dom A)%nat in let b := (j mod post)%nat in
         adj A (fun k' => y (a * (ran A * post) + (k' * post + b))%nat) k |}.
End ElemOps.

Arguments gather {R}. Arguments scatter_add {R}. Arguments scatter_last {R}. Arguments cart_sampling {R}.
Arguments cart_sampling_overwrite {R}. Arguments pad_vec {R}. Arguments zeropad_op {R}. Arguments perm_op {R}.
Arguments stencil3 {R}. Arguments findiff_op {R}. Arguments sens_op {R}. Arguments diag_op {R}. Arguments along {R}.
Arguments at_opt {R}.
