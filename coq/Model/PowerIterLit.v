(* C19 - the loop body of LinearOperator.operator_norm read literally, over the reals: the code keeps a NORMALISED vector and reports
   sqrt(<v, A^H A v>); Model/PowerIter.v keeps the unnormalised vector u and reports the square <u,Gu>/<u,u>.  This file states the literal
   reading (statement by statement; it is regenerated from the source by harness/translate/opnorm.py, obligation gen_lit_X = lit_X);
   Proofs/PowerIterLitProofs.v proves that the two are the same iteration (lit_refines).
   One problem (no batch): with dim given, batch entries are independent problems advancing in lockstep (Model/PowerIter.v). *)
From Coq Require Import List Reals.
Import ListNotations.
From MrVerif Require Import Model.CG Model.PowerIter.
Local Open Scope R_scope.

Notation dotR := (dot R 0 Rplus Rmult).
Notation vscaleR := (vscale R Rmult).

Section Literal.
  Variable G : list R -> list R.                 (* x |-> self.adjoint( *self(x) )[0] *)
  Variable close : R -> R -> bool.               (* (atol > 0 or rtol > 0) and isclose(op_norm, op_norm_old, atol, rtol) *)

  (* torch.linalg.vector_norm(x) *)
  Definition norm2 (x : list R) : R := sqrt (dotR x x).
  (* vector = initial_value / norm_initial_value *)
  Definition lit_init (x0 : list R) : list R := vscaleR (/ norm2 x0) x0.
  (* vector_new = G vector; op_norm = sqrt(sum(vector * vector_new)) *)
  Definition lit_estimate (v : list R) : R := sqrt (dotR v (G v)).
  (* vector = where(|vector_new| > 0, vector_new / |vector_new|, vector) *)
  Definition lit_next (v : list R) : list R :=
    let w := G v in if Rlt_dec 0 (norm2 w) then vscaleR (/ norm2 w) w else v.

  Inductive lit_res := LStop (est : R) | LNext (est : R) (v : list R).
  (* one pass through the loop body, op_norm_old given *)
  Definition lit_step (v : list R) (old : R) : lit_res :=
    let est := lit_estimate v in
    if close est old then LStop est else LNext est (lit_next v).

  (* the loop: returned estimate and the values given to the callback *)
  Fixpoint lit_loop (fuel : nat) (v : list R) (old : R) (last : R) : R * list R :=
    match fuel with
    | O => (last, [])
    | S fuel' =>
      match lit_step v old with
      | LStop est => (est, [])
      | LNext est v' => let (r, t) := lit_loop fuel' v' est est in (r, est :: t)
      end
    end.

  Definition lit_operator_norm (x0 : list R) (max_iterations : nat) : R * list R :=
    lit_loop max_iterations (lit_init x0) 0 0.
End Literal.
