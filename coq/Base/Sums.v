(* Finite sums over an abstract *-ring, vectors as functions nat -> K with explicit length. *)
From MrVerif Require Import Base.Prelude Base.StarRing.
Local Open Scope nat_scope.

Section Sums.
  Variable R : StarRing.
  Add Ring Rr2 : (k_ring R).
  Local Open Scope K_scope.
  Notation vec := (nat -> R).

  Fixpoint sum (n : nat) (f : vec) : R :=
    match n with O => k0 | S m => sum m f + f m end.

  Lemma sum_ext n f g : (forall i, (i < n)%nat -> f i = g i) -> sum n f = sum n g.
  Proof.
    induction n as [|n IH]; intros H; cbn [sum]; [reflexivity|].
    rewrite IH by (intros; apply H; lia). rewrite H by lia. reflexivity.
  Qed.

  Lemma sum_zero n : sum n (fun _ => k0) = k0.
  Proof. induction n as [|n IH]; cbn [sum]; [reflexivity|]. rewrite IH. ring. Qed.

  Lemma sum_add n f g : sum n (fun i => f i + g i) = sum n f + sum n g.
  Proof. induction n as [|n IH]; cbn [sum]; [ring|]. rewrite IH. ring. Qed.

  Lemma sum_sub n f g : sum n (fun i => f i - g i) = sum n f - sum n g.
  Proof. induction n as [|n IH]; cbn [sum]; [ring|]. rewrite IH. ring. Qed.

  Lemma sum_mul_l n c f : sum n (fun i => c * f i) = c * sum n f.
  Proof. induction n as [|n IH]; cbn [sum]; [ring|]. rewrite IH. ring. Qed.

  Lemma sum_mul_r n c f : sum n (fun i => f i * c) = sum n f * c.
  Proof. induction n as [|n IH]; cbn [sum]; [ring|]. rewrite IH. ring. Qed.

  Lemma sum_conj n f : kconj (sum n f) = sum n (fun i => kconj (f i)).
  Proof.
    induction n as [|n IH]; cbn [sum]; [apply kconj_0|]. rewrite kconj_add, IH. reflexivity.
  Qed.

  Lemma sum_swap n m (f : nat -> nat -> R) :
    sum n (fun i => sum m (fun j => f i j)) = sum m (fun j => sum n (fun i => f i j)).
  Proof.
    induction n as [|n IH]; cbn [sum].
    - symmetry. apply sum_zero.
    - rewrite IH. rewrite <- sum_add. reflexivity.
  Qed.

  (* Kronecker delta selection *)
  Lemma sum_delta n j (f : vec) : (j < n)%nat ->
    sum n (fun i => if Nat.eqb i j then f i else k0) = f j.
  Proof.
    induction n as [|n IH]; intros Hj; [lia|]. cbn [sum].
    destruct (Nat.eqb_spec n j) as [->|Hne].
    - rewrite (sum_ext j _ (fun _ => k0)).
      + rewrite sum_zero. ring.
      + intros i Hi. destruct (Nat.eqb_spec i j); [lia|reflexivity].
    - rewrite IH by lia. ring.
  Qed.

  Lemma sum_delta_out n j (f : vec) : (n <= j)%nat ->
    sum n (fun i => if Nat.eqb i j then f i else k0) = k0.
  Proof.
    intros Hj. rewrite (sum_ext n _ (fun _ => k0)); [apply sum_zero|].
    intros i Hi. destruct (Nat.eqb_spec i j); [lia|reflexivity].
  Qed.

  Lemma sum_split n m f : sum (n + m) f = sum n f + sum m (fun i => f (n + i)%nat).
  Proof.
    induction m as [|m IH].
    - rewrite Nat.add_0_r. cbn [sum]. ring.
    - rewrite Nat.add_succ_r. cbn [sum]. rewrite IH. ring.
  Qed.

  (* sum over a product index space, row-major *)
  Lemma sum_flatten a b (f : vec) :
    sum (a * b) f = sum a (fun i => sum b (fun j => f (i * b + j)%nat)).
  Proof.
    induction a as [|a IH]; [reflexivity|].
    cbn [sum]. rewrite <- IH. replace (S a * b)%nat with (a * b + b)%nat by lia.
    apply sum_split.
  Qed.

  (* inner product, conjugate-linear in the second argument (torch.vdot(v,u) convention up to order) *)
  Definition inner (n : nat) (u v : vec) : R := sum n (fun i => u i * kconj (v i)).

  Lemma inner_ext n u u' v v' :
    (forall i, (i < n)%nat -> u i = u' i) -> (forall i, (i < n)%nat -> v i = v' i) ->
    inner n u v = inner n u' v'.
  Proof. intros Hu Hv. apply sum_ext. intros i Hi. rewrite Hu, Hv by exact Hi. reflexivity. Qed.

  Lemma inner_conj_sym n u v : kconj (inner n u v) = inner n v u.
  Proof.
    unfold inner. rewrite sum_conj. apply sum_ext. intros i _.
    rewrite kconj_mul, kconj_inv. ring.
  Qed.

  Definition delta (j : nat) : vec := fun i => if Nat.eqb i j then k1 else k0.

  Lemma sum_reindex_delta n (x : vec) i : (i < n)%nat ->
    x i = sum n (fun j => x j * delta j i).
  Proof.
    intros Hi. unfold delta.
    rewrite (sum_ext n _ (fun j => if Nat.eqb j i then x j else k0)).
    - symmetry. apply sum_delta. exact Hi.
    - intros j _. rewrite Nat.eqb_sym. destruct (Nat.eqb j i); ring.
  Qed.
End Sums.
Arguments sum {R}. Arguments inner {R}. Arguments delta {R}.
