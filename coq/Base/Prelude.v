(* Common imports and arithmetic set-up for the whole development. *)
From Coq Require Export ZArith List Bool Lia ZifyBool Arith.
Export ListNotations.
Ltac Zify.zify_post_hook ::= Z.to_euclidean_division_equations.
Global Open Scope Z_scope.

(* Python floor division / modulo are Z.div / Z.modulo (for positive divisors);
   math.trunc(a / b) is Z.quot. *)
Definition zrange (n : Z) : list Z := map Z.of_nat (seq 0 (Z.to_nat n)).

Lemma zrange_In n i : In i (zrange n) <-> 0 <= i < n.
Proof.
  unfold zrange. rewrite in_map_iff. split.
  - intros [k [<- Hk]]. apply in_seq in Hk. lia.
  - intros H. exists (Z.to_nat i). split; [lia|]. apply in_seq. lia.
Qed.

Lemma zrange_length n : length (zrange n) = Z.to_nat n.
Proof. unfold zrange. now rewrite map_length, seq_length. Qed.
