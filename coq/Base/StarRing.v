(* Abstract commutative *-ring: the scalar structure over which all linear-operator
   models are proved.  Instances that are *executed*: Z (trivial conjugation) and the
   Gaussian integers Z[i].  The complex numbers are the intended (not constructed)
   instance; every theorem proved for an arbitrary StarRing holds for them. *)
From MrVerif Require Import Base.Prelude.
From Coq Require Export Ring.

Record StarRing := {
  K :> Type;
  k0 : K; k1 : K;
  kadd : K -> K -> K; kmul : K -> K -> K; ksub : K -> K -> K; kopp : K -> K;
  kconj : K -> K;
  k_ring : ring_theory k0 k1 kadd kmul ksub kopp (@eq K);
  kconj_add : forall a b, kconj (kadd a b) = kadd (kconj a) (kconj b);
  kconj_mul : forall a b, kconj (kmul a b) = kmul (kconj a) (kconj b);
  kconj_inv : forall a, kconj (kconj a) = a;
}.
Arguments k0 {_}. Arguments k1 {_}. Arguments kadd {_}. Arguments kmul {_}.
Arguments ksub {_}. Arguments kopp {_}. Arguments kconj {_}.

Declare Scope K_scope.
Delimit Scope K_scope with K.
Infix "+" := kadd : K_scope.
Infix "*" := kmul : K_scope.
Infix "-" := ksub : K_scope.
Notation "- x" := (kopp x) : K_scope.

Section Facts.
  Variable R : StarRing.
  Add Ring Rr : (k_ring R).
  Local Open Scope K_scope.

  Lemma kconj_0 : kconj (k0 : R) = k0.
  Proof.
    assert (H : kconj (k0:R) + kconj k0 = kconj (k0:R)) by (rewrite <- kconj_add; f_equal; ring).
    transitivity (kconj (k0:R) + kconj k0 - kconj k0); [ring|]. rewrite H. ring.
  Qed.

  Lemma kconj_opp (a : R) : kconj (- a) = - kconj a.
  Proof.
    assert (H : kconj (- a) + kconj a = k0) by (rewrite <- kconj_add; rewrite <- kconj_0; f_equal; ring).
    transitivity (kconj (- a) + kconj a - kconj a); [ring|]. rewrite H. ring.
  Qed.

  Lemma kconj_sub (a b : R) : kconj (a - b) = kconj a - kconj b.
  Proof.
    replace (a - b) with (a + - b) by ring. rewrite kconj_add, kconj_opp. ring.
  Qed.

  Lemma kconj_1 : kconj (k1 : R) = k1.
  Proof.
    transitivity (kconj (k1:R) * kconj (kconj k1)); [rewrite kconj_inv; ring|].
    rewrite <- kconj_mul. replace ((k1:R) * kconj k1) with (kconj (k1:R)) by ring. apply kconj_inv.
  Qed.
End Facts.

(* ---- executable instances ---- *)
Lemma Z_star_ring_conj_add : forall a b : Z, id (a + b)%Z = (id a + id b)%Z. Proof. reflexivity. Qed.
Definition ZRing : StarRing.
Proof.
  refine {| K := Z; k0 := 0%Z; k1 := 1%Z; kadd := Z.add; kmul := Z.mul; ksub := Z.sub; kopp := Z.opp;
            kconj := fun a => a; k_ring := Zth |}; reflexivity.
Defined.

(* Gaussian integers re + i im *)
Definition G := (Z * Z)%type.
Definition gadd (a b : G) : G := (fst a + fst b, snd a + snd b)%Z.
Definition gmul (a b : G) : G := (fst a * fst b - snd a * snd b, fst a * snd b + snd a * fst b)%Z.
Definition gsub (a b : G) : G := (fst a - fst b, snd a - snd b)%Z.
Definition gopp (a : G) : G := (- fst a, - snd a)%Z.
Definition gconj (a : G) : G := (fst a, - snd a)%Z.
Lemma G_ring : ring_theory ((0,0):G) (1,0) gadd gmul gsub gopp (@eq G).
Proof.
  constructor; intros; repeat match goal with x : G |- _ => destruct x end;
    unfold gadd, gmul, gsub, gopp; cbn [fst snd]; f_equal; ring.
Qed.
Definition GRing : StarRing.
Proof.
  refine {| K := G; k0 := (0,0)%Z; k1 := (1,0)%Z; kadd := gadd; kmul := gmul; ksub := gsub; kopp := gopp;
            kconj := gconj; k_ring := G_ring |};
  intros; repeat match goal with x : G |- _ => destruct x end;
    unfold gadd, gmul, gconj; cbn [fst snd]; f_equal; ring.
Defined.
