(* Row-major flat tensors for *executing* models (lists) and multi-index arithmetic. *)
From MrVerif Require Import Base.Prelude.

Fixpoint numel (shape : list Z) : Z := match shape with [] => 1 | s :: r => s * numel r end.

(* row-major multi-index of a flat position *)
Fixpoint unravel (shape : list Z) (flat : Z) : list Z :=
  match shape with
  | [] => []
  | s :: r => (flat / numel r) :: unravel r (flat mod numel r)
  end.

Fixpoint ravel (shape idx : list Z) : Z :=
  match shape, idx with
  | s :: r, i :: ir => i * numel r + ravel r ir
  | _, _ => 0
  end.

Fixpoint in_range (shape idx : list Z) : bool :=
  match shape, idx with
  | [], [] => true
  | s :: r, i :: ir => (0 <=? i) && (i <? s) && in_range r ir
  | _, _ => false
  end.

Definition znth {A} (d : A) (l : list A) (i : Z) : A := if i <? 0 then d else nth (Z.to_nat i) l d.

(* value at multi-index (default outside) *)
Definition tget {A} (d : A) (shape : list Z) (data : list A) (idx : list Z) : A :=
  if in_range shape idx then znth d data (ravel shape idx) else d.

Definition tbuild {A} (shape : list Z) (f : list Z -> A) : list A :=
  map (fun flat => f (unravel shape flat)) (zrange (numel shape)).

Lemma numel_pos shape : Forall (fun s => 0 < s) shape -> 0 < numel shape.
Proof. induction 1; cbn [numel]; lia. Qed.

Lemma ravel_unravel shape : Forall (fun s => 0 < s) shape ->
  forall flat, 0 <= flat < numel shape -> ravel shape (unravel shape flat) = flat /\ in_range shape (unravel shape flat) = true.
Proof.
  induction 1 as [|s r Hs Hr IH]; intros flat Hf; cbn [numel unravel ravel in_range] in *.
  - split; [lia|reflexivity].
  - pose proof (numel_pos r Hr) as Hp.
    assert (Hm : 0 <= flat mod numel r < numel r) by (apply Z.mod_pos_bound; lia).
    destruct (IH _ Hm) as [E1 E2]. rewrite E1, E2. split.
    + rewrite Z.mul_comm. symmetry. apply Z.div_mod. lia.
    + assert (0 <= flat / numel r < s).
      { split; [apply Z.div_pos; lia|]. apply Z.div_lt_upper_bound; lia. }
      destruct (Z.leb_spec 0 (flat / numel r)); [|lia]. destruct (Z.ltb_spec (flat / numel r) s); [|lia]. reflexivity.
Qed.
