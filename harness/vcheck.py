#!/venv/bin/python
"""Driver:  ./check Cxx quick|thorough      or      ./check Cxx --replay <file>

Steps (DESIGN.md section 2.4): lint + build the Coq development, re-check Properties/Cxx.v and collect
Print Assumptions, run the property module's translators (regenerated obligations) and case families
(implementation from /repo/src against the Coq model under vm_compute), match known findings, search for a
failing input when something broke, write evidence/Cxx.json, print VIOLATION / KNOWN-FINDING lines.
"""
from __future__ import annotations

import hashlib
import importlib
import json
import os
import shutil
import sys
import time
import traceback
import warnings
from pathlib import Path

HERE = Path(__file__).resolve().parent
sys.path.insert(0, str(HERE))
sys.path.insert(0, os.path.join(os.environ.get('VERIF_REPO', '/repo'), 'src'))  # implementation under test: /repo's working tree
os.environ.setdefault('PYTHONHASHSEED', '0')
os.environ['PTB_MR_MRPRO_VERIF'] = '1'
warnings.filterwarnings('ignore')

import vlib  # noqa: E402
from vlib import VERIF, Ctx  # noqa: E402


def write_replay(prop: str, payload: dict) -> Path:
    d = VERIF / 'replays' / prop
    d.mkdir(parents=True, exist_ok=True)
    h = hashlib.sha1(json.dumps(payload, sort_keys=True, default=str).encode()).hexdigest()[:12]
    p = d / f'{h}.json'
    p.write_text(json.dumps(payload, indent=1, default=str))
    return p


def main() -> int:
    if len(sys.argv) < 3:
        print(__doc__)
        return 2
    prop = sys.argv[1]
    replay_file = None
    if sys.argv[2] == '--replay':
        replay_file = sys.argv[3]
        tier = 'quick'
    else:
        tier = sys.argv[2]
    tier = os.environ.get('VERIF_TIER', tier)
    assert tier in ('quick', 'thorough'), tier
    seed = int(os.environ.get('VERIF_SEED', '20260930' if tier == 'quick' else '4242'))

    try:
        import torch
        torch.set_num_threads(1 if tier == 'quick' else 2)
        torch.manual_seed(seed)
    except Exception:  # noqa: BLE001
        pass

    mod = importlib.import_module(f'props.{prop}')
    ctx = Ctx(prop, tier, seed)

    if replay_file:
        payload = json.loads(Path(replay_file).read_text())
        fams = {f.name: f for f in mod.FAMILIES}
        fam = fams.get(payload.get('family', ''))
        if fam is None or payload.get('case') is None:
            print(f'replay names no executable case (broken: {payload.get("broken")})')
            return 1
        vlib.coq_static_build([f'Properties/{prop}.vo'])
        ctx.run_family(fam, [payload['case']])
        if ctx.problems or ctx.known_hits:
            for p in ctx.problems:
                print(f'REPLAY still fails: [{p["kind"]}] {p["message"]}')
            for k in ctx.known_hits.values():
                print(f'REPLAY still fails (known finding {k["id"]}): {k["what_fails"]}')
            return 1
        print('REPLAY passes on the current tree')
        return 0

    # ---- 1. proofs --------------------------------------------------------------------------
    lint = vlib.lint_coq()
    for b in lint:
        ctx.problem('proof', 'lint', None, b)
    ok, log = vlib.coq_static_build([f'Properties/{prop}.vo'])
    if not ok:
        ctx.problem('proof', 'build', None, 'static Coq build failed: ' + log[-1500:])
    pf = vlib.check_properties_file(prop)
    ctx.obligations += len(pf['theorems'])
    if pf['ok']:
        ctx.discharged += len(pf['theorems'])
    else:
        ctx.problem('proof', 'properties', None, f'Properties/{prop}.v does not check: {pf["error"][-1500:]}')
    ctx.extra['theorems'] = pf['theorems']
    ctx.extra['print_assumptions'] = pf['assumptions']

    # thorough tier: re-check the compiled property file and everything it depends on with the independent checker
    if tier == 'thorough' and pf['ok'] and not os.environ.get('VERIF_NO_COQCHK'):
        import subprocess
        try:
            r = subprocess.run(['bash', '-c', f'ulimit -v 12000000; timeout 1200 coqchk -silent -o -Q . MrVerif MrVerif.Properties.{prop}'],
                               cwd=str(vlib.COQ), capture_output=True, text=True, timeout=1300)
            out = (r.stdout + r.stderr)
            ctx.extra['coqchk'] = {'exit': r.returncode, 'tail': out[-1500:]}
            if r.returncode not in (0, 124, 137):
                ctx.problem('proof', 'coqchk', None, 'coqchk rejects the compiled development: ' + out[-800:])
        except Exception as e:  # noqa: BLE001
            ctx.extra['coqchk'] = {'error': repr(e)}

    # ---- 2. translators / regenerated obligations (optional per property) ------------------------
    if hasattr(mod, 'translate'):
        try:
            mod.translate(ctx)
        except Exception as e:  # noqa: BLE001
            ctx.problem('proof', 'translator', None, f'translator crashed: {e!r} {traceback.format_exc()[-800:]}')

    # ---- 3. correspondence + direct oracles ---------------------------------------------------
    corpus = VERIF / 'corpus' / prop
    fams = {f.name: f for f in mod.FAMILIES}
    if corpus.exists():
        for f in sorted(corpus.glob('*.json')):
            payload = json.loads(f.read_text())
            fam = fams.get(payload.get('family'))
            if fam is not None and payload.get('case') is not None:
                ctx.run_family(fam, [payload['case']])
                ctx.count('corpus_cases')
    for fam in mod.FAMILIES:
        try:
            ctx.run_family(fam)
        except Exception as e:  # noqa: BLE001
            ctx.problem('correspondence', fam.name, None, f'family crashed: {e!r} {traceback.format_exc()[-1200:]}')
    if hasattr(mod, 'extra_checks'):
        try:
            mod.extra_checks(ctx)
        except Exception as e:  # noqa: BLE001
            ctx.problem('correspondence', 'extra', None, f'extra_checks crashed: {e!r} {traceback.format_exc()[-1200:]}')

    # ---- 4. decide; search when something broke without a failing input ---------------------------
    with_input = [p for p in ctx.problems if p['kind'] == 'property']
    broken = [p for p in ctx.problems if p['kind'] != 'property']
    if broken and not with_input and hasattr(mod, 'search'):
        try:
            mod.search(ctx, broken)
        except Exception as e:  # noqa: BLE001
            ctx.notes.append(f'search crashed: {e!r}')
        with_input = [p for p in ctx.problems if p['kind'] == 'property']
        broken = [p for p in ctx.problems if p['kind'] != 'property']

    lines = []
    for kf in ctx.known_hits.values():
        lines.append(f'KNOWN-FINDING: property={prop} {kf["what_fails"]} ({kf["id"]})')
    violations = 0
    if with_input:
        # report the smallest few failing inputs
        with_input.sort(key=lambda p: len(json.dumps(p['case'], default=str)))
        seen = set()
        for p in with_input:
            key = (p['family'], p['message'][:60])
            if key in seen or len(seen) >= 3:
                continue
            seen.add(key)
            rp = write_replay(prop, {'property': prop, 'found_by': 'search' if broken else 'oracle', 'family': p['family'],
                                     'case': p['case'], 'message': p['message'], 'got': p['got'], 'expected': p['expected'],
                                     'seed': seed, 'broken': [b['message'][:300] for b in broken][:5],
                                     'how_to_run': f'./check {prop} --replay <this file>'})
            lines.append(f'VIOLATION property={prop} replay={rp}')
            violations += 1
    elif broken:
        # a correspondence disagreement carries a concrete input on which model and code differ: keep it as the replay;
        # it is not shown to violate the property statement, hence the suffix.
        broken.sort(key=lambda p: (p['case'] is None, len(json.dumps(p['case'], default=str))))
        p = broken[0]
        rp = write_replay(prop, {'property': prop, 'found_by': p['kind'], 'family': p['family'], 'case': p['case'],
                                 'broken': f'{p["kind"]}:{p["family"]}: {p["message"]}', 'expected': p['expected'], 'got': p['got'],
                                 'all_broken': [f'{b["kind"]}:{b["family"]}: {b["message"][:300]}' for b in broken][:10],
                                 'seed': seed, 'how_to_run': f'./check {prop} --replay <this file>'})
        lines.append(f'VIOLATION property={prop} replay={rp} no-failing-input-found')
        violations += 1

    # ---- 5. evidence ----------------------------------------------------------------------------
    level = getattr(mod, 'LEVEL', 'proof')
    tb = list(getattr(mod, 'TRUSTED_BASE', [])) + ctx.trusted_base
    ax = pf['assumptions'].get('axioms', []) if pf['ok'] else []
    tb = ['Coq 8.16.1 kernel incl. vm_compute (no native_compute)',
          'Print Assumptions of Properties/%s.v: %s' % (prop, ', '.join(ax) if ax else 'closed under the global context'),
          'correspondence harness harness/props/%s.py + harness/vlib.py (generators, canonicalisation, tolerances)' % prop] + tb
    cov = {
        'obligations': max(ctx.obligations, 1), 'discharged': ctx.discharged,
        'checker_cmd': f'make -C coq && coqc -Q coq MrVerif coq/Properties/{prop}.v  (via ./check {prop} {tier})',
        'trusted_base': tb,
        'evaluations': max(ctx.evaluations, 1), 'distinct_nontrivial': len(ctx.nontrivial_keys),
        'rule': getattr(mod, 'RULE', 'cases drawn by the family generators from one PRNG; non-trivial per family predicate; distinct by sha1 of the case'),
        'samples': ctx.samples or [{'note': 'no cases'}],
        'traces_validated_against_impl': ctx.traces_validated,
        'theorems': pf['theorems'], 'print_assumptions': pf['assumptions'],
        'input_distribution': ctx.distribution,
        'known_findings_matched': sorted(ctx.known_hits), 'known_finding_messages': {k: sorted(set(v))[:6] for k, v in ctx.known_messages.items()}, 'notes': ctx.notes, 'coqchk': ctx.extra.get('coqchk'),
        'problems': [{'kind': p['kind'], 'family': p['family'], 'message': p['message'][:300]} for p in ctx.problems][:20],
    }
    cov.update(ctx.extra.get('coverage', {}))
    ev = {'property_id': prop, 'tier': tier, 'seed': seed, 'level': level, 'coverage': cov,
          'assumptions': list(getattr(mod, 'ASSUMPTIONS', [])), 'wall_s': round(time.time() - ctx.t0, 2),
          'violations': violations}
    # evidence/ only ever describes runs against /repo itself; runs against a scratch worktree (VERIF_REPO) keep theirs apart
    evdir = VERIF / 'evidence' if os.environ.get('VERIF_REPO', '/repo') == '/repo' else VERIF / '.work' / 'evidence-scratch'
    evdir.mkdir(parents=True, exist_ok=True)
    (evdir / f'{prop}.json').write_text(json.dumps(ev, indent=1, default=str))
    shutil.rmtree(ctx.work, ignore_errors=True)
    for ln in lines:
        print(ln)
    print(f'{prop} {tier}: theorems={len(pf["theorems"])} obligations={ctx.obligations} discharged={ctx.discharged} '
          f'cases={ctx.evaluations} nontrivial={len(ctx.nontrivial_keys)} known={len(ctx.known_hits)} violations={violations} '
          f'wall={ev["wall_s"]}s')
    return 1 if violations else 0


if __name__ == '__main__':
    sys.exit(main())
