"""Fail-closed ast translator for the pure bookkeeping of KData.from_file -> coq/Gen/kload_gen.v

Translated (everything else of from_file is tied by the correspondence families of props/C14.py):
  * src/mrpro/data/enums.py      class AcqFlags(Flag): NAME = <int> | <int> << <int> | auto()     (auto() = next power of two
                                 above the largest value so far, as enum.Flag._generate_next_value_ does)
  * src/mrpro/data/acq_filters.py DEFAULT_IGNORE_FLAGS = AcqFlags.A | AcqFlags.B | ...  (a set of names), and the bodies of
                                 is_image_acquisition / is_noise_acquisition (exact expression shapes)
  * src/mrpro/data/_kdata/KData.py KDIM_SORT_LABELS, OTHER_LABELS (tuples of index names, order matters) and the statements of
                                 from_file that use them (lexsort over KDIM_SORT_LABELS, unique counts over OTHER_LABELS (+ k2),
                                 default filter is_image_acquisition)
  * src/mrpro/data/traj_calculators/KTrajectoryCalculator.py: the reversal mask uses AcqFlags.ACQ_IS_REVERSE
Obligations in the generated file: gen_* = the tables of Model/KLoad.v.  Anything outside the subset raises Unsupported ->
`Definition gen_available := false.` and the property rests on the correspondence alone for that run.
"""
import ast
import os
from pathlib import Path

REPO = Path(os.environ.get('VERIF_REPO', '/repo'))
SRC_ENUMS = REPO / 'src/mrpro/data/enums.py'
SRC_FILTERS = REPO / 'src/mrpro/data/acq_filters.py'
SRC_KDATA = REPO / 'src/mrpro/data/_kdata/KData.py'
SRC_CALC = REPO / 'src/mrpro/data/traj_calculators/KTrajectoryCalculator.py'

IDX_LABELS = ('k1', 'k2', 'average', 'slice', 'contrast', 'phase', 'repetition', 'set', 'segment',
              'user0', 'user1', 'user2', 'user3', 'user4', 'user5', 'user6', 'user7')
N_OBLIGATIONS = 9


class Unsupported(Exception):
    pass


def _int(e):
    if isinstance(e, ast.Constant) and isinstance(e.value, int) and not isinstance(e.value, bool):
        return e.value
    raise Unsupported(f'integer constant expected: {ast.dump(e)[:60]}')


def parse_flags(src: str):
    """-> list of (name, ('const', v) | ('shl', a, b) | ('auto',))"""
    mod = ast.parse(src)
    imp = [n for n in mod.body if isinstance(n, ast.ImportFrom) and n.module == 'enum']
    names = {a.name: (a.asname or a.name) for n in imp for a in n.names}
    if names.get('Flag') != 'Flag' or names.get('auto') != 'auto':
        raise Unsupported('`from enum import Flag, auto` not found')
    cls = [n for n in mod.body if isinstance(n, ast.ClassDef) and n.name == 'AcqFlags']
    if len(cls) != 1 or len(cls[0].bases) != 1 or not (isinstance(cls[0].bases[0], ast.Name) and cls[0].bases[0].id == 'Flag'):
        raise Unsupported('class AcqFlags(Flag) not found')
    if cls[0].decorator_list or cls[0].keywords:
        raise Unsupported('decorated AcqFlags')
    out, seen = [], set()
    for k, st in enumerate(cls[0].body):
        if k == 0 and isinstance(st, ast.Expr) and isinstance(st.value, ast.Constant) and isinstance(st.value.value, str):
            continue
        if not (isinstance(st, ast.Assign) and len(st.targets) == 1 and isinstance(st.targets[0], ast.Name)):
            raise Unsupported(f'AcqFlags: unsupported statement {ast.dump(st)[:80]}')
        name, v = st.targets[0].id, st.value
        if name in seen or name.startswith('_'):
            raise Unsupported(f'AcqFlags: duplicate/private member {name}')
        seen.add(name)
        if isinstance(v, ast.Call) and isinstance(v.func, ast.Name) and v.func.id == 'auto' and not v.args and not v.keywords:
            out.append((name, ('auto',)))
        elif isinstance(v, ast.BinOp) and isinstance(v.op, ast.LShift):
            out.append((name, ('shl', _int(v.left), _int(v.right))))
        else:
            out.append((name, ('const', _int(v))))
    return out


def flag_values(flags):
    """python-side evaluation with the same rule (used for the sanity check against the ismrmrd package)"""
    vals, mx = {}, 0
    for name, d in flags:
        v = (1 if mx == 0 else 2 ** mx.bit_length()) if d[0] == 'auto' else (d[1] << d[2] if d[0] == 'shl' else d[1])
        vals[name] = v
        mx = max(mx, v)
    return vals


def parse_filters(src: str):
    mod = ast.parse(src)
    asg = [n for n in mod.body if isinstance(n, ast.Assign) and len(n.targets) == 1 and isinstance(n.targets[0], ast.Name)
           and n.targets[0].id == 'DEFAULT_IGNORE_FLAGS']
    if len(asg) != 1:
        raise Unsupported('DEFAULT_IGNORE_FLAGS assignment not found')
    names = []

    def walk(e):
        if isinstance(e, ast.BinOp) and isinstance(e.op, ast.BitOr):
            walk(e.left)
            walk(e.right)
        elif isinstance(e, ast.Attribute) and isinstance(e.value, ast.Name) and e.value.id == 'AcqFlags':
            names.append(e.attr)
        else:
            raise Unsupported(f'DEFAULT_IGNORE_FLAGS: unsupported operand {ast.dump(e)[:80]}')
    walk(asg[0].value)
    if any(isinstance(n, (ast.AugAssign,)) or (isinstance(n, ast.Assign) and n is not asg[0] and any(
            isinstance(t, ast.Name) and t.id == 'DEFAULT_IGNORE_FLAGS' for t in n.targets)) for n in ast.walk(mod)):
        raise Unsupported('DEFAULT_IGNORE_FLAGS is modified elsewhere')
    funcs = {n.name: n for n in mod.body if isinstance(n, ast.FunctionDef)}

    def body_expr(fn):
        f = funcs.get(fn)
        if f is None or f.decorator_list:
            raise Unsupported(f'{fn} not found')
        b = [s for s in f.body if not (isinstance(s, ast.Expr) and isinstance(s.value, ast.Constant))]
        if len(b) != 1 or not isinstance(b[0], ast.Return) or len(f.args.args) != 1:
            raise Unsupported(f'{fn}: body is not a single return')
        return ast.unparse(b[0].value), f.args.args[0].arg
    e, a = body_expr('is_image_acquisition')
    if e != f'not DEFAULT_IGNORE_FLAGS.value & {a}.flags':
        raise Unsupported(f'is_image_acquisition returns `{e}`')
    e, a = body_expr('is_noise_acquisition')
    if e != f'AcqFlags.ACQ_IS_NOISE_MEASUREMENT.value & {a}.flags':
        raise Unsupported(f'is_noise_acquisition returns `{e}`')
    return sorted(names)


def parse_kdata(src: str):
    mod = ast.parse(src)

    def tup(name):
        asg = [n for n in mod.body if isinstance(n, ast.Assign) and len(n.targets) == 1 and isinstance(n.targets[0], ast.Name)
               and n.targets[0].id == name]
        if len(asg) != 1 or not isinstance(asg[0].value, ast.Tuple):
            raise Unsupported(f'{name} is not a module-level tuple')
        vals = []
        for e in asg[0].value.elts:
            if not (isinstance(e, ast.Constant) and isinstance(e.value, str) and e.value in IDX_LABELS):
                raise Unsupported(f'{name}: unknown entry {ast.dump(e)[:40]}')
            vals.append(e.value)
        return vals
    sort_labels, other_labels = tup('KDIM_SORT_LABELS'), tup('OTHER_LABELS')
    cls = [n for n in mod.body if isinstance(n, ast.ClassDef) and n.name == 'KData']
    ff = [n for n in (cls[0].body if cls else []) if isinstance(n, ast.FunctionDef) and n.name == 'from_file']
    if len(ff) != 1:
        raise Unsupported('KData.from_file not found')
    f = ff[0]
    stmts = {ast.unparse(n) for n in ast.walk(f) if isinstance(n, ast.Assign)}
    need = ['acq_indices = np.stack([getattr(kheader.acq_info.idx, label) for label in KDIM_SORT_LABELS], axis=0)',
            'sort_idx = np.lexsort(acq_indices)',
            'acq_indices_other = torch.stack([getattr(kheader.acq_info.idx, label) for label in OTHER_LABELS], dim=0)',
            'acq_indices_other_k2 = torch.cat((acq_indices_other, kheader.acq_info.idx.k2.unsqueeze(0)), dim=0)',
            'acquisitions = [acq for acq in acquisitions if acquisition_filter_criterion(acq)]']
    for s in need:
        if s not in stmts:
            raise Unsupported(f'from_file: statement `{s}` not found')
    # the names must not be re-bound inside from_file
    for n in ast.walk(f):
        if isinstance(n, ast.Name) and isinstance(n.ctx, ast.Store) and n.id in ('KDIM_SORT_LABELS', 'OTHER_LABELS'):
            raise Unsupported('label tuples re-bound in from_file')
    args = f.args
    defaults = dict(zip([a.arg for a in args.args][-len(args.defaults):], args.defaults)) if args.defaults else {}
    d = defaults.get('acquisition_filter_criterion')
    if not (isinstance(d, ast.Name) and d.id == 'is_image_acquisition'):
        raise Unsupported('default acquisition filter is not is_image_acquisition')
    return sort_labels, other_labels


def parse_calc(src: str):
    want = '(kheader.acq_info.flags[..., 0] & AcqFlags.ACQ_IS_REVERSE.value).bool()'
    if not any(isinstance(n, ast.Assign) and ast.unparse(n.value) == want for n in ast.walk(ast.parse(src))):
        raise Unsupported('_kfreq: reversal mask is not flags & AcqFlags.ACQ_IS_REVERSE.value')


def generate() -> tuple[bool, str, dict]:
    info = {}
    try:
        flags = parse_flags(SRC_ENUMS.read_text())
        ignore = parse_filters(SRC_FILTERS.read_text())
        sort_labels, other_labels = parse_kdata(SRC_KDATA.read_text())
        parse_calc(SRC_CALC.read_text())
        unknown = [n for n in ignore if n not in dict(flags)]
        if unknown:
            raise Unsupported(f'DEFAULT_IGNORE_FLAGS names unknown members {unknown}')
    except (Unsupported, SyntaxError, OSError) as e:
        return False, ('From MrVerif Require Import Base.Prelude.\nDefinition gen_available := false.\n'
                       f'(* translator failed closed: {str(e)[:300]} *)\n'), {'why': str(e)}
    info.update(flags=flags, ignore=ignore, sort_labels=sort_labels, other_labels=other_labels, values=flag_values(flags))
    L = ['(* generated by harness/translate/kload.py from enums.py, acq_filters.py, KData.py - do not edit *)',
         'From MrVerif Require Import Base.Prelude Model.KLoad.', 'From Coq Require Import String.', 'Import FlagTable.',
         'Local Open Scope Z_scope.', 'Definition gen_available := true.', 'Definition gen_m_init : Z := 0.']
    prev = 'gen_m_init'
    for k, (name, d) in enumerate(flags):
        if d[0] == 'auto':
            rhs = f'next_auto {prev}'
        elif d[0] == 'shl':
            rhs = f'Z.shiftl {d[1]} {d[2]}'
        else:
            rhs = f'{d[1]}'
        L.append(f'Definition gen_v_{name} : Z := {rhs}.')
        L.append(f'Definition gen_m_{k} : Z := Z.max {prev} gen_v_{name}.')
        prev = f'gen_m_{k}'
    L.append('Definition gen_flag_table : list (string * Z) := [' + '; '.join(f'("{n}"%string, gen_v_{n})' for n, _ in flags) + '].')
    L.append('Definition gen_ignore_names : list string := [' + '; '.join(f'"{n}"%string' for n in ignore) + '].')
    L.append('Definition gen_ignore_mask : Z := mask_of gen_flag_table gen_ignore_names.')
    L.append('Definition gen_is_image (f : Z) : bool := Z.land gen_ignore_mask f =? 0.   (* not DEFAULT_IGNORE_FLAGS.value & flags *)')
    L.append('Definition gen_is_noise (f : Z) : bool := negb (Z.land gen_v_ACQ_IS_NOISE_MEASUREMENT f =? 0).')
    L.append('Definition gen_sort_labels : list idx_label := [' + '; '.join('L_' + s for s in sort_labels) + '].')
    L.append('Definition gen_other_labels : list idx_label := [' + '; '.join('L_' + s for s in other_labels) + '].')
    L += ['Lemma gen_flag_table_ok : gen_flag_table = acq_flag_table. Proof. vm_compute. reflexivity. Qed.',
          'Lemma gen_ignore_names_ok : gen_ignore_names = ignore_flag_names. Proof. reflexivity. Qed.',
          'Lemma gen_ignore_mask_ok : gen_ignore_mask = DEFAULT_IGNORE_FLAGS. Proof. vm_compute. reflexivity. Qed.',
          'Lemma gen_is_image_ok : forall f, gen_is_image f = is_image_flags f.',
          'Proof. intros f. unfold gen_is_image, is_image_flags. now rewrite gen_ignore_mask_ok. Qed.',
          'Lemma gen_is_noise_ok : forall a, gen_is_noise (flags a) = is_noise_acquisition a.',
          'Proof. intros a. unfold gen_is_noise, is_noise_acquisition. replace gen_v_ACQ_IS_NOISE_MEASUREMENT with ACQ_IS_NOISE_MEASUREMENT by (vm_compute; reflexivity). reflexivity. Qed.',
          'Lemma gen_reverse_ok : gen_v_ACQ_IS_REVERSE = ACQ_IS_REVERSE. Proof. vm_compute. reflexivity. Qed.',
          'Lemma gen_sort_labels_ok : gen_sort_labels = sort_labels. Proof. reflexivity. Qed.',
          'Lemma gen_other_labels_ok : gen_other_labels = other_labels. Proof. reflexivity. Qed.',
          '(* what the model relies on: OTHER_LABELS are the sort labels without k1, k2, in the same order; k1, k2 come first *)',
          'Lemma gen_labels_layout_ok : gen_other_labels = skipn 2 gen_sort_labels /\\ firstn 2 gen_sort_labels = [L_k1; L_k2]. Proof. split; reflexivity. Qed.']
    return True, '\n'.join(L) + '\n', info


def write(out: Path):
    ok, text, info = generate()
    out.write_text(text)
    return ok, info
