"""T-B: fail-closed ast translator for src/mrpro/operators/ConstraintsOp.py -> coq/Gen/constraints_gen.v

Subset
  * the four static transforms sigmoid / sigmoid_inverse / softplus / softplus_inverse(x, beta=1.0): a docstring and one
    `return <expr>`; <expr> = arithmetic (+ - * / unary -) over the arguments, numeric literals and the calls
    F.sigmoid / torch.sigmoid, torch.logit, torch.log, torch.log1p, torch.exp, torch.expm1, F.logsigmoid, F.softplus(e, beta=b)
    (F = torch.nn.functional), each mapped to its defining real expression;
  * forward / inverse: one `for item, lb, ub in zip(<x>, self.lower_bounds, self.upper_bounds, strict=False)` loop whose body is
    an if/elif chain; tests are and/or/not over `b is None`, `b is not None`, `torch.isneginf(torch.tensor(b))`,
    `torch.isposinf(torch.tensor(b))`; each branch is a single `<list>.append(<expr>)` with <expr> arithmetic over item, lb, ub
    and self.<transform>(e, beta=self.beta_sigmoid|self.beta_softplus); followed by `<list>.extend(<x>[len(<list>):])` and
    `return tuple(<list>)`.
Anything else raises Unsupported -> `Definition gen_available := false.` (the property then rests on correspondence alone).
"""
import ast
import os
from fractions import Fraction
from pathlib import Path

SRC = Path(os.environ.get('VERIF_REPO', '/repo')) / 'src/mrpro/operators/ConstraintsOp.py'
N_OBLIGATIONS = 6


class Unsupported(Exception):
    pass


def num(v) -> str:
    if isinstance(v, bool):
        raise Unsupported('bool literal')
    fr = Fraction(v)
    if fr.denominator & (fr.denominator - 1):
        raise Unsupported(f'non-dyadic literal {v}')
    s = f'{abs(fr.numerator)}' if fr.denominator == 1 else f'({abs(fr.numerator)} / {fr.denominator})'
    return s if fr >= 0 else f'(- {s})'


def fname(f) -> str:
    parts = []
    while isinstance(f, ast.Attribute):
        parts.append(f.attr)
        f = f.value
    if isinstance(f, ast.Name):
        parts.append(f.id)
        return '.'.join(reversed(parts))
    raise Unsupported('callee')


_FN = {'torch.nn.functional.': 'F.'}


def rexpr(e, env: dict, selfcalls: bool = False) -> str:
    """env: python name -> Gallina name"""
    if isinstance(e, ast.Name):
        if e.id not in env:
            raise Unsupported(f'free name {e.id}')
        return env[e.id]
    if isinstance(e, ast.Constant) and isinstance(e.value, (int, float)):
        return num(e.value)
    if isinstance(e, ast.UnaryOp) and isinstance(e.op, ast.USub):
        return f'(- {rexpr(e.operand, env, selfcalls)})'
    if isinstance(e, ast.BinOp):
        op = {ast.Add: '+', ast.Sub: '-', ast.Mult: '*', ast.Div: '/'}.get(type(e.op))
        if op is None:
            raise Unsupported(f'operator {type(e.op).__name__}')
        return f'({rexpr(e.left, env, selfcalls)} {op} {rexpr(e.right, env, selfcalls)})'
    if isinstance(e, ast.Call):
        fn = fname(e.func)
        for k, v in _FN.items():
            if fn.startswith(k):
                fn = v + fn[len(k):]
        kws = {k.arg: k.value for k in e.keywords}
        if selfcalls and fn in ('self.sigmoid', 'self.sigmoid_inverse', 'self.softplus', 'self.softplus_inverse'):
            if len(e.args) != 1 or set(kws) != {'beta'}:
                raise Unsupported(f'call of {fn} must be (e, beta=self.beta_...)')
            b = kws['beta']
            if not (isinstance(b, ast.Attribute) and isinstance(b.value, ast.Name) and b.value.id == 'self'
                    and b.attr in ('beta_sigmoid', 'beta_softplus')):
                raise Unsupported('beta argument')
            beta = 'bs' if b.attr == 'beta_sigmoid' else 'bp'
            return f'(gen_{fn[5:]} {rexpr(e.args[0], env, selfcalls)} {beta})'
        if fn == 'F.softplus' and len(e.args) == 1 and set(kws) <= {'beta'}:
            a = rexpr(e.args[0], env, selfcalls)
            b = rexpr(kws['beta'], env, selfcalls) if 'beta' in kws else '1'
            return f'(ln (1 + exp ({b} * {a})) / {b})'
        if len(e.args) != 1 or kws:
            raise Unsupported(f'call {fn} with {len(e.args)} args / keywords')
        a = rexpr(e.args[0], env, selfcalls)
        if fn in ('F.sigmoid', 'torch.sigmoid'):
            return f'(1 / (1 + exp (- {a})))'
        if fn == 'torch.logit':
            return f'(ln ({a} / (1 - {a})))'
        if fn == 'torch.log':
            return f'(ln {a})'
        if fn == 'torch.log1p':
            return f'(ln (1 + {a}))'
        if fn == 'torch.exp':
            return f'(exp {a})'
        if fn == 'torch.expm1':
            return f'(exp {a} - 1)'
        if fn == 'F.logsigmoid':
            return f'(- ln (1 + exp (- {a})))'
        raise Unsupported(f'function {fn}')
    raise Unsupported(f'expression {ast.dump(e)[:80]}')


def strip_doc(body):
    return [s for s in body if not (isinstance(s, ast.Expr) and isinstance(s.value, ast.Constant) and isinstance(s.value.value, str))]


def tr_static(fn: ast.FunctionDef) -> str:
    args = [a.arg for a in fn.args.args]
    if args != ['x', 'beta'] or fn.args.vararg or fn.args.kwonlyargs:
        raise Unsupported(f'{fn.name} arguments {args}')
    if not any(isinstance(d, ast.Name) and d.id == 'staticmethod' for d in fn.decorator_list):
        raise Unsupported(f'{fn.name} is not a staticmethod')
    body = strip_doc(fn.body)
    if len(body) != 1 or not isinstance(body[0], ast.Return):
        raise Unsupported(f'{fn.name} body')
    return rexpr(body[0].value, {'x': 'x', 'beta': 'beta'})


def btest(t) -> str:
    if isinstance(t, ast.BoolOp):
        sym = ' && ' if isinstance(t.op, ast.And) else ' || '
        return '(' + sym.join(btest(v) for v in t.values) + ')'
    if isinstance(t, ast.UnaryOp) and isinstance(t.op, ast.Not):
        return f'(negb {btest(t.operand)})'
    if (isinstance(t, ast.Compare) and len(t.ops) == 1 and isinstance(t.left, ast.Name) and t.left.id in ('lb', 'ub')
            and isinstance(t.comparators[0], ast.Constant) and t.comparators[0].value is None):
        if isinstance(t.ops[0], ast.Is):
            return f'(is_none {t.left.id})'
        if isinstance(t.ops[0], ast.IsNot):
            return f'(negb (is_none {t.left.id}))'
    if isinstance(t, ast.Call) and fname(t.func) in ('torch.isneginf', 'torch.isposinf') and len(t.args) == 1 and not t.keywords:
        a = t.args[0]
        if (isinstance(a, ast.Call) and fname(a.func) in ('torch.tensor', 'torch.as_tensor') and len(a.args) == 1
                and isinstance(a.args[0], ast.Name) and a.args[0].id in ('lb', 'ub')):
            return f'({"is_neginf" if fname(t.func) == "torch.isneginf" else "is_posinf"} {a.args[0].id})'
    raise Unsupported(f'test {ast.dump(t)[:100]}')


def names_in(e) -> set:
    return {n.id for n in ast.walk(e) if isinstance(n, ast.Name)}


def tr_branches(stmt, lst: str) -> str:
    if stmt is None:
        return 'NoBranch'
    if not isinstance(stmt, ast.If):
        raise Unsupported('loop body is not an if/elif chain')
    if len(stmt.body) != 1:
        raise Unsupported('branch with more than one statement')
    s = stmt.body[0]
    if not (isinstance(s, ast.Expr) and isinstance(s.value, ast.Call) and isinstance(s.value.func, ast.Attribute)
            and s.value.func.attr == 'append' and isinstance(s.value.func.value, ast.Name) and s.value.func.value.id == lst
            and len(s.value.args) == 1 and not s.value.keywords):
        raise Unsupported(f'branch statement line {s.lineno}')
    e = s.value.args[0]
    used = names_in(e) & {'lb', 'ub'}
    body = rexpr(e, {'item': 'item', 'lb': 'lb', 'ub': 'ub'}, selfcalls=True)
    if used == {'lb', 'ub'}:
        val = f'with2 lb ub (fun lb ub => {body})'
    elif used == {'lb'}:
        val = f'with1 lb (fun lb => {body})'
    elif used == {'ub'}:
        val = f'with1 ub (fun ub => {body})'
    else:
        val = f'Ok {body}'
    if len(stmt.orelse) > 1:
        raise Unsupported('else with several statements')
    rest = tr_branches(stmt.orelse[0] if stmt.orelse else None, lst)
    return f'if {btest(stmt.test)}\n  then {val}\n  else {rest}'


def tr_method(fn: ast.FunctionDef) -> str:
    if [a.arg for a in fn.args.args] != ['self'] or fn.args.vararg is None:
        raise Unsupported(f'{fn.name} signature')
    xs = fn.args.vararg.arg
    body = strip_doc(fn.body)
    # <lst> = []; for ...; <lst>.extend(<xs>[len(<lst>):]); return tuple(<lst>)
    if len(body) != 4:
        raise Unsupported(f'{fn.name}: expected 4 statements, got {len(body)}')
    init, loop, ext, ret = body
    if not (isinstance(init, ast.Assign) and len(init.targets) == 1 and isinstance(init.targets[0], ast.Name)
            and isinstance(init.value, ast.List) and not init.value.elts):
        raise Unsupported('list initialisation')
    lst = init.targets[0].id
    want_iter = f"zip({xs}, self.lower_bounds, self.upper_bounds, strict=False)"
    if not (isinstance(loop, ast.For) and ast.unparse(loop.target) == '(item, lb, ub)' and ast.unparse(loop.iter) == want_iter
            and not loop.orelse):
        raise Unsupported(f'loop header `{ast.unparse(loop.target) if isinstance(loop, ast.For) else "?"}`')
    if ast.unparse(ext) != f'{lst}.extend({xs}[len({lst}):])':
        raise Unsupported('pass-through of the remaining inputs not recognised')
    if ast.unparse(ret) != f'return tuple({lst})':
        raise Unsupported('return statement')
    lb = strip_doc(loop.body)
    if len(lb) != 1:
        raise Unsupported('loop body')
    return tr_branches(lb[0], lst)


def check_init(cls: ast.ClassDef):
    init = next((n for n in cls.body if isinstance(n, ast.FunctionDef) and n.name == '__init__'), None)
    if init is None:
        raise Unsupported('__init__')
    src = {ast.unparse(s) for s in ast.walk(init) if isinstance(s, ast.Assign)}
    for want in ('self.beta_sigmoid = beta_sigmoid', 'self.beta_softplus = beta_softplus',
                 'self.lower_bounds = [bound[0] for bound in bounds]', 'self.upper_bounds = [bound[1] for bound in bounds]'):
        if want not in src:
            raise Unsupported(f'__init__ does not contain `{want}`')


def translate() -> str:
    tree = ast.parse(SRC.read_text())
    cls = next((n for n in tree.body if isinstance(n, ast.ClassDef) and n.name == 'ConstraintsOp'), None)
    if cls is None:
        raise Unsupported('class ConstraintsOp')
    imports = {ast.unparse(n) for n in tree.body if isinstance(n, (ast.Import, ast.ImportFrom))}
    if 'import torch.nn.functional as F' not in imports or 'import torch' not in imports:
        raise Unsupported('imports')
    check_init(cls)
    fns = {n.name: n for n in cls.body if isinstance(n, ast.FunctionDef)}
    st = {k: tr_static(fns[k]) for k in ('sigmoid', 'sigmoid_inverse', 'softplus', 'softplus_inverse')}
    fwd = tr_method(fns['forward'])
    inv = tr_method(fns['inverse'])
    return f'''(* GENERATED on every run by harness/translate/constraints.py from {SRC} -- do not edit *)
From Coq Require Import Reals Lra Bool.
From MrVerif Require Import Model.Constraints.
Open Scope R_scope.
Definition gen_available := true.
Definition gen_sigmoid (x beta : R) : R := {st['sigmoid']}.
Definition gen_sigmoid_inverse (x beta : R) : R := {st['sigmoid_inverse']}.
Definition gen_softplus (x beta : R) : R := {st['softplus']}.
Definition gen_softplus_inverse (x beta : R) : R := {st['softplus_inverse']}.
(* one (item, lb, ub) triple of ConstraintsOp.forward / inverse; bs = self.beta_sigmoid, bp = self.beta_softplus *)
Definition gen_forward (lb ub : xbound) (bs bp item : R) : cres :=
  {fwd}.
Definition gen_inverse (lb ub : xbound) (bs bp item : R) : cres :=
  {inv}.

(* normalise the arguments of exp / ln as ring expressions, so that e.g. - (- beta * x) and beta * x are the same atom *)
Ltac norm_args := unfold Rdiv, Rminus;
  repeat match goal with
  | |- context [exp ?a] => progress ring_simplify a
  | |- context [ln ?a] => progress ring_simplify a
  end.
Ltac close := first [ reflexivity | solve [unfold Rdiv, Rminus; ring] | solve [field; lra] | solve [norm_args; field; lra]
                    | solve [norm_args; f_equal; field; lra] ].
(* regenerated proof obligations: the code as it is *now* is, for every argument, the model the theorems are about *)
Lemma gen_sigmoid_ok : forall x beta, 0 < beta -> gen_sigmoid x beta = sigmoid beta x.
Proof. intros. unfold gen_sigmoid, sigmoid. close. Qed.
Lemma gen_sigmoid_inverse_ok : forall x beta, 0 < beta -> gen_sigmoid_inverse x beta = sigmoid_inverse beta x.
Proof. intros. unfold gen_sigmoid_inverse, sigmoid_inverse. close. Qed.
Lemma gen_softplus_ok : forall x beta, 0 < beta -> gen_softplus x beta = softplus beta x.
Proof. intros. unfold gen_softplus, softplus. close. Qed.
Lemma gen_softplus_inverse_ok : forall x beta, 0 < beta -> gen_softplus_inverse x beta = softplus_inverse beta x.
Proof. intros. unfold gen_softplus_inverse, softplus_inverse. close. Qed.
Ltac branches := intros lb ub bs bp x Hs Hp; destruct lb, ub; cbv [gen_forward gen_inverse constraint_fwd constraint_inv is_none is_neginf
    is_posinf negb andb orb with1 with2 fin]; try reflexivity; f_equal;
  rewrite ?gen_sigmoid_ok, ?gen_sigmoid_inverse_ok, ?gen_softplus_ok, ?gen_softplus_inverse_ok by assumption;
  unfold fwd_ab, inv_ab, fwd_lo, inv_lo, fwd_hi, inv_hi; first [ reflexivity | ring | (f_equal; close) | close ].
Lemma gen_forward_ok : forall lb ub bs bp x, 0 < bs -> 0 < bp -> gen_forward lb ub bs bp x = constraint_fwd lb ub bs bp x.
Proof. branches. Qed.
Lemma gen_inverse_ok : forall lb ub bs bp x, 0 < bs -> 0 < bp -> gen_inverse lb ub bs bp x = constraint_inv lb ub bs bp x.
Proof. branches. Qed.
'''


def write(out: Path) -> tuple[bool, str]:
    try:
        out.write_text(translate())
        return True, ''
    except (Unsupported, KeyError, SyntaxError, StopIteration, AttributeError) as e:
        out.write_text(f'(* GENERATED: translator failed closed: {e} *)\nDefinition gen_available := false.\n')
        return False, str(e)
