"""T-AG: fail-closed ast translator for the autograd wiring of LinearOperator.py  ->  coq/Gen/autograd_gen.v

_AutogradWrapper: which of its two callables `forward` applies, the order in which `setup_context` stores them, and the (first, second)
callables handed to the nested `_AutogradWrapper.apply` in `backward` and in `jvp`.  LinearOperator.__init_subclass__: which saved
methods the wrapper of `forward` and of `adjoint` receive (first = function, second = its vjp).
Output: gen_wrapper_fn (history of differentiations -> the function the node computes), gen_installed_forward / gen_installed_adjoint;
obligations gen_wrapper_fn = Model/Autograd.v wrapper_fn, installed forward = wrapper (fwd A, adj A), installed adjoint = wrapper (adj A, fwd A).
"""
import ast
import os
from pathlib import Path

SRC = Path(os.environ.get('VERIF_REPO', '/repo')) / 'src/mrpro/operators/LinearOperator.py'
N_OBLIGATIONS = 3


class Unsupported(Exception):
    pass


def _fn(cls, name):
    m = [n for n in cls.body if isinstance(n, ast.FunctionDef) and n.name == name]
    if not m:
        raise Unsupported(f'{cls.name}.{name} not found')
    return m[0]


def _single_return(fn):
    body = [s for s in fn.body if not (isinstance(s, ast.Expr) and isinstance(s.value, ast.Constant))]
    if len(body) != 1 or not isinstance(body[0], ast.Return):
        raise Unsupported(f'{fn.name}: body is not a single return')
    return body[0].value


def _apply_args(e, ctxmap, last_arg_ok):
    """_AutogradWrapper.apply(a, b, g) -> (role of a, role of b)"""
    if not (isinstance(e, ast.Call) and ast.unparse(e.func) == '_AutogradWrapper.apply' and len(e.args) == 3 and not e.keywords):
        raise Unsupported(f'expected _AutogradWrapper.apply(f, g, x), found {ast.unparse(e)[:80]}')
    a, b, g = (ast.unparse(x) for x in e.args)
    if a not in ctxmap or b not in ctxmap:
        raise Unsupported(f'callables {a}, {b} are not the stored ones {sorted(ctxmap)}')
    if g not in last_arg_ok:
        raise Unsupported(f'differentiated argument is {g}, expected one of {last_arg_ok}')
    return ctxmap[a], ctxmap[b]


def translate():
    tree = ast.parse(SRC.read_text())
    w = [n for n in tree.body if isinstance(n, ast.ClassDef) and n.name == '_AutogradWrapper']
    if not w:
        raise Unsupported('_AutogradWrapper not found')
    w = w[0]
    fwd = _fn(w, 'forward')
    names = [a.arg for a in fwd.args.args]
    if len(names) != 3:
        raise Unsupported(f'forward takes {names}')
    r = _single_return(fwd)
    if not (isinstance(r, ast.Call) and isinstance(r.func, ast.Name) and r.func.id in names[:2] and len(r.args) == 1
            and ast.unparse(r.args[0]) == names[2] and not r.keywords):
        raise Unsupported(f'forward returns {ast.unparse(r)[:60]}')
    applied = 'first' if r.func.id == names[0] else 'second'
    sc = _fn(w, 'setup_context')
    body = [s for s in sc.body if not (isinstance(s, ast.Expr) and isinstance(s.value, ast.Constant))]
    if not (len(body) == 3 and isinstance(body[0], ast.Assign) and isinstance(body[0].targets[0], ast.Tuple) and ast.unparse(body[0].value) == 'inputs'
            and ast.unparse(body[2]) == 'return output'):
        raise Unsupported('setup_context is not `ctx.a, ctx.b, x = inputs; ctx.x_is_complex = x.is_complex(); return output`')
    tg = [ast.unparse(t) for t in body[0].targets[0].elts]
    if len(tg) != 3 or not tg[0].startswith('ctx.') or not tg[1].startswith('ctx.'):
        raise Unsupported(f'setup_context stores {tg}')
    if ast.unparse(body[1]) != f'ctx.x_is_complex = {tg[2]}.is_complex()':
        raise Unsupported(f'setup_context: `{ast.unparse(body[1])[:80]}` (the model records whether the input is complex)')
    ctxmap = {tg[0]: 'first', tg[1]: 'second'}
    # backward: grad = apply(.., .., grad_output[0]); real part for a real input; return None, None, grad
    bwf = _fn(w, 'backward')
    bbody = [s for s in bwf.body if not (isinstance(s, ast.Expr) and isinstance(s.value, ast.Constant))]
    if not (len(bbody) == 3 and isinstance(bbody[0], ast.Assign) and ast.unparse(bbody[0].targets[0]) == 'grad'):
        raise Unsupported('backward is not `grad = apply(...); <real part for real input>; return None, None, grad`')
    vjp = _apply_args(bbody[0].value, ctxmap, ('grad_output[0]',))
    if ast.unparse(bbody[1]) != 'if not ctx.x_is_complex and grad.is_complex():\n    grad = grad.real':
        raise Unsupported(f'backward, projection for real inputs: `{ast.unparse(bbody[1])[:100]}`')
    if ast.unparse(bbody[2]) != 'return (None, None, grad)':
        raise Unsupported(f'backward returns `{ast.unparse(bbody[2])[:60]}`')
    jvp = _apply_args(_single_return(_fn(w, 'jvp')), ctxmap, ('grad_inputs[-1]', 'grad_inputs[2]'))

    def pair(p):
        return '(' + ', '.join({'first': 'f', 'second': 'g'}[x] for x in p) + ')'
    # ---- __init_subclass__ ----
    lo = [n for n in tree.body if isinstance(n, ast.ClassDef) and n.name == 'LinearOperator'][0]
    isc = _fn(lo, '__init_subclass__')
    ifs = [s for s in isc.body if isinstance(s, ast.If)]
    if len(ifs) != 1 or ast.unparse(ifs[0].test) != "adjoint_as_backward and (not hasattr(cls, '_saved_forward'))":
        raise Unsupported('`if adjoint_as_backward and not hasattr(cls, "_saved_forward")` not found')
    blk = ifs[0].body
    if ast.unparse(blk[0]) != 'cls._saved_forward, cls._saved_adjoint = (cls.forward, cls.adjoint)':
        raise Unsupported(f'saved methods: {ast.unparse(blk[0])[:90]}')
    inst = {}
    for s in blk[1:]:
        if not (isinstance(s, ast.Assign) and ast.unparse(s.targets[0]) in ('cls.forward', 'cls.adjoint') and isinstance(s.value, ast.Lambda)):
            raise Unsupported(f'statement {ast.unparse(s)[:80]}')
        lam = s.value
        if [a.arg for a in lam.args.args] != ['self', 'x'] or not (isinstance(lam.body, ast.Tuple) and len(lam.body.elts) == 1):
            raise Unsupported('installed method is not `lambda self, x: (value,)`')
        call = lam.body.elts[0]
        if not (isinstance(call, ast.Call) and ast.unparse(call.func) == '_AutogradWrapper.apply' and len(call.args) == 3 and ast.unparse(call.args[2]) == 'x'):
            raise Unsupported('installed method does not call _AutogradWrapper.apply(f, g, x)')
        roles = []
        for a in call.args[:2]:
            src = ast.unparse(a)
            if src == 'lambda x: self._saved_forward(x)[0]':
                roles.append('(fwd A)')
            elif src == 'lambda x: self._saved_adjoint(x)[0]':
                roles.append('(adj A)')
            else:
                raise Unsupported(f'wrapped callable {src[:80]}')
        inst[ast.unparse(s.targets[0])] = roles
    if set(inst) != {'cls.forward', 'cls.adjoint'}:
        raise Unsupported(f'installed methods {sorted(inst)}')
    app = 'f' if applied == 'first' else 'g'
    return f'''(* GENERATED on every run by harness/translate/autograd.py from {SRC} -- do not edit *)
From MrVerif Require Import Base.Prelude Base.StarRing Base.Sums Model.OpAlg Model.Autograd.
Definition gen_available := true.
Section GenAutograd.
  Variable R : StarRing.
  Notation vec := (nat -> R).
  (* node W(f, g): forward applies {app}; backward is the node W{pair(vjp)} (followed by the real part iff the input was real and the gradient is
     complex: C05_real_input_gradient); jvp is the node W{pair(jvp)} *)
  Definition gen_node_fn (f g : vec -> vec) : vec -> vec := {app}.
  Definition gen_vjp_node (f g : vec -> vec) : (vec -> vec) * (vec -> vec) := {pair(vjp)}.
  Definition gen_jvp_node (f g : vec -> vec) : (vec -> vec) * (vec -> vec) := {pair(jvp)}.
  Fixpoint gen_wrapper_fn (h : list bool) (f g : vec -> vec) : vec -> vec :=
    match h with
    | [] => gen_node_fn f g
    | true :: h' => gen_wrapper_fn h' (fst (gen_vjp_node f g)) (snd (gen_vjp_node f g))
    | false :: h' => gen_wrapper_fn h' (fst (gen_jvp_node f g)) (snd (gen_jvp_node f g))
    end.
  Lemma gen_wrapper_fn_ok : forall h f g, gen_wrapper_fn h f g = wrapper_fn h f g.
  Proof. induction h as [|[|] h IH]; intros f g; cbn; [reflexivity|apply IH|apply IH]. Qed.
  (* the methods installed by __init_subclass__(adjoint_as_backward=True) *)
  Definition gen_installed_forward (A : linop R) := ({inst['cls.forward'][0]}, {inst['cls.forward'][1]}).
  Definition gen_installed_adjoint (A : linop R) := ({inst['cls.adjoint'][0]}, {inst['cls.adjoint'][1]}).
  Lemma gen_installed_forward_ok : forall A, gen_installed_forward A = (fwd A, adj A).
  Proof. reflexivity. Qed.
  Lemma gen_installed_adjoint_ok : forall A, gen_installed_adjoint A = (adj A, fwd A).
  Proof. reflexivity. Qed.
End GenAutograd.
'''


def write(out: Path):
    try:
        out.write_text(translate())
        return True, ''
    except (Unsupported, KeyError, SyntaxError, AttributeError, IndexError, ValueError, TypeError, OSError) as e:
        out.write_text(f'(* GENERATED: translator failed closed: {str(e)[:300]} *)\nDefinition gen_available := false.\n')
        return False, str(e)[:300]
