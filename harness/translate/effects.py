"""T-C10: fail-closed ast translator  <REPO>/src/mrpro/**/*.py  ->  coq/Gen/effects_gen.v

Property C10 ("calls are pure: arguments, operators and source objects are never mutated").  Every python file below
src/mrpro is scanned for *in-place write sites*; each site is classified by the origin of the written object with a
conservative, intra-procedural, flow-insensitive dataflow.  The inventory, the committed allow-list
(effects_allow.json, matched by (module, function, kind, target) - never by line) and the obligation
`forallb (site_ok gen_allow) gen_effects = true` are emitted as Gallina (types of coq/Model/Effects.v).  A new in-place
write on a parameter / attribute / view / unknown object that is not on the allow-list makes the obligation fail.

Sites
  KAugAssign        x += e (x a name that is not provably an immutable scalar), x[i] += e, x.a += e, operator.iadd(x, e)
  KSubscriptAssign  x[i] = e (any Subscript in Store context), x.__setitem__(i, e)
  KInplaceCall      x.m_(...) for every method name ending in "_" (not "_..." / "...__"); always emitted.
                    list/dict mutators (append, extend, insert, pop, remove, clear, update, setdefault, sort, reverse,
                    popitem) only when the receiver is not Fresh.
  KOutKw            f(..., out=x)
  KSetAttr          setattr(x, ..), object.__setattr__(x, ..), x.__setattr__(..), and `x.a = v` (any Attribute in Store
                    context).  Writes to `self.<a>` (assignment or setattr-with-first-argument-self) directly inside
                    __init__/__post_init__/__setstate__/__new__ are not sites: a constructor fills its own fields.

Abstract values are pairs (s, e): s = origin of the object itself, e = origin of what it contains (elements of a python
container / fields of a freshly constructed object).  For tensors s = e.  Lattice IMM < FRESH < ATTR < VIEW < PARAM <
UNKNOWN, join = max; IMM (python scalar / shape / dtype) and FRESH are both printed OFresh.
The only flow-sensitive rule: a site on name x at line S sees x as Fresh if a function-body-level statement
`x = <Fresh expr>` ends before S and all bindings of x from that statement on are Fresh.

Deliberately conservative choices (checked against torch / einops behaviour): einops.repeat, torch.sparse_*_tensor,
as_tensor, .to, .contiguous, conj, broadcast_* may alias their input -> view; an unknown method of a private object
is Fresh only when all its arguments are Fresh ((A @ B).H(x) aliases x); Cls.from_*(args) / Cls(args) give a fresh
object whose *fields* have the origin of the arguments.

Allow-list entries may carry "status": "open-finding": such an entry is not a justification but marks a genuine
purity violation that is still in the code; the matching sites are returned in info['open_findings'].

Anything unexpected (syntax error, unknown node where it matters, non-converging dataflow, bad allow-list) fails
closed: gen_available := false.   `python3 effects.py [--nonfresh]` prints the inventory, `--selftest` checks the
classifier on small snippets (parameter / view / unknown / fresh idioms).
"""
from __future__ import annotations

import ast
import json
import os
import sys
from pathlib import Path

ALLOW_PATH = Path(__file__).resolve().parent / 'effects_allow.json'

IMM, FRESH, ATTR, VIEW, PARAM, UNKNOWN = 0, 1, 2, 3, 4, 5
ORIGIN_NAME = {IMM: 'OFresh', FRESH: 'OFresh', ATTR: 'OAttr', VIEW: 'OViewOfParam', PARAM: 'OParam', UNKNOWN: 'OUnknown'}
KINDS = ('KAugAssign', 'KSubscriptAssign', 'KInplaceCall', 'KOutKw', 'KSetAttr')
ORIGINS = ('OFresh', 'OParam', 'OAttr', 'OViewOfParam', 'OUnknown')

V_IMM, V_FRESH, V_ATTR, V_PARAM, V_UNKNOWN = (IMM, IMM), (FRESH, FRESH), (ATTR, ATTR), (PARAM, PARAM), (UNKNOWN, UNKNOWN)


class Unsupported(Exception):
    pass


def repo() -> Path:
    return Path(os.environ.get('VERIF_REPO', '/repo'))


# ------------------------------------------------------------------------------------------------------------------
# lattice helpers
# ------------------------------------------------------------------------------------------------------------------
def join(a, b):
    return (max(a[0], b[0]), max(a[1], b[1]))


def top(v):
    return max(v)


def jtop(vs):
    return max([top(v) for v in vs], default=IMM)


_VIEW_MAP = {IMM: IMM, FRESH: FRESH, ATTR: VIEW, VIEW: VIEW, PARAM: VIEW, UNKNOWN: UNKNOWN}
_ATTR_MAP = {IMM: IMM, FRESH: FRESH, ATTR: ATTR, VIEW: VIEW, PARAM: ATTR, UNKNOWN: UNKNOWN}


def view_of(v):
    r = _VIEW_MAP[top(v)]
    return (r, r)


def elem_of(v):
    r = _VIEW_MAP[v[1]]
    return (r, r)


def attr_of(v):
    r = _ATTR_MAP[top(v)]
    return (r, r)


def cont_e(v):
    """element origin carried by a fresh python container; FRESH for everything else"""
    return v[1] if v[0] <= FRESH else FRESH


def binop_val(a, b):
    if a == V_IMM and b == V_IMM:
        return V_IMM
    return (FRESH, max(FRESH, cont_e(a), cont_e(b)))


# ------------------------------------------------------------------------------------------------------------------
# name tables
# ------------------------------------------------------------------------------------------------------------------
CTOR_FUNCS = {'__init__', '__post_init__', '__setstate__', '__new__'}
MUTATORS = {'append', 'extend', 'insert', 'pop', 'remove', 'clear', 'update', 'setdefault', 'sort', 'reverse', 'popitem'}
STORE_METHODS = {'append', 'extend', 'insert', 'add', 'update', 'setdefault', 'appendleft', 'extendleft', '__setitem__'}

# functions / methods that may return (a view of / an alias to) their input
VIEWLIKE = {
    'reshape', 'view', 'view_as', 'expand', 'expand_as', 'unsqueeze', 'squeeze', 'permute', 'transpose', 'movedim',
    'moveaxis', 'swapaxes', 'swapdims', 'flatten', 'unflatten', 'narrow', 'select', 'unbind', 'split', 'chunk',
    'tensor_split', 'hsplit', 'vsplit', 'dsplit', 'split_with_sizes', 'detach', 'contiguous', 'to', 'type_as', 'type',
    'float', 'double', 'cfloat', 'cdouble', 'half', 'bfloat16', 'int', 'long', 'short', 'bool', 'byte', 'char',
    'cpu', 'cuda', 'as_tensor', 'asarray', 'asanyarray', 'ascontiguousarray', 'from_numpy', 'from_dlpack',
    'view_as_real', 'view_as_complex', 'atleast_1d', 'atleast_2d', 'atleast_3d', 'broadcast_to', 'broadcast_tensors',
    'broadcast_arrays', 'rearrange', 'unpack', 'unsqueeze_left', 'unsqueeze_right', 'broadcast_right', 'reduce_view',
    'conj', 'conj_physical', 'resolve_conj', 'resolve_neg', 'numpy', 'values', 'indices', 'crow_indices', 'col_indices',
    'items', 'keys', 'get', 'pop', 'popitem', 'setdefault', 'diagonal', 'ravel', 'reshape_as', 't',
    'as_subclass', 'as_strided', 'unfold', 'real', 'imag', 'expand_dims', 'coalesce', 'to_dense', 'positive',
    'align_as', 'align_to', 'rename', 'refine_names', 'pin_memory', 'storage', 'untyped_storage', 'view_as',
    '__getitem__', '__iter__', '__next__', 'frombuffer', 'memoryview', 'Parameter', 'requires_grad', 'share_memory',
    'parameters', 'buffers', 'children', 'modules', 'named_parameters', 'named_buffers', 'state_dict',
    'sparse_coo_tensor', 'sparse_csr_tensor', 'sparse_csc_tensor', 'sparse_bsr_tensor', 'sparse_bsc_tensor',
    'sparse_compressed_tensor',
    'unsqueeze_at', 'unsqueeze_tensors_left', 'unsqueeze_tensors_right', 'unsqueeze_tensors_at', '__enter__',
}
VIEW_ATTRS = {'T', 'mT', 'H', 'mH', 'real', 'imag', 'data', 'grad', 'flat', 'base', '__dict__', '_base'}
IMM_ATTRS = {'shape', 'ndim', 'dtype', 'device', 'is_cuda', 'is_sparse', 'layout', 'itemsize', 'nbytes', '__name__',
             '__qualname__', '__module__', 'is_leaf', 'is_meta', 'is_quantized'}
IMM_METHODS = {'item', 'numel', 'dim', 'size', 'ndimension', 'nelement', 'element_size', 'is_complex',
               'is_floating_point', 'is_contiguous', 'stride', 'get_device', '__len__', 'count', 'index',
               'startswith', 'endswith', 'lower', 'upper', 'strip', 'lstrip', 'rstrip', 'format', 'join', 'is_signed',
               'storage_offset', 'is_set_to', 'is_shared', 'is_pinned', 'data_ptr', 'isdigit', 'encode', 'decode',
               'bit_length', 'is_integer', '__hash__', '__eq__', '__ne__', 'total_seconds', 'is_coalesced', 'sparse_dim',
               'dense_dim', 'equal'}
COMPUTE_METHODS = {
    'sum', 'mean', 'abs', 'sqrt', 'exp', 'log', 'log2', 'log10', 'clone', 'new_zeros', 'new_ones', 'new_empty',
    'new_full', 'new_tensor', 'repeat', 'tile', 'cumsum', 'cumprod', 'prod', 'norm', 'square', 'pow', 'add', 'sub',
    'mul', 'div', 'true_divide', 'floor_divide', 'matmul', 'mm', 'bmm', 'dot', 'max', 'min', 'amax', 'amin', 'argmax',
    'argmin', 'argsort', 'any', 'all', 'sin', 'cos', 'tan', 'asin', 'acos', 'atan', 'atan2', 'sinh', 'cosh', 'tanh',
    'angle', 'sign', 'sgn', 'neg', 'reciprocal', 'rsqrt', 'round', 'floor', 'ceil', 'trunc', 'clamp', 'clip',
    'masked_fill', 'masked_select', 'masked_scatter', 'index_select', 'index_add', 'index_fill', 'gather', 'scatter',
    'scatter_add', 'where', 'nonzero', 'unique', 'flip', 'roll', 'std', 'var', 'median', 'diff', 'lt', 'gt', 'le',
    'ge', 'eq', 'ne', 'logical_and', 'logical_or', 'logical_not', 'logical_xor', 'isnan', 'isinf', 'isfinite',
    'nan_to_num', 'softmax', 'sigmoid', 'outer', 'cross', 'kron', 'trace', 'det', 'inverse', 'pinverse', 'nansum',
    'nanmean', 'fmod', 'remainder', 'lerp', 'addcmul', 'addcdiv', 'astype', 'repeat_interleave', 'tobytes', 'tril',
    'triu', 'topk', 'kthvalue', 'sort_values', 'bincount', 'histc', 'expm1', 'log1p', 'erf', 'exp2', 'frac', 'mod',
    'isclose', 'allclose', 'count_nonzero', 'logsumexp', 'new', 'bitwise_and', 'bitwise_or', 'bitwise_not', 'bitwise_xor',
    'to_sparse', 'to_sparse_csr', 'to_sparse_coo',
}
CLONE_METHODS = {'clone', 'deepcopy', '__deepcopy__'}
TORCH_IMM = {'numel', 'is_tensor', 'is_complex', 'is_floating_point', 'result_type', 'promote_types', 'get_default_dtype',
             'finfo', 'iinfo', 'broadcast_shapes', 'device', 'dtype', 'Size', 'manual_seed', 'is_grad_enabled', 'can_cast',
             'set_default_dtype', 'is_nonzero', 'is_storage', 'ndim', 'shape', 'isscalar', 'Generator', 'seed',
             'equal', 'allclose', 'issubdtype', 'iscomplexobj', 'isrealobj'}
TORCH_WRAPPERS = {'utils', 'autograd', 'func', 'jit', 'compiler', '_dynamo', 'distributed', 'multiprocessing', '_C',
                  'vmap', 'compile', 'cond', 'no_grad', 'enable_grad', 'set_grad_enabled', 'inference_mode', 'load'}
BUILTIN_IMM = {'len', 'int', 'float', 'bool', 'str', 'complex', 'isinstance', 'issubclass', 'hasattr', 'callable', 'id',
               'hash', 'round', 'repr', 'ord', 'chr', 'divmod', 'format', 'print', 'any', 'all', 'type', 'slice', 'bytes',
               'ascii', 'bin', 'hex', 'oct', 'setattr', 'delattr'}
BUILTIN_CONTAINERS = {'list', 'tuple', 'set', 'frozenset', 'sorted', 'reversed', 'iter', 'enumerate', 'zip', 'dict',
                      'filter', 'bytearray'}
BUILTINS = BUILTIN_IMM | BUILTIN_CONTAINERS | {'abs', 'pow', 'min', 'max', 'sum', 'map', 'range', 'next', 'getattr', 'vars',
                                               'super', 'object', 'open', 'memoryview', 'property', 'staticmethod',
                                               'classmethod'}
CONTAINER_CTORS = {'list', 'tuple', 'set', 'frozenset', 'dict', 'sorted', 'defaultdict', 'OrderedDict', 'deque', 'Counter',
                   'bytearray'}

SCOPE_NODES = (ast.FunctionDef, ast.AsyncFunctionDef, ast.Lambda, ast.ClassDef)


def inplace_name(m: str) -> bool:
    return m.endswith('_') and not m.startswith('_') and not m.endswith('__')


def dotted(e):
    parts = []
    while isinstance(e, ast.Attribute):
        parts.append(e.attr)
        e = e.value
    if isinstance(e, ast.Name):
        parts.append(e.id)
        return parts[::-1]
    return None


# ------------------------------------------------------------------------------------------------------------------
# scopes
# ------------------------------------------------------------------------------------------------------------------
class Binding:
    __slots__ = ('mode', 'expr', 'line', 'end', 'toplevel')

    def __init__(self, mode, expr, line, end, toplevel=False):
        self.mode, self.expr, self.line, self.end, self.toplevel = mode, expr, line, end, toplevel


class ModuleInfo:
    def __init__(self, name, tree):
        self.name = name
        self.imports: dict[str, str] = {}
        self.global_decls: set[str] = set()
        for n in ast.walk(tree):
            if isinstance(n, ast.Import):
                for a in n.names:
                    if a.asname:
                        self.imports[a.asname] = a.name
                    else:
                        self.imports[a.name.split('.')[0]] = a.name.split('.')[0]
            elif isinstance(n, ast.ImportFrom):
                base = ('mrpro.' if n.level else '') + '.' * max(0, n.level - 1) + (n.module or '')
                for a in n.names:
                    self.imports[a.asname or a.name] = f'{base}.{a.name}'
            elif isinstance(n, ast.Global):
                self.global_decls.update(n.names)


class Scope:
    def __init__(self, node, qual, label, parent, lookup_parent, mod: ModuleInfo):
        self.node, self.qual, self.label, self.parent, self.lookup_parent, self.mod = node, qual, label, parent, lookup_parent, mod
        self.params: dict[str, tuple] = {}
        self.bindings: dict[str, list[Binding]] = {}
        self.env: dict[str, tuple] = {}
        self.outer_decl: set[str] = set()       # global / nonlocal names
        self.children: list[Scope] = []
        self.container_bound: set[str] = set()
        self.stores: dict[str, list[Binding]] = {}   # name.append(v) / name[i] = v: v goes into the container `name`
        self._ov_cache: dict = {}
        if isinstance(node, ast.Lambda):
            self.body = [node.body]
        else:
            self.body = list(node.body)
        if isinstance(node, (ast.FunctionDef, ast.AsyncFunctionDef, ast.Lambda)):
            a = node.args
            names = [x.arg for x in a.posonlyargs + a.args + a.kwonlyargs]
            if a.vararg:
                names.append(a.vararg.arg)
            if a.kwarg:
                names.append(a.kwarg.arg)
            for nm in names:
                self.params[nm] = V_ATTR if nm in ('self', 'cls') else V_PARAM
        self.is_module = isinstance(node, ast.Module)
        self.is_class = isinstance(node, ast.ClassDef)
        self.fname = getattr(node, 'name', '<lambda>' if isinstance(node, ast.Lambda) else '<module>')

    # -------------------------------------------------------------------------------------------------------------
    def own_nodes(self):
        """all ast nodes that belong to this scope (nested scopes contribute only decorators / defaults / bases)"""
        stack = list(reversed(self.body))
        while stack:
            n = stack.pop()
            yield n
            if isinstance(n, (ast.FunctionDef, ast.AsyncFunctionDef)):
                stack.extend(reversed(n.decorator_list + n.args.defaults + [d for d in n.args.kw_defaults if d is not None]))
            elif isinstance(n, ast.Lambda):
                stack.extend(reversed(n.args.defaults + [d for d in n.args.kw_defaults if d is not None]))
            elif isinstance(n, ast.ClassDef):
                stack.extend(reversed(n.decorator_list + n.bases + [k.value for k in n.keywords]))
            else:
                stack.extend(reversed(list(ast.iter_child_nodes(n))))

    # -------------------------------------------------------------------------------------------------------------
    # binding collection
    # -------------------------------------------------------------------------------------------------------------
    def add(self, name, mode, expr, node, toplevel=False):
        self.bindings.setdefault(name, []).append(
            Binding(mode, expr, getattr(node, 'lineno', 0), getattr(node, 'end_lineno', getattr(node, 'lineno', 0)), toplevel))

    def bind(self, tgt, mode, expr, node, handled, toplevel=False):
        if isinstance(tgt, ast.Name):
            handled.add(id(tgt))
            self.add(tgt.id, mode, expr, node, toplevel)
            if mode == 'val' and is_container_expr(expr):
                self.container_bound.add(tgt.id)
        elif isinstance(tgt, (ast.Tuple, ast.List)):
            if (mode == 'val' and isinstance(expr, (ast.Tuple, ast.List)) and len(expr.elts) == len(tgt.elts)
                    and not any(isinstance(x, ast.Starred) for x in list(expr.elts) + list(tgt.elts))):
                for t, x in zip(tgt.elts, expr.elts):
                    self.bind(t, 'val', x, node, handled)
            else:
                for t in tgt.elts:
                    if isinstance(t, ast.Starred):
                        self.bind(t.value, 'starred', expr, node, handled)
                    elif mode == 'const':
                        self.bind(t, 'const', expr, node, handled)
                    else:
                        self.bind(t, 'elem', expr, node, handled)
        elif isinstance(tgt, ast.Starred):
            self.bind(tgt.value, 'starred' if mode != 'const' else 'const', expr, node, handled)
        # Subscript / Attribute targets bind no name (they are sites)

    def bind_iteration(self, tgt, it, node, handled):
        fn = self.canon(it.func) if isinstance(it, ast.Call) else None
        if fn == 'builtins.range':
            self.bind(tgt, 'const', V_IMM, node, handled)
        elif (fn == 'builtins.enumerate' and isinstance(tgt, (ast.Tuple, ast.List)) and len(tgt.elts) == 2 and it.args
              and not isinstance(it.args[0], ast.Starred)):
            self.bind(tgt.elts[0], 'const', V_IMM, node, handled)
            self.bind_iteration(tgt.elts[1], it.args[0], node, handled)
        elif (fn == 'builtins.zip' and isinstance(tgt, (ast.Tuple, ast.List)) and len(tgt.elts) == len(it.args)
              and not any(isinstance(x, ast.Starred) for x in list(it.args) + list(tgt.elts))):
            for t, x in zip(tgt.elts, it.args):
                self.bind_iteration(t, x, node, handled)
        else:
            self.bind(tgt, 'elem', it, node, handled)

    def collect(self):
        handled: set[int] = set()
        toplevel_ids = {id(s) for s in self.body} if isinstance(self.node, (ast.FunctionDef, ast.AsyncFunctionDef)) else set()
        for n in self.own_nodes():
            if isinstance(n, ast.Assign):
                tl = id(n) in toplevel_ids and len(n.targets) == 1 and isinstance(n.targets[0], ast.Name)
                for t in n.targets:
                    self.bind(t, 'val', n.value, n, handled, tl)
                    self.store_into(t, [n.value], n)
            elif isinstance(n, ast.AnnAssign):
                if n.value is not None:
                    self.bind(n.target, 'val', n.value, n, handled, id(n) in toplevel_ids and isinstance(n.target, ast.Name))
                    self.store_into(n.target, [n.value], n)
                elif isinstance(n.target, ast.Name):
                    handled.add(id(n.target))      # bare annotation binds nothing
            elif isinstance(n, ast.AugAssign):
                if isinstance(n.target, ast.Name):
                    handled.add(id(n.target))
                    self.add(n.target.id, 'aug', (n.target.id, n.value), n)
                else:
                    self.store_into(n.target, [n.value], n)
            elif isinstance(n, ast.NamedExpr):
                self.bind(n.target, 'val', n.value, n, handled)
            elif isinstance(n, (ast.For, ast.AsyncFor)):
                self.bind_iteration(n.target, n.iter, n, handled)
            elif isinstance(n, ast.comprehension):
                self.bind_iteration(n.target, n.iter, n.target, handled)
            elif isinstance(n, ast.ExceptHandler):
                if n.name:
                    self.add(n.name, 'const', V_UNKNOWN, n)
            elif isinstance(n, (ast.FunctionDef, ast.AsyncFunctionDef, ast.ClassDef)):
                self.add(n.name, 'const', V_FRESH, n)
            elif isinstance(n, (ast.Global, ast.Nonlocal)):
                self.outer_decl.update(n.names)
            elif isinstance(n, ast.Call) and isinstance(n.func, ast.Attribute) and n.func.attr in STORE_METHODS:
                if isinstance(n.func.value, ast.Name):
                    args = [a.value if isinstance(a, ast.Starred) else a for a in n.args] + [k.value for k in n.keywords]
                    self.add_store(n.func.value.id, args, n)
            elif hasattr(ast, 'MatchAs') and isinstance(n, (ast.MatchAs, ast.MatchStar)):
                if n.name:
                    self.add(n.name, 'const', V_UNKNOWN, n)
            elif hasattr(ast, 'MatchMapping') and isinstance(n, ast.MatchMapping):
                if n.rest:
                    self.add(n.rest, 'const', V_UNKNOWN, n)
        # safety net: every other Name in Store context (with ... as x, unusual targets) is Unknown
        for n in self.own_nodes():
            if isinstance(n, ast.Name) and isinstance(n.ctx, ast.Store) and id(n) not in handled:
                self.add(n.id, 'const', V_UNKNOWN, n)
        # a nested scope that rebinds one of our names through `nonlocal` makes it Unknown
        for c in self.children:
            for nm in c.all_outer_decls():
                if nm in self.bindings or nm in self.params:
                    self.add(nm, 'const', V_UNKNOWN, self.node)
                    self.outer_decl.add(nm)

    def all_outer_decls(self):
        out = set()
        for n in self.own_nodes():
            if isinstance(n, ast.Nonlocal):
                out.update(n.names)
        for c in self.children:
            out |= c.all_outer_decls()
        return out

    def store_into(self, tgt, values, node):
        """`name[i] = v` puts v into the container `name`"""
        if isinstance(tgt, (ast.Tuple, ast.List)):
            for t in tgt.elts:
                self.store_into(t.value if isinstance(t, ast.Starred) else t, values, node)
        elif isinstance(tgt, ast.Subscript) and isinstance(tgt.value, ast.Name):
            self.add_store(tgt.value.id, values, node)

    def add_store(self, name, values, node):
        self.stores.setdefault(name, []).append(
            Binding('store', values, getattr(node, 'lineno', 0), getattr(node, 'end_lineno', getattr(node, 'lineno', 0))))

    def all_bindings(self, name):
        """bindings of a local name, plus what is stored into it when it is (also) bound to a python container"""
        bs = self.bindings.get(name, [])
        if name in self.container_bound:
            bs = bs + self.stores.get(name, [])
        return bs

    # -------------------------------------------------------------------------------------------------------------
    # environment
    # -------------------------------------------------------------------------------------------------------------
    def eval_binding(self, name, b: Binding, ov):
        if b.mode == 'const':
            return b.expr
        if b.mode == 'val':
            return self.ev(b.expr, ov)
        if b.mode == 'elem':
            return elem_of(self.ev(b.expr, ov))
        if b.mode == 'starred':
            return (FRESH, self.ev(b.expr, ov)[1])
        if b.mode == 'aug':
            nm, rhs = b.expr
            r = self.ev(rhs, ov)
            v = binop_val(self.lookup(nm, ov), r)
            if name in self.container_bound:
                v = join(v, (IMM, r[1]))
            return v
        if b.mode == 'store':
            if name not in self.container_bound:
                return V_IMM
            return (IMM, jtop([self.ev(a, ov) for a in b.expr]))
        raise Unsupported(f'binding mode {b.mode}')

    def solve(self):
        self.env = dict(self.params)
        for nm in self.bindings:
            self.env.setdefault(nm, V_IMM)
        for nm in self.outer_decl:
            self.env[nm] = V_UNKNOWN
        for _ in range(40):
            changed = False
            for nm in self.bindings:
                v = self.env[nm]
                for b in self.all_bindings(nm):
                    v = join(v, self.eval_binding(nm, b, None))
                if v != self.env[nm]:
                    self.env[nm] = v
                    changed = True
            if not changed:
                return
        raise Unsupported(f'dataflow did not converge in {self.mod.name}:{self.label}')

    def chain_has(self, name) -> bool:
        s = self
        while s is not None:
            if name in s.env or name in s.params or name in s.bindings:
                return True
            s = s.lookup_parent
        return False

    def lookup(self, name, ov):
        if ov and name in ov:
            return ov[name]
        if name in self.env:
            return self.env[name]
        s = self.lookup_parent
        while s is not None:
            if name in s.env:
                if s.is_module:
                    # a module global is shared state unless it is an immutable constant that nobody rebinds
                    return V_IMM if s.env[name] == V_IMM and name not in self.mod.global_decls else V_UNKNOWN
                return s.env[name]
            s = s.lookup_parent
        return V_UNKNOWN

    def canon(self, e):
        parts = dotted(e)
        if parts is None:
            return None
        root = parts[0]
        s = self
        while s is not None:
            if not s.is_module and (root in s.env or root in s.params or root in s.bindings):
                return None
            s = s.lookup_parent
        if root in self.mod.imports:
            return '.'.join([self.mod.imports[root]] + parts[1:])
        m = self
        while m.lookup_parent is not None:
            m = m.lookup_parent
        if root in m.bindings:
            return None
        if root in BUILTINS and len(parts) == 1:
            return 'builtins.' + root
        return None

    def overrides_at(self, line):
        """flow-sensitive exception: names that are provably Fresh at `line` because of an earlier unconditional
        function-body-level re-binding to a Fresh expression"""
        if line in self._ov_cache:
            return self._ov_cache[line]
        ov = {}
        # statements of the function body run in sequence: a binding inside a later body-level statement than the
        # one containing the site cannot reach the site
        ranges = [(st.lineno, getattr(st, 'end_lineno', st.lineno)) for st in self.body if hasattr(st, 'lineno')]
        site_idx = max([i for i, (a, z) in enumerate(ranges) if a <= line <= z], default=None)

        def reaches(b):
            if site_idx is None:
                return True
            bi = min([i for i, (a, z) in enumerate(ranges) if a <= b.line <= z], default=None)
            return bi is None or bi <= site_idx

        for nm in self.bindings:
            if nm in self.outer_decl or top(self.env.get(nm, V_IMM)) <= FRESH:
                continue
            bs = self.all_bindings(nm)
            cands = sorted([b for b in bs if b.toplevel and b.mode == 'val' and b.end < line], key=lambda b: -b.line)
            for c in cands:
                # the right-hand side of the re-binding itself still sees the old (flow-insensitive) value of the name
                val = self.eval_binding(nm, c, None)
                if top(val) > FRESH:
                    continue
                for _ in range(40):
                    new = val
                    for b in bs:
                        if b is not c and b.line >= c.line and reaches(b):
                            new = join(new, self.eval_binding(nm, b, {nm: val}))
                    if new == val:
                        break
                    val = new
                else:
                    raise Unsupported('restricted dataflow did not converge')
                if top(val) <= FRESH:
                    ov[nm] = val
                    break
        self._ov_cache[line] = ov
        return ov

    # -------------------------------------------------------------------------------------------------------------
    # expression evaluation
    # -------------------------------------------------------------------------------------------------------------
    def ev(self, e, ov=None):
        if isinstance(e, ast.Constant) or isinstance(e, (ast.JoinedStr, ast.FormattedValue)):
            return V_IMM
        if isinstance(e, ast.Name):
            return self.lookup(e.id, ov)
        if isinstance(e, ast.Starred):
            return self.ev(e.value, ov)
        if isinstance(e, ast.NamedExpr):
            return self.ev(e.value, ov)
        if isinstance(e, ast.BinOp):
            return binop_val(self.ev(e.left, ov), self.ev(e.right, ov))
        if isinstance(e, ast.UnaryOp):
            v = self.ev(e.operand, ov)
            return V_IMM if (v == V_IMM or isinstance(e.op, ast.Not)) else V_FRESH
        if isinstance(e, ast.Compare):
            vs = [self.ev(e.left, ov)] + [self.ev(c, ov) for c in e.comparators]
            if all(v == V_IMM for v in vs) or all(isinstance(o, (ast.Is, ast.IsNot, ast.In, ast.NotIn)) for o in e.ops):
                return V_IMM
            return V_FRESH
        if isinstance(e, ast.BoolOp):
            v = V_IMM
            for x in e.values:
                v = join(v, self.ev(x, ov))
            return v
        if isinstance(e, ast.IfExp):
            return join(self.ev(e.body, ov), self.ev(e.orelse, ov))
        if isinstance(e, (ast.List, ast.Tuple, ast.Set)):
            return (FRESH, jtop([self.ev(x, ov) if not isinstance(x, ast.Starred) else elem_of(self.ev(x.value, ov)) for x in e.elts]))
        if isinstance(e, ast.Dict):
            vs = []
            for k, x in zip(e.keys, e.values):
                vs.append(self.ev(x, ov) if k is not None else elem_of(self.ev(x, ov)))
            return (FRESH, jtop(vs))
        if isinstance(e, (ast.ListComp, ast.SetComp, ast.GeneratorExp)):
            return (FRESH, top(self.ev(e.elt, ov)))
        if isinstance(e, ast.DictComp):
            return (FRESH, top(self.ev(e.value, ov)))
        if isinstance(e, ast.Lambda):
            return V_FRESH
        if isinstance(e, ast.Subscript):
            v = self.ev(e.value, ov)
            if v == V_IMM:
                return V_IMM
            if v[0] <= FRESH and v[1] == IMM:
                return (FRESH, IMM) if isinstance(e.slice, ast.Slice) else V_IMM
            return view_of(v)
        if isinstance(e, ast.Attribute):
            cn = self.canon(e)
            if cn is not None and cn.split('.')[0] in ('torch', 'numpy', 'math', 'cmath'):
                return V_IMM                      # module constants, dtypes, classes
            if e.attr in IMM_ATTRS:
                return V_IMM
            v = self.ev(e.value, ov)
            if v == V_IMM:
                return V_IMM
            if e.attr in VIEW_ATTRS:
                return view_of(v)
            return attr_of(v)
        if isinstance(e, ast.Call):
            return self.ev_call(e, ov)
        if isinstance(e, ast.Slice):
            return V_IMM
        if isinstance(e, (ast.Await, ast.Yield, ast.YieldFrom)):
            return V_UNKNOWN
        return V_UNKNOWN

    def argvals(self, c, ov, positional_only=False):
        xs = list(c.args) if positional_only else list(c.args) + [k.value for k in c.keywords]
        return [self.ev(a.value if isinstance(a, ast.Starred) else a, ov) for a in xs]

    def ctor(self, c, ov):
        return (FRESH, jtop(self.argvals(c, ov)))

    def ev_call(self, c, ov):
        f = c.func
        cn = self.canon(f)
        if cn is not None:
            r = self.call_canon(cn, c, ov)
            if r is not None:
                return r
        if isinstance(f, ast.Name):
            if self.chain_has(f.id) and not self._module_level_class(f.id):
                return V_UNKNOWN                  # local / parameter callable, module-level function
            if f.id[:1].isupper():
                return self.ctor(c, ov)
            return V_UNKNOWN
        if isinstance(f, ast.Attribute):
            m = f.attr
            if m == '__class__':
                return self.ctor(c, ov)
            r = f.value
            while isinstance(r, (ast.Attribute, ast.Subscript)):
                r = r.value
            if (m.startswith('from_') and isinstance(r, ast.Name) and r.id[:1].isupper()
                    and (not self.chain_has(r.id) or self._module_level_class(r.id))):
                return self.ctor(c, ov)           # alternate constructor  Cls.from_xyz(...) / Cls[T].from_xyz(...)
            return self.method_val(m, self.ev(f.value, ov), c, ov)
        if isinstance(f, ast.Call) and self.canon(f.func) == 'builtins.type':
            return self.ctor(c, ov)               # type(self)(...)
        return V_UNKNOWN

    def _module_level_class(self, name) -> bool:
        """name is bound only at module level, by a class statement"""
        s = self
        while s is not None and not s.is_module:
            if name in s.env or name in s.params or name in s.bindings:
                return False
            s = s.lookup_parent
        if s is None:
            return False
        return any(isinstance(n, ast.ClassDef) and n.name == name for n in s.body) and name[:1].isupper()

    def method_val(self, m, recv, c, ov):
        if recv == V_IMM:
            return V_IMM
        if m in CLONE_METHODS:
            return V_FRESH
        if m in ('copy', '__copy__'):
            return (FRESH, max(FRESH, recv[1]))
        if inplace_name(m):
            return recv
        if m in IMM_METHODS:
            return V_IMM
        if m == 'tolist':
            return (FRESH, IMM)
        if m in ('get', 'pop', 'setdefault'):
            v = recv
            for a in self.argvals(c, ov)[1:]:
                v = join(v, a)
            if recv[0] <= FRESH and v[1] == IMM:
                return V_IMM
            return elem_of(v) if recv[0] <= FRESH else view_of(v)
        if m in VIEWLIKE:
            return view_of(recv)
        if m in COMPUTE_METHODS:
            return V_FRESH
        if top(recv) <= FRESH:
            # unknown method of a private object: its result can still alias an argument, e.g. (A @ B).H(x)
            a = jtop(self.argvals(c, ov))
            return V_FRESH if a <= FRESH else view_of((a, a))
        if recv[0] <= FRESH:
            return view_of(recv)
        return V_UNKNOWN

    def torch_like(self, parts, c, ov):
        last = parts[-1]
        outs = [k.value for k in c.keywords if k.arg == 'out']
        if outs:
            return self.ev(outs[0], ov)
        if parts[0] in TORCH_WRAPPERS or last in TORCH_WRAPPERS:
            return V_UNKNOWN
        if last in TORCH_IMM:
            return V_IMM
        if last in VIEWLIKE or last == 'adjoint':
            vs = self.argvals(c, ov, positional_only=True)
            vs += [self.ev(k.value, ov) for k in c.keywords if k.arg in ('input', 'tensors', 'self', 'data', 'a', 'x', 'array', 'obj', 'indices', 'values',
                                                                      'crow_indices', 'col_indices', 'ccol_indices', 'row_indices')]
            v = V_IMM
            for x in vs:
                v = join(v, x)
            return view_of(v) if top(v) > IMM else V_FRESH
        if last[:1].isupper():
            return self.ctor(c, ov)
        return V_FRESH

    def call_canon(self, cn, c, ov):
        parts = cn.split('.')
        root, last = parts[0], parts[-1]
        if root in ('torch', 'numpy'):
            return self.torch_like(parts[1:] or [root], c, ov)
        if root in ('math', 'cmath', 'warnings'):
            return V_IMM
        if root == 'einops':
            if last in ('rearrange', 'unpack', 'repeat'):
                # einops.repeat returns an expanded *view* when it only adds axes (checked: shares the data pointer)
                vs = self.argvals(c, ov, positional_only=True)
                return view_of(vs[0]) if vs else V_UNKNOWN
            if last in ('reduce', 'einsum', 'pack'):
                return V_FRESH
            if last == 'parse_shape':
                return V_IMM
            return V_UNKNOWN
        if root == 'copy':
            if last == 'deepcopy':
                return V_FRESH
            if last == 'copy':
                vs = self.argvals(c, ov)
                return (FRESH, max([FRESH] + [v[1] for v in vs]))
            return V_UNKNOWN
        if root == 'dataclasses':
            if last == 'replace':
                return (FRESH, max(FRESH, jtop(self.argvals(c, ov))))
            if last in ('asdict', 'astuple', 'field'):
                return V_FRESH
            if last == 'fields':
                return (FRESH, IMM)
            if last == 'is_dataclass':
                return V_IMM
            return V_UNKNOWN
        if root in ('typing', 'typing_extensions'):
            if last == 'cast' and len(c.args) == 2:
                return self.ev(c.args[1], ov)
            return V_UNKNOWN
        if root == 'itertools':
            return (FRESH, max([IMM] + [v[1] for v in self.argvals(c, ov)]))
        if root == 'collections':
            if last in CONTAINER_CTORS or last[:1].isupper():
                return (FRESH, max([IMM] + [v[1] for v in self.argvals(c, ov)]))
            return V_UNKNOWN
        if root == 're':
            return V_FRESH
        if root == 'mrpro':
            if last in VIEWLIKE:
                v = V_IMM
                for x in self.argvals(c, ov, positional_only=True):
                    v = join(v, x)
                return view_of(v) if top(v) > IMM else V_UNKNOWN
            if len(parts) >= 2 and parts[-2][:1].isupper() and last.startswith('from_'):
                return self.ctor(c, ov)
            if last[:1].isupper():
                return self.ctor(c, ov)
            return V_UNKNOWN
        if root == 'builtins':
            vs = self.argvals(c, ov)
            if last in BUILTIN_IMM:
                return V_IMM
            if last == 'range':
                return (FRESH, IMM)
            if last in ('abs', 'pow'):
                return V_IMM if all(v == V_IMM for v in vs) else V_FRESH
            if last in ('min', 'max'):
                if all(v == V_IMM for v in vs):
                    return V_IMM
                if len(c.args) == 1:
                    return elem_of(vs[0])
                v = V_IMM
                for x in vs:
                    v = join(v, x)
                return view_of(v)
            if last == 'sum':
                if vs and all(elem_of(v) == V_IMM or v == V_IMM for v in vs):
                    return V_IMM
                return (FRESH, max([FRESH] + [cont_e(elem_of(v)) for v in vs]))
            if last == 'map':
                return (FRESH, UNKNOWN)
            if last == 'filter':
                return (FRESH, vs[1][1]) if len(vs) > 1 else V_UNKNOWN
            if last == 'dict':
                pos = self.argvals(c, ov, positional_only=True)
                kws = [self.ev(k.value, ov) if k.arg is not None else elem_of(self.ev(k.value, ov)) for k in c.keywords]
                return (FRESH, max([IMM] + [v[1] for v in pos] + [top(v) for v in kws]))
            if last in BUILTIN_CONTAINERS:
                return (FRESH, max([IMM] + [v[1] for v in vs]))
            if last == 'next':
                v = elem_of(vs[0]) if vs else V_UNKNOWN
                for x in vs[1:]:
                    v = join(v, x)
                return v
            if last == 'getattr':
                if len(c.args) >= 2 and isinstance(c.args[1], ast.Constant) and c.args[1].value in IMM_ATTRS:
                    return V_IMM
                v = attr_of(vs[0]) if vs else V_UNKNOWN
                for x in vs[2:]:
                    v = join(v, x)
                return v
            if last == 'vars':
                return attr_of(vs[0]) if vs else V_UNKNOWN
            if last == 'super':
                return V_ATTR
            if last == 'object':
                return V_FRESH
            if last == 'memoryview':
                return view_of(vs[0]) if vs else V_UNKNOWN
            return V_UNKNOWN
        return None

    # -------------------------------------------------------------------------------------------------------------
    # sites
    # -------------------------------------------------------------------------------------------------------------
    def root_name(self, e) -> str:
        while True:
            if isinstance(e, ast.Name):
                return e.id
            if isinstance(e, (ast.Subscript, ast.Attribute, ast.Starred)):
                e = e.value
            elif isinstance(e, ast.Call):
                cn = self.canon(e.func)
                if cn is not None:
                    return cn + '()'
                if isinstance(e.func, ast.Attribute):
                    e = e.func.value
                elif isinstance(e.func, ast.Name):
                    return e.func.id + '()'
                else:
                    return '<expr>'
            else:
                return '<expr>'

    def is_ctor_self_write(self, obj) -> bool:
        return (isinstance(obj, ast.Name) and obj.id == 'self' and not self.is_class and not self.is_module
                and self.fname in CTOR_FUNCS and 'self' in self.params)

    def sites(self):
        out = []

        def emit(node, kind, written, origin_rank):
            out.append({'module': self.mod.name, 'function': self.label, 'line': int(node.lineno), 'kind': kind,
                        'origin': ORIGIN_NAME[origin_rank], 'target': self.root_name(written)})

        consumed: set[int] = set()
        for n in self.own_nodes():
            line = getattr(n, 'lineno', None)
            if isinstance(n, ast.AugAssign):
                ov = self.overrides_at(line)
                t = n.target
                consumed.add(id(t))
                if isinstance(t, ast.Name):
                    v = self.ev(t, ov)
                    if v[0] == IMM:
                        continue                   # immutable scalar / counter: a re-binding, not a write
                    emit(n, 'KAugAssign', t, v[0])
                elif isinstance(t, ast.Subscript):
                    emit(n, 'KAugAssign', t.value, max(FRESH, top(self.ev(t.value, ov))))
                elif isinstance(t, ast.Attribute):
                    emit(n, 'KAugAssign', t.value, max(FRESH, self.ev(t.value, ov)[0], self.ev(t, ov)[0]))
                else:
                    raise Unsupported(f'augmented assignment target {type(t).__name__} line {line}')
            elif isinstance(n, ast.Subscript) and isinstance(n.ctx, ast.Store) and id(n) not in consumed:
                emit(n, 'KSubscriptAssign', n.value, self.ev(n.value, self.overrides_at(line))[0])
            elif isinstance(n, ast.Attribute) and isinstance(n.ctx, ast.Store) and id(n) not in consumed:
                if self.is_ctor_self_write(n.value):
                    continue
                emit(n, 'KSetAttr', n.value, self.ev(n.value, self.overrides_at(line))[0])
            elif isinstance(n, ast.Call):
                ov = self.overrides_at(line)
                f = n.func
                for k in n.keywords:
                    if k.arg == 'out':
                        emit(n, 'KOutKw', k.value, self.ev(k.value, ov)[0])
                cn = self.canon(f)
                if cn == 'builtins.setattr' and n.args:
                    if not self.is_ctor_self_write(n.args[0]):
                        emit(n, 'KSetAttr', n.args[0], self.ev(n.args[0], ov)[0])
                elif cn is not None and cn.startswith('operator.i') and cn.split('.')[-1] in OPERATOR_INPLACE and n.args:
                    emit(n, 'KAugAssign', n.args[0], max(FRESH, self.ev(n.args[0], ov)[0]))
                elif cn is not None and cn.split('.')[0] != 'builtins' and isinstance(f, (ast.Name, ast.Attribute)):
                    # function of an imported module: torch.nn.init.zeros_(x), torch.relu_(x) write their first argument
                    if inplace_name(cn.split('.')[-1]):
                        if n.args:
                            emit(n, 'KInplaceCall', n.args[0], max(FRESH, self.ev(n.args[0], ov)[0]))
                        else:
                            raise Unsupported(f'in-place function {cn} without positional argument, line {line}')
                elif isinstance(f, ast.Attribute):
                    m = f.attr
                    if m == '__setattr__':
                        if len(n.args) >= 3:
                            w = n.args[0]
                        else:
                            w = f.value
                        if not self.is_ctor_self_write(w):
                            emit(n, 'KSetAttr', w, max(FRESH, self.ev(w, ov)[0]))
                    elif m == '__setitem__':
                        w = n.args[0] if len(n.args) >= 3 else f.value
                        emit(n, 'KSubscriptAssign', w, max(FRESH, self.ev(w, ov)[0]))
                    elif m in AUG_DUNDERS:
                        w = n.args[0] if len(n.args) >= 2 else f.value
                        emit(n, 'KAugAssign', w, max(FRESH, self.ev(w, ov)[0]))
                    elif inplace_name(m):
                        emit(n, 'KInplaceCall', f.value, max(FRESH, self.ev(f.value, ov)[0]))
                    elif m in MUTATORS:
                        o = self.ev(f.value, ov)[0]
                        if o > FRESH:
                            emit(n, 'KInplaceCall', f.value, o)
        return out


OPERATOR_INPLACE = {'iadd', 'isub', 'imul', 'itruediv', 'ifloordiv', 'imod', 'ipow', 'imatmul', 'iand', 'ior', 'ixor',
                    'ilshift', 'irshift', 'iconcat'}
AUG_DUNDERS = {'__iadd__', '__isub__', '__imul__', '__itruediv__', '__ifloordiv__', '__imod__', '__ipow__',
               '__imatmul__', '__iand__', '__ior__', '__ixor__', '__ilshift__', '__irshift__'}


def is_container_expr(e) -> bool:
    if isinstance(e, (ast.List, ast.Tuple, ast.Set, ast.Dict, ast.ListComp, ast.SetComp, ast.DictComp, ast.GeneratorExp)):
        return True
    if isinstance(e, ast.Call):
        d = dotted(e.func)
        return d is not None and d[-1] in CONTAINER_CTORS
    if isinstance(e, ast.BinOp):
        return is_container_expr(e.left) or is_container_expr(e.right)
    if isinstance(e, ast.IfExp):
        return is_container_expr(e.body) or is_container_expr(e.orelse)
    if isinstance(e, ast.BoolOp):
        return any(is_container_expr(x) for x in e.values)
    return False


# ------------------------------------------------------------------------------------------------------------------
# driver
# ------------------------------------------------------------------------------------------------------------------
def build_scopes(tree: ast.Module, mod: ModuleInfo) -> list[Scope]:
    order: list[Scope] = []

    def make(node, qual, label, parent, lookup_parent):
        sc = Scope(node, qual, label, parent, lookup_parent, mod)
        order.append(sc)
        if parent is not None:
            parent.children.append(sc)
        inner_lookup = lookup_parent if sc.is_class else sc      # class bodies are not visible from methods
        for n in sc.own_nodes():
            if isinstance(n, SCOPE_NODES):
                nm = '<lambda>' if isinstance(n, ast.Lambda) else n.name
                q = f'{qual}.{nm}' if qual else nm
                make(n, q, q + '.<class>' if isinstance(n, ast.ClassDef) else q, sc, inner_lookup)
        return sc

    make(tree, '', '<module>', None, None)
    return order


def scan_source(module_name: str, source_text: str) -> list[dict]:
    """all in-place sites of one module given as text (raises SyntaxError / Unsupported)"""
    tree = ast.parse(source_text)
    mod = ModuleInfo(module_name, tree)
    scopes = build_scopes(tree, mod)
    for sc in scopes:                 # parents first
        sc.collect()
    for sc in scopes:                 # parents first: closures read the enclosing environment
        sc.solve()
    sites = []
    for sc in scopes:
        sites.extend(sc.sites())
    uniq = {(s['module'], s['line'], s['kind'], s['target'], s['function'], s['origin']): s for s in sites}
    return [uniq[k] for k in sorted(uniq)]


def module_name_of(path: Path, src_root: Path) -> str:
    rel = path.relative_to(src_root).with_suffix('')
    parts = list(rel.parts)
    if parts[-1] == '__init__':
        parts = parts[:-1]
    return '.'.join(parts)


def scan_repo() -> tuple[list[dict], int]:
    src_root = repo() / 'src'
    pkg = src_root / 'mrpro'
    files = sorted(pkg.rglob('*.py'))
    if not files:
        raise Unsupported(f'no python files below {pkg}')
    sites = []
    for f in files:
        try:
            sites.extend(scan_source(module_name_of(f, src_root), f.read_text(encoding='utf-8')))
        except SyntaxError as e:
            raise Unsupported(f'{f}: syntax error: {e}') from e
    sites.sort(key=lambda s: (s['module'], s['line'], s['kind'], s['target'], s['function'], s['origin']))
    return sites, len(files)


def load_allow() -> list[dict]:
    data = json.loads(ALLOW_PATH.read_text())
    entries = data['entries']
    seen = set()
    for e in entries:
        for k in ('module', 'function', 'kind', 'target', 'justification'):
            if not isinstance(e.get(k), str) or not e[k].strip():
                raise Unsupported(f'allow-list entry {e} lacks "{k}"')
        if e['kind'] not in KINDS:
            raise Unsupported(f'allow-list entry {e}: unknown kind')
        key = allow_key(e)
        if key in seen:
            raise Unsupported(f'allow-list entry {key} is duplicated')
        seen.add(key)
    return sorted(entries, key=allow_key)


def allow_key(e):
    return (e['module'], e['function'], e['kind'], e['target'])


def open_keys(allow: list[dict]) -> set:
    return {allow_key(a) for a in allow if a.get('status') == 'open-finding'}


def site_ok(allow_keys: set, s: dict) -> bool:
    """same rule as Model/Effects.v site_ok"""
    return s['origin'] == 'OFresh' or allow_key(s) in allow_keys


def cstr(s: str) -> str:
    return '"' + s.replace('"', '""') + '"'


def header() -> str:
    return (f'(* GENERATED on every run by harness/translate/effects.py from {repo()}/src/mrpro -- do not edit *)\n'
            'From MrVerif Require Import Base.Prelude Model.Effects.\n'
            'From Coq Require Import String.\n'
            'Local Open Scope string_scope.\n')


def coq_list(items: list[str]) -> str:
    if not items:
        return '[]'
    return '[\n' + ';\n'.join('  ' + i for i in items) + '\n]'


def render(sites: list[dict], allow: list[dict]) -> str:
    site_lines = [f'mkSite {cstr(s["module"])} {cstr(s["function"])} {s["line"]}%Z {s["kind"]} {s["origin"]} {cstr(s["target"])}'
                  for s in sites]
    allow_lines = [f'mkAllow {cstr(a["module"])} {cstr(a["function"])} {a["kind"]} {cstr(a["target"])}' for a in allow]
    return (header() + 'Definition gen_available := true.\n'
            f'Definition gen_effects : list site := {coq_list(site_lines)}.\n'
            f'Definition gen_allow : list allow_entry := {coq_list(allow_lines)}.\n'
            'Theorem gen_effects_ok : forallb (site_ok gen_allow) gen_effects = true.\n'
            'Proof. vm_compute. reflexivity. Qed.\n'
            'Theorem gen_no_foreign_write : forall s, In s gen_effects -> site_ok gen_allow s = true.\n'
            'Proof. exact (proj1 (forallb_forall (site_ok gen_allow) gen_effects) gen_effects_ok). Qed.\n')


def analyse() -> tuple[list[dict], list[dict], dict]:
    sites, n_files = scan_repo()
    allow = load_allow()
    keys = {allow_key(a) for a in allow}
    used = {allow_key(s) for s in sites if allow_key(s) in keys}
    by_kind = {k: 0 for k in KINDS}
    by_origin = {o: 0 for o in ORIGINS}
    for s in sites:
        by_kind[s['kind']] += 1
        by_origin[s['origin']] += 1
    info = {
        'n_sites': len(sites), 'n_files': n_files, 'by_kind': by_kind, 'by_origin': by_origin,
        'bad_sites': [s for s in sites if not site_ok(keys, s)],
        'unused_allow': [a for a in allow if allow_key(a) not in used],
        'sites': sites,
        # sites that are on the allow-list only as a marked, *unjustified* open finding (genuine purity violation)
        'open_findings': [s for s in sites if s['origin'] != 'OFresh' and allow_key(s) in open_keys(allow)],
    }
    return sites, allow, info


def write(out: Path) -> tuple[bool, str, dict]:
    out = Path(out)
    try:
        sites, allow, info = analyse()
        text = render(sites, allow)
    except Exception as e:  # noqa: BLE001  fail closed on anything
        reason = f'{type(e).__name__}: {e}'.replace('*)', '* )').replace('(*', '( *')
        out.parent.mkdir(parents=True, exist_ok=True)
        out.write_text(header() + 'Definition gen_available := false.\n' + f'(* translator failed closed: {reason} *)\n')
        return False, reason, {}
    out.parent.mkdir(parents=True, exist_ok=True)
    out.write_text(text)
    return True, '', info


_SELFTEST = [  # (source, [(kind, origin or 'NF' = any non-fresh origin, target)] in line order)
    ('def f(x):\n    x += 1\n', [('KAugAssign', 'OParam', 'x')]),
    ('def f(x):\n    x = x.clone()\n    x += 1\n', [('KAugAssign', 'OFresh', 'x')]),
    ('def f(x, c):\n    if c:\n        x = x.clone()\n    x += 1\n', [('KAugAssign', 'OParam', 'x')]),
    ('def f(x):\n    x = x.reshape(-1)\n    x.add_(1)\n', [('KInplaceCall', 'NF', 'x')]),
    ('def f(x, ps):\n    x = x.clone()\n    for p in ps:\n        x += 1\n        x = p\n', [('KAugAssign', 'NF', 'x')]),
    ('import torch\ndef f(s):\n    if not isinstance(s, torch.Tensor):\n        s = torch.as_tensor(1.0 * s)\n    s[s < 1] += 1\n',
     [('KAugAssign', 'OParam', 's')]),
    ('class A:\n  def f(self, k):\n    (r,) = self.op.H(k)\n    r += 1\n', [('KAugAssign', 'OUnknown', 'r')]),
    ('class A:\n  def f(self, k):\n    (r,) = (self.a @ self.b).H(k)\n    r += 1\n', [('KAugAssign', 'NF', 'r')]),
    ('class A:\n  def f(self):\n    h = self.header.clone()\n    setattr(h.limits, "a", 1)\n', [('KSetAttr', 'OFresh', 'h')]),
    ('class A:\n  def __init__(self, a):\n    self.a = a\n  def g(self):\n    self.a = 1\n    self.b[0] = 2\n',
     [('KSetAttr', 'OAttr', 'self'), ('KSubscriptAssign', 'OAttr', 'self')]),
    ('import torch\ndef f(x, y):\n    r = torch.add(x, 1, out=y)\n    r += 1\n', [('KOutKw', 'OParam', 'y'), ('KAugAssign', 'OParam', 'r')]),
    ('import torch\ndef f(x, y):\n    r = torch.add(x, y)\n    r += 1\n', [('KAugAssign', 'OFresh', 'r')]),
    ('def f(x):\n    n = 0\n    for i in range(3):\n        n += 1\n    k = x.shape[0]\n    k -= 1\n', []),
    ('def f(a, b):\n    out = []\n    out.append(a)\n    out[0] += 1\n    for t in [a, b]:\n        t.mul_(2)\n',
     [('KAugAssign', 'NF', 'out'), ('KInplaceCall', 'NF', 't')]),
    ('from einops import repeat\ndef f(x):\n    z = repeat(x, "a -> a b", b=1)\n    z += 1\n', [('KAugAssign', 'OViewOfParam', 'z')]),
    ('import torch\nG = torch.zeros(3)\ndef f():\n    G.add_(1)\n', [('KInplaceCall', 'OUnknown', 'G')]),
    ('import torch\ndef f(w):\n    torch.nn.init.zeros_(w)\n', [('KInplaceCall', 'OParam', 'w')]),
    ('def f(x):\n    def g():\n        x.add_(1)\n', [('KInplaceCall', 'OParam', 'x')]),
    ('class A:\n  def f(self, d):\n    new = Foo(d)\n    new.data[0] = 1\n    new.flag = 2\n',
     [('KSubscriptAssign', 'NF', 'new'), ('KSetAttr', 'OFresh', 'new')]),
]


def selftest() -> list[str]:
    errors = []
    for src, want in _SELFTEST:
        got = [(s['kind'], s['origin'], s['target']) for s in sorted(scan_source('selftest', src), key=lambda s: s['line'])]
        ok = len(got) == len(want) and all(
            g[0] == w[0] and g[2] == w[2] and (g[1] == w[1] or (w[1] == 'NF' and g[1] != 'OFresh')) for g, w in zip(got, want))
        if not ok:
            errors.append(f'{src!r}: got {got}, want {want}')
    return errors


def main(argv: list[str]) -> int:
    if '--selftest' in argv:
        errs = selftest()
        print('\n'.join(errs) if errs else f'selftest ok ({len(_SELFTEST)} snippets)')
        return 1 if errs else 0
    try:
        sites, allow, info = analyse()
    except Exception as e:  # noqa: BLE001
        print(f'FAILED CLOSED: {type(e).__name__}: {e}')
        return 2
    keys = {allow_key(a) for a in allow}
    only_nonfresh = '--nonfresh' in argv
    rows = [('module', 'function', 'line', 'kind', 'origin', 'target', 'allowed?')]
    for s in sites:
        if only_nonfresh and s['origin'] == 'OFresh':
            continue
        ok = ('fresh' if s['origin'] == 'OFresh' else 'OPEN FINDING (listed)' if allow_key(s) in open_keys(allow)
              else 'allowed' if allow_key(s) in keys else 'NOT ALLOWED')
        rows.append((s['module'], s['function'], str(s['line']), s['kind'], s['origin'], s['target'], ok))
    widths = [max(len(r[i]) for r in rows) for i in range(len(rows[0]))]
    for r in rows:
        print('  '.join(c.ljust(w) for c, w in zip(r, widths)).rstrip())
    print(f'\n{info["n_sites"]} sites in {info["n_files"]} files of {repo()}/src/mrpro')
    print('by kind:  ', info['by_kind'])
    print('by origin:', info['by_origin'])
    print(f'bad sites: {len(info["bad_sites"])}   unused allow-list entries: {len(info["unused_allow"])}   '
          f'open findings: {len(info["open_findings"])}')
    for a in info['unused_allow']:
        print('  UNUSED', allow_key(a))
    return 0 if not info['bad_sites'] and not info['unused_allow'] else 1


if __name__ == '__main__':
    sys.exit(main(sys.argv[1:]))
