r"""T-VOR: fail-closed ast translator  src/mrpro/algorithms/dcf/dcf_voronoi.py  ->  coq/Gen/voronoi_gen.v

`dcf_1d` is executed symbolically, statement by statement, over a typed environment (the input samples, the sorted distinct
values / inverse index / counts returned by torch.unique, vectors derived from them, scalars, the conv kernel, integers).
Output:

   gen_conv k0 k1 k2 u        'valid' cross-correlation with a 3-tap kernel (what F.conv1d does)
   gen_central_diff u         the value of the numerator of the final division as a function of the sorted distinct values:
                              the branch structure on len(traj_sorted) (threshold and comparison as written), the central
                              difference formula with the kernel as written, the edge rule, the fallback value
   gen_dcf_1d traj            unique / counts / division / gathering through the inverse index as written

Obligations (re-proved on every run, up to == on Q because the kernel's middle tap contributes 0 * x):
   gen_conv_ok           forall u, Forall2 Qeq (gen_conv K u) (conv3 u)                  (kernel = (-1/2, 0, 1/2))
   gen_central_diff_ok   forall u, Forall2 Qeq (gen_central_diff u) (central_diff u)     (branches, edge rule, fallback)
   gen_dcf_1d_ok         forall traj, Forall2 Qeq (gen_dcf_1d traj) (dcf_1d traj)        (counts, division, inverse)
and, from dcf_2d3d_voronoi (only the Tukey fence lines are pinned; everything else of the 2-D path rests on correspondence):
   gen_fence_ok          forall q1 q3, gen_fence q1 q3 == fence_formula q1 q3  /\  percentiles = (1/4, 3/4)  /\  outlier test is `>`

Subset (anything else raises Unsupported -> `Definition gen_available := false.`):
   a, b, c = torch.unique(X | torch.round(X, decimals=D>=10), sorted=True, return_inverse=True, return_counts=True)
   k = torch.tensor([c0, c1, c2], ...).reshape(1, 1, 3)               constant rational kernel
   torch.nn.functional.conv1d(v[None, None, :], k)[0, 0]                gen_conv
   v[i] (integer literal, negative = from the end), s[None], s - t, s + t, s * t, s / t
   torch.cat((v1, ..., vn), -1), torch.ones_like(v), torch.nan_to_num(v), v / w (element-wise), v[inverse]
   len(v), (name := len(v)),  <int> >=, >, ==, <=, <, != <int literal>;  if / elif / else assigning the same vector
   return <vector>
"""
import ast
import os
from fractions import Fraction
from pathlib import Path

SRC = Path(os.environ.get('VERIF_REPO', '/repo')) / 'src/mrpro/algorithms/dcf/dcf_voronoi.py'
N_OBLIGATIONS = 4

VEC, SC, NUM, INT, KER, KLIST, INV, B3, INPUT = 'vec', 'scalar', 'num', 'int', 'kernel', 'klist', 'inverse', 'batched', 'input'


class Unsupported(Exception):
    pass


def q(fr: Fraction) -> str:
    fr = Fraction(fr)
    return f'({fr.numerator} # {fr.denominator})' if fr.numerator >= 0 else f'(({fr.numerator}) # {fr.denominator})'


def dotted(e) -> str | None:
    parts = []
    while isinstance(e, ast.Attribute):
        parts.append(e.attr)
        e = e.value
    if isinstance(e, ast.Name):
        parts.append(e.id)
        return '.'.join(reversed(parts))
    return None


def int_const(e) -> int | None:
    if isinstance(e, ast.Constant) and isinstance(e.value, int) and not isinstance(e.value, bool):
        return e.value
    if isinstance(e, ast.UnaryOp) and isinstance(e.op, ast.USub) and isinstance(e.operand, ast.Constant) and isinstance(e.operand.value, int):
        return -e.operand.value
    return None


class Tr:
    def __init__(self, module_consts):
        self.consts = module_consts

    # -- expressions ---------------------------------------------------------------------------------------------------
    def ev(self, e, env):
        if isinstance(e, ast.Name):
            if e.id in env:
                return env[e.id]
            if e.id in self.consts:
                return (NUM, Fraction(self.consts[e.id]))
            raise Unsupported(f'unknown name {e.id} (line {e.lineno})')
        if isinstance(e, ast.Constant) and isinstance(e.value, (int, float)) and not isinstance(e.value, bool):
            return (NUM, Fraction(e.value))
        if isinstance(e, ast.NamedExpr):
            v = self.ev(e.value, env)
            env[e.target.id] = v
            return v
        if isinstance(e, ast.UnaryOp) and isinstance(e.op, ast.USub):
            t, v = self.ev(e.operand, env)
            if t == NUM:
                return (NUM, -v)
            if t == SC:
                return (SC, f'(- {v})')
            raise Unsupported('negation of a non-scalar')
        if isinstance(e, ast.BinOp):
            return self.binop(e, env)
        if isinstance(e, ast.Subscript):
            return self.subscript(e, env)
        if isinstance(e, ast.Call):
            return self.call(e, env)
        raise Unsupported(f'expression {type(e).__name__} (line {getattr(e, "lineno", "?")})')

    @staticmethod
    def as_scalar(tv):
        t, v = tv
        if t == NUM:
            return q(v)
        if t == SC:
            return v
        raise Unsupported(f'{t} used as a scalar')

    def binop(self, e, env):
        a, b = self.ev(e.left, env), self.ev(e.right, env)
        op = type(e.op)
        if a[0] == NUM and b[0] == NUM:
            if op is ast.Div:
                if b[1] == 0:
                    raise Unsupported('constant division by zero')
                return (NUM, a[1] / b[1])
            f = {ast.Add: lambda x, y: x + y, ast.Sub: lambda x, y: x - y, ast.Mult: lambda x, y: x * y}.get(op)
            if f is None:
                raise Unsupported(f'constant operator {op.__name__}')
            return (NUM, f(a[1], b[1]))
        if a[0] == VEC and b[0] == VEC:
            sym = {ast.Div: 'Qdiv', ast.Mult: 'Qmult', ast.Add: 'Qplus', ast.Sub: 'Qminus'}.get(op)
            if sym is None:
                raise Unsupported(f'vector operator {op.__name__}')
            return (VEC, f'(map2 {sym} {a[1]} {b[1]})')
        if a[0] in (SC, NUM) and b[0] in (SC, NUM):
            sym = {ast.Add: '+', ast.Sub: '-', ast.Mult: '*', ast.Div: '/'}.get(op)
            if sym is None:
                raise Unsupported(f'scalar operator {op.__name__}')
            return (SC, f'({self.as_scalar(a)} {sym} {self.as_scalar(b)})')
        raise Unsupported(f'operator {op.__name__} on {a[0]} and {b[0]} (line {e.lineno})')

    def subscript(self, e, env):
        base = self.ev(e.value, env)
        sl = e.slice
        elts = sl.elts if isinstance(sl, ast.Tuple) else [sl]

        def is_none(x):
            return isinstance(x, ast.Constant) and x.value is None

        def is_full(x):
            return isinstance(x, ast.Slice) and x.lower is None and x.upper is None and x.step is None

        if base[0] == VEC:
            if len(elts) == 1 and int_const(elts[0]) is not None:
                i = int_const(elts[0])
                idx = f'{i}%nat' if i >= 0 else f'(length {base[1]} - {-i})%nat'
                return (SC, f'(nth {idx} {base[1]} 0)')
            if len(elts) == 3 and is_none(elts[0]) and is_none(elts[1]) and is_full(elts[2]):
                return (B3, base[1])
            if len(elts) == 1 and isinstance(elts[0], ast.Name) and env.get(elts[0].id, (None,))[0] == INV:
                u, traj = env[elts[0].id][1]
                return (VEC, f'(map (fun x => nth (index x {u}) {base[1]} 0) {traj})')
            raise Unsupported(f'subscript of a vector (line {e.lineno})')
        if base[0] == B3:
            if len(elts) == 2 and int_const(elts[0]) == 0 and int_const(elts[1]) == 0:
                return (VEC, base[1])
            raise Unsupported('subscript of a batched tensor other than [0, 0]')
        if base[0] == SC:
            if len(elts) == 1 and is_none(elts[0]):
                return (VEC, f'[{base[1]}]')
            raise Unsupported('subscript of a scalar other than [None]')
        raise Unsupported(f'subscript of {base[0]} (line {e.lineno})')

    def call(self, e, env):
        name = dotted(e.func)
        kw = {k.arg: k.value for k in e.keywords}
        if name == 'len' and len(e.args) == 1 and not kw:
            t, v = self.ev(e.args[0], env)
            if t != VEC:
                raise Unsupported('len of a non-vector')
            return (INT, f'(length {v})')
        if name == 'torch.tensor' and e.args and isinstance(e.args[0], ast.List):
            vals = []
            for x in e.args[0].elts:
                t, v = self.ev(x, env)
                if t != NUM:
                    raise Unsupported('non-constant kernel entry')
                vals.append(v)
            if set(kw) - {'dtype', 'device'} or len(e.args) > 1:
                raise Unsupported('torch.tensor arguments')
            return (KLIST, vals)
        if isinstance(e.func, ast.Attribute) and e.func.attr == 'reshape':
            base = self.ev(e.func.value, env)
            dims = [int_const(a) for a in e.args]
            if base[0] == KLIST and dims == [1, 1, len(base[1])] and len(base[1]) == 3 and not kw:
                return (KER, base[1])
            raise Unsupported('reshape other than kernel.reshape(1, 1, 3)')
        if name in ('torch.nn.functional.conv1d', 'F.conv1d', 'torch.conv1d'):
            if len(e.args) != 2 or kw:
                raise Unsupported('conv1d with extra arguments (bias / stride / padding / dilation)')
            x, k = self.ev(e.args[0], env), self.ev(e.args[1], env)
            if x[0] != B3 or k[0] != KER:
                raise Unsupported('conv1d operands')
            return (B3, f'(gen_conv {q(k[1][0])} {q(k[1][1])} {q(k[1][2])} {x[1]})')
        if name in ('torch.cat', 'torch.concatenate', 'torch.concat'):
            dim = e.args[1] if len(e.args) == 2 else kw.get('dim')
            if not e.args or not isinstance(e.args[0], (ast.Tuple, ast.List)) or dim is None or int_const(dim) not in (-1, 0) \
                    or set(kw) - {'dim'} or len(e.args) > 2:
                raise Unsupported('torch.cat arguments')
            parts = [self.ev(x, env) for x in e.args[0].elts]
            if any(p[0] != VEC for p in parts) or not parts:
                raise Unsupported('torch.cat of non-vectors')
            return (VEC, '(' + ' ++ '.join(p[1] for p in parts) + ')')
        if name == 'torch.ones_like' and len(e.args) == 1 and not kw:
            t, v = self.ev(e.args[0], env)
            if t != VEC:
                raise Unsupported('ones_like of a non-vector')
            return (VEC, f'(map (fun _ : Q => 1) {v})')
        if name == 'torch.nan_to_num' and len(e.args) == 1 and not kw:
            t, v = self.ev(e.args[0], env)
            if t != VEC:
                raise Unsupported('nan_to_num of a non-vector')
            return (VEC, v)       # identity: the only division is by counts >= 1 (no NaN / inf in exact arithmetic)
        if name == 'torch.round':
            t, v = self.ev(e.args[0], env)
            d = self.ev(kw['decimals'], env) if 'decimals' in kw else None
            if t != INPUT or len(e.args) != 1 or d is None or d[0] != NUM or d[1] < 10 or set(kw) != {'decimals'}:
                raise Unsupported('torch.round other than round(traj, decimals >= 10)')
            return (INPUT, v)     # identity on the float32-exact inputs of the harness (ASSUMPTIONS of C16)
        raise Unsupported(f'call {name} (line {e.lineno})')

    def test(self, t, env):
        if not (isinstance(t, ast.Compare) and len(t.ops) == 1):
            raise Unsupported('branch test is not a single comparison')
        a = self.ev(t.left, env)
        c = int_const(t.comparators[0])
        if a[0] != INT or c is None or c < 0:
            raise Unsupported('branch test is not <length> <op> <non-negative integer literal>')
        n = a[1]
        f = {ast.GtE: f'(Nat.leb {c} {n})', ast.Gt: f'(Nat.ltb {c} {n})', ast.Eq: f'(Nat.eqb {n} {c})',
             ast.LtE: f'(Nat.leb {n} {c})', ast.Lt: f'(Nat.ltb {n} {c})', ast.NotEq: f'(negb (Nat.eqb {n} {c}))'}.get(type(t.ops[0]))
        if f is None:
            raise Unsupported(f'comparison {type(t.ops[0]).__name__}')
        return f

    # -- statements ----------------------------------------------------------------------------------------------------
    def block(self, stmts, env):
        """returns the returned value or None"""
        for s in stmts:
            if isinstance(s, ast.Expr) and isinstance(s.value, ast.Constant) and isinstance(s.value.value, str):
                continue
            if isinstance(s, ast.Return):
                return self.ev(s.value, env)
            if isinstance(s, ast.Assign) and len(s.targets) == 1:
                tg = s.targets[0]
                if isinstance(tg, ast.Name):
                    env[tg.id] = self.ev(s.value, env)
                    continue
                if isinstance(tg, ast.Tuple) and len(tg.elts) == 3 and all(isinstance(x, ast.Name) for x in tg.elts):
                    self.unique(tg, s.value, env)
                    continue
                raise Unsupported(f'assignment target (line {s.lineno})')
            if isinstance(s, ast.If):
                cond = self.test(s.test, env)       # may bind a walrus name in env
                e1, e2 = dict(env), dict(env)
                r1, r2 = self.block(s.body, e1), self.block(s.orelse, e2)
                if r1 is not None or r2 is not None:
                    raise Unsupported('return inside a branch')
                for k in set(e1) | set(e2):
                    if k in e1 and k in e2:
                        if e1[k] == e2[k]:
                            env[k] = e1[k]
                        elif e1[k][0] == e2[k][0] == VEC:
                            env[k] = (VEC, f'(if {cond} then {e1[k][1]} else {e2[k][1]})')
                        elif e1[k][0] == e2[k][0] == SC:
                            env[k] = (SC, f'(if {cond} then {e1[k][1]} else {e2[k][1]})')
                        else:
                            env.pop(k, None)
                    else:
                        env.pop(k, None)            # defined on one path only: not usable afterwards
                continue
            raise Unsupported(f'statement {type(s).__name__} (line {s.lineno})')
        return None

    def unique(self, tg, value, env):
        if not (isinstance(value, ast.Call) and dotted(value.func) == 'torch.unique' and len(value.args) == 1):
            raise Unsupported('3-tuple assignment from something other than torch.unique(x, ...)')
        kw = {k.arg: k.value for k in value.keywords}
        want = {'sorted': True, 'return_inverse': True, 'return_counts': True}
        if set(kw) != set(want) or any(not (isinstance(kw[k], ast.Constant) and kw[k].value is v) for k, v in want.items()):
            raise Unsupported('torch.unique keywords must be sorted=True, return_inverse=True, return_counts=True')
        t, v = self.ev(value.args[0], env)
        if t != INPUT:
            raise Unsupported('torch.unique of something other than the (rounded) input')
        names = [x.id for x in tg.elts]
        env[names[0]] = (VEC, 'U')                                           # placeholder for the sorted distinct values
        env[names[1]] = (INV, ('U', v))
        env[names[2]] = (VEC, f'(map (fun s => qnat (count s {v})) U)')


def _fence(fn, consts):
    """the Tukey fence lines of dcf_2d3d_voronoi:  q1, q3 = np.percentile(x, [a, b]);  iqr = ...;  upper_bound = ...;
    np.nonzero(dcf > upper_bound)"""
    tr = Tr(consts)
    env = {}
    perc = None
    cmp_op = None
    for s in ast.walk(fn):
        if isinstance(s, ast.Assign) and len(s.targets) == 1 and isinstance(s.targets[0], ast.Tuple) and isinstance(s.value, ast.Call) \
                and dotted(s.value.func) == 'np.percentile':
            names = [x.id for x in s.targets[0].elts]
            arg = s.value.args[1] if len(s.value.args) == 2 else None
            if len(names) != 2 or not isinstance(arg, ast.List) or len(arg.elts) != 2 or s.value.keywords:
                raise Unsupported('np.percentile call')
            perc = [Fraction(tr.ev(x, {})[1]) / 100 for x in arg.elts]
            env[names[0]], env[names[1]] = (SC, 'qa'), (SC, 'qb')
    if perc is None:
        raise Unsupported('np.percentile line not found')
    for s in fn.body:
        if isinstance(s, ast.Assign) and len(s.targets) == 1 and isinstance(s.targets[0], ast.Name) and s.targets[0].id in ('iqr', 'upper_bound'):
            env[s.targets[0].id] = tr.ev(s.value, env)
    if 'upper_bound' not in env:
        raise Unsupported('upper_bound assignment not found')
    for n in ast.walk(fn):
        if isinstance(n, ast.Compare) and len(n.ops) == 1 and isinstance(n.comparators[0], ast.Name) and n.comparators[0].id == 'upper_bound':
            cmp_op = type(n.ops[0]).__name__
    if cmp_op is None:
        raise Unsupported('outlier comparison with upper_bound not found')
    return perc, tr.as_scalar(env['upper_bound']), cmp_op


def translate() -> str:
    tree = ast.parse(SRC.read_text())
    consts = {}
    for n in tree.body:
        if isinstance(n, ast.Assign) and len(n.targets) == 1 and isinstance(n.targets[0], ast.Name) and int_const(n.value) is not None:
            consts[n.targets[0].id] = int_const(n.value)
    fns = {n.name: n for n in tree.body if isinstance(n, ast.FunctionDef)}
    fn = fns['dcf_1d']
    args = [a.arg for a in fn.args.args]
    if len(args) != 1 or fn.args.vararg or fn.args.kwarg or fn.args.kwonlyargs:
        raise Unsupported(f'dcf_1d signature {args}')
    tr = Tr(consts)
    env = {args[0]: (INPUT, 'traj')}
    ret = tr.block(fn.body, env)
    if ret is None or ret[0] != VEC:
        raise Unsupported('dcf_1d does not return a vector')
    # the returned value must be  gather( <numerator> / counts )  -- split the numerator off as a function of U alone
    res = ret[1]
    import re
    m = re.fullmatch(r'\(map \(fun x => nth \(index x U\) \(map2 (\w+) (.*) \(map \(fun s => qnat \(count s traj\)\) U\)\) 0\) traj\)', res)
    if not m:
        raise Unsupported('the returned value is not (<numerator> <op> counts)[inverse]: ' + res[:160])
    op, num = m.group(1), m.group(2)
    if 'traj' in num or 'count' in num:
        raise Unsupported('the numerator depends on more than the sorted distinct values')
    num_u = re.sub(r'\bU\b', 'u', num)
    kers = set(re.findall(r'gen_conv (\(\(?-?\d+\)? # \d+\)) (\(\(?-?\d+\)? # \d+\)) (\(\(?-?\d+\)? # \d+\))', num))
    if len(kers) != 1:
        raise Unsupported(f'expected exactly one conv kernel, found {len(kers)}')
    k0, k1, k2 = kers.pop()
    perc, fence, cmp_op = _fence(fns['dcf_2d3d_voronoi'], consts)
    return f'''(* GENERATED on every run by harness/translate/voronoi.py from {SRC} -- do not edit *)
From Coq Require Import QArith List Lia Lqa Psatz.
From MrVerif Require Import Model.Voronoi1D Model.Voronoi2D Proofs.Voronoi1DProofs Proofs.Voronoi2DOutlier.
Import ListNotations.
Open Scope Q_scope.
Definition gen_available := true.

(* F.conv1d(x[None, None, :], k.reshape(1, 1, 3))[0, 0]: 'valid' cross-correlation *)
Fixpoint gen_conv (k0 k1 k2 : Q) (u : list Q) : list Q :=
  match u with
  | a :: r => match r with
              | b :: c :: _ => (k0 * a + k1 * b + k2 * c) :: gen_conv k0 k1 k2 r
              | _ => []
              end
  | [] => []
  end.

(* numerator of the final division, as a function of the sorted distinct values *)
Definition gen_central_diff (u : list Q) : list Q := {num_u}.

Definition gen_dcf_1d (traj : list Q) : list Q :=
  let U := unique traj in
  map (fun x => nth (index x U) (map2 {op} (gen_central_diff U) (map (fun s => qnat (count s traj)) U)) 0) traj.

(* ---- regenerated proof obligations: the code as it is *now* is extensionally the model the theorems are about ---- *)
Lemma gen_conv_ok : forall u, Forall2 Qeq (gen_conv {k0} {k1} {k2} u) (conv3 u).
Proof.
  induction u as [|a r IH]; [constructor|]. destruct r as [|b [|c t]]; try constructor.
  - ring.
  - exact IH.
Qed.

Lemma gen_central_diff_ok : forall u, Forall2 Qeq (gen_central_diff u) (central_diff u).
Proof.
  intros u. destruct u as [|a [|b [|c t]]].
  - cbv. constructor.
  - cbv. repeat constructor.
  - unfold gen_central_diff, central_diff. cbn [length Nat.leb Nat.ltb Nat.eqb negb nth Nat.sub app map]. repeat constructor; ring.
  - set (u := a :: b :: c :: t).
    assert (central_diff u = [b - a] ++ conv3 u ++ [nth (length u - 1) u 0 - nth (length u - 2) u 0]) as -> by reflexivity.
    unfold gen_central_diff. fold u.
    assert (forall n, Nat.leb 3 (S (S (S n))) = true) as L3 by reflexivity.
    change (length u) with (S (S (S (length t)))) at 1. cbn [Nat.leb].
    repeat apply Forall2_app; try apply gen_conv_ok; repeat constructor; try reflexivity; try ring.
Qed.

Lemma gen_dcf_1d_ok : forall traj, Forall2 Qeq (gen_dcf_1d traj) (dcf_1d traj).
Proof.
  intros traj. unfold gen_dcf_1d, dcf_1d. cbv zeta. apply gather_compat. apply map2_Qdiv_compat. apply gen_central_diff_ok.
Qed.

(* ---- dcf_2d3d_voronoi: the Tukey fence ---- *)
Definition gen_percentiles : Q * Q := ({q(perc[0])}, {q(perc[1])}).
Definition gen_fence (qa qb : Q) : Q := {fence}.
Definition gen_outlier_test : nat := {dict(Gt=0, GtE=1, Lt=2, LtE=3).get(cmp_op, 9)}.   (* 0 = `>` *)
Lemma gen_fence_ok : (forall q1 q3, gen_fence q1 q3 == fence_formula q1 q3) /\\ gen_percentiles = ((1 # 4), (3 # 4)) /\\ gen_outlier_test = 0%nat.
Proof. split; [intros; unfold gen_fence, fence_formula; ring | split; reflexivity]. Qed.
'''


def write(out: Path) -> tuple[bool, str]:
    try:
        out.write_text(translate())
        return True, ''
    except (Unsupported, KeyError, SyntaxError, AttributeError, IndexError, ValueError, TypeError) as e:
        out.write_text(f'(* GENERATED: translator failed closed: {str(e)[:300]} *)\nDefinition gen_available := false.\n')
        return False, str(e)[:300]


if __name__ == '__main__':
    import sys
    o = Path(sys.argv[1]) if len(sys.argv) > 1 else Path('/verif/coq/Gen/voronoi_gen.v')
    print(write(o))
