"""Fail-closed ast translator for the closed-form expressions of the mrpro functionals -> coq/Gen/functionals_gen.v

Sources (read from VERIF_REPO/src/mrpro/operators): Functional.py (ElementaryFunctional._divide_by_n,
ProximableFunctional.prox_convex_conj = generic fallback, ScaledFunctional.forward, ScaledProximableFunctional.prox /
prox_convex_conj), functionals/{L1Norm, L1NormViewAsReal, L2NormSquared, MSE, ZeroFunctional}.py (forward value expression
and reduction, prox, prox_convex_conj).

Method: every method body is *evaluated symbolically* for concrete dtype flags (wc = weight.is_complex(), dc = x/target
complex): a value is Real(expr) or Cplx(re, im) with Gallina real expressions, so `.is_complex()` tests, `.real`, `.imag`,
`torch.complex` are decided statically and the result is a real expression (or a pair) in the per-element parameters
w, b, sigma, x (and divn, N for divide_by_n).  Emitted: `Definition gen_<Class>_<method>_<mode>` and the obligation
`gen_... = <model function of Model/Functionals.v>` (pointwise, for all arguments), proved by unfolding + ring/field
normalisation below the non-polynomial heads (Rabs, sgnR, reluR, Rmin, sqrt, Rlt_dec).

Subset of Python: docstrings; `self._throw_if_negative_or_complex(...)`; single assignments `name = expr`;
`if not isinstance(v, torch.Tensor): v = torch.as_tensor(e, ...)`; `if`/`elif`/`else` and conditional expressions whose tests
are and/or/not over `<e>.is_complex()` (decided by the flags); the reduction `if self.divide_by_n: return (torch.mean(v,
dim=self.dim, keepdim=self.keepdim),) else: return (torch.sum(...),)`; `return (expr,)`.
Expressions: + - * / unary -, numeric literals, x, sigma, self.weight, self.target, self.scale, .real .imag .abs() .square()
.conj() .to(...), torch.abs/sgn/relu/clamp_max/complex/where(<cmp>, a, b)/zeros/zeros_like/as_tensor,
self._divide_by_n(e, torch.broadcast_shapes(<shapes of x, threshold, weight, target>)), self.prox(a, s)[0],
self.functional.prox(a, s)[0], self.functional.prox_convex_conj(a, s)[0], self.functional(x)[0].
Anything else raises Unsupported *for that function*: its definition and obligation are left out and the reason is
recorded (`gen_unavailable`), the property then rests on correspondence alone for that function.
"""
import ast
import copy
import os
from fractions import Fraction
from pathlib import Path

OPS = Path(os.environ.get('VERIF_REPO', '/repo')) / 'src/mrpro/operators'


class Unsupported(Exception):
    pass


# ------------------------------------------------------------------------------------------------
# symbolic values
# ------------------------------------------------------------------------------------------------
class Real:
    def __init__(self, s):
        self.s = s


class Cplx:
    def __init__(self, re, im):
        self.re, self.im = re, im


class Poison:
    """a value outside the subset; only an error when it is used by the result"""
    def __init__(self, why):
        self.why = why


def need(v):
    if isinstance(v, Poison):
        raise Unsupported(v.why)
    return v


def num(v):
    if isinstance(v, bool):
        raise Unsupported('bool literal')
    fr = Fraction(str(v)) if isinstance(v, float) else Fraction(v)
    s = f'{abs(fr.numerator)}' if fr.denominator == 1 else f'({abs(fr.numerator)} / {fr.denominator})'
    return s if fr >= 0 else f'(- {s})'


def add(a, b, op):
    a, b = need(a), need(b)
    if isinstance(a, Real) and isinstance(b, Real):
        return Real(f'({a.s} {op} {b.s})')
    a, b = promote(a), promote(b)
    return Cplx(f'({a.re} {op} {b.re})', f'({a.im} {op} {b.im})')


def promote(a):
    return a if isinstance(a, Cplx) else Cplx(a.s, '0')


def mul(a, b):
    a, b = need(a), need(b)
    if isinstance(a, Real) and isinstance(b, Real):
        return Real(f'({a.s} * {b.s})')
    if isinstance(a, Real):
        return Cplx(f'({a.s} * {b.re})', f'({a.s} * {b.im})')
    if isinstance(b, Real):
        return Cplx(f'({a.re} * {b.s})', f'({a.im} * {b.s})')
    return Cplx(f'({a.re} * {b.re} - {a.im} * {b.im})', f'({a.re} * {b.im} + {a.im} * {b.re})')


def div(a, b):
    a, b = need(a), need(b)
    if isinstance(b, Real):
        if isinstance(a, Real):
            return Real(f'({a.s} / {b.s})')
        return Cplx(f'({a.re} / {b.s})', f'({a.im} / {b.s})')
    # division by a complex value whose imaginary part is syntactically the polynomial 0 is not recognised here
    raise Unsupported('division by a complex value')


def vabs(a):
    a = need(a)
    if isinstance(a, Real):
        return Real(f'(Rabs {a.s})')
    return Real(f'(cabs ({a.re}, {a.im}))')


def vsgn(a):
    a = need(a)
    if isinstance(a, Real):
        return Real(f'(sgnR {a.s})')
    return Cplx(f'(fst (csgn ({a.re}, {a.im})))', f'(snd (csgn ({a.re}, {a.im})))')


# ------------------------------------------------------------------------------------------------
# evaluation of expressions
# ------------------------------------------------------------------------------------------------
def fname(f):
    parts = []
    while isinstance(f, ast.Attribute):
        parts.append(f.attr)
        f = f.value
    if isinstance(f, ast.Name):
        parts.append(f.id)
        return '.'.join(reversed(parts))
    return None


class Ev:
    def __init__(self, wc, dc, env):
        self.wc, self.dc, self.env = wc, dc, dict(env)

    def is_complex(self, e):
        """static value of <e>.is_complex()"""
        v = need(self.ev(e))
        return isinstance(v, Cplx)

    def test(self, t):
        if isinstance(t, ast.BoolOp):
            vals = [self.test(v) for v in t.values]
            return all(vals) if isinstance(t.op, ast.And) else any(vals)
        if isinstance(t, ast.UnaryOp) and isinstance(t.op, ast.Not):
            return not self.test(t.operand)
        if (isinstance(t, ast.Call) and isinstance(t.func, ast.Attribute) and t.func.attr == 'is_complex' and not t.args):
            return self.is_complex(t.func.value)
        raise Unsupported(f'test {ast.unparse(t)[:60]}')

    def cmp(self, t):
        """comparison inside torch.where -> Gallina sumbool"""
        if isinstance(t, ast.Compare) and len(t.ops) == 1:
            a, b = need(self.ev(t.left)), need(self.ev(t.comparators[0]))
            if isinstance(a, Real) and isinstance(b, Real):
                if isinstance(t.ops[0], ast.Lt):
                    return f'(Rlt_dec {a.s} {b.s})'
                if isinstance(t.ops[0], ast.Eq):
                    return f'(Req_EM_T {a.s} {b.s})'
        raise Unsupported(f'condition {ast.unparse(t)[:60]}')

    def ev(self, e):
        if isinstance(e, ast.Name):
            if e.id not in self.env:
                return Poison(f'free name {e.id}')
            return self.env[e.id]
        if isinstance(e, ast.Constant) and isinstance(e.value, (int, float)) and not isinstance(e.value, bool):
            return Real(num(e.value))
        if isinstance(e, ast.UnaryOp) and isinstance(e.op, ast.USub):
            v = need(self.ev(e.operand))
            return Real(f'(- {v.s})') if isinstance(v, Real) else Cplx(f'(- {v.re})', f'(- {v.im})')
        if isinstance(e, ast.BinOp):
            a, b = self.ev(e.left), self.ev(e.right)
            if isinstance(a, Poison):
                return a
            if isinstance(b, Poison):
                return b
            if isinstance(e.op, ast.Add):
                return add(a, b, '+')
            if isinstance(e.op, ast.Sub):
                return add(a, b, '-')
            if isinstance(e.op, ast.Mult):
                return mul(a, b)
            if isinstance(e.op, ast.Div):
                return div(a, b)
            return Poison(f'operator {type(e.op).__name__}')
        if isinstance(e, ast.IfExp):
            return self.ev(e.body) if self.test(e.test) else self.ev(e.orelse)
        if isinstance(e, ast.Attribute):
            fn = fname(e)
            if fn in ('self.weight', 'self.target', 'self.scale'):
                return self.env[fn]
            if e.attr in ('real', 'imag'):
                v = self.ev(e.value)
                if isinstance(v, Poison):
                    return v
                if isinstance(v, Real):
                    return v if e.attr == 'real' else Real('0')
                return Real(v.re if e.attr == 'real' else v.im)
            return Poison(f'attribute {ast.unparse(e)[:40]}')
        if isinstance(e, ast.Subscript):
            # <call>[0] of an operator call returning a 1-tuple
            if isinstance(e.slice, ast.Constant) and e.slice.value == 0 and isinstance(e.value, ast.Call):
                return self.call(e.value, tuple_result=True)
            return Poison(f'subscript {ast.unparse(e)[:40]}')
        if isinstance(e, ast.Call):
            return self.call(e, tuple_result=False)
        return Poison(f'expression {ast.unparse(e)[:50]}')

    def call(self, e, tuple_result):
        fn = fname(e.func)
        args = e.args
        if tuple_result:
            if fn == 'self.prox' and len(args) == 2 and not e.keywords and 'prox' in self.env:
                a, s = need(self.ev(args[0])), need(self.ev(args[1]))
                return Real(f'(prox {s.s} {a.s})')
            if fn == 'self.functional.prox' and len(args) == 2 and not e.keywords:
                a, s = need(self.ev(args[0])), need(self.ev(args[1]))
                return Real(f'(prox {s.s} {a.s})')
            if fn == 'self.functional.prox_convex_conj' and len(args) == 2 and not e.keywords:
                a, s = need(self.ev(args[0])), need(self.ev(args[1]))
                return Real(f'(pcc {s.s} {a.s})')
            if fn == 'self.functional' and len(args) == 1 and not e.keywords:
                a = need(self.ev(args[0]))
                return Real(f'(f {a.s})')
            return Poison(f'call {fn}(...)[0]')
        # methods on values
        if isinstance(e.func, ast.Attribute) and fn not in ('self._divide_by_n',) and not (fn or '').startswith('torch.'):
            m = e.func.attr
            recv = self.ev(e.func.value)
            if isinstance(recv, Poison):
                return recv
            if m == 'abs' and not args:
                return vabs(recv)
            if m == 'square' and not args:
                r = need(recv)
                if isinstance(r, Real):
                    return Real(f'(sq {r.s})')
                raise Unsupported('square of a complex value')
            if m == 'conj' and not args:
                return recv if isinstance(recv, Real) else Cplx(recv.re, f'(- {recv.im})')
            if m == 'to':
                return recv   # dtype / device conversion: identity on the mathematical value
            return Poison(f'method .{m}()')
        if fn == 'self._divide_by_n' and len(args) == 2:
            sh = args[1]
            ok = (isinstance(sh, ast.Call) and fname(sh.func) == 'torch.broadcast_shapes'
                  and all(fname(a) in ('x.shape', 'threshold.shape', 'self.weight.shape', 'self.target.shape') for a in sh.args)
                  and any(fname(a) == 'x.shape' for a in sh.args))
            if not ok:
                raise Unsupported('_divide_by_n shape argument is not broadcast_shapes(x.shape, ...)')
            v = need(self.ev(args[0]))
            if isinstance(v, Real):
                return Real(f'(gen_divide_by_n divn {v.s} N)')
            return Cplx(f'(gen_divide_by_n divn {v.re} N)', f'(gen_divide_by_n divn {v.im} N)')
        if fn in ('torch.abs',) and len(args) == 1:
            return vabs(self.ev(args[0]))
        if fn == 'torch.sgn' and len(args) == 1:
            return vsgn(self.ev(args[0]))
        if fn == 'torch.relu' and len(args) == 1:
            v = need(self.ev(args[0]))
            if isinstance(v, Real):
                return Real(f'(reluR {v.s})')
            raise Unsupported('relu of a complex value')
        if fn == 'torch.clamp_max' and len(args) == 2:
            a, m = need(self.ev(args[0])), need(self.ev(args[1]))
            if isinstance(a, Real) and isinstance(m, Real):
                return Real(f'(Rmin {a.s} {m.s})')
            raise Unsupported('clamp_max of complex values')
        if fn == 'torch.complex' and len(args) == 2:
            a, b = need(self.ev(args[0])), need(self.ev(args[1]))
            if isinstance(a, Real) and isinstance(b, Real):
                return Cplx(a.s, b.s)
            raise Unsupported('torch.complex of complex parts')
        if fn == 'torch.where' and len(args) == 3:
            c = self.cmp(args[0])
            a, b = need(self.ev(args[1])), need(self.ev(args[2]))
            if isinstance(a, Real) and isinstance(b, Real):
                return Real(f'(if {c} then {a.s} else {b.s})')
            a, b = promote(a), promote(b)
            return Cplx(f'(if {c} then {a.re} else {b.re})', f'(if {c} then {a.im} else {b.im})')
        if fn == 'torch.zeros_like' and len(args) == 1:
            v = need(self.ev(args[0]))
            return Real('0') if isinstance(v, Real) else Cplx('0', '0')
        if fn == 'torch.zeros':
            return Real('0')
        if fn == 'torch.as_tensor' and len(args) >= 1:
            return self.ev(args[0])
        return Poison(f'call {fn or ast.unparse(e.func)[:30]}')


def strip(body):
    out = []
    for s in body:
        if isinstance(s, ast.Expr) and isinstance(s.value, ast.Constant) and isinstance(s.value.value, str):
            continue
        if isinstance(s, ast.Expr) and isinstance(s.value, ast.Call) and fname(s.value.func) == 'self._throw_if_negative_or_complex':
            continue
        out.append(s)
    return out


def is_reduce(s):
    """if self.divide_by_n: return (torch.mean(v, dim=self.dim, keepdim=self.keepdim),) else: return (torch.sum(...),)"""
    if not (isinstance(s, ast.If) and fname(s.test) == 'self.divide_by_n' and len(s.body) == 1 and len(s.orelse) == 1):
        return None
    names = []
    for br, want in ((s.body[0], 'torch.mean'), (s.orelse[0], 'torch.sum')):
        if not (isinstance(br, ast.Return) and isinstance(br.value, ast.Tuple) and len(br.value.elts) == 1):
            return None
        c = br.value.elts[0]
        if not (isinstance(c, ast.Call) and fname(c.func) == want and len(c.args) == 1 and isinstance(c.args[0], ast.Name)):
            return None
        kw = {k.arg: fname(k.value) for k in c.keywords}
        if kw != {'dim': 'self.dim', 'keepdim': 'self.keepdim'}:
            return None
        names.append(c.args[0].id)
    return names[0] if names[0] == names[1] else None


def run(fn: ast.FunctionDef, wc, dc, env):
    """symbolic execution of a method body; returns ('value', Val) or ('reduce', Val of the reduced element value)"""
    ev = Ev(wc, dc, env)

    def block(stmts):
        for s in stmts:
            if isinstance(s, ast.Assign) and len(s.targets) == 1 and isinstance(s.targets[0], ast.Name):
                try:
                    ev.env[s.targets[0].id] = ev.ev(s.value)
                except Unsupported as u:
                    ev.env[s.targets[0].id] = Poison(str(u))
            elif isinstance(s, ast.AnnAssign) and isinstance(s.target, ast.Name) and s.value is not None:
                ev.env[s.target.id] = ev.ev(s.value)
            elif isinstance(s, ast.If):
                red = is_reduce(s)
                if red is not None:
                    return ('reduce', need(ev.ev(ast.Name(id=red))))
                t = s.test
                if (isinstance(t, ast.UnaryOp) and isinstance(t.op, ast.Not) and isinstance(t.operand, ast.Call)
                        and fname(t.operand.func) == 'isinstance'):
                    r = block(s.body)   # python-scalar branch: conversion to a tensor; the value must stay provably the same
                    if r is not None or s.orelse:
                        raise Unsupported('isinstance branch')
                    continue
                try:
                    taken = ev.test(t)
                except Unsupported as u:
                    # a test outside the subset: every name assigned below becomes unusable
                    for n in ast.walk(s):
                        if isinstance(n, ast.Name) and isinstance(n.ctx, ast.Store):
                            ev.env[n.id] = Poison(str(u))
                    if any(isinstance(n, ast.Return) for n in ast.walk(s)):
                        raise
                    continue
                r = block(s.body if taken else s.orelse)
                if r is not None:
                    return r
            elif isinstance(s, ast.Return):
                v = s.value
                if not (isinstance(v, ast.Tuple) and len(v.elts) == 1):
                    raise Unsupported('return is not a 1-tuple')
                return ('value', need(ev.ev(v.elts[0])))
            elif isinstance(s, ast.Raise):
                raise Unsupported('raise on the evaluated path')
            else:
                raise Unsupported(f'statement {type(s).__name__} line {s.lineno}')
        return None

    r = block(strip(fn.body))
    if r is None:
        raise Unsupported('no return')
    return r


# ------------------------------------------------------------------------------------------------
# per-class translation
# ------------------------------------------------------------------------------------------------
def parse_class(path, cname):
    tree = ast.parse(path.read_text())
    for n in tree.body:
        if isinstance(n, ast.ClassDef) and n.name == cname:
            return n, {m.name: m for m in n.body if isinstance(m, ast.FunctionDef)}
    raise Unsupported(f'class {cname} not found in {path.name}')


def args_of(fn):
    return [a.arg for a in fn.args.args]


REAL_ENV = {'x': Real('x'), 'sigma': Real('sigma'), 'self.weight': Real('w'), 'self.target': Real('b')}


def env_for(wc, dc):
    return {'x': Cplx('xr', 'xi') if dc else Real('xr'), 'sigma': Real('sigma'),
            'self.weight': Cplx('wr', 'wi') if wc else Real('wr'),
            'self.target': Cplx('br', 'bi') if dc else Real('br')}


PRE = '''(* GENERATED on every run by harness/translate/functionals.py from {src} -- do not edit *)
From Coq Require Import Reals Lra Psatz List.
From MrVerif Require Import Model.Functionals Proofs.FunctionalsProofs.
Local Open Scope R_scope.
Definition gen_available := true.

(* equality below non-polynomial heads: ring / field normalisation of the arguments *)
Ltac rnorm := rewrite ?Rmult_1_l, ?Rmult_1_r.
Ltac deep := first [reflexivity | ring | (unfold Rdiv; ring) | (progress f_equal; deep) | (rewrite Rmult_comm; progress f_equal; deep)].
Ltac unf := unfold l1_val, l1_prox, l1_pcc, l2_val, l2_prox, l2_pcc, zero_val, zero_prox, zero_pcc, tweak, pcc_fallback,
  softR, sc_prox, sc_pcc, l1r_val_code, l1r_prox, cl1_val, cl1_prox, cl1_pcc, cl2_val, csoft, csub, cadd, cmul, cscale,
  reduce_list; cbv zeta; cbn [fst snd].
'''

TAIL_DIVN = '''
Lemma gen_divide_by_n_ok : forall divn x N, gen_divide_by_n divn x N = x / (if divn then N else 1).
Proof. intros [|] x N; unfold gen_divide_by_n; cbn [negb]; [reflexivity|]. unfold Rdiv. rewrite Rinv_1, Rmult_1_r. reflexivity. Qed.
'''


def tr_divide_by_n(fn):
    """ElementaryFunctional._divide_by_n(self, x, shape): the real part (x or x / prod) and the size list"""
    if args_of(fn) != ['self', 'x', 'shape']:
        raise Unsupported('arguments')
    body = strip(fn.body)
    if len(body) != 4:
        raise Unsupported('expected 4 statements')
    s0, s1, s2, s3 = body
    if not (isinstance(s0, ast.If) and isinstance(s0.test, ast.UnaryOp) and isinstance(s0.test.op, ast.Not)
            and fname(s0.test.operand) == 'self.divide_by_n' and len(s0.body) == 1 and isinstance(s0.body[0], ast.Return)
            and fname(s0.body[0].value) == 'x' and not s0.orelse):
        raise Unsupported('`if not self.divide_by_n: return x`')
    if not (isinstance(s1, ast.If) and ast.unparse(s1.test) == 'shape is None' and ast.unparse(s1.body[0]) == 'shape = x.shape' and not s1.orelse):
        raise Unsupported('`if shape is None: shape = x.shape`')
    # the size selection must treat None and an empty dim alike (all dimensions), as Model/TensorFunctionals.v nprox does (repair de813cf)
    if not (isinstance(s2, ast.If) and ast.unparse(s2.test) == 'self.dim is not None and len(self.dim) > 0' and len(s2.body) == 1 and len(s2.orelse) == 1):
        raise Unsupported('size selection')
    a, b = s2.body[0], s2.orelse[0]
    if not (isinstance(a, ast.Assign) and fname(a.targets[0]) == 'size' and isinstance(a.value, ast.ListComp)):
        raise Unsupported('size = [shape[i] for i in self.dim]')
    lc = a.value
    if not (len(lc.generators) == 1 and fname(lc.generators[0].iter) == 'self.dim' and not lc.generators[0].ifs
            and isinstance(lc.generators[0].target, ast.Name) and isinstance(lc.elt, ast.Subscript)
            and fname(lc.elt.value) == 'shape' and isinstance(lc.elt.slice, ast.Name) and lc.elt.slice.id == lc.generators[0].target.id):
        raise Unsupported('size = [shape[i] for i in self.dim]')
    if ast.unparse(b) != 'size = list(shape)':
        raise Unsupported('size = list(shape)')
    if ast.unparse(s3) != 'return x / math.prod(size)':
        raise Unsupported('return x / math.prod(size)')
    return ('Definition gen_divide_by_n (divn : bool) (x N : R) : R := if negb divn then x else x / N.\n' + TAIL_DIVN), 1


def deff(name, params, ty, body):
    return f'Definition {name} {params} : {ty} := {body}.\n'


def lemma(name, binders, stmt, script='intros; unf; rnorm; rewrite ?gen_divide_by_n_ok; deep'):
    return f'Lemma {name} : forall {binders}, {stmt}.\nProof. {script}. Qed.\n'


def translate():
    out, avail, unavailable = [PRE.format(src=OPS)], [], []
    nobl = 0

    def attempt(label, thunk):
        nonlocal nobl
        try:
            text, n = thunk()
            out.append(f'(* ---- {label} ---- *)\n' + text)
            nobl += n
            avail.append(label)
        except (Unsupported, KeyError, SyntaxError, AttributeError, TypeError) as e:
            unavailable.append((label, str(e)[:160]))
            out.append(f'(* ---- {label}: translator failed closed: {str(e)[:160].replace("*)", "* )")} ---- *)\n')

    _, fb = parse_class(OPS / 'Functional.py', 'ElementaryFunctional')
    attempt('ElementaryFunctional._divide_by_n', lambda: tr_divide_by_n(fb['_divide_by_n']))
    have_divn = 'ElementaryFunctional._divide_by_n' in avail
    if not have_divn:
        out.append('Definition gen_divide_by_n (divn : bool) (x N : R) : R := x / (if divn then N else 1).\n'
                   'Lemma gen_divide_by_n_ok : forall divn x N, gen_divide_by_n divn x N = x / (if divn then N else 1).\nProof. reflexivity. Qed.\n')

    # ---- generic fallback ------------------------------------------------------------------------------------
    def fallback():
        _, m = parse_class(OPS / 'Functional.py', 'ProximableFunctional')
        fn = m['prox_convex_conj']
        if args_of(fn) != ['self', 'x', 'sigma']:
            raise Unsupported('arguments')
        kind, v = run(fn, False, False, {'x': Real('x'), 'sigma': Real('sigma'), 'prox': True})
        if kind != 'value' or not isinstance(v, Real):
            raise Unsupported('result')
        t = deff('gen_pcc_fallback', '(prox : R -> R -> R) (sigma x : R)', 'R', v.s)
        t += lemma('gen_pcc_fallback_ok', '(prox : R -> R -> R) sigma x', 'gen_pcc_fallback prox sigma x = pcc_fallback prox sigma x',
                   'intros; unfold gen_pcc_fallback, pcc_fallback, tweak; cbv zeta; rnorm; '
                   'destruct (Rlt_dec sigma (1 / 100000000)); deep')
        return t, 1
    attempt('ProximableFunctional.prox_convex_conj (generic fallback with the sigma tweak)', fallback)

    # ---- scaled ------------------------------------------------------------------------------------------------
    def scaled():
        _, mf = parse_class(OPS / 'Functional.py', 'ScaledFunctional')
        _, mp = parse_class(OPS / 'Functional.py', 'ScaledProximableFunctional')
        env = {'x': Real('x'), 'sigma': Real('sigma'), 'self.scale': Real('a')}
        t, n = '', 0
        for nm, fn, params, model in (('forward', mf['forward'], '(f : R -> R) (a x : R)', 'a * f x'),
                                      ('prox', mp['prox'], '(prox : R -> R -> R) (a sigma x : R)', 'sc_prox a prox sigma x'),
                                      ('prox_convex_conj', mp['prox_convex_conj'], '(pcc : R -> R -> R) (a sigma x : R)', 'sc_pcc a pcc sigma x')):
            zero_branch = None
            if nm == 'prox_convex_conj':
                # since the repair of the scale-0 case: `if torch.all(torch.as_tensor(self.scale) == 0): return (...)` in front of the
                # general formula; both returns are translated, the test becomes a = 0
                body = [st for st in fn.body if not (isinstance(st, ast.Expr) and isinstance(st.value, ast.Constant))]
                guards = [st for st in body if isinstance(st, ast.If) and ast.unparse(st.test) == 'torch.all(torch.as_tensor(self.scale) == 0)']
                if len(guards) == 1 and len(guards[0].body) == 1 and isinstance(guards[0].body[0], ast.Return) and not guards[0].orelse:
                    f0 = copy.deepcopy(fn)
                    f0.body = [st for st in body if st is not guards[0] and not isinstance(st, ast.Return)] + [guards[0].body[0]]
                    k0_, v0_ = run(f0, False, False, env)
                    if k0_ != 'value' or not isinstance(v0_, Real):
                        raise Unsupported('prox_convex_conj zero-scale branch')
                    zero_branch = v0_.s
                    fn = copy.deepcopy(fn)
                    fn.body = [st for st in body if st is not guards[0]]
            kind, v = run(fn, False, False, env)
            if kind != 'value' or not isinstance(v, Real):
                raise Unsupported(f'{nm} result')
            if zero_branch is not None:
                t += deff(f'gen_Scaled_{nm}', params, 'R', f'if Req_EM_T a 0 then {zero_branch} else {v.s}')
                bind = 'pcc a sigma x'
                t += lemma(f'gen_Scaled_{nm}_ok', bind, f'gen_Scaled_{nm} {bind} = {model}',
                           f'intros; unfold gen_Scaled_{nm}; destruct (Req_EM_T a 0) as [->|Hne]; [unfold sc_pcc; ring|unf; rnorm; deep]')
                n += 1
                continue
            t += deff(f'gen_Scaled_{nm}', params, 'R', v.s)
            bind = params.replace('(f : R -> R)', 'f').replace('(prox : R -> R -> R)', 'prox').replace('(pcc : R -> R -> R)', 'pcc').replace('(a x : R)', 'a x').replace('(a sigma x : R)', 'a sigma x')
            call = bind
            t += lemma(f'gen_Scaled_{nm}_ok', bind, f'gen_Scaled_{nm} {call} = {model}',
                       f'intros; unfold gen_Scaled_{nm}; unf; rnorm; deep')
            n += 1
        return t, n
    attempt('ScaledFunctional.forward / ScaledProximableFunctional.prox / prox_convex_conj', scaled)

    # ---- elementary classes, real path ----------------------------------------------------------------------------
    def elementary_real(cls, file, kind):
        _, m = parse_class(OPS / 'functionals' / file, cls)
        t, n = '', 0
        env = dict(REAL_ENV)
        k, v = run(m['forward'], False, False, env)
        if kind == 'zero':
            if k != 'value' or not isinstance(v, Real):
                raise Unsupported('forward result')
            t += deff(f'gen_{cls}_value', '(x : R)', 'R', v.s)
            t += lemma(f'gen_{cls}_value_ok', 'x', f'gen_{cls}_value x = zero_val x', f'intros; unfold gen_{cls}_value; unf; deep')
            n += 1
        else:
            if k != 'reduce' or not isinstance(v, Real):
                raise Unsupported('forward is not value + sum/mean reduction')
            t += deff(f'gen_{cls}_value', '(w b x : R)', 'R', v.s)
            t += lemma(f'gen_{cls}_value_ok', 'w b x', f'gen_{cls}_value w b x = {kind}_val w b x', f'intros; unfold gen_{cls}_value; unf; deep')
            # the reduction recognised above: mean if divide_by_n else sum, over dim with keepdim
            t += deff(f'gen_{cls}_reduce', '{A} (divn : bool) (g : A -> R) (l : list A)', 'R',
                      'if divn then sumR g l / INR (length l) else sumR g l')
            t += lemma(f'gen_{cls}_reduce_ok', '(A : Type) divn (g : A -> R) l', f'gen_{cls}_reduce divn g l = reduce_list divn g l',
                       'intros; reflexivity')
            n += 2
        for meth, model in (('prox', 'prox'), ('prox_convex_conj', 'pcc')):
            if meth not in m:
                raise Unsupported(f'{meth} not overridden')
            if args_of(m[meth]) != ['self', 'x', 'sigma']:
                raise Unsupported(f'{meth} arguments')
            k, v = run(m[meth], False, False, env)
            if k != 'value' or not isinstance(v, Real):
                raise Unsupported(f'{meth} result')
            if kind == 'zero':
                t += deff(f'gen_{cls}_{model}', '(sigma x : R)', 'R', v.s)
                t += lemma(f'gen_{cls}_{model}_ok', 'sigma x', f'gen_{cls}_{model} sigma x = zero_{model} sigma x',
                           f'intros; unfold gen_{cls}_{model}; unf; rnorm; try destruct (Req_EM_T sigma 0); deep')
            else:
                t += deff(f'gen_{cls}_{model}', '(divn : bool) (N w b sigma x : R)', 'R', v.s)
                t += lemma(f'gen_{cls}_{model}_ok', 'divn N w b sigma x',
                           f'gen_{cls}_{model} divn N w b sigma x = {kind}_{model} (if divn then N else 1) w b sigma x',
                           f'intros; unfold gen_{cls}_{model}; unf; rnorm; rewrite ?gen_divide_by_n_ok; deep')
            n += 1
        return t, n

    attempt('L1Norm (real path): forward value + reduction, prox, prox_convex_conj', lambda: elementary_real('L1Norm', 'L1Norm.py', 'l1'))
    attempt('L2NormSquared (real path): forward value + reduction, prox, prox_convex_conj',
            lambda: elementary_real('L2NormSquared', 'L2NormSquared.py', 'l2'))
    attempt('ZeroFunctional: forward value, prox, prox_convex_conj', lambda: elementary_real('ZeroFunctional', 'ZeroFunctional.py', 'zero'))

    # ---- MSE = L2NormSquared with divide_by_n defaulting to True ------------------------------------------------------
    def mse():
        c, m = parse_class(OPS / 'functionals' / 'MSE.py', 'MSE')
        if [fname(b) for b in c.bases] != ['L2NormSquared'] or set(m) != {'__init__'}:
            raise Unsupported('MSE is not a plain subclass of L2NormSquared with only __init__')
        init = m['__init__']
        names = args_of(init)
        defaults = dict(zip(names[len(names) - len(init.args.defaults):], init.args.defaults))
        d = defaults.get('divide_by_n')
        if not (isinstance(d, ast.Constant) and isinstance(d.value, bool)):
            raise Unsupported('divide_by_n default')
        body = strip(init.body)
        if len(body) != 1 or not isinstance(body[0], ast.Expr) or not isinstance(body[0].value, ast.Call):
            raise Unsupported('__init__ body')
        call = body[0].value
        if ast.unparse(call.func) != 'super().__init__' or call.args:
            raise Unsupported('super().__init__ call')
        kw = {k.arg: fname(k.value) for k in call.keywords}
        if kw != {'weight': 'weight', 'target': 'target', 'dim': 'dim', 'divide_by_n': 'divide_by_n', 'keepdim': 'keepdim'}:
            raise Unsupported('arguments forwarded to L2NormSquared.__init__')
        t = deff('gen_MSE_default_divide_by_n', '', 'bool', 'true' if d.value else 'false')
        t += 'Lemma gen_MSE_default_ok : gen_MSE_default_divide_by_n = true.\nProof. reflexivity. Qed.\n'
        return t, 1
    attempt('MSE: subclass of L2NormSquared forwarding all arguments, divide_by_n defaults to True', mse)

    # ---- L1NormViewAsReal: all four dtype combinations ------------------------------------------------------------
    def l1var():
        _, m = parse_class(OPS / 'functionals' / 'L1NormViewAsReal.py', 'L1NormViewAsReal')
        if 'prox_convex_conj' in m:
            raise Unsupported('prox_convex_conj is overridden (model uses the generic fallback)')
        t, n = '', 0
        for wc in (False, True):
            for dc in (False, True):
                tag = f'{"wc" if wc else "wr"}_{"dc" if dc else "dr"}'
                env = env_for(wc, dc)
                wpar = '(wr wi : R)' if wc else '(wr : R)'
                xpar = '(br bi xr xi : R)' if dc else '(br xr : R)'
                wmod = '(wr, wi)' if wc else '(wr, 0)'
                bmod, xmod = ('(br, bi)', '(xr, xi)') if dc else ('(br, 0)', '(xr, 0)')
                wb = ('wr wi' if wc else 'wr') + ' ' + ('br bi xr xi' if dc else 'br xr')
                k, v = run(m['forward'], wc, dc, env)
                if k != 'reduce' or not isinstance(v, Real):
                    raise Unsupported(f'forward {tag}')
                t += deff(f'gen_L1VAR_value_{tag}', f'{wpar} {xpar}', 'R', v.s)
                t += lemma(f'gen_L1VAR_value_{tag}_ok', wb,
                           f'gen_L1VAR_value_{tag} {wb} = l1r_val_code {str(wc).lower()} {str(dc).lower()} {wmod} {bmod} {xmod}',
                           f'intros; unfold gen_L1VAR_value_{tag}; unf; deep')
                n += 1
                k, v = run(m['prox'], wc, dc, env)
                if k != 'value':
                    raise Unsupported(f'prox {tag}')
                wi_model = 'wi' if wc else 'wr'
                model = f'l1r_prox (if divn then N else 1) wr {wi_model} {bmod} sigma {xmod}'
                if dc:
                    if not isinstance(v, Cplx):
                        raise Unsupported(f'prox {tag}: complex result expected')
                    t += deff(f'gen_L1VAR_prox_{tag}', f'(divn : bool) (N : R) {wpar} {xpar} (sigma : R)', 'R * R', f'({v.re}, {v.im})')
                    t += lemma(f'gen_L1VAR_prox_{tag}_ok', f'divn N {wb} sigma', f'gen_L1VAR_prox_{tag} divn N {wb} sigma = {model}',
                               f'intros; unfold gen_L1VAR_prox_{tag}; unf; rnorm; rewrite ?gen_divide_by_n_ok; deep')
                else:
                    if not isinstance(v, Real):
                        raise Unsupported(f'prox {tag}: real result expected')
                    t += deff(f'gen_L1VAR_prox_{tag}', f'(divn : bool) (N : R) {wpar} {xpar} (sigma : R)', 'R', v.s)
                    t += lemma(f'gen_L1VAR_prox_{tag}_ok', f'divn N {wb} sigma', f'gen_L1VAR_prox_{tag} divn N {wb} sigma = fst ({model})',
                               f'intros; unfold gen_L1VAR_prox_{tag}; unf; rnorm; rewrite ?gen_divide_by_n_ok; deep')
                n += 1
        return t, n
    attempt('L1NormViewAsReal: forward value and prox for real/complex weight x real/complex data (prox_convex_conj = fallback)', l1var)

    # ---- L1Norm / L2NormSquared on complex data with complex weight ----------------------------------------------
    def l1_complex():
        _, m = parse_class(OPS / 'functionals' / 'L1Norm.py', 'L1Norm')
        env = env_for(True, True)
        t, n = '', 0
        k, v = run(m['forward'], True, True, env)
        if k != 'reduce' or not isinstance(v, Real):
            raise Unsupported('forward')
        t += deff('gen_L1Norm_value_c', '(wr wi br bi xr xi : R)', 'R', v.s)
        t += lemma('gen_L1Norm_value_c_ok', 'wr wi br bi xr xi', 'gen_L1Norm_value_c wr wi br bi xr xi = cl1_val (wr, wi) (br, bi) (xr, xi)',
                   'intros; unfold gen_L1Norm_value_c; unf; deep')
        n += 1
        k, v = run(m['prox'], True, True, env)
        if k != 'value' or not isinstance(v, Cplx):
            raise Unsupported('prox')
        t += deff('gen_L1Norm_prox_c', '(divn : bool) (N wr wi br bi sigma xr xi : R)', 'R * R', f'({v.re}, {v.im})')
        t += lemma('gen_L1Norm_prox_c_ok', 'divn N wr wi br bi sigma xr xi',
                   'gen_L1Norm_prox_c divn N wr wi br bi sigma xr xi = cl1_prox (if divn then N else 1) (wr, wi) (br, bi) sigma (xr, xi)',
                   'intros; unfold gen_L1Norm_prox_c; unf; rnorm; rewrite ?gen_divide_by_n_ok; deep')
        n += 1
        k, v = run(m['prox_convex_conj'], True, True, env)
        if k != 'value' or not isinstance(v, Cplx):
            raise Unsupported('prox_convex_conj')
        t += deff('gen_L1Norm_pcc_c', '(divn : bool) (N wr wi br bi sigma xr xi : R)', 'R * R', f'({v.re}, {v.im})')
        t += lemma('gen_L1Norm_pcc_c_ok', 'divn N wr wi br bi sigma xr xi',
                   'gen_L1Norm_pcc_c divn N wr wi br bi sigma xr xi = cl1_pcc (if divn then N else 1) (wr, wi) (br, bi) sigma (xr, xi)',
                   'intros; unfold gen_L1Norm_pcc_c; unf; rnorm; rewrite ?gen_divide_by_n_ok; deep')
        n += 1
        return t, n
    attempt('L1Norm (complex data, complex weight): forward value, prox, prox_convex_conj', l1_complex)

    out.append(f'\n(* obligations emitted: {nobl}; functions unavailable: {len(unavailable)} *)\n')
    return ''.join(out), nobl, avail, unavailable


def write(out: Path):
    """returns (n_obligations, available labels, [(label, reason)])"""
    try:
        text, n, avail, unavailable = translate()
        out.write_text(text)
        return n, avail, unavailable
    except Exception as e:  # noqa: BLE001  (fail closed as a whole)
        out.write_text(f'(* GENERATED: translator failed closed: {str(e)[:200]} *)\nDefinition gen_available := false.\n')
        return 0, [], [('all', str(e)[:200])]


if __name__ == '__main__':
    import sys
    n, a, u = write(Path(sys.argv[1]))
    print(n, a, u)
