"""T-R: fail-closed ast translator for the reconstruction classes  ->  coq/Gen/recon_gen.v

From RegularizedIterativeSENSEReconstruction.forward (operator expressions over the names fourier_op, csm_op, precondition_op,
regularization_op, regularization_weight):
     gen_normal_op, gen_rhs, gen_reg_op, gen_reg_rhs, whether the regularisation is applied (as a boolean function of `weight == 0`),
     the keyword arguments of the cg call (initial_value=right_hand_side, max_iterations=self.n_iterations, tolerance=0.0)
From Reconstruction.direct_reconstruction:  the acquisition operator built by the if-chain for the four (csm, dcf) presence cases.
From IterativeSENSEReconstruction.__init__: super().__init__(..., regularization_weight=0).

Python operator algebra -> Model/OpAlg.v:   a @ b -> comp,  a.H -> adjop,  a + b -> lsum,  tensor * op -> prod_right (fun _ => lam) op,
IdentityOp() -> idop n,  op(x)[0] / (r,) = op(x) -> fwd op x,  op.H(x) -> adj op x.
Obligations (re-proved on every run): the generated terms have pointwise the forward and adjoint action of the terms the theorems C07_direct,
C07_normal_operator_selfadjoint and C07_sense_is_cg speak about.
"""
import ast
import os
from pathlib import Path

ROOT = Path(os.environ.get('VERIF_REPO', '/repo')) / 'src/mrpro/algorithms/reconstruction'
N_OBLIGATIONS = 6


class Unsupported(Exception):
    pass


OPS = {'self.fourier_op': 'Fo', 'csm_op': 'C', 'precondition_op': 'P', 'self.regularization_op': 'B'}


def opexpr(e, env):
    """python operator expression -> Coq linop term"""
    src = ast.unparse(e)
    if src in env:
        return env[src]
    if isinstance(e, ast.Attribute) and e.attr == 'H':
        return f'(adjop {opexpr(e.value, env)})'
    if isinstance(e, ast.Call) and isinstance(e.func, ast.Name) and e.func.id == 'IdentityOp' and not e.args and not e.keywords:
        return '(@idop R n)'
    if isinstance(e, ast.BinOp) and isinstance(e.op, ast.MatMult):
        return f'(comp {opexpr(e.left, env)} {opexpr(e.right, env)})'
    if isinstance(e, ast.BinOp) and isinstance(e.op, ast.Add):
        return f'(lsum {opexpr(e.left, env)} {opexpr(e.right, env)})'
    if isinstance(e, ast.BinOp) and isinstance(e.op, ast.Mult) and ast.unparse(e.left) == 'self.regularization_weight':
        return f'(prod_right (fun _ => lam) {opexpr(e.right, env)})'
    raise Unsupported(f'operator expression {src[:90]}')


def vecexpr(e, env, venv):
    """python tensor expression -> Coq vector term (nat -> R)"""
    src = ast.unparse(e)
    if src in venv:
        return venv[src]
    # op(x)[0]
    if isinstance(e, ast.Subscript) and isinstance(e.slice, ast.Constant) and e.slice.value == 0 and isinstance(e.value, ast.Call):
        return vecexpr(e.value, env, venv)
    if isinstance(e, ast.Call) and len(e.args) == 1 and not e.keywords:
        f = e.func
        arg = vecexpr(e.args[0], env, venv)
        if isinstance(f, ast.Attribute) and f.attr == 'H':
            return f'(adj {opexpr(f.value, env)} {arg})'
        return f'(fwd {opexpr(f, env)} {arg})'
    if isinstance(e, ast.BinOp) and isinstance(e.op, ast.Add):
        return f'(fun i => {vecexpr(e.left, env, venv)} i + {vecexpr(e.right, env, venv)} i)'
    if isinstance(e, ast.BinOp) and isinstance(e.op, ast.Mult) and ast.unparse(e.left) == 'self.regularization_weight':
        return f'(fun i => lam * {vecexpr(e.right, env, venv)} i)'
    raise Unsupported(f'tensor expression {src[:90]}')


def _method(tree, cls, name):
    c = [n for n in tree.body if isinstance(n, ast.ClassDef) and n.name == cls]
    if not c:
        raise Unsupported(f'class {cls} not found')
    m = [n for n in c[0].body if isinstance(n, ast.FunctionDef) and n.name == name]
    if not m:
        raise Unsupported(f'{cls}.{name} not found')
    return m[0]


def _body(fn):
    return [s for s in fn.body if not (isinstance(s, ast.Expr) and isinstance(s.value, ast.Constant))]


def translate_regularized():
    tree = ast.parse((ROOT / 'RegularizedIterativeSENSEReconstruction.py').read_text())
    fn = _method(tree, 'RegularizedIterativeSENSEReconstruction', 'forward')
    body = _body(fn)
    pins = {
        0: 'if self.noise is not None:\n    kdata = prewhiten_kspace(kdata, self.noise)',
        1: 'csm_op = self.csm.as_operator() if self.csm is not None else IdentityOp()',
        2: 'precondition_op = self.dcf.as_operator() if self.dcf is not None else IdentityOp()',
    }
    for i, want in pins.items():
        if ast.unparse(body[i]) != want:
            raise Unsupported(f'statement {i} of forward is `{ast.unparse(body[i])[:80]}`, the model mirrors `{want[:80]}`')
    env = dict(OPS)
    venv = {'kdata.data': 'y', 'self.regularization_data': 'x0'}
    st = body[3]
    if not (isinstance(st, ast.Assign) and ast.unparse(st.targets[0]) == 'operator'):
        raise Unsupported('`operator = ...` not found')
    normal_op = opexpr(st.value, env)
    st = body[4]
    if not (isinstance(st, ast.Assign) and ast.unparse(st.targets[0]) == '(right_hand_side,)'):
        raise Unsupported('`(right_hand_side,) = ...` not found')
    rhs = vecexpr(st.value, env, venv)
    st = body[5]
    if not isinstance(st, ast.If) or st.orelse or len(st.body) != 2:
        raise Unsupported('regularisation block not found')
    guard = ast.unparse(st.test)
    if guard == 'not torch.all(self.regularization_weight == 0)':
        applied = 'negb lam_is_zero'
    else:
        raise Unsupported(f'regularisation guard `{guard}` (the model applies it iff the weight is not identically zero)')
    env2 = dict(env, operator='gen_normal_op')
    venv2 = dict(venv, right_hand_side='gen_rhs')
    a, b = st.body
    if not (isinstance(a, ast.Assign) and ast.unparse(a.targets[0]) == 'operator' and isinstance(b, ast.Assign) and ast.unparse(b.targets[0]) == 'right_hand_side'):
        raise Unsupported('regularisation block does not assign operator and right_hand_side')
    reg_op = opexpr(a.value, env2)
    reg_rhs = vecexpr(b.value, env2, venv2)
    st = body[6]
    if not (isinstance(st, ast.Assign) and isinstance(st.value, ast.Call) and ast.unparse(st.value.func) == 'cg'):
        raise Unsupported('cg call not found')
    call = st.value
    pos = [ast.unparse(x) for x in call.args]
    kw = {k.arg: ast.unparse(k.value) for k in call.keywords}
    if pos != ['operator', 'right_hand_side']:
        raise Unsupported(f'positional arguments of cg: {pos}')
    want_kw = {'initial_value': 'right_hand_side', 'max_iterations': 'self.n_iterations', 'tolerance': '0.0'}
    if kw != want_kw:
        raise Unsupported(f'keyword arguments of cg are {kw}; the model runs cg(H, rhs, initial_value=rhs, max_iterations=n, tolerance=0)')
    if ast.unparse(body[7]) != 'img = IData.from_tensor_and_kheader(img_tensor, kdata.header)' or ast.unparse(body[8]) != 'return img':
        raise Unsupported('the result is not IData.from_tensor_and_kheader(img_tensor, kdata.header)')
    # IterativeSENSE = weight 0
    t2 = ast.parse((ROOT / 'IterativeSENSEReconstruction.py').read_text())
    init = _method(t2, 'IterativeSENSEReconstruction', '__init__')
    last = ast.unparse(_body(init)[-1])
    if last != 'super().__init__(kdata, fourier_op, csm, noise, dcf, n_iterations=n_iterations, regularization_weight=0)':
        raise Unsupported(f'IterativeSENSEReconstruction.__init__ ends with `{last[:100]}`')
    cls2 = [n for n in t2.body if isinstance(n, ast.ClassDef) and n.name == 'IterativeSENSEReconstruction'][0]
    if [ast.unparse(b_) for b_ in cls2.bases] != ['RegularizedIterativeSENSEReconstruction'] or any(
            isinstance(n, ast.FunctionDef) and n.name == 'forward' for n in cls2.body):
        raise Unsupported('IterativeSENSEReconstruction is not a plain subclass re-using forward')
    return normal_op, rhs, applied, reg_op, reg_rhs


def translate_direct():
    tree = ast.parse((ROOT / 'Reconstruction.py').read_text())
    fn = _method(tree, 'Reconstruction', 'direct_reconstruction')
    body = _body(fn)
    want = ['if self.noise is not None:\n    kdata = prewhiten_kspace(kdata, self.noise)',
            'operator = self.fourier_op',
            'if self.csm is not None:\n    operator = operator @ self.csm.as_operator()',
            'if self.dcf is not None:\n    operator = self.dcf.as_operator() @ operator',
            'img_tensor, = operator.H(kdata.data)',
            'img = IData.from_tensor_and_kheader(img_tensor, kdata.header)',
            'return img']
    got = [ast.unparse(s) for s in body]
    # the if-chain is executed symbolically for the four presence cases
    if got[0] != want[0] or got[4:] != want[4:]:
        raise Unsupported(f'direct_reconstruction frame differs: {[g[:60] for g in got]}')
    cases = {}
    for has_csm in (True, False):
        for has_dcf in (True, False):
            env = {'self.fourier_op': 'Fo', 'self.csm.as_operator()': 'C', 'self.dcf.as_operator()': 'P'}
            cur = None
            for s in body[1:4]:
                if isinstance(s, ast.Assign) and ast.unparse(s.targets[0]) == 'operator':
                    cur = opexpr(s.value, dict(env, **({'operator': cur} if cur else {})))
                elif isinstance(s, ast.If) and not s.orelse and len(s.body) == 1:
                    t = ast.unparse(s.test)
                    if t not in ('self.csm is not None', 'self.dcf is not None'):
                        raise Unsupported(f'test {t}')
                    on = has_csm if 'csm' in t else has_dcf
                    if on:
                        a = s.body[0]
                        if not (isinstance(a, ast.Assign) and ast.unparse(a.targets[0]) == 'operator'):
                            raise Unsupported('if-body does not assign operator')
                        cur = opexpr(a.value, dict(env, operator=cur))
                else:
                    raise Unsupported(f'statement {ast.unparse(s)[:60]}')
            cases[(has_csm, has_dcf)] = cur
    return cases


def translate():
    normal_op, rhs, applied, reg_op, reg_rhs = translate_regularized()
    d = translate_direct()
    return f'''(* GENERATED on every run by harness/translate/recon.py from {ROOT}/*.py -- do not edit *)
From MrVerif Require Import Base.Prelude Base.StarRing Base.Sums Model.OpAlg Model.ElemOps.
Definition gen_available := true.
Section GenRecon.
  Variable R : StarRing.
  Local Open Scope K_scope.
  Variables (Fo C P B : linop R) (lam : R) (n : nat) (y x0 : nat -> R).
  Variable lam_is_zero : bool.     (* torch.all(regularization_weight == 0) *)

  (* RegularizedIterativeSENSEReconstruction.forward *)
  Definition gen_normal_op : linop R := {normal_op}.
  Definition gen_rhs : nat -> R := {rhs}.
  Definition gen_reg_applied : bool := {applied}.
  Definition gen_reg_op : linop R := {reg_op}.
  Definition gen_reg_rhs : nat -> R := {reg_rhs}.

  (* the terms of C07_normal_operator_selfadjoint / Model/Recon.v: A = F S, H = A^H W A (+ lam B), rhs = A^H W y (+ lam x0) *)
  Definition model_A : linop R := comp Fo C.
  Definition model_normal_op : linop R := comp (adjop model_A) (comp P model_A).
  Definition model_reg_op : linop R := lsum model_normal_op (prod_right (fun _ => lam) B).

  Lemma gen_normal_op_ok : forall x i, fwd gen_normal_op x i = fwd model_normal_op x i /\\ adj gen_normal_op x i = adj model_normal_op x i.
  Proof. intros; split; reflexivity. Qed.
  Lemma gen_rhs_ok : forall i, gen_rhs i = adj model_A (fwd P y) i.
  Proof. intros; reflexivity. Qed.
  Lemma gen_reg_op_ok : forall x i, fwd gen_reg_op x i = fwd model_reg_op x i /\\ adj gen_reg_op x i = adj model_reg_op x i.
  Proof. intros; split; reflexivity. Qed.
  Lemma gen_reg_rhs_ok : forall i, gen_reg_rhs i = adj model_A (fwd P y) i + lam * x0 i.
  Proof. intros; reflexivity. Qed.
  (* Model/Recon.v reg_system: `if lam == 0 then unregularised else regularised` *)
  Lemma gen_reg_applied_ok : gen_reg_applied = negb lam_is_zero.
  Proof. reflexivity. Qed.

  (* Reconstruction.direct_reconstruction: operator.H(kdata.data) for the four (csm, dcf) presence cases; C07_direct speaks about comp W (comp F S) *)
  Definition gen_direct_csm_dcf : linop R := {d[(True, True)]}.
  Definition gen_direct_csm : linop R := {d[(True, False)]}.
  Definition gen_direct_dcf : linop R := {d[(False, True)]}.
  Definition gen_direct_plain : linop R := {d[(False, False)]}.
  Lemma gen_direct_ok : forall z j,
    adj gen_direct_csm_dcf z j = adj (comp P (comp Fo C)) z j /\\ adj gen_direct_csm z j = adj (comp Fo C) z j /\\
    adj gen_direct_dcf z j = adj (comp P Fo) z j /\\ adj gen_direct_plain z j = adj Fo z j.
  Proof. intros; repeat split; reflexivity. Qed.
End GenRecon.
'''


def write(out: Path):
    try:
        out.write_text(translate())
        return True, ''
    except (Unsupported, KeyError, SyntaxError, AttributeError, IndexError, ValueError, TypeError, OSError) as e:
        out.write_text(f'(* GENERATED: translator failed closed: {str(e)[:300]} *)\nDefinition gen_available := false.\n')
        return False, str(e)[:300]
