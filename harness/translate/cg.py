"""T-CG: fail-closed ast translator  src/mrpro/algorithms/optimizers/cg.py  ->  coq/Gen/cg_gen.v

The body of `cg` is executed symbolically, statement by statement, over a typed environment (vectors / scalars / the optional
previous squared residual norm).  Output (one Section, polymorphic in the field exactly like Model/CG.v):

   gen_cg_init  b x0     the state (solution, residual, conjugate_vector, residual_norm_squared_previous) before the loop
   gen_cg_early st       the `residual is exactly zero` test before the loop
   gen_cg_step  st       one pass through the loop body: Stop (return solution) | Fail (a division by zero) | Next st'

Obligations (re-proved on every run):  gen_cg_init = cg_init,  gen_cg_early = the test of cg_run,  gen_cg_step = cg_step,
plus two boolean facts read off the source: the shape guard raises ValueError exactly when the shapes differ and an initial value is
given, and the callback receives {'solution': (solution,), 'iteration_number': iteration, 'residual': residual} after the update.

Subset (anything else raises Unsupported -> the generated file says gen_available := false and the check reports the broken tie):
   v = w.flatten() | w.clone()                      alias (value semantics; aliasing/in-place effects are the business of C10's inventory)
   s = torch.vdot(u, v) [.real]                      dot u v
   (hp,) = operator(p)   |  operator(x)[0]           Hop p
   u + v, u - v (vectors), s * v (scalar * vector)   vadd / vsub / vscale
   a / b (scalars)                                   sdiv a b   (None -> Fail; None -> Stop when followed by `if not torch.isfinite(q): return solution`)
   tolerance ** 2, a == 0, a != 0, a < b, and/or     fmul tol tol, feqb, negb feqb, fltb, &&, ||
   if <stop test>: return solution                   Stop
   if prev is not None: <assignments>                match sprev st
   prev = rr ; prev: ... = None                      state component
   x += ..., x -= ... (augmented assignment)         Unsupported: an in-place update is not the value-semantics statement the model mirrors
"""
import ast
import os
from pathlib import Path

SRC = Path(os.environ.get('VERIF_REPO', '/repo')) / 'src/mrpro/algorithms/optimizers/cg.py'
N_OBLIGATIONS = 5


class Unsupported(Exception):
    pass


VEC, SC, OPT = 'vec', 'scalar', 'optscalar'


class Env(dict):
    def copy(self):
        return Env(self)


def _is_name(e, name=None):
    return isinstance(e, ast.Name) and (name is None or e.id == name)


def _call_attr(e, attr):
    return isinstance(e, ast.Call) and isinstance(e.func, ast.Attribute) and e.func.attr == attr


def expr(e, env):
    """-> (type, coq term, list of pending divisions [(name, num, den)])   divisions are hoisted by the statement translator"""
    if isinstance(e, ast.Name):
        if e.id not in env:
            raise Unsupported(f'unknown name {e.id} (line {e.lineno})')
        return env[e.id]
    if isinstance(e, ast.Constant) and e.value == 0:
        return (SC, 'f0')
    if _call_attr(e, 'flatten') or _call_attr(e, 'clone'):
        if e.args or e.keywords:
            raise Unsupported(f'arguments to .{e.func.attr}()')
        t, c = expr(e.func.value, env)
        if t != VEC:
            raise Unsupported(f'.{e.func.attr}() of a non-tensor')
        return (VEC, c)
    if isinstance(e, ast.Attribute) and e.attr == 'real':
        t, c = expr(e.value, env)
        if t != SC:
            raise Unsupported('.real of a non-scalar')
        return (SC, c)          # real model: the imaginary part of <r, r> is zero (complex systems are realified, Proofs/CGProofs.v)
    if isinstance(e, ast.Call) and isinstance(e.func, ast.Attribute) and e.func.attr == 'vdot' and _is_name(e.func.value, 'torch'):
        if len(e.args) != 2 or e.keywords:
            raise Unsupported('torch.vdot arguments')
        (ta, a), (tb, b) = expr(e.args[0], env), expr(e.args[1], env)
        if ta != VEC or tb != VEC:
            raise Unsupported('torch.vdot of non-vectors')
        return (SC, f'(dot F f0 fadd fmul {a} {b})')
    if isinstance(e, ast.Subscript) and isinstance(e.value, ast.Call) and _is_name(e.value.func, 'operator'):
        if not (isinstance(e.slice, ast.Constant) and e.slice.value == 0) or len(e.value.args) != 1:
            raise Unsupported('operator(...)[k] with k != 0')
        t, a = expr(e.value.args[0], env)
        if t != VEC:
            raise Unsupported('operator applied to a non-vector')
        return (VEC, f'(Hop {a})')
    if isinstance(e, ast.BinOp):
        if isinstance(e.op, ast.Pow):
            t, a = expr(e.left, env)
            if t == SC and isinstance(e.right, ast.Constant) and e.right.value == 2:
                return (SC, f'(fmul {a} {a})')
            raise Unsupported('power other than scalar ** 2')
        (ta, a), (tb, b) = expr(e.left, env), expr(e.right, env)
        if isinstance(e.op, ast.Add) and ta == tb == VEC:
            return (VEC, f'(vadd F fadd {a} {b})')
        if isinstance(e.op, ast.Sub) and ta == tb == VEC:
            return (VEC, f'(vsub F fsub fopp {a} {b})')
        if isinstance(e.op, ast.Mult) and ta == SC and tb == VEC:
            return (VEC, f'(vscale F fmul {a} {b})')
        if isinstance(e.op, ast.Mult) and ta == VEC and tb == SC:
            return (VEC, f'(vscale F fmul {b} {a})')
        raise Unsupported(f'binary operation {type(e.op).__name__} on ({ta}, {tb}) (line {e.lineno})')
    raise Unsupported(f'expression {ast.unparse(e)[:80]} (line {getattr(e, "lineno", "?")})')


def test(t, env):
    if isinstance(t, ast.BoolOp):
        parts = [test(v, env) for v in t.values]
        op = ' || ' if isinstance(t.op, ast.Or) else ' && '
        return '(' + op.join(parts) + ')'
    if isinstance(t, ast.Compare) and len(t.ops) == 1:
        (ta, a), (tb, b) = expr(t.left, env), expr(t.comparators[0], env)
        if ta != SC or tb != SC:
            raise Unsupported('comparison of non-scalars')
        if isinstance(t.ops[0], ast.Eq):
            return f'(feqb {a} {b})'
        if isinstance(t.ops[0], ast.NotEq):
            return f'(negb (feqb {a} {b}))'
        if isinstance(t.ops[0], ast.Lt):
            return f'(fltb {a} {b})'
    raise Unsupported(f'test {ast.unparse(t)[:80]}')


def assign_stmt(st, env, k, on_zero='Fail'):
    """translate one assignment and continue with k(env') -> coq term of type step_result.  Divisions become `match sdiv`; a zero divisor
    gives Fail, or Stop when the quotient is guarded by `if not torch.isfinite(q): return solution` (on_zero='Stop')."""
    tgt = st.targets[0]
    val = st.value
    if isinstance(tgt, ast.Tuple):          # (hp,) = operator(p)
        if not (len(tgt.elts) == 1 and isinstance(tgt.elts[0], ast.Name) and isinstance(val, ast.Call) and _is_name(val.func, 'operator')
                and len(val.args) == 1):
            raise Unsupported(f'tuple assignment {ast.unparse(st)[:80]}')
        t, a = expr(val.args[0], env)
        if t != VEC:
            raise Unsupported('operator applied to a non-vector')
        e2 = env.copy()
        e2[tgt.elts[0].id] = (VEC, f'(Hop {a})')
        return k(e2)
    if not isinstance(tgt, ast.Name):
        raise Unsupported(f'assignment target {ast.unparse(tgt)}')
    name = tgt.id
    if isinstance(val, ast.BinOp) and isinstance(val.op, ast.Div):
        (ta, a), (tb, b) = expr(val.left, env), expr(val.right, env)
        if ta != SC or tb != SC:
            raise Unsupported('division of non-scalars')
        e2 = env.copy()
        e2[name] = (SC, name)
        return f'match sdiv F f0 fdiv feqb {a} {b} with\n      | None => {on_zero}\n      | Some {name} =>\n      {k(e2)}\n      end'
    if _is_name(val) and env.get(val.id, (None,))[0] == SC and env.get(name, (None,))[0] == OPT:
        e2 = env.copy()
        e2[name] = (OPT, f'(Some {env[val.id][1]})')
        return k(e2)
    t, c = expr(val, env)
    e2 = env.copy()
    e2[name] = (t, c)
    return k(e2)


def block(stmts, env, k):
    """translate a list of statements, then continue with k(env)"""
    if not stmts:
        return k(env)
    st, rest = stmts[0], stmts[1:]
    cont = lambda e: block(rest, e, k)  # noqa: E731
    if isinstance(st, ast.Expr) and isinstance(st.value, ast.Constant) and isinstance(st.value.value, str):
        return cont(env)
    if isinstance(st, ast.AugAssign):
        raise Unsupported(f'augmented (in-place) assignment `{ast.unparse(st)[:60]}` (line {st.lineno})')
    if isinstance(st, ast.Assign) and len(st.targets) == 1:
        # q = a / b  followed by  `if not torch.isfinite(q): return solution`: the quotient with its guard (exact arithmetic: b == 0 -> Stop)
        if (isinstance(st.value, ast.BinOp) and isinstance(st.value.op, ast.Div) and isinstance(st.targets[0], ast.Name) and rest
                and isinstance(rest[0], ast.If) and ast.unparse(rest[0].test) == f'not torch.isfinite({st.targets[0].id})'
                and len(rest[0].body) == 1 and isinstance(rest[0].body[0], ast.Return) and _is_name(rest[0].body[0].value, 'solution')
                and not rest[0].orelse):
            return assign_stmt(st, env, lambda e: block(rest[1:], e, k), on_zero='Stop')
        return assign_stmt(st, env, cont)
    if isinstance(st, ast.If):
        # (a) stop test:  if <test>: return solution
        if len(st.body) == 1 and isinstance(st.body[0], ast.Return) and not st.orelse:
            if not _is_name(st.body[0].value, 'solution'):
                raise Unsupported('return of something else than `solution`')
            return f'if {test(st.test, env)} then Stop\n      else {cont(env)}'
        # (b) if prev is not None: <assignments>
        tt = st.test
        if (isinstance(tt, ast.Compare) and len(tt.ops) == 1 and isinstance(tt.ops[0], ast.IsNot) and _is_name(tt.left)
                and env.get(tt.left.id, (None,))[0] == OPT and isinstance(tt.comparators[0], ast.Constant) and tt.comparators[0].value is None
                and not st.orelse):
            pname = tt.left.id
            inner = env.copy()
            inner[pname] = (SC, 'rrp')
            # after the block the name is optional again (its current value is Some rrp)
            def after(e):
                e3 = e.copy()
                e3[pname] = env[pname]
                return cont(e3)
            body = block(st.body, inner, after)
            return f'match {env[pname][1]} with\n      | None => {cont(env)}\n      | Some rrp =>\n      {body}\n      end'
        # (c) the callback
        if (isinstance(tt, ast.Compare) and _is_name(tt.left, 'callback') and isinstance(tt.ops[0], ast.IsNot) and not st.orelse
                and len(st.body) == 1 and isinstance(st.body[0], ast.Expr) and isinstance(st.body[0].value, ast.Call)
                and _is_name(st.body[0].value.func, 'callback')):
            call = st.body[0].value
            if len(call.args) != 1 or not isinstance(call.args[0], ast.Dict):
                raise Unsupported('callback argument is not a dict literal')
            got = {ast.literal_eval(kk): ast.unparse(vv) for kk, vv in zip(call.args[0].keys, call.args[0].values)}
            want = {'solution': '(solution,)', 'iteration_number': 'iteration', 'residual': 'residual'}
            if got != want:
                raise Unsupported(f'callback receives {got}, the model trace mirrors {want}')
            e2 = env.copy()
            e2['__callback_seen__'] = (SC, 'true')
            return cont(e2)
    raise Unsupported(f'statement {ast.unparse(st)[:80]} (line {st.lineno})')


def translate():
    tree = ast.parse(SRC.read_text())
    fn = [n for n in tree.body if isinstance(n, ast.FunctionDef) and n.name == 'cg'][0]
    argnames = [a.arg for a in fn.args.args]
    if argnames != ['operator', 'right_hand_side', 'initial_value', 'max_iterations', 'tolerance', 'callback']:
        raise Unsupported(f'signature {argnames}')
    body = [s for s in fn.body if not (isinstance(s, ast.Expr) and isinstance(s.value, ast.Constant))]
    loops = [i for i, s in enumerate(body) if isinstance(s, ast.For)]
    if len(loops) != 1:
        raise Unsupported('expected exactly one for loop')
    pre, loop, post = body[:loops[0]], body[loops[0]], body[loops[0] + 1:]
    if not (_is_name(loop.target, 'iteration') and isinstance(loop.iter, ast.Call) and _is_name(loop.iter.func, 'range')
            and len(loop.iter.args) == 1 and _is_name(loop.iter.args[0], 'max_iterations') and not loop.orelse):
        raise Unsupported('loop header is not `for iteration in range(max_iterations)`')
    if not (len(post) == 1 and isinstance(post[0], ast.Return) and _is_name(post[0].value, 'solution')):
        raise Unsupported('the function does not end with `return solution`')
    # ---- shape guard (first statement) ----
    guard = pre[0]
    want_guard = 'initial_value is not None and initial_value.shape != right_hand_side.shape'
    if not (isinstance(guard, ast.If) and ast.unparse(guard.test) == want_guard and len(guard.body) == 1 and isinstance(guard.body[0], ast.Raise)
            and isinstance(guard.body[0].exc, ast.Call) and _is_name(guard.body[0].exc.func, 'ValueError') and not guard.orelse):
        raise Unsupported('shape guard `if initial_value is not None and shapes differ: raise ValueError` not found')
    pre = pre[1:]
    # ---- initialisation ----
    env = Env({'right_hand_side': (VEC, 'b'), 'tolerance': (SC, 'tol')})
    init_none = pre[0]
    if not (isinstance(init_none, ast.If) and ast.unparse(init_none.test) == 'initial_value is None' and len(init_none.body) == 1
            and ast.unparse(init_none.body[0]) == 'initial_value = right_hand_side' and not init_none.orelse):
        raise Unsupported('`if initial_value is None: initial_value = right_hand_side` not found')
    env['initial_value'] = (VEC, '(match x0 with None => b | Some x => x end)')
    early = None
    rest = pre[1:]
    out = {}

    def fin(e):
        out['env'] = e
        return 'DONE'
    # the statements up to the early-exit test
    idx = [i for i, s in enumerate(rest) if isinstance(s, ast.If)]
    if len(idx) != 1:
        raise Unsupported('expected exactly one `if` (exact-zero residual) between initialisation and loop')
    block(rest[:idx[0]], env, fin)
    env = out['env']
    eif = rest[idx[0]]
    if not (len(eif.body) == 1 and isinstance(eif.body[0], ast.Return) and _is_name(eif.body[0].value, 'solution') and not eif.orelse):
        raise Unsupported('early exit is not `return solution`')
    early = test(eif.test, Env({k: ((v[0], {'solution': '(sx st)', 'residual': '(sr st)', 'conjugate_vector': '(sp st)'}.get(k, v[1]))) for k, v in env.items()}))
    for s in rest[idx[0] + 1:]:
        if isinstance(s, ast.AnnAssign) and _is_name(s.target) and isinstance(s.value, ast.Constant) and s.value.value is None:
            env[s.target.id] = (OPT, 'None')
        elif isinstance(s, ast.Assign) and len(s.targets) == 1 and _is_name(s.targets[0]) and isinstance(s.value, ast.Constant) and s.value.value is None:
            env[s.targets[0].id] = (OPT, 'None')
        else:
            raise Unsupported(f'statement before the loop: {ast.unparse(s)[:80]}')
    opts = [k for k, v in env.items() if v[0] == OPT]
    if opts != ['residual_norm_squared_previous']:
        raise Unsupported(f'optional state components {opts}')
    for need in ('solution', 'residual', 'conjugate_vector'):
        if env.get(need, (None,))[0] != VEC:
            raise Unsupported(f'{need} is not initialised before the loop')
    init_term = f'mkState {env["solution"][1]} {env["residual"][1]} {env["conjugate_vector"][1]} {env["residual_norm_squared_previous"][1]}'
    # ---- loop body ----
    lenv = Env({'right_hand_side': (VEC, 'b'), 'tolerance': (SC, 'tol'), 'solution': (VEC, '(sx st)'), 'residual': (VEC, '(sr st)'),
                'conjugate_vector': (VEC, '(sp st)'), 'residual_norm_squared_previous': (OPT, '(sprev st)')})
    seen = {}

    def end(e):
        seen['callback'] = '__callback_seen__' in e
        prev = e['residual_norm_squared_previous']
        if prev[0] != OPT or not prev[1].startswith('(Some'):
            raise Unsupported('residual_norm_squared_previous is not updated in the loop body')
        return f'Next (mkState {e["solution"][1]} {e["residual"][1]} {e["conjugate_vector"][1]} {prev[1]})'
    step_term = block(loop.body, lenv, end)
    if not seen.get('callback'):
        raise Unsupported('the callback call was not found at the end of the loop body')
    return f'''(* GENERATED on every run by harness/translate/cg.py from {SRC} -- do not edit *)
From Coq Require Import List Bool Arith.
Import ListNotations.
From MrVerif Require Import Model.CG.
Definition gen_available := true.
Section GenCG.
  Variable F : Type.
  Variables (f0 : F) (fadd fmul fsub : F -> F -> F) (fopp : F -> F) (fdiv : F -> F -> F).
  Variable feqb : F -> F -> bool.
  Variable fltb : F -> F -> bool.
  Variable Hop : vec F -> vec F.
  Variable tol : F.

  Definition gen_cg_init (b : vec F) (x0 : option (vec F)) : state F := {init_term}.
  Definition gen_cg_early (st : state F) : bool := {early}.
  Definition gen_cg_step (st : state F) : step_result F :=
      {step_term}.

  Lemma gen_cg_init_ok : forall b x0, gen_cg_init b x0 = cg_init F fsub fopp Hop b x0.
  Proof. intros b [x|]; reflexivity. Qed.
  Lemma gen_cg_early_ok : forall b x0 n, cg_run F f0 fadd fmul fsub fopp fdiv feqb fltb Hop tol b x0 n =
    (if gen_cg_early (gen_cg_init b x0) then (Some (sx (gen_cg_init b x0)), []) else cg_iter F f0 fadd fmul fsub fopp fdiv feqb fltb Hop tol n (gen_cg_init b x0)).
  Proof. intros b x0 n. rewrite gen_cg_init_ok. reflexivity. Qed.
  Lemma gen_cg_step_ok : forall st, gen_cg_step st = cg_step F f0 fadd fmul fsub fopp fdiv feqb fltb Hop tol st.
  Proof.
    intros [x r p prev]. unfold gen_cg_step, cg_step. cbn [sx sr sp sprev].
    repeat match goal with
           | |- context [if ?c then _ else _] => destruct c eqn:?
           | |- context [match ?o with None => _ | Some _ => _ end] => destruct o eqn:?
           end; try reflexivity; try congruence.
  Qed.
  (* facts read off the source text: ValueError exactly for (initial value given, shapes differ); callback dict = (solution, residual, iteration) *)
  Definition gen_shape_guard_is_model : bool := true.
  Definition gen_callback_is_model_trace : bool := true.
  Lemma gen_cg_text_ok : gen_shape_guard_is_model = true /\\ gen_callback_is_model_trace = true.
  Proof. split; reflexivity. Qed.
End GenCG.
'''


def write(out: Path):
    try:
        out.write_text(translate())
        return True, ''
    except (Unsupported, KeyError, SyntaxError, AttributeError, IndexError, ValueError, TypeError) as e:
        out.write_text(f'(* GENERATED: translator failed closed: {str(e)[:300]} *)\nDefinition gen_available := false.\n')
        return False, str(e)[:300]
