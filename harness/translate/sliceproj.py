"""T-SP: fail-closed ast translator  src/mrpro/operators/SliceProjectionOp.py  ->  coq/Gen/sliceproj_gen.v

`SliceProjectionOp.__init__._find_width` and `SliceProjectionOp.projection_matrix` are executed symbolically, statement by
statement, over a typed environment (integers, rationals, integer / rational / boolean tensors along one axis, (z,y,x) vector
fields over the slice pixels).  Local names are irrelevant (values are identified by their shape, not by their name).

Generated definitions and the obligations re-proved on every run (each against Model/SliceProj.v):
   gen_max_shape nz ny nx                     = Z.max nz (Z.max ny nx)                (max_shape)
   gen_find_width nz ny nx mx p               = find_width mx p                       (test range, cumsum / total, thresholds,
                                                                                        comparison operators, max(|l|,|r|) + 1)
   gen_pixel nz ny nx mx shift r c           ~= pixel g r c                           (start offsets (n - max)//2, n/2 - 0.5, offset)
   gen_centre nz ny nx                       ~= centre g                              (rotation centre n/2 - 0.5)
   gen_pixel_rot M ...                       ~= pixel_rot g r c                       (rotation(p - centre) + centre)
   gen_ray_ks w                               = ray_ks w                              (ray steps -w .. w)
   gen_weight p dz dy dx                      = weight_yx (dz, dy, dx) * p dz         (clamped in-plane weights * profile(d_z))
   gen_inside nz ny nx z y x                  = inside g (z, y, x)                    (in-volume mask)
   gen_fraction (mask, weight pairs)          = fraction_in_view                      (#(mask & w > 0) / #(w > 0))
   gen_norm f s                               = f / (s + eps)                         (row normalisation, eps = 1e-6)
(~= : component-wise Qeq.)  Statements that are not translated symbolically (einops rearrangements, floor, the sparse tensor
construction, coalesce and the division by the number of duplicates, `matrix *= norm`, the call site in __init__) are PINNED: their
`ast.unparse` text after renaming the locals of the function to L0, L1, ... in order of first assignment must equal the text the
model mirrors.  The body of GridSamplingOp.__reshape_wrapper (batch broadcasting of grid and x, real/imag axis placement,
channel flattening) is pinned in the same way.  Anything else raises Unsupported -> `Definition gen_available := false.` (fail closed).
"""
import ast
import os
import sys
from fractions import Fraction
from pathlib import Path

SRC = Path(os.environ.get('VERIF_REPO', '/repo')) / 'src/mrpro/operators/SliceProjectionOp.py'
N_OBLIGATIONS = 10


class Unsupported(Exception):
    pass


class NotSymbolic(Exception):
    """the statement is outside the symbolic subset: it has to be one of the pinned statements"""


# ---------------------------------------------------------------------------------------------- symbolic values
class V:
    def __init__(self, kind, term=None, **kw):
        self.kind, self.term = kind, term
        self.__dict__.update(kw)

    def __repr__(self):
        return f'<{self.kind} {self.term}>'


def qlit(fr: Fraction) -> str:
    fr = Fraction(fr)
    if fr.denominator == 1 and fr.numerator >= 0:
        return f'{fr.numerator}'
    return f'({fr.numerator} # {fr.denominator})' if fr.numerator >= 0 else f'(({fr.numerator}) # {fr.denominator})'


def as_q(v: V) -> str:
    """coerce an integer or rational scalar to a Q term"""
    if v.kind == 'Q':
        return v.term
    if v.kind == 'Z':
        if getattr(v, 'const', None) is not None:
            return qlit(Fraction(v.const))
        return f'(inject_Z {v.term})'
    raise NotSymbolic(f'not a scalar: {v}')


def _fname(f):
    if isinstance(f, ast.Name):
        return f.id
    if isinstance(f, ast.Attribute):
        b = _fname(f.value)
        return None if b is None else f'{b}.{f.attr}'
    return None


def _const_int(e, val):
    return isinstance(e, ast.Constant) and type(e.value) is int and e.value == val


def ev(e, env) -> V:
    """symbolic evaluation of an expression; NotSymbolic if the expression is outside the subset"""
    if isinstance(e, ast.Name):
        if e.id in env:
            return env[e.id]
        raise NotSymbolic(f'unknown name {e.id}')
    if isinstance(e, ast.Constant):
        if type(e.value) is int:
            return V('Z', f'{e.value}' if e.value >= 0 else f'({e.value})', const=e.value)
        if type(e.value) is float:
            return V('Q', qlit(Fraction(repr(e.value))))
        if e.value is None:
            return V('None')
        raise NotSymbolic('constant')
    if isinstance(e, ast.Attribute):
        base = _fname(e)
        if base in env:
            return env[base]
        raise NotSymbolic(f'attribute {base}')
    if isinstance(e, ast.UnaryOp) and isinstance(e.op, ast.USub):
        v = ev(e.operand, env)
        if v.kind == 'Z':
            return V('Z', f'(- {v.term})', const=(-v.const if getattr(v, 'const', None) is not None else None))
        if v.kind == 'Q':
            return V('Q', f'(- {v.term})')
        raise NotSymbolic('negation')
    if isinstance(e, ast.BinOp):
        return ev_binop(e, env)
    if isinstance(e, ast.Compare) and len(e.ops) == 1:
        return ev_compare(ev(e.left, env), e.ops[0], ev(e.comparators[0], env))
    if isinstance(e, ast.Subscript):
        return ev_subscript(e, env)
    if isinstance(e, ast.Call):
        return ev_call(e, env)
    if isinstance(e, ast.Tuple):
        return V('Tuple', items=[ev(x, env) for x in e.elts])
    raise NotSymbolic(type(e).__name__)


def ev_binop(e, env) -> V:
    a, b = ev(e.left, env), ev(e.right, env)
    op = type(e.op)
    sym = {ast.Add: '+', ast.Sub: '-', ast.Mult: '*'}.get(op)
    # vector fields
    if a.kind == 'Vec3' and b.kind == 'Vec3' and op in (ast.Add, ast.Sub):
        f = 'vadd' if op is ast.Add else 'vsub'
        return V('Vec3', f'({f} {a.term} {b.term})', pixel=getattr(a, 'pixel', False) or getattr(b, 'pixel', False))
    if a.kind == 'Rotated' and b.kind == 'Vec3' and op is ast.Add:   # rotation(p - c) + c
        return V('Vec3', f'(vadd {a.term} {b.term})', pixel=True, rotated=True)
    # pointwise operations on boolean candidate tensors
    if a.kind == 'B' and b.kind == 'B' and op in (ast.BitAnd, ast.Mult):
        return V('B', f'({a.term} && {b.term})')
    # rational list / scalar
    if a.kind == 'QL' and b.kind in ('Q', 'Z') and op is ast.Div:
        return V('QL', f'(map (fun s => s / {as_q(b)}) {a.term})')
    if a.kind == 'Count' and b.kind == 'Count' and op is ast.Div:
        return V('Fraction', f'(inject_Z (count (fun e : bool * Q => {a.pred}) l) / inject_Z (count (fun e : bool * Q => {b.pred}) l))')
    # integers
    if a.kind == 'Z' and b.kind == 'Z':
        if sym:
            return V('Z', f'({a.term} {sym} {b.term})')
        if op is ast.FloorDiv:
            if getattr(b, 'const', None) is None or b.const <= 0:
                raise NotSymbolic('floor division by a non-constant')
            return V('Z', f'({a.term} / {b.term})')   # Z.div = python // for a positive divisor
        if op is ast.Div:
            return V('Q', f'({as_q(a)} / {as_q(b)})')
    # rationals (integers are injected)
    if a.kind in ('Q', 'Z') and b.kind in ('Q', 'Z'):
        if sym:
            return V('Q', f'({as_q(a)} {sym} {as_q(b)})')
        if op is ast.Div:
            return V('Q', f'({as_q(a)} / {as_q(b)})')
    # scalar * torch.ones(y, x): a constant field over the slice pixels
    if a.kind in ('Q', 'Z') and b.kind == 'Ones' and op is ast.Mult:
        return V('Field', as_q(a))
    raise NotSymbolic(f'binary operation {op.__name__} on {a.kind}, {b.kind}')


def ev_compare(a: V, op, b: V) -> V:
    t = type(op)
    if a.kind == 'QL' and b.kind in ('Q', 'Z'):
        c = as_q(b)
        body = {ast.Gt: f'negb (Qle_bool v {c})', ast.GtE: f'Qle_bool {c} v', ast.Lt: f'negb (Qle_bool {c} v)', ast.LtE: f'Qle_bool v {c}'}.get(t)
        if body is None:
            raise NotSymbolic('comparison')
        return V('BL', f'(map (fun v => {body}) {a.term})')
    if a.kind == 'Q' and b.kind in ('Q', 'Z'):           # per-candidate weight against a constant
        c = as_q(b)
        body = {ast.Gt: f'negb (Qle_bool {a.term} {c})', ast.GtE: f'Qle_bool {c} {a.term}', ast.Lt: f'negb (Qle_bool {c} {a.term})',
                ast.LtE: f'Qle_bool {a.term} {c}'}.get(t)
        if body is None:
            raise NotSymbolic('comparison')
        return V('B', f'({body})')
    if a.kind == 'Z' and b.kind == 'Z':
        body = {ast.Lt: f'({a.term} <? {b.term})', ast.LtE: f'({a.term} <=? {b.term})', ast.Gt: f'({b.term} <? {a.term})',
                ast.GtE: f'({b.term} <=? {a.term})'}.get(t)
        if body is None:
            raise NotSymbolic('comparison')
        return V('B', f'{body}%Z')
    raise NotSymbolic(f'comparison of {a.kind} and {b.kind}')


def ev_subscript(e, env) -> V:
    base = ev(e.value, env)
    if base.kind == 'ZL':                                   # test_values[np.argmax(flags)]
        idx = ev(e.slice, env)
        if idx.kind == 'ArgMax':
            return V('Z', f'(first_true {base.term} {idx.flags} (hd 0%Z {base.term}))')
        raise NotSymbolic('index')
    if base.kind == 'Points':                               # source[..., k]
        s = e.slice
        if isinstance(s, ast.Tuple) and len(s.elts) == 2 and isinstance(s.elts[0], ast.Constant) and s.elts[0].value is Ellipsis \
                and isinstance(s.elts[1], ast.Constant) and s.elts[1].value in (0, 1, 2):
            return V('Z', 'zyx'[s.elts[1].value])
        raise NotSymbolic('point component')
    raise NotSymbolic('subscript')


def ev_call(e, env) -> V:
    fn = _fname(e.func)
    args, kws = e.args, {k.arg: k.value for k in e.keywords}
    # ---- functions
    if fn == 'torch.arange' and len(args) == 2 and not kws:
        lo, hi = ev(args[0], env), ev(args[1], env)
        if lo.kind == hi.kind == 'Z':
            return V('ZL', f'(arange {lo.term} {hi.term})', lo=lo.term, hi=hi.term)
        raise NotSymbolic('arange')
    if fn == 'torch.cumsum' and len(args) == 2 and _is_minus1(args[1]) and not kws:
        x = ev(args[0], env)
        if x.kind == 'QL':
            return V('QL', f'(cumsum 0 {x.term})')
        raise NotSymbolic('cumsum')
    if fn in ('np.argmax', 'numpy.argmax', 'torch.argmax') and len(args) == 1 and not kws:
        x = ev(args[0], env)
        if x.kind == 'BL':
            return V('ArgMax', flags=x.term)
        raise NotSymbolic('argmax')
    if fn == 'max' and 2 <= len(args) <= 3 and not kws:
        vs = [ev(a, env) for a in args]
        if all(v.kind == 'Z' for v in vs):
            t = vs[-1].term
            for v in reversed(vs[:-1]):
                t = f'(Z.max {v.term} {t})'
            return V('Z', t)
        raise NotSymbolic('max')
    if fn == 'int' and len(args) == 1 and not kws:
        v = ev(args[0], env)
        if v.kind == 'Z':
            return v
        raise NotSymbolic('int')
    if fn == 'torch.ones' and len(args) == 2 and not kws:
        a, b = ev(args[0], env), ev(args[1], env)
        if a.kind == b.kind == 'Z':
            return V('Ones', rows=a.term, cols=b.term)
        raise NotSymbolic('ones')
    if fn == 'torch.zeros' and len(args) == 1 and not kws:
        a = ev(args[0], env)
        if a.kind == 'Z':
            return V('Zeros', n=a.term)
        raise NotSymbolic('zeros')
    if fn == 'torch.tensor' and len(args) == 1 and set(kws) <= {'dtype'} and isinstance(args[0], ast.List) and len(args[0].elts) == 3:
        comps = [ev(x, env) for x in args[0].elts]
        return V('Vec3', '(' + ', '.join(as_q(c) for c in comps) + ')')
    if fn == 'torch.stack' and len(args) == 1 and set(kws) == {'dim'} and _is_minus1(kws['dim']) and isinstance(args[0], ast.List):
        return ev_stack(args[0].elts, env)
    # ---- callables in the environment
    if isinstance(e.func, ast.Name) and e.func.id in env:
        f = env[e.func.id]
        if f.kind == 'Prof' and len(args) == 1 and not kws:
            x = ev(args[0], env)
            if x.kind == 'ZL':
                return V('QL', f'(map (fun t => p (inject_Z t)) {x.term})')
            if x.kind == 'Q':
                return V('Q', f'(p {x.term})')
            raise NotSymbolic('profile argument')
        if f.kind == 'Rot' and len(args) == 1 and not kws:
            x = ev(args[0], env)
            if x.kind == 'Vec3':
                return V('Rotated', f'(mv M {x.term})')
            if x.kind == 'RayStack':
                return V('Ray', x.term)
            raise NotSymbolic('rotation argument')
    # ---- methods
    if isinstance(e.func, ast.Attribute):
        recv, m = e.func.value, e.func.attr
        if m == 'sum':
            x = ev(recv, env)
            if x.kind == 'QL' and not args and not kws:
                return V('Q', f'(qsum {x.term})')
            if x.kind == 'B' and len(args) == 1 and _is_minus1(args[0]) and not kws:
                return V('Count', pred=x.term)
            raise NotSymbolic('sum')
        if m == 'abs' and not args and not kws:
            x = ev(recv, env)
            if x.kind == 'Z':
                return V('Z', f'(Z.abs {x.term})')
            if x.kind == 'Q':
                return V('Q', f'(Qabs {x.term})')
            raise NotSymbolic('abs')
        if m == 'item' and not args and not kws:
            x = ev(recv, env)
            if x.kind in ('Z', 'Q'):
                return x
            raise NotSymbolic('item')
        if m == 'clamp_min' and len(args) == 1 and _const_int(args[0], 0) and not kws:
            x = ev(recv, env)
            if x.kind == 'Q':
                return V('Q', f'(relu {x.term})')
            raise NotSymbolic('clamp_min')
        if m == 'reshape':
            x = ev(recv, env)
            if x.kind == 'Q':   # a per-candidate scalar: the layout of the candidate axis is pinned elsewhere
                return x
            raise NotSymbolic('reshape')
        if m == 'to_dense' and not args and not kws and isinstance(recv, ast.Call) and isinstance(recv.func, ast.Attribute) \
                and recv.func.attr == 'sum' and len(recv.args) == 1 and _const_int(recv.args[0], 1):
            x = ev(recv.func.value, env)
            if x.kind == 'Matrix':
                return V('Q', 's')
            raise NotSymbolic('row sum')
    raise NotSymbolic(f'call {fn}')


def _is_minus1(e):
    return isinstance(e, ast.UnaryOp) and isinstance(e.op, ast.USub) and _const_int(e.operand, 1)


def ev_stack(elts, env) -> V:
    # [E * torch.ones(y, x), *torch.meshgrid(torch.arange(sy, sy + y), torch.arange(sx, sx + x), indexing='ij')]  : pixel field
    if len(elts) == 2 and isinstance(elts[1], ast.Starred):
        mg = elts[1].value
        if not (isinstance(mg, ast.Call) and _fname(mg.func) == 'torch.meshgrid' and len(mg.args) == 2
                and [(k.arg, getattr(k.value, 'value', None)) for k in mg.keywords] == [('indexing', 'ij')]):
            raise NotSymbolic('meshgrid')
        zc = ev(elts[0], env)
        ry, rx = ev(mg.args[0], env), ev(mg.args[1], env)
        ones = ev(elts[0].right, env) if isinstance(elts[0], ast.BinOp) else None
        if zc.kind != 'Field' or ry.kind != 'ZL' or rx.kind != 'ZL' or ones is None or ones.kind != 'Ones':
            raise NotSymbolic('pixel field')
        if ry.hi != f'({ry.lo} + {ones.rows})' or rx.hi != f'({rx.lo} + {ones.cols})':
            raise Unsupported('the pixel coordinate ranges do not have the extent of the output slice')
        return V('Vec3', f'({zc.term}, inject_Z ({ry.lo} + r), inject_Z ({rx.lo} + c))', pixel=True)
    # [torch.arange(-w, w + 1), torch.zeros(n), torch.zeros(n)] : ray steps along the (unrotated) z axis
    if len(elts) == 3:
        a, b, c = (ev(x, env) for x in elts)
        if a.kind == 'ZL' and b.kind == 'Zeros' and c.kind == 'Zeros' and b.n == c.n:
            return V('RayStack', a.term, n=b.n)
    raise NotSymbolic('stack')


# ---------------------------------------------------------------------------------------------- pinned statements
class _Rename(ast.NodeTransformer):
    def __init__(self, mapping):
        self.m = mapping

    def visit_Name(self, node):
        return ast.copy_location(ast.Name(id=self.m.get(node.id, node.id), ctx=node.ctx), node)


def _targets(stmt):
    out = []
    if isinstance(stmt, ast.Assign):
        for t in stmt.targets:
            out += [n.id for n in ast.walk(t) if isinstance(n, ast.Name) and isinstance(n.ctx, ast.Store)]
    elif isinstance(stmt, (ast.AugAssign, ast.AnnAssign)) and isinstance(stmt.target, ast.Name):
        out.append(stmt.target.id)
    elif isinstance(stmt, (ast.If, ast.With, ast.Try)):
        for s in stmt.body + getattr(stmt, 'orelse', []):
            out += _targets(s)
    return out


def canonical(stmts, params):
    """rename the locals of a function body to L0, L1, ... in order of first assignment; returns [(stmt, canonical text)]"""
    mapping = {}
    for s in stmts:
        for n in _targets(s):
            if n not in mapping and n not in params:
                mapping[n] = f'L{len(mapping)}'
    ren = _Rename(mapping)
    import copy
    return [(s, ast.unparse(ren.visit(copy.deepcopy(s)))) for s in stmts]


# pinned statements of projection_matrix, in order (canonical local names)
PINS_PM = [
    "L7 = torch.tensor(list(itertools.product([0, 1], repeat=3)))",
    "L8 = (einops.rearrange(L5, '   y x zyxdim -> y x 1          1   zyxdim') + einops.rearrange(L6, '                   ray zyxdim -> 1 1 1          ray zyxdim') + einops.rearrange(L7, '        neighbors zyxdim -> 1 1 neighbors 1   zyxdim')).floor()",
    "L9 = L5[:, :, None, None, :] - L8",
    "L10, L11, L12 = rotation(L9, inverse=True).unbind(-1)",
    "L16 = einops.rearrange(L8, 'y x neighbors raylength zyxdim -> (y x) (neighbors raylength) zyxdim').int()",
    "L19 = torch.tensor(np.ravel_multi_index(L16[L17].unbind(-1), (input_shape.z, input_shape.y, input_shape.x)))",
    "L20 = torch.repeat_interleave(torch.arange(L1 * L0), L17.sum(-1))",
    "with warnings.catch_warnings():\n    warnings.filterwarnings('ignore', category=UserWarning, message='Sparse')\n    L21 = torch.sparse_coo_tensor(indices=torch.stack((L20, L19)), values=L15.reshape(L1 * L0, -1)[L17], size=(L1 * L0, input_shape.z * input_shape.y * input_shape.x), dtype=torch.float32).coalesce()\n    L22 = torch.ones_like(L19).float()\n    L22 = torch.sparse_coo_tensor(indices=torch.stack((L20, L19)), values=L22, size=(L1 * L0, input_shape.z * input_shape.y * input_shape.x), dtype=torch.float32)\n    L22 = L22.coalesce()",
    "L21.values()[:] /= L22.values()",
    "L21 *= L23[:, None]",
    "return L21",
]

# pinned statements of GridSamplingOp.__reshape_wrapper (canonical local names; error-message statements are skipped): the real/imag
# axis goes directly after the batch dims, grid and x are BROADCAST (not tiled) to the common batch shape, channels are flattened,
# the result is reshaped back and the real/imag axis moved back -- the layout that Model/GridSample.v `wrap_real/wrap_complex` mirror
PINS_GRID = [
    "L0 = self.grid.shape[-1]",
    "L1 = self.grid.shape[:-L0 - 1]",
    "L2 = len(L1)",
    "L3 = torch.view_as_real(x).moveaxis(-1, L2) if x.is_complex() else x",
    "L4 = L3.shape[:L2]",
    "try: L5 = torch.broadcast_shapes(L4, L1)",
    "L6 = L3.shape[L2:-L0]",
    "L7 = self.grid.broadcast_to(*L5, *self.grid.shape[L2:]).flatten(end_dim=L2 - 1)",
    "L8 = L3.broadcast_to(*L5, *L3.shape[L2:]).flatten(end_dim=L2 - 1)",
    "L9 = L8.flatten(start_dim=1, end_dim=-L0 - 1)",
    "L10 = inner(L9, L7)",
    "L11 = L10.reshape(*L5, *L6, *L10.shape[-L0:])",
    "if x.is_complex():\n    L11 = torch.view_as_complex(L11.moveaxis(L2, -1).contiguous())",
    "return (L11,)",
]
GRID_SRC = SRC.parent / 'GridSamplingOp.py'


def check_grid_pins():
    tree = ast.parse(GRID_SRC.read_text())
    cls = next((n for n in tree.body if isinstance(n, ast.ClassDef) and n.name == 'GridSamplingOp'), None)
    fn = None if cls is None else next((n for n in cls.body if isinstance(n, ast.FunctionDef) and n.name.endswith('reshape_wrapper')), None)
    if fn is None:
        raise Unsupported('GridSamplingOp.__reshape_wrapper not found')
    got = []
    for s, text in canonical(_strip_doc(fn.body), {a.arg for a in fn.args.args}):
        if isinstance(s, ast.If) and len(s.body) == 1 and isinstance(s.body[0], ast.Raise) and not s.orelse:
            continue                                   # argument validation with an error message
        if isinstance(s, ast.Try):
            body = text.split('\nexcept')[0].replace('try:\n    ', 'try: ')
            got.append(body)
            continue
        got.append(text)
    if got != PINS_GRID:
        for i, (g, w) in enumerate(zip(got + [''] * len(PINS_GRID), PINS_GRID + [''] * len(got))):
            if g != w:
                raise Unsupported(f'GridSamplingOp.__reshape_wrapper statement #{i} is not the pinned text: {g[:150]!r}; expected {w[:110]!r}')
    # the two implementations hand the flattened tensors to grid_sample / AdjointGridSample unchanged
    return len(PINS_GRID)


# pinned statements of __init__ (plain text): how _find_width and projection_matrix are called
PINS_INIT = [
    "widths = np.vectorize(_find_width)(slice_profile_array)",
    "matrices = [SliceProjectionOp.projection_matrix(input_shape, SpatialDimension(1, max_shape, max_shape), offset=torch.tensor([shift, 0.0, 0.0]), slice_function=f, rotation=rot, w=int(w)) for rot, shift, f, w in zip(slice_rotation, slice_shift_tensor, slice_profile_array, widths, strict=True)]",
]


# ---------------------------------------------------------------------------------------------- the two functions
def _shape_env(prefix='input_shape'):
    return {f'{prefix}.z': V('Z', 'nz'), f'{prefix}.y': V('Z', 'ny'), f'{prefix}.x': V('Z', 'nx')}


def _strip_doc(body):
    return [s for s in body if not (isinstance(s, ast.Expr) and isinstance(s.value, ast.Constant) and isinstance(s.value.value, str))]


def tr_find_width(fn: ast.FunctionDef) -> str:
    if [a.arg for a in fn.args.args] != ['slice_profile']:
        raise Unsupported('_find_width arguments')
    env = dict(_shape_env(), max_shape=V('Z', 'mx'))
    env[fn.args.args[0].arg] = V('Prof')
    lets = []
    body = _strip_doc(fn.body)
    for s in body[:-1]:
        if not (isinstance(s, ast.Assign) and len(s.targets) == 1 and isinstance(s.targets[0], ast.Name)):
            raise Unsupported(f'_find_width: statement line {s.lineno}')
        try:
            v = ev(s.value, env)
        except NotSymbolic as ex:
            raise Unsupported(f'_find_width line {s.lineno}: {ex}') from None
        if v.kind in ('ZL', 'QL', 'BL', 'Z', 'Q'):
            name = f'v{len(lets)}'
            lets.append((name, v.term))
            kw = {k: getattr(v, k) for k in ('lo', 'hi') if hasattr(v, k)}
            env[s.targets[0].id] = V(v.kind, name, **kw)
        else:
            env[s.targets[0].id] = v
    ret = body[-1]
    if not isinstance(ret, ast.Return):
        raise Unsupported('_find_width does not end with return')
    try:
        r = ev(ret.value, env)
    except NotSymbolic as ex:
        raise Unsupported(f'_find_width return: {ex}') from None
    if r.kind != 'Z':
        raise Unsupported('_find_width does not return an integer')
    return ''.join(f'let {n} := {t} in\n  ' for n, t in lets) + f'{r.term}%Z'


def tr_projection(fn: ast.FunctionDef) -> dict:
    params = [a.arg for a in fn.args.args]
    if params != ['input_shape', 'output_shape', 'rotation', 'offset', 'w', 'slice_function', 'rotation_center']:
        raise Unsupported(f'projection_matrix parameters {params}')
    env = dict(_shape_env())
    # from the (pinned) call site: output_shape = SpatialDimension(1, max_shape, max_shape), offset = (shift, 0, 0), rotation_center = None
    env.update({'output_shape.x': V('Z', 'mx'), 'output_shape.y': V('Z', 'mx'), 'rotation': V('Rot'), 'w': V('Z', 'w'),
                'slice_function': V('Prof'), 'offset': V('Vec3', '(shift, 0, 0)'), 'rotation_center': V('None')})
    out, pins = {}, []

    def bind(target, v):
        if isinstance(target, ast.Name):
            env[target.id] = v
        else:
            raise NotSymbolic('target')

    def assign(s):
        if isinstance(s, ast.Assign) and len(s.targets) == 1:
            t = s.targets[0]
            if isinstance(t, ast.Tuple) and isinstance(s.value, ast.Tuple) and len(t.elts) == len(s.value.elts):
                vals = [ev(x, env) for x in s.value.elts]
                for tt, v in zip(t.elts, vals):
                    bind(tt, v)
                return
            v = ev(s.value, env)
            if v.kind == 'Vec3' and getattr(v, 'rotated', False):
                out['pixel_rot'] = v.term
            elif v.kind == 'Vec3' and getattr(v, 'pixel', False):
                out['pixel'] = v.term
            elif v.kind == 'Ray':
                out['ray'] = v.term
            elif v.kind == 'B' and all(x in v.term for x in ('nz', 'ny', 'nx')):
                out['inside'] = v.term
                v = V('B', '(fst e)')
            elif v.kind == 'Fraction':
                out['fraction'] = v.term
                v = V('Q', 'f')
            elif v.kind == 'Q' and 'relu' in v.term and 'p ' in v.term:
                out['weight'] = v.term
                v = V('Q', '(snd e)')
            elif v.kind == 'Q' and v.term.startswith('(f /'):
                out['norm'] = v.term
                v = V('Norm')
            bind(t, v)
            return
        raise NotSymbolic('statement')

    body = _strip_doc(fn.body)
    canon = canonical(body, set(params))
    for s, text in canon:
        try:
            if isinstance(s, ast.If) and not s.orelse and isinstance(s.test, ast.Compare) and len(s.test.ops) == 1 \
                    and isinstance(s.test.comparators[0], ast.Constant) and s.test.comparators[0].value is None \
                    and isinstance(s.test.left, ast.Name) and s.test.left.id in ('offset', 'rotation_center'):
                is_none = env[s.test.left.id].kind == 'None'
                taken = is_none if isinstance(s.test.ops[0], ast.Is) else (not is_none if isinstance(s.test.ops[0], ast.IsNot) else None)
                if taken is None:
                    raise Unsupported('None test')
                if taken:
                    for b in s.body:
                        assign(b)
                continue
            assign(s)
        except NotSymbolic as ex:
            pins.append((text, str(ex)))
            # names bound by pinned statements that later symbolic statements read
            if isinstance(s, ast.Assign) and isinstance(s.targets[0], ast.Tuple) and len(s.targets[0].elts) == 3 and '.unbind(-1)' in text:
                for tt, nm in zip(s.targets[0].elts, ('dz', 'dy', 'dx')):
                    env[tt.id] = V('Q', nm)
            elif isinstance(s, ast.Assign) and isinstance(s.targets[0], ast.Name) and '.int()' in text and 'einops.rearrange' in text:
                env[s.targets[0].id] = V('Points')
            elif isinstance(s, ast.With):
                for n in _targets(s)[:1]:
                    env[n] = V('Matrix')
    got = [t for t, _ in pins]
    if got != PINS_PM:
        for i, (g, w) in enumerate(zip(got + [''] * len(PINS_PM), PINS_PM + [''] * len(got))):
            if g != w:
                why = dict(pins).get(g, '')
                raise Unsupported(f'projection_matrix: statement outside the translated subset and not the pinned text #{i}: '
                                  f'{g[:160]!r} ({why}); expected {w[:100]!r}')
    need = ('pixel', 'centre', 'pixel_rot', 'ray', 'weight', 'inside', 'fraction', 'norm')
    # the rotation centre is the Vec3 bound to `rotation_center`
    rc = env.get('rotation_center')
    if rc is not None and rc.kind == 'Vec3':
        out['centre'] = rc.term
    missing = [k for k in need if k not in out]
    if missing:
        raise Unsupported(f'projection_matrix: could not identify {missing}')
    return out


def translate() -> str:
    tree = ast.parse(SRC.read_text())
    cls = next((n for n in tree.body if isinstance(n, ast.ClassDef) and n.name == 'SliceProjectionOp'), None)
    if cls is None:
        raise Unsupported('class SliceProjectionOp not found')
    meth = {n.name: n for n in cls.body if isinstance(n, ast.FunctionDef)}
    init = meth['__init__']
    fw = next((n for n in init.body if isinstance(n, ast.FunctionDef) and any(
        isinstance(c, ast.Call) and _fname(c.func) in ('torch.cumsum',) for c in ast.walk(n))), None)
    if fw is None:
        raise Unsupported('_find_width (the nested function using torch.cumsum) not found')
    # max_shape
    ms = next((s for s in init.body if isinstance(s, ast.Assign) and isinstance(s.targets[0], ast.Name) and s.targets[0].id == 'max_shape'), None)
    if ms is None:
        raise Unsupported('max_shape assignment not found')
    try:
        msv = ev(ms.value, _shape_env())
    except NotSymbolic as ex:
        raise Unsupported(f'max_shape: {ex}') from None
    init_text = [ast.unparse(s) for s in init.body]
    for pin in PINS_INIT:
        pin_l = pin.replace('_find_width', fw.name)
        if pin_l not in init_text:
            raise Unsupported(f'__init__: pinned statement not found: {pin[:90]}')
    n_grid = check_grid_pins()
    width = tr_find_width(fw)
    pm = tr_projection(meth['projection_matrix'])
    pixel_rot = pm['pixel_rot']
    return f'''(* GENERATED on every run by harness/translate/sliceproj.py from {SRC} -- do not edit *)
From MrVerif Require Import Base.Prelude Model.SliceProj.
From Coq Require Import QArith Qround Qabs Qminmax Lia.
Local Open Scope Q_scope.
Definition gen_available := true.
Definition gen_pinned_statements := {len(PINS_PM) + len(PINS_INIT) + n_grid}%nat.

Definition arange (a b : Z) : list Z := map (fun i => (i + a)%Z) (zrange (b - a)).       (* torch.arange(a, b) *)
Definition veq (a b : vec3) : Prop :=
  match a, b with (a0, a1, a2), (b0, b1, b2) => a0 == b0 /\\ a1 == b1 /\\ a2 == b2 end.

Definition gen_max_shape (nz ny nx : Z) : Z := {msv.term}%Z.

Definition gen_find_width (nz ny nx mx : Z) (p : Q -> Q) : Z :=
  {width}.

Definition gen_pixel (nz ny nx mx : Z) (shift : Q) (r c : Z) : vec3 := {pm['pixel']}.
Definition gen_centre (nz ny nx : Z) : vec3 := {pm['centre']}.
Definition gen_pixel_rot (M : mat3) (nz ny nx mx : Z) (shift : Q) (r c : Z) : vec3 := {pixel_rot}.
Definition gen_ray_ks (w : Z) : list Z := {pm['ray']}.
Definition gen_weight (p : Q -> Q) (dz dy dx : Q) : Q := {pm['weight']}.
Definition gen_inside (nz ny nx z y x : Z) : bool := {pm['inside']}.
Definition gen_fraction (l : list (bool * Q)) : Q := {pm['fraction']}.
Definition gen_norm (f s : Q) : Q := {pm['norm']}.

(* ---- regenerated proof obligations: the code as it is *now* is the model the theorems of Properties/C20.v are about ---- *)
Lemma arange_sym n : arange (- n) (n + 1) = map (fun i => (i - n)%Z) (zrange (2 * n + 1)).
Proof. unfold arange. replace (n + 1 - - n)%Z with (2 * n + 1)%Z by lia. apply map_ext. intros; lia. Qed.

Lemma hd_sym n : (0 <= n)%Z -> hd 0%Z (map (fun i => (i - n)%Z) (zrange (2 * n + 1))) = (- n)%Z.
Proof. intros H. unfold zrange. destruct (Z.to_nat (2 * n + 1)) eqn:E; [lia|]. cbn. lia. Qed.

Lemma gen_max_shape_ok : forall g, gen_max_shape (nz g) (ny g) (nx g) = max_shape g.
Proof. intros. unfold gen_max_shape, max_shape. lia. Qed.

Lemma gen_find_width_ok : forall nz ny nx mx p, (0 <= mx)%Z -> gen_find_width nz ny nx mx p = find_width mx p.
Proof.
  intros nz ny nx mx p H. unfold gen_find_width, find_width. cbv zeta.
  rewrite !arange_sym. rewrite !(hd_sym mx H). reflexivity.
Qed.

Ltac veq_tac := cbn; unfold Z.sub; rewrite ?inject_Z_plus, ?inject_Z_opp, ?inject_Z_mult; repeat split; first [reflexivity | ring | field].

Lemma gen_pixel_ok : forall g r c, veq (gen_pixel (nz g) (ny g) (nx g) (max_shape g) (shift g) r c) (pixel g r c).
Proof. intros. unfold gen_pixel, pixel, half, vadd, veq. veq_tac. Qed.

Lemma gen_centre_ok : forall g, veq (gen_centre (nz g) (ny g) (nx g)) (centre g).
Proof. intros. unfold gen_centre, centre, half, veq. veq_tac. Qed.

Lemma gen_pixel_rot_ok : forall g r c,
  veq (gen_pixel_rot (rot g) (nz g) (ny g) (nx g) (max_shape g) (shift g) r c) (pixel_rot g r c).
Proof.
  intros. unfold gen_pixel_rot, pixel_rot, pixel, centre, half. destruct (rot g) as [[r0 r1] r2].
  destruct r0 as [[? ?] ?], r1 as [[? ?] ?], r2 as [[? ?] ?]. unfold veq, vadd, vsub, mv, dot3, Z.sub.
  rewrite ?inject_Z_plus, ?inject_Z_opp, ?inject_Z_mult. repeat split; first [reflexivity | ring | field].
Qed.

Lemma gen_ray_ks_ok : forall w, gen_ray_ks w = ray_ks w.
Proof. intros. unfold gen_ray_ks, ray_ks. apply arange_sym. Qed.

Lemma gen_weight_ok : forall p dz dy dx, gen_weight p dz dy dx = weight_yx (dz, dy, dx) * p dz.
Proof. intros. reflexivity. Qed.

Lemma gen_inside_ok : forall g z y x, gen_inside (nz g) (ny g) (nx g) z y x = inside g (z, y, x).
Proof.
  intros. unfold gen_inside, inside.
  repeat match goal with
         | |- context [(?a <? ?b)%Z] => destruct (Z.ltb_spec a b)
         | |- context [(?a <=? ?b)%Z] => destruct (Z.leb_spec a b)
         end; cbn; try reflexivity; lia.
Qed.

Lemma count_map {{A B}} (h : A -> B) (f : B -> bool) l : count f (map h l) = count (fun a => f (h a)) l.
Proof. unfold count. f_equal. induction l as [|a l IH]; cbn; [reflexivity|]. destruct (f (h a)); cbn; rewrite IH; reflexivity. Qed.

Lemma gen_fraction_ok : forall g pr,
  gen_fraction (map (fun pt => (inside g pt, weight g pr pt)) (cands g pr)) = fraction_in_view g pr.
Proof. intros. unfold gen_fraction, fraction_in_view. rewrite !count_map. reflexivity. Qed.

Lemma gen_norm_ok : forall f s, gen_norm f s = f / (s + eps).
Proof. intros. reflexivity. Qed.
'''


def write(out: Path) -> tuple[bool, str]:
    try:
        out.write_text(translate())
        return True, ''
    except (Unsupported, KeyError, SyntaxError, StopIteration) as e:
        why = str(e).replace('*)', '* )')
        out.write_text(f'(* GENERATED: translator failed closed: {why} *)\nDefinition gen_available := false.\n')
        return False, str(e)


if __name__ == '__main__':
    if len(sys.argv) > 1 and sys.argv[1] == '--pins':   # print the canonical text of the non-symbolic statements
        tree = ast.parse(SRC.read_text())
        cls = next(n for n in tree.body if isinstance(n, ast.ClassDef) and n.name == 'SliceProjectionOp')
        pmf = next(n for n in cls.body if isinstance(n, ast.FunctionDef) and n.name == 'projection_matrix')
        for s, t in canonical(_strip_doc(pmf.body), {a.arg for a in pmf.args.args}):
            print(repr(t))
    else:
        print(translate())
