"""T-F: fail-closed ast translator for the combinator classes of src/mrpro/operators/LinearOperator.py
-> coq/Gen/linop_gen.v

What is translated (each a single `return <expr>` possibly preceded by `conj = ...` / `factor = ...` assignments and, for
ProductRight.gram, the isinstance/numel branch structure):
  LinearOperatorComposition.adjoint / .gram, LinearOperatorSum.adjoint, LinearOperatorElementwiseProductRight.adjoint / .gram,
  LinearOperatorElementwiseProductLeft.adjoint / .gram, AdjointLinearOperator.forward / .adjoint / .H, LinearOperator.gram (default)
Expression subset: self._operator / _operator1 / _operator2, self._scalar, x, conj, factor, `.adjoint(e)`, `.forward(e)`, `.H`, `.gram`,
`a @ b`, `a * b`, `*e` (star-args of a 1-tuple), `e[0]`, 1-tuples, `.conj()` / `.conjugate()`,
reduce(operator.add, (op.adjoint(x)[0] for op in self._operators)).
The regenerated obligations state that each method computes what the Coq models (Model/OpAlg.v, Model/Algebra.v) say it does.
"""
import ast
import os
from pathlib import Path

SRC = Path(os.environ.get('VERIF_REPO', '/repo')) / 'src/mrpro/operators/LinearOperator.py'


class Unsupported(Exception):
    pass


def _cls(tree, name):
    for n in tree.body:
        if isinstance(n, ast.ClassDef) and n.name == name:
            return n
    raise Unsupported(f'class {name} not found')


def _meth(cls, name):
    for n in cls.body:
        if isinstance(n, ast.FunctionDef) and n.name == name:
            return n
    raise Unsupported(f'{cls.name}.{name} not found')


def _body(fn):
    return [s for s in fn.body if not (isinstance(s, ast.Expr) and isinstance(s.value, ast.Constant))]


class Tr:
    """translate expressions; two sorts of values: V (vector, Gallina `nat -> R`) and O (operator)"""

    def __init__(self, ops, scalar=None, arg=None, mode='vec'):
        self.ops, self.scalar, self.arg, self.mode = ops, scalar, arg, mode
        self.env = {}

    def op(self, e):
        """operator-valued expression -> Gallina (linop in vec mode, bop in gram mode)"""
        if isinstance(e, ast.Attribute) and isinstance(e.value, ast.Name) and e.value.id == 'self' and e.attr in self.ops:
            return self.ops[e.attr]
        if isinstance(e, ast.Name) and e.id == 'self' and 'self' in self.ops:
            return self.ops['self']
        if self.mode == 'gram':
            if isinstance(e, ast.Attribute) and e.attr == 'H':
                return f'(b_H R {self.op(e.value)})'
            if isinstance(e, ast.Attribute) and e.attr == 'gram':
                return f'(b_gram R eq0 eq1 {self.op(e.value)})'
            if isinstance(e, ast.BinOp) and isinstance(e.op, ast.MatMult):
                return f'(b_matmul R {self.op(e.left)} {self.op(e.right)})'
            if isinstance(e, ast.BinOp) and isinstance(e.op, ast.Mult):
                if self.is_scalar(e.left):
                    return f'(b_mulr R eq0 eq1 {self.sc(e.left)} {self.op(e.right)})'
                if self.is_scalar(e.right):
                    return f'(b_mull R eq0 eq1 {self.op(e.left)} {self.sc(e.right)})'
        raise Unsupported(f'operator expression {ast.dump(e)[:90]} line {getattr(e, "lineno", "?")}')

    def is_scalar(self, e):
        try:
            self.sc(e)
            return True
        except Unsupported:
            return False

    def sc(self, e):
        """scalar-valued expression in gram mode -> Gallina scal"""
        if isinstance(e, ast.Attribute) and isinstance(e.value, ast.Name) and e.value.id == 'self' and e.attr == '_scalar':
            return 's'
        if isinstance(e, ast.Name) and e.id in self.env:
            return self.env[e.id]
        if isinstance(e, ast.Call) and isinstance(e.func, ast.Attribute) and e.func.attr in ('conj', 'conjugate') and not e.args:
            return f'(sconj R {self.sc(e.func.value)})'
        if isinstance(e, ast.BinOp) and isinstance(e.op, ast.Mult):
            a, b = self.sc(e.left), self.sc(e.right)
            if a == f'(sconj R {b})':
                return f'(sabs2 R {b})'
        if isinstance(e, ast.IfExp):   # tensor.conj() vs python_number.conjugate(): the same scalar
            a, b = self.sc(e.body), self.sc(e.orelse)
            if a == b:
                return a
        raise Unsupported(f'scalar expression {ast.dump(e)[:90]}')

    def vec(self, e):
        """vector-valued expression -> Gallina `nat -> R`"""
        if isinstance(e, ast.Name) and e.id == self.arg:
            return 'y'
        if isinstance(e, ast.Name) and e.id in self.env:
            return self.env[e.id]
        if isinstance(e, ast.Tuple) and len(e.elts) == 1:
            return self.vec(e.elts[0])
        if isinstance(e, ast.Starred):
            return self.vec(e.value)
        if isinstance(e, ast.Subscript) and isinstance(e.slice, ast.Constant) and e.slice.value == 0:
            return self.vec(e.value)
        if isinstance(e, ast.Call) and isinstance(e.func, ast.Attribute) and e.func.attr in ('adjoint', 'forward') and len(e.args) == 1:
            proj = 'adj' if e.func.attr == 'adjoint' else 'fwd'
            return f'({proj} {self.op(e.func.value)} {self.vec(e.args[0])})'
        if isinstance(e, ast.BinOp) and isinstance(e.op, ast.Mult):
            return f'(fun i => kmul ({self.vec(e.left)} i) ({self.vec(e.right)} i))'
        if isinstance(e, ast.Attribute) and isinstance(e.value, ast.Name) and e.value.id == 'self' and e.attr == '_scalar':
            return 's'
        if isinstance(e, ast.Call) and isinstance(e.func, ast.Attribute) and e.func.attr in ('conj', 'conjugate') and not e.args:
            return f'(fun i => kconj ({self.vec(e.func.value)} i))'
        # conj = self._scalar.conj() if isinstance(self._scalar, torch.Tensor) else self._scalar.conjugate(): both branches are conj(s)
        if isinstance(e, ast.IfExp):
            a, b = self.vec(e.body), self.vec(e.orelse)
            if a == b:
                return a
        # reduce(operator.add, (op.adjoint(x)[0] for op in self._operators))
        if (isinstance(e, ast.Call) and getattr(e.func, 'id', None) == 'reduce' and len(e.args) == 2
                and isinstance(e.args[0], ast.Attribute) and e.args[0].attr == 'add' and isinstance(e.args[1], ast.GeneratorExp)):
            gen = e.args[1]
            if (len(gen.generators) == 1 and isinstance(gen.generators[0].iter, ast.Attribute) and gen.generators[0].iter.attr == '_operators'
                    and isinstance(gen.generators[0].target, ast.Name) and not gen.generators[0].ifs):
                var = gen.generators[0].target.id
                sub = Tr({**self.ops}, self.scalar, self.arg, self.mode)
                sub.env = dict(self.env)
                terms = []
                for opname in ('A', 'B'):
                    sub.ops_var = opname
                    old = sub.op

                    def op2(ex, _old=old, _n=opname):
                        if isinstance(ex, ast.Name) and ex.id == var:
                            return _n
                        return _old(ex)
                    sub.op = op2
                    terms.append(sub.vec(gen.elt))
                    sub.op = old
                return f'(fun j => kadd ({terms[0]} j) ({terms[1]} j))'
        raise Unsupported(f'vector expression {ast.dump(e)[:90]} line {getattr(e, "lineno", "?")}')


def _simple(fn, tr, kind):
    """assignments then a single return"""
    stmts = _body(fn)
    for s in stmts[:-1]:
        if isinstance(s, ast.Assign) and len(s.targets) == 1 and isinstance(s.targets[0], ast.Name):
            tr.env[s.targets[0].id] = tr.vec(s.value) if kind == 'vec' else tr.sc(s.value)
        elif isinstance(s, ast.AnnAssign) and isinstance(s.target, ast.Name) and s.value is not None:
            tr.env[s.target.id] = tr.vec(s.value) if kind == 'vec' else tr.sc(s.value)
        else:
            raise Unsupported(f'{fn.name}: statement line {s.lineno}')
    r = stmts[-1]
    if not isinstance(r, ast.Return):
        raise Unsupported(f'{fn.name}: last statement is not a return')
    return tr.vec(r.value) if kind == 'vec' else tr.op(r.value)


def _prodr_gram(fn):
    """if isinstance(self._scalar, Tensor): factor = conj*scalar; if numel > 1: return H @ (factor * op)  else: factor = ...; return factor * op.gram"""
    stmts = _body(fn)
    if not (len(stmts) == 2 and isinstance(stmts[0], ast.If) and isinstance(stmts[1], ast.Return)):
        raise Unsupported('ProductRight.gram: unexpected structure')
    top = stmts[0]
    t = top.test
    if not (isinstance(t, ast.Call) and getattr(t.func, 'id', None) == 'isinstance'):
        raise Unsupported('ProductRight.gram: first test is not isinstance(...)')
    tr = Tr({'_operator': 'o'}, mode='gram')
    # tensor branch
    inner_ret = None
    for s in top.body:
        if isinstance(s, (ast.Assign, ast.AnnAssign)):
            tgt = s.targets[0] if isinstance(s, ast.Assign) else s.target
            tr.env[tgt.id] = tr.sc(s.value)
        elif isinstance(s, ast.If):
            c = s.test
            ok = (isinstance(c, ast.Compare) and isinstance(c.ops[0], ast.Gt) and isinstance(c.comparators[0], ast.Constant) and c.comparators[0].value == 1
                  and isinstance(c.left, ast.Call) and getattr(c.left.func, 'attr', None) == 'numel')
            if not ok or len(s.body) != 1 or not isinstance(s.body[0], ast.Return) or s.orelse:
                raise Unsupported('ProductRight.gram: numel() > 1 branch not recognised')
            inner_ret = tr.op(s.body[0].value)
        else:
            raise Unsupported('ProductRight.gram: tensor branch')
    factor_tensor = tr.env.get('factor')
    tr2 = Tr({'_operator': 'o'}, mode='gram')
    for s in top.orelse:
        tgt = s.targets[0] if isinstance(s, ast.Assign) else s.target
        tr2.env[tgt.id] = tr2.sc(s.value)
    factor_py = tr2.env.get('factor')
    if inner_ret is None or factor_tensor is None or factor_py is None or factor_tensor != factor_py:
        raise Unsupported('ProductRight.gram: factor definitions differ between the branches')
    tr.env['factor'] = factor_tensor
    final = tr.op(stmts[1].value)
    return f'match s with STN _ => {inner_ret} | _ => {final} end'


def translate() -> str:
    tree = ast.parse(SRC.read_text())
    comp, summ = _cls(tree, 'LinearOperatorComposition'), _cls(tree, 'LinearOperatorSum')
    pr, pl = _cls(tree, 'LinearOperatorElementwiseProductRight'), _cls(tree, 'LinearOperatorElementwiseProductLeft')
    adjc, base = _cls(tree, 'AdjointLinearOperator'), _cls(tree, 'LinearOperator')
    g = {}
    g['comp_adj'] = _simple(_meth(comp, 'adjoint'), Tr({'_operator1': 'A', '_operator2': 'B'}, arg='x'), 'vec')
    g['sum_adj'] = _simple(_meth(summ, 'adjoint'), Tr({}, arg='x'), 'vec')
    g['prodr_adj'] = _simple(_meth(pr, 'adjoint'), Tr({'_operator': 'A'}, arg='x'), 'vec')
    g['prodl_adj'] = _simple(_meth(pl, 'adjoint'), Tr({'_operator': 'A'}, arg='x'), 'vec')
    g['adjop_fwd'] = _simple(_meth(adjc, 'forward'), Tr({'_operator': 'A'}, arg='x'), 'vec')
    g['adjop_adj'] = _simple(_meth(adjc, 'adjoint'), Tr({'_operator': 'A'}, arg='x'), 'vec')
    g['comp_gram'] = _simple(_meth(comp, 'gram'), Tr({'_operator1': 'o1', '_operator2': 'o2'}, mode='gram'), 'op')
    g['prodl_gram'] = _simple(_meth(pl, 'gram'), Tr({'_operator': 'o'}, mode='gram'), 'op')
    g['prodr_gram'] = _prodr_gram(_meth(pr, 'gram'))
    g['default_gram'] = _simple(_meth(base, 'gram'), Tr({'self': 'a'}, mode='gram'), 'op')
    hm = _body(_meth(adjc, 'H'))
    if not (len(hm) == 1 and isinstance(hm[0], ast.Return) and isinstance(hm[0].value, ast.Attribute) and hm[0].value.attr == '_operator'):
        raise Unsupported('AdjointLinearOperator.H does not return the original operator')
    return f'''(* GENERATED on every run by harness/translate/linop.py from {SRC} -- do not edit *)
From MrVerif Require Import Base.Prelude Base.StarRing Base.Sums Model.OpAlg Model.Algebra.
Definition gen_available := true.
Section Gen.
  Variable R : StarRing.
  Variables (eq0 eq1 : R -> bool).
  Add Ring RrGen : (k_ring R).
  Notation vec := (nat -> R).
  (* adjoint methods, as the source computes them *)
  Definition gen_comp_adj (A B : linop R) (y : vec) : vec := {g['comp_adj']}.
  Definition gen_sum_adj (A B : linop R) (y : vec) : vec := {g['sum_adj']}.
  Definition gen_prodr_adj (s : vec) (A : linop R) (y : vec) : vec := {g['prodr_adj']}.
  Definition gen_prodl_adj (A : linop R) (s : vec) (y : vec) : vec := {g['prodl_adj']}.
  Definition gen_adjop_fwd (A : linop R) (y : vec) : vec := {g['adjop_fwd']}.
  Definition gen_adjop_adj (A : linop R) (y : vec) : vec := {g['adjop_adj']}.
  (* gram properties, as the source builds them *)
  Definition gen_comp_gram (o1 o2 : bop R) : bop R := {g['comp_gram']}.
  Definition gen_prodl_gram (o : bop R) (s : scal R) : bop R := {g['prodl_gram']}.
  Definition gen_prodr_gram (s : scal R) (o : bop R) : bop R := {g['prodr_gram']}.
  Definition gen_default_gram (a : bop R) : bop R := {g['default_gram']}.

  (* regenerated obligations: the code as it is now computes what the models say *)
  Lemma gen_comp_adj_ok A B y j : gen_comp_adj A B y j = adj (comp A B) y j.
  Proof. reflexivity. Qed.
  Lemma gen_sum_adj_ok A B y j : gen_sum_adj A B y j = adj (lsum A B) y j.
  Proof. unfold gen_sum_adj. cbn [lsum adj]. try ring. Qed.
  Lemma gen_prodr_adj_ok s A y j : ext_map (ran A) (dom A) (adj A) -> (j < dom A)%nat -> gen_prodr_adj s A y j = adj (prod_right s A) y j.
  Proof. intros E Hj. unfold gen_prodr_adj. cbn [prod_right adj]. apply E; [|exact Hj]. intros i _. ring. Qed.
  Lemma gen_prodl_adj_ok A s y j : gen_prodl_adj A s y j = adj (prod_left A s) y j.
  Proof. unfold gen_prodl_adj. cbn [prod_left adj]. ring. Qed.
  Lemma gen_adjop_ok A y j : gen_adjop_fwd A y j = fwd (adjop A) y j /\\ gen_adjop_adj A y j = adj (adjop A) y j.
  Proof. split; reflexivity. Qed.
  Lemma gen_comp_gram_ok o1 o2 : gen_comp_gram o1 o2 = b_gram R eq0 eq1 (BComp R o1 o2).
  Proof. reflexivity. Qed.
  Lemma gen_prodl_gram_ok o s : gen_prodl_gram o s = b_gram R eq0 eq1 (BProdL R o s).
  Proof. reflexivity. Qed.
  Lemma gen_prodr_gram_ok s o : gen_prodr_gram s o = b_gram R eq0 eq1 (BProdR R s o).
  Proof. destruct s; reflexivity. Qed.
  Lemma gen_default_gram_ok (A : linop R) : gen_default_gram (BLeaf R A) = b_gram R eq0 eq1 (BLeaf R A).
  Proof. reflexivity. Qed.
End Gen.
'''


N_OBLIGATIONS = 9


def write(out: Path):
    try:
        out.write_text(translate())
        return True, ''
    except (Unsupported, KeyError, SyntaxError, AttributeError) as e:
        out.write_text(f'(* GENERATED: translator failed closed: {e} *)\nDefinition gen_available := false.\n')
        return False, str(e)
