"""T-G: fail-closed ast translator for the index arithmetic of the FFT path -> coq/Gen/fourier_gen.v

From src/mrpro/operators/CartesianSamplingOp.py (__init__):
   k?_idx = ktraj_tensor[-i, ...].round().to(dtype=torch.int64) + sorted_grid_shape.? // 2      (on-grid branch of each axis)
   kidx   = kz_idx * sorted_grid_shape.y * sorted_grid_shape.x + ky_idx * sorted_grid_shape.x + kx_idx
   inside_encoding_matrix = ((kx_idx >= 0) & (kx_idx < sorted_grid_shape.x)) & ... (three axes)
From src/mrpro/operators/FastFourierOp.py (forward / adjoint):
   the nesting  OUTERshift( fftn | ifftn ( INNERshift( pad(x) ), norm='ortho' ) )  and where the ZeroPadOp is applied.
Rounding is recorded as a flag: an index computed without .round() truncates, which differs from rounding for trajectories that are
on the grid only within the detection tolerance, so the obligation requires the flag to be set.
Obligations: gen_cart_index = Model.Exec.cart_index and gen_fwd_exp / gen_adj_exp = Model.Fourier.fft_shifted_exp / ifft_shifted_exp.
"""
import ast
import os
from pathlib import Path

ROOT = Path(os.environ.get('VERIF_REPO', '/repo')) / 'src/mrpro/operators'


class Unsupported(Exception):
    pass


AX = {'x': 'nx', 'y': 'ny', 'z': 'nz'}


def zexpr(e, env):
    if isinstance(e, ast.Name):
        if e.id in env:
            return env[e.id]
        raise Unsupported(f'name {e.id}')
    if isinstance(e, ast.Constant) and isinstance(e.value, int):
        return f'({e.value})'
    if isinstance(e, ast.Attribute) and isinstance(e.value, ast.Name) and e.value.id == 'sorted_grid_shape' and e.attr in AX:
        return AX[e.attr]
    if isinstance(e, ast.BinOp):
        sym = {ast.Add: '+', ast.Sub: '-', ast.Mult: '*', ast.FloorDiv: '/'}.get(type(e.op))
        if sym:
            return f'({zexpr(e.left, env)} {sym} {zexpr(e.right, env)})'
    raise Unsupported(f'integer expression {ast.dump(e)[:90]} line {getattr(e, "lineno", "?")}')


def ztest(t, env):
    if isinstance(t, ast.BinOp) and isinstance(t.op, ast.BitAnd):
        return f'({ztest(t.left, env)} && {ztest(t.right, env)})'
    if isinstance(t, ast.Compare) and len(t.ops) == 1:
        sym = {ast.Lt: '<?', ast.LtE: '<=?', ast.Gt: '>?', ast.GtE: '>=?'}.get(type(t.ops[0]))
        if sym:
            return f'({zexpr(t.left, env)} {sym} {zexpr(t.comparators[0], env)})'
    raise Unsupported(f'test {ast.dump(t)[:90]}')


def _ongrid_index(value, axis_letter):
    """ktraj_tensor[-i, ...].round().to(dtype=torch.int64) + sorted_grid_shape.? // 2   ->  (k + n/2, rounded?)"""
    if not (isinstance(value, ast.BinOp) and isinstance(value.op, ast.Add)):
        raise Unsupported('index is not `position + offset`')
    pos, off = value.left, value.right
    rounded = False
    cur = pos
    # strip .to(...) and .round()
    while isinstance(cur, ast.Call) and isinstance(cur.func, ast.Attribute):
        if cur.func.attr == 'round':
            rounded = True
        elif cur.func.attr not in ('to', 'long', 'int'):
            raise Unsupported(f'call .{cur.func.attr}() in the index expression')
        cur = cur.func.value
    if not (isinstance(cur, ast.Subscript) and getattr(cur.value, 'id', None) == 'ktraj_tensor'):
        raise Unsupported('index does not read ktraj_tensor')
    sl = cur.slice
    first = sl.elts[0] if isinstance(sl, ast.Tuple) else sl
    comp = ast.literal_eval(first)
    want = {'x': -1, 'y': -2, 'z': -3}[axis_letter]
    if comp != want:
        raise Unsupported(f'k{axis_letter}_idx reads trajectory component {comp}, expected {want}')
    return f'(k{axis_letter} + {zexpr(off, {})})', rounded


def translate() -> str:
    tree = ast.parse((ROOT / 'CartesianSamplingOp.py').read_text())
    cls = [n for n in tree.body if isinstance(n, ast.ClassDef) and n.name == 'CartesianSamplingOp'][0]
    init = [n for n in cls.body if isinstance(n, ast.FunctionDef) and n.name == '__init__'][0]
    idx, rounded = {}, {}
    kidx_expr = inside = None
    for node in ast.walk(init):
        if isinstance(node, ast.If) and isinstance(node.test, ast.Compare):
            for s in node.body:
                if isinstance(s, ast.Assign) and isinstance(s.targets[0], ast.Name) and s.targets[0].id in ('kx_idx', 'ky_idx', 'kz_idx'):
                    a = s.targets[0].id[1]
                    idx[a], rounded[a] = _ongrid_index(s.value, a)
        if isinstance(node, ast.Assign) and isinstance(node.targets[0], ast.Name):
            if node.targets[0].id == 'kidx' and kidx_expr is None:
                kidx_expr = node.value
            if node.targets[0].id == 'inside_encoding_matrix' and inside is None:
                inside = node.value
    if set(idx) != {'x', 'y', 'z'} or kidx_expr is None or inside is None:
        raise Unsupported('index assignments not found')
    env = {'kx_idx': 'ix', 'ky_idx': 'iy', 'kz_idx': 'iz'}
    flat = zexpr(kidx_expr, env)
    test = ztest(inside, env)
    all_rounded = all(rounded.values())

    # ---- FastFourierOp: nesting of shifts around fftn / ifftn ----
    ftree = ast.parse((ROOT / 'FastFourierOp.py').read_text())
    fcls = [n for n in ftree.body if isinstance(n, ast.ClassDef) and n.name == 'FastFourierOp'][0]

    def fft_chain(fn_name):
        fn = [n for n in fcls.body if isinstance(n, ast.FunctionDef) and n.name == fn_name][0]
        calls = []
        for n in ast.walk(fn):
            if isinstance(n, ast.Call) and isinstance(n.func, ast.Attribute) and n.func.attr in ('fftshift', 'ifftshift', 'fftn', 'ifftn'):
                calls.append(n)
        # outermost first: a call is outer to another if the other is among its descendants
        def depth(c):
            return sum(1 for o in calls if o is not c and any(d is c for d in ast.walk(o)))
        calls.sort(key=depth)
        names = [c.func.attr for c in calls]
        if len(names) != 3 or names[1] not in ('fftn', 'ifftn') or names[0] not in ('fftshift', 'ifftshift') or names[2] not in ('fftshift', 'ifftshift'):
            raise Unsupported(f'{fn_name}: expected shift(fft(shift(.))), found {names}')
        norm = [kw.value.value for kw in calls[1].keywords if kw.arg == 'norm' and isinstance(kw.value, ast.Constant)]
        if norm != ['ortho']:
            raise Unsupported(f"{fn_name}: norm is not 'ortho'")
        dims = []
        for c in calls:
            d = [ast.dump(kw.value) for kw in c.keywords if kw.arg == 'dim']
            dims.append(d[0] if d else None)
        if len(set(dims)) != 1 or dims[0] is None:
            raise Unsupported(f'{fn_name}: the three calls do not use the same dim argument')
        # where is the pad op applied?  forward: innermost argument is self._pad_op(x); adjoint: the whole chain is the argument of _pad_op.adjoint
        src = ast.unparse(fn)
        pad_inner = '_pad_op(x)' in ast.unparse(calls[2]) if fn_name == 'forward' else None
        pad_outer = '_pad_op.adjoint(' in src if fn_name == 'adjoint' else None
        return names, pad_inner, pad_outer
    fw, fw_pad_inner, _ = fft_chain('forward')
    bw, _, bw_pad_outer = fft_chain('adjoint')
    if not fw_pad_inner or not bw_pad_outer:
        raise Unsupported('ZeroPadOp is not applied before the forward FFT / after the adjoint FFT')

    def src_fun(name):   # output position <- which transform bin / input position
        return 'fftshift_src' if name == 'fftshift' else 'ifftshift_src'

    def dst_fun(name):   # where input sample r sits after the shift: shift(x)[i] = x[src(i)]  =>  dst = inverse of src
        return 'ifftshift_dst' if name == 'ifftshift' else 'fftshift_dst'
    return f'''(* GENERATED on every run by harness/translate/fourier.py from {ROOT}/CartesianSamplingOp.py and FastFourierOp.py -- do not edit *)
From MrVerif Require Import Base.Prelude Base.StarRing Model.OpAlg Model.ElemOps Model.Exec Model.ZeroPad Model.Fourier.
Definition gen_available := true.
(* CartesianSamplingOp: flat index of an on-grid sample with (rounded) integer position (kz, ky, kx) in a grid (nz, ny, nx) *)
Definition gen_rounds_positions : bool := {"true" if all_rounded else "false"}.
Definition gen_cart_index (nz ny nx : Z) (k : Z * Z * Z) : option nat :=
  let '(kz, ky, kx) := k in
  let iz := {idx['z']} in let iy := {idx['y']} in let ix := {idx['x']} in
  if {test} then Some (Z.to_nat {flat}) else None.
Lemma gen_cart_index_ok : forall nz ny nx k, gen_cart_index nz ny nx k = cart_index nz ny nx k.
Proof.
  intros nz ny nx [[kz ky] kx]. unfold gen_cart_index, cart_index.
  repeat match goal with |- context [if ?b then _ else _] => destruct b eqn:? end; try reflexivity; try (f_equal; f_equal; ring); exfalso; lia.
Qed.
Lemma gen_rounds_positions_ok : gen_rounds_positions = true.
Proof. reflexivity. Qed.

(* FastFourierOp: fftshift(x)[i] = x[(i - N/2) mod N], ifftshift(x)[i] = x[(i + N/2) mod N]; a sample at input position r sits, after the
   inner shift, at the position p with src(p) = r *)
Definition fftshift_dst (N r : Z) : Z := (r + N / 2) mod N.
Definition gen_fwd_exp (N k' r : Z) : Z := dft_exp N ({src_fun(fw[0])} N k') ({dst_fun(fw[2])} N r).
Definition gen_adj_exp (N r' k' : Z) : Z := dft_exp N ({src_fun(bw[0])} N r') ({dst_fun(bw[2])} N k').
Definition gen_fwd_is_fftn : bool := {"true" if fw[1] == "fftn" else "false"}.
Definition gen_adj_is_ifftn : bool := {"true" if bw[1] == "ifftn" else "false"}.
Lemma gen_fwd_exp_ok : forall N k' r, gen_fwd_exp N k' r = fft_shifted_exp N k' r.
Proof. reflexivity. Qed.
Lemma gen_adj_exp_ok : forall N r' k', gen_adj_exp N r' k' = ifft_shifted_exp N r' k'.
Proof. reflexivity. Qed.
Lemma gen_directions_ok : gen_fwd_is_fftn = true /\\ gen_adj_is_ifftn = true.
Proof. split; reflexivity. Qed.
'''


N_OBLIGATIONS = 5


def write(out: Path):
    try:
        out.write_text(translate())
        return True, ''
    except (Unsupported, KeyError, SyntaxError, AttributeError, IndexError, ValueError) as e:
        out.write_text(f'(* GENERATED: translator failed closed: {e} *)\nDefinition gen_available := false.\n')
        return False, str(e)
