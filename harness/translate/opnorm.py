"""T-PN: fail-closed ast translator  LinearOperator.operator_norm (src/mrpro/operators/LinearOperator.py)  ->  coq/Gen/opnorm_gen.v

The statements of operator_norm are executed symbolically (real case, one problem) into the literal reading of Model/PowerIterLit.v:
   gen_lit_init x0        the normalised start vector
   gen_lit_step v old     one pass of the loop body: estimate, stopping test, next vector
Obligations: gen_lit_init = lit_init, gen_lit_step = lit_step (both by reflexivity: same term), and the facts read off the text: the two
ValueErrors (max_iterations < 1, a zero start vector), op_norm_old starts at 0, op_norm_old = op_norm and callback(op_norm) after the update,
`return op_norm`.  Proofs/PowerIterLitProofs.v (lit_refines) ties the literal reading to Model/PowerIter.v, about which the C19 theorems are.

Subset:  torch.linalg.vector_norm(x, dim=dim, keepdim=True) -> norm2 x;  x / s -> vscaleR (/ s) x;  (w,) = self.adjoint(*self(v)) -> G v;
x.real * y.real [+= x.imag * y.imag under `if x.is_complex() and y.is_complex()`] then .sum(dim, keepdim=True).sqrt() -> sqrt (dotR x y);
torch.where(s > 0, a, b) -> if Rlt_dec 0 s then a else b;  the stopping test is compared textually and becomes the abstract `close est old`.
"""
import ast
import os
from pathlib import Path

SRC = Path(os.environ.get('VERIF_REPO', '/repo')) / 'src/mrpro/operators/LinearOperator.py'
N_OBLIGATIONS = 3
VEC, SC, PROD = 'vec', 'scalar', 'prod'


class Unsupported(Exception):
    pass


def _kw(call):
    return {k.arg: ast.unparse(k.value) for k in call.keywords}


def expr(e, env):
    if isinstance(e, ast.Name):
        if e.id not in env:
            raise Unsupported(f'unknown name {e.id} (line {e.lineno})')
        return env[e.id]
    if isinstance(e, ast.Call) and ast.unparse(e.func) == 'torch.linalg.vector_norm':
        if len(e.args) != 1 or _kw(e) != {'dim': 'dim', 'keepdim': 'True'}:
            raise Unsupported(f'vector_norm arguments: {ast.unparse(e)[:80]}')
        t, x = expr(e.args[0], env)
        if t != VEC:
            raise Unsupported('vector_norm of a non-vector')
        return (SC, f'(norm2 {x})')
    if isinstance(e, ast.BinOp) and isinstance(e.op, ast.Div):
        (ta, a), (tb, b) = expr(e.left, env), expr(e.right, env)
        if ta == VEC and tb == SC:
            return (VEC, f'(vscaleR (/ {b}) {a})')
        raise Unsupported(f'division ({ta} / {tb})')
    if isinstance(e, ast.BinOp) and isinstance(e.op, ast.Mult):
        l, r = e.left, e.right
        if isinstance(l, ast.Attribute) and isinstance(r, ast.Attribute) and l.attr == r.attr == 'real':
            (ta, a), (tb, b) = expr(l.value, env), expr(r.value, env)
            if ta == tb == VEC:
                return (PROD, (a, b))
        raise Unsupported(f'product {ast.unparse(e)[:60]}')
    if isinstance(e, ast.Call) and isinstance(e.func, ast.Attribute) and e.func.attr == 'sqrt' and not e.args:
        t, a = expr(e.func.value, env)
        if t != SC:
            raise Unsupported('sqrt of a non-scalar')
        return (SC, f'(sqrt {a})')
    if isinstance(e, ast.Call) and isinstance(e.func, ast.Attribute) and e.func.attr == 'sum':
        if [ast.unparse(a) for a in e.args] != ['dim'] or _kw(e) != {'keepdim': 'True'}:
            raise Unsupported(f'sum arguments: {ast.unparse(e)[:80]}')
        t, p = expr(e.func.value, env)
        if t != PROD:
            raise Unsupported('sum of something else than an elementwise product')
        return (SC, f'(dotR {p[0]} {p[1]})')
    if isinstance(e, ast.Call) and ast.unparse(e.func) == 'torch.where' and len(e.args) == 3 and not e.keywords:
        c, a, b = e.args
        if not (isinstance(c, ast.Compare) and len(c.ops) == 1 and isinstance(c.ops[0], ast.Gt) and isinstance(c.comparators[0], ast.Constant)
                and c.comparators[0].value == 0):
            raise Unsupported(f'where condition {ast.unparse(c)[:60]}')
        ts, s = expr(c.left, env)
        (ta, x), (tb, y) = expr(a, env), expr(b, env)
        if ts != SC or ta != VEC or tb != VEC:
            raise Unsupported('where operands')
        return (VEC, f'(if Rlt_dec 0 {s} then {x} else {y})')
    raise Unsupported(f'expression {ast.unparse(e)[:80]} (line {getattr(e, "lineno", "?")})')


STOP_TEST = ('(absolute_tolerance > 0 or relative_tolerance > 0) and torch.isclose(op_norm, op_norm_old.to(op_norm.dtype), '
             'atol=absolute_tolerance, rtol=relative_tolerance).all()')
IMAG_BLOCK = 'if vector.is_complex() and vector_new.is_complex():\n    product += vector.imag * vector_new.imag'


def translate():
    tree = ast.parse(SRC.read_text())
    lo = [n for n in tree.body if isinstance(n, ast.ClassDef) and n.name == 'LinearOperator'][0]
    fn = [n for n in lo.body if isinstance(n, ast.FunctionDef) and n.name == 'operator_norm'][0]
    if [a.arg for a in fn.args.args] != ['self', 'initial_value', 'dim', 'max_iterations', 'relative_tolerance', 'absolute_tolerance', 'callback']:
        raise Unsupported('signature of operator_norm')
    body = [s for s in fn.body if not (isinstance(s, ast.Expr) and isinstance(s.value, ast.Constant))]
    # ---- errors ----
    s0 = body[0]
    if not (isinstance(s0, ast.If) and ast.unparse(s0.test) == 'max_iterations < 1' and isinstance(s0.body[0], ast.Raise)
            and ast.unparse(s0.body[0].exc.func) == 'ValueError' and not s0.orelse):
        raise Unsupported('`if max_iterations < 1: raise ValueError` not found')
    env = {'initial_value': (VEC, 'x0')}
    s1 = body[1]
    if not (isinstance(s1, ast.Assign) and ast.unparse(s1.targets[0]) == 'norm_initial_value'):
        raise Unsupported('norm_initial_value not computed first')
    env['norm_initial_value'] = expr(s1.value, env)
    s2 = body[2]
    raises = [n for n in ast.walk(s2) if isinstance(n, ast.Raise)]
    if not (isinstance(s2, ast.If) and ast.unparse(s2.test) == 'not (norm_initial_value > 0).all()' and len(raises) == 2
            and all(ast.unparse(r.exc.func) == 'ValueError' for r in raises)):
        raise Unsupported('zero start vector check `if not (norm_initial_value > 0).all(): raise ValueError` not found')
    s3 = body[3]
    if not (isinstance(s3, ast.Assign) and ast.unparse(s3.targets[0]) == 'vector'):
        raise Unsupported('`vector = ...` (normalised start) not found')
    init = expr(s3.value, env)
    if init[0] != VEC:
        raise Unsupported('start vector is not a vector')
    if ast.unparse(body[4]) != 'op_norm_old = torch.zeros(*tuple([1 for _ in range(vector.ndim)]), device=vector.device)':
        raise Unsupported(f'op_norm_old initialisation: {ast.unparse(body[4])[:90]}')
    if ast.unparse(body[5]) != 'dim = tuple(dim) if dim is not None else dim':
        raise Unsupported(f'dim normalisation: {ast.unparse(body[5])[:90]}')
    loop = body[6]
    if not (isinstance(loop, ast.For) and ast.unparse(loop.iter) == 'range(max_iterations)' and not loop.orelse):
        raise Unsupported('loop header')
    if ast.unparse(body[7]) != 'return op_norm' or len(body) != 8:
        raise Unsupported('the function does not end with `return op_norm`')
    # ---- loop body ----
    lenv = {'vector': (VEC, 'v')}
    st = list(loop.body)

    def pop():
        if not st:
            raise Unsupported('loop body ended early')
        return st.pop(0)
    a = pop()
    if ast.unparse(a) != 'vector_new, = self.adjoint(*self(vector))':
        raise Unsupported(f'operator application: {ast.unparse(a)[:80]}')
    lenv['vector_new'] = (VEC, '(G v)')
    a = pop()
    if not (isinstance(a, ast.Assign) and ast.unparse(a.targets[0]) == 'product'):
        raise Unsupported('`product = ...` not found')
    lenv['product'] = expr(a.value, lenv)
    if lenv['product'][0] != PROD or lenv['product'][1] != ('v', '(G v)'):
        raise Unsupported(f'product is not vector.real * vector_new.real: {ast.unparse(a.value)[:60]}')
    a = pop()
    if ast.unparse(a) != IMAG_BLOCK:
        raise Unsupported(f'imaginary part of the product: {ast.unparse(a)[:100]}')
    a = pop()
    if not (isinstance(a, ast.Assign) and ast.unparse(a.targets[0]) == 'op_norm'):
        raise Unsupported('`op_norm = ...` not found')
    est = expr(a.value, lenv)
    if est[0] != SC:
        raise Unsupported('op_norm is not a scalar per problem')
    lenv['op_norm'] = (SC, 'est')
    a = pop()
    if not (isinstance(a, ast.If) and ast.unparse(a.test) == STOP_TEST and len(a.body) == 1 and isinstance(a.body[0], ast.Break) and not a.orelse):
        raise Unsupported(f'stopping test: {ast.unparse(a.test)[:160]}')
    nxt = None
    while st:
        a = pop()
        if isinstance(a, ast.Assign) and isinstance(a.targets[0], ast.Name) and a.targets[0].id == 'op_norm_old':
            if ast.unparse(a.value) != 'op_norm':
                raise Unsupported('op_norm_old is not set to op_norm')
            break
        if not (isinstance(a, ast.Assign) and isinstance(a.targets[0], ast.Name)):
            raise Unsupported(f'statement {ast.unparse(a)[:80]}')
        lenv[a.targets[0].id] = expr(a.value, lenv)
        if a.targets[0].id == 'vector':
            nxt = lenv['vector']
    else:
        raise Unsupported('op_norm_old = op_norm not found')
    if nxt is None or nxt[0] != VEC:
        raise Unsupported('the vector is not updated in the loop body')
    a = pop()
    if ast.unparse(a) != 'if callback is not None:\n    callback(op_norm)' or st:
        raise Unsupported(f'end of the loop body: {ast.unparse(a)[:80]}')
    return f'''(* GENERATED on every run by harness/translate/opnorm.py from {SRC} -- do not edit *)
From Coq Require Import List Reals.
Import ListNotations.
From MrVerif Require Import Model.CG Model.PowerIter Model.PowerIterLit.
Local Open Scope R_scope.
Definition gen_available := true.
Section GenOpNorm.
  Variable G : list R -> list R.
  Variable close : R -> R -> bool.
  Definition gen_lit_init (x0 : list R) : list R := {init[1]}.
  Definition gen_lit_step (v : list R) (old : R) : lit_res :=
    let est := {est[1]} in
    if close est old then LStop est else LNext est {nxt[1]}.
  Lemma gen_lit_init_ok : forall x0, gen_lit_init x0 = lit_init x0.
  Proof. reflexivity. Qed.
  Lemma gen_lit_step_ok : forall v old, gen_lit_step v old = lit_step G close v old.
  Proof. reflexivity. Qed.
  (* read off the text: ValueError for max_iterations < 1 and for a zero start vector; op_norm_old starts at zero and becomes op_norm;
     callback(op_norm) after the update; return op_norm; the complex case adds the product of the imaginary parts (real inner product) *)
  Definition gen_frame_is_model : bool := true.
  Lemma gen_frame_ok : gen_frame_is_model = true.
  Proof. reflexivity. Qed.
End GenOpNorm.
'''


def write(out: Path):
    try:
        out.write_text(translate())
        return True, ''
    except (Unsupported, KeyError, SyntaxError, AttributeError, IndexError, ValueError, TypeError, OSError) as e:
        out.write_text(f'(* GENERATED: translator failed closed: {str(e)[:300]} *)\nDefinition gen_available := false.\n')
        return False, str(e)[:300]
