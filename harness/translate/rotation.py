"""T-D: fail-closed ast translator for the polynomial kernels of src/mrpro/data/Rotation.py -> coq/Gen/rotation_gen.v

Functions: _compose_quaternions_single (Hamilton product incl. torch.linalg.cross), _quaternion_to_matrix,
_axisangle_to_matrix (cos/sin of the angle become two ring variables, F.normalize is read as the identity on a unit axis).
Subset: single assignments of + - * / unary minus / integer literals / .square() / name[i] / name[:3] /
torch.linalg.cross(a, b); tuple unpacking of x.unbind(-1) and of (torch.cos(angle), torch.sin(angle)); a final
torch.stack of 4 or 9 expressions (with *(...) splats), optionally .reshape(..., 3, 3) or einops.rearrange(..., row=3)
(row-major).  _quaternion_to_euler: the a, b, c, d of the two branches of `if symmetric:` as ring expressions, plus a textual pin
(ast.unparse) of the angle formulas (atan2 / hypot, half sum / difference, permutation sign, gimbal test) that Model/Euler.v mirrors.
Everything else raises Unsupported for that function only (gen_available_<fn> := false).
"""
import ast
import os
from pathlib import Path

SRC = Path(os.environ.get('VERIF_REPO', '/repo')) / 'src/mrpro/data/Rotation.py'


class Unsupported(Exception):
    pass


def const(n):
    if isinstance(n, float) and n.is_integer():
        n = int(n)
    if not isinstance(n, int) or isinstance(n, bool) or abs(n) > 16:
        raise Unsupported(f'constant {n!r}')
    if n < 0:
        return f'(kopp {const(-n)})'
    if n == 0:
        return 'k0'
    if n == 1:
        return 'k1'
    return '(kadd ' + const(n - 1) + ' k1)'


class Tr:
    def __init__(self, env, kinds):
        self.env = dict(env)      # python name -> coq term
        self.kinds = dict(kinds)  # python name -> 'scalar' | 'vec' | 'quat'

    def attr_name(self, f):
        parts = []
        while isinstance(f, ast.Attribute):
            parts.append(f.attr)
            f = f.value
        if isinstance(f, ast.Name):
            parts.append(f.id)
        return '.'.join(reversed(parts))

    def expr(self, e):
        """returns (coq term, kind)"""
        if isinstance(e, ast.Name):
            if e.id not in self.env:
                raise Unsupported(f'unknown name {e.id} line {e.lineno}')
            return self.env[e.id], self.kinds[e.id]
        if isinstance(e, ast.Constant):
            return const(e.value), 'scalar'
        if isinstance(e, ast.UnaryOp) and isinstance(e.op, ast.USub):
            t, k = self.expr(e.operand)
            if k != 'scalar':
                raise Unsupported('negation of non-scalar')
            return f'(kopp {t})', 'scalar'
        if isinstance(e, ast.BinOp) and isinstance(e.op, (ast.Add, ast.Sub, ast.Mult)):
            (a, ka), (b, kb) = self.expr(e.left), self.expr(e.right)
            if ka != 'scalar' or kb != 'scalar':
                raise Unsupported(f'arithmetic on non-scalars line {e.lineno}')
            op = {ast.Add: 'kadd', ast.Sub: 'ksub', ast.Mult: 'kmul'}[type(e.op)]
            return f'({op} {a} {b})', 'scalar'
        if isinstance(e, ast.Subscript):
            t, k = self.expr(e.value)
            s = e.slice
            if isinstance(s, ast.Constant) and isinstance(s.value, int):
                acc = {'quat': ['q0', 'q1', 'q2', 'q3'], 'vec': ['v0', 'v1', 'v2']}.get(k)
                if acc is None or not 0 <= s.value < len(acc):
                    raise Unsupported(f'index {s.value} into {k}')
                return f'({acc[s.value]} {t})', 'scalar'
            if (isinstance(s, ast.Slice) and s.lower is None and s.step is None and isinstance(s.upper, ast.Constant)
                    and s.upper.value == 3 and k == 'quat'):
                return f'(qvec R {t})', 'vec'
            raise Unsupported(f'subscript line {e.lineno}')
        if isinstance(e, ast.Call):
            name = self.attr_name(e.func)
            if name == 'torch.linalg.cross' and len(e.args) == 2 and not e.keywords:
                (a, ka), (b, kb) = self.expr(e.args[0]), self.expr(e.args[1])
                if ka != 'vec' or kb != 'vec':
                    raise Unsupported('cross of non-vectors')
                return f'(cross3 R {a} {b})', 'vec'
            if isinstance(e.func, ast.Attribute) and e.func.attr == 'square' and not e.args:
                t, k = self.expr(e.func.value)
                if k != 'scalar':
                    raise Unsupported('square of non-scalar')
                return f'(kmul {t} {t})', 'scalar'
        raise Unsupported(f'expression {ast.dump(e)[:90]} line {getattr(e, "lineno", "?")}')

    def flat(self, elts):
        out = []
        for x in elts:
            if isinstance(x, ast.Starred):
                if not isinstance(x.value, (ast.Tuple, ast.List)):
                    raise Unsupported('splat of a non-literal')
                out += self.flat(x.value.elts)
            else:
                t, k = self.expr(x)
                if k != 'scalar':
                    raise Unsupported('stack of non-scalars')
                out.append(t)
        return out

    def stacked(self, e):
        """list of scalar terms of a `torch.stack((...), dim)` possibly wrapped in .reshape(..., 3, 3) / rearrange(..., row=3)"""
        if isinstance(e, ast.Call):
            name = self.attr_name(e.func)
            if name == 'rearrange' and len(e.args) == 2 and isinstance(e.args[1], ast.Constant) \
                    and e.args[1].value.replace(' ', '') == '...(rowcol)->...rowcol' \
                    and [(k.arg, getattr(k.value, 'value', None)) for k in e.keywords] == [('row', 3)]:
                return self.stacked(e.args[0])
            if isinstance(e.func, ast.Attribute) and e.func.attr == 'reshape' and len(e.args) >= 2 \
                    and all(isinstance(a, ast.Constant) and a.value == 3 for a in e.args[-2:]) \
                    and all(isinstance(a, ast.Starred) for a in e.args[:-2]):
                return self.stacked(e.func.value)
            if name == 'torch.stack' and len(e.args) >= 1 and isinstance(e.args[0], (ast.Tuple, ast.List)):
                dim = e.args[1] if len(e.args) == 2 else next((k.value for k in e.keywords if k.arg == 'dim'), None)
                d = dim.value if isinstance(dim, ast.Constant) else (-dim.operand.value if isinstance(dim, ast.UnaryOp) and isinstance(dim.op, ast.USub) else None)
                if d not in (0, -1):
                    raise Unsupported('stack along an unexpected dim')
                return self.flat(e.args[0].elts)
        raise Unsupported(f'return expression line {getattr(e, "lineno", "?")}')


def body_stmts(fn):
    return [s for s in fn.body if not (isinstance(s, ast.Expr) and isinstance(s.value, ast.Constant))]


def tuple_term(ts):
    if len(ts) == 4:
        return '(' + ', '.join(ts) + ')'
    if len(ts) == 9:
        return '((' + ', '.join(ts[0:3]) + '), (' + ', '.join(ts[3:6]) + '), (' + ', '.join(ts[6:9]) + '))'
    raise Unsupported(f'stack of {len(ts)} expressions')


def translate_fn(fn, env, kinds, nret, special=None):
    tr = Tr(env, kinds)
    lets = []
    result = None
    for s in body_stmts(fn):
        if special and special(tr, s):
            continue
        if isinstance(s, ast.Assign) and len(s.targets) == 1 and isinstance(s.targets[0], ast.Name):
            tgt = s.targets[0].id
            try:
                t, k = tr.expr(s.value)
            except Unsupported:
                ts = tr.stacked(s.value)      # `product = torch.stack(...)`, returned later by name
                if len(ts) != nret:
                    raise
                tr.env[tgt], tr.kinds[tgt] = tuple_term(ts), 'result'
                continue
            v = f'{tgt}_'
            lets.append(f'let {v} := {t} in')
            tr.env[tgt], tr.kinds[tgt] = v, k
        elif isinstance(s, ast.Assign) and len(s.targets) == 1 and isinstance(s.targets[0], ast.Tuple) \
                and isinstance(s.value, ast.Call) and isinstance(s.value.func, ast.Attribute) and s.value.func.attr == 'unbind' \
                and len(s.value.args) == 1 and isinstance(s.value.args[0], ast.UnaryOp) and s.value.args[0].operand.value == 1:
            t, k = tr.expr(s.value.func.value)
            acc = {'quat': ['q0', 'q1', 'q2', 'q3'], 'vec': ['v0', 'v1', 'v2']}.get(k)
            names = [getattr(x, 'id', None) for x in s.targets[0].elts]
            if acc is None or len(names) != len(acc) or None in names:
                raise Unsupported(f'unbind line {s.lineno}')
            for nme, a in zip(names, acc):
                lets.append(f'let {nme}_ := {a} {t} in')
                tr.env[nme], tr.kinds[nme] = f'{nme}_', 'scalar'
        elif isinstance(s, ast.Return):
            if isinstance(s.value, ast.Name) and tr.kinds.get(s.value.id) == 'result':
                result = tr.env[s.value.id]
            else:
                ts = tr.stacked(s.value)
                if len(ts) != nret:
                    raise Unsupported(f'{len(ts)} stacked expressions, expected {nret}')
                result = tuple_term(ts)
        else:
            raise Unsupported(f'statement {type(s).__name__} line {s.lineno}')
    if result is None:
        raise Unsupported('no return')
    return ' '.join(lets) + ' ' + result


def axisangle_special(tr, s):
    # axis = F.normalize(axis, dim=-1, eps=...): identity on a unit axis
    if isinstance(s, ast.Assign) and len(s.targets) == 1 and isinstance(s.targets[0], ast.Name) and isinstance(s.value, ast.Call) \
            and tr.attr_name(s.value.func) == 'F.normalize' and isinstance(s.value.args[0], ast.Name) and s.value.args[0].id == s.targets[0].id:
        return True
    # cos, sin = torch.cos(angle), torch.sin(angle)
    if isinstance(s, ast.Assign) and isinstance(s.targets[0], ast.Tuple) and isinstance(s.value, ast.Tuple) and len(s.value.elts) == 2:
        names = [getattr(x, 'id', None) for x in s.targets[0].elts]
        calls = [tr.attr_name(x.func) if isinstance(x, ast.Call) else None for x in s.value.elts]
        args = [getattr(x.args[0], 'id', None) if isinstance(x, ast.Call) and len(x.args) == 1 else None for x in s.value.elts]
        if calls == ['torch.cos', 'torch.sin'] and args == ['angle', 'angle'] and None not in names:
            tr.env[names[0]], tr.kinds[names[0]] = 'cs', 'scalar'
            tr.env[names[1]], tr.kinds[names[1]] = 'sn', 'scalar'
            return True
    return False


SPECS = {
    '_compose_quaternions_single': dict(args=['p', 'q'], env={'p': 'p', 'q': 'q'}, kinds={'p': 'quat', 'q': 'quat'}, nret=4,
                                        sig='(p q : quat R) : quat R', model='qmul R p q', intro='p q', destr='dquat p; dquat q'),
    '_quaternion_to_matrix': dict(args=['quaternion'], env={'quaternion': 'quaternion'}, kinds={'quaternion': 'quat'}, nret=9,
                                  sig='(quaternion : quat R) : mat3 R', model='qmat R quaternion', intro='quaternion', destr='dquat quaternion'),
    '_axisangle_to_matrix': dict(args=['axis', 'angle'], env={'axis': 'axis'}, kinds={'axis': 'vec'}, nret=9, special=axisangle_special,
                                 sig='(axis : vec3 R) (cs sn : R) : mat3 R', model='rodrigues R axis cs sn', intro='axis cs sn', destr='dvec axis'),
}


EULER_PINS = {   # statements of _quaternion_to_euler that the R model (Model/Euler.v quaternion_to_euler) mirrors one to one
    'angles_1': '2 * torch.atan2(torch.hypot(c, d), torch.hypot(a, b))',
    'half_sum': 'torch.atan2(b, a)',
    'half_diff': 'torch.atan2(d, c)',
    'angles_0': 'half_sum - half_diff',
    'angles_2': 'half_sum + half_diff',
    'sign': '(q - r) * (r - s) * (s - q) // 2',
    'case': '1 * (torch.abs(angles_1) <= 1e-07) + 2 * (torch.abs(angles_1 - torch.pi) <= 1e-07)',
}


ALIGN_PINS = [   # the statements of the one-pair / infinite-weight branch of _align_vectors that Proofs/AlignProofs.v is about, in this order
    'a_primary, b_primary = (F.normalize(a_primary, dim=0), F.normalize(b_primary, dim=0))',
    'cross = torch.linalg.cross(b_primary, a_primary, dim=0)',
    'angle = torch.atan2(torch.norm(cross), torch.dot(a_primary, b_primary))',
    'if torch.norm(cross) < 1e-06 and torch.dot(a_primary, b_primary) < 0:',
    'i = int(torch.argmin(a_primary.abs()))',
    'cross = torch.zeros_like(a_primary)',
    'cross[i - 1], cross[i - 2] = (a_primary[i - 2], -a_primary[i - 1])',
    'rot_primary = _axisangle_to_matrix(cross, angle)',
]


def check_align(fn):
    """C12_align_single_pair / C12_align_antiparallel speak about these statements: they have to be there, in this order"""
    lines = [ln.strip() for ln in ast.unparse(fn).splitlines()]
    pos = -1
    for want in ALIGN_PINS:
        try:
            pos = lines.index(want, pos + 1)
        except ValueError:
            raise Unsupported(f'_align_vectors: statement `{want}` not found (in order)') from None


MEAN_PINS = [   # Rotation.mean: what C12_mean_sign_invariant / C12_mean_of_copies are about
    'k = weights.unsqueeze(-2) * quaternions.mT @ quaternions',
    '_, v = torch.linalg.eigh(k)',
    'mean_quaternions = v[..., -1]',
]


def check_mean(tree):
    cls = next(n for n in tree.body if isinstance(n, ast.ClassDef) and n.name == 'Rotation')
    fn = next(n for n in cls.body if isinstance(n, ast.FunctionDef) and n.name == 'mean')
    lines = [ln.strip() for ln in ast.unparse(fn).splitlines()]
    pos = -1
    for want in MEAN_PINS:
        try:
            pos = lines.index(want, pos + 1)
        except ValueError:
            raise Unsupported(f'Rotation.mean: statement `{want}` not found (in order)') from None


def translate_euler(fn):
    """a, b, c, d of both branches of `if symmetric:` as ring expressions of (cw, cq, cr, cs, sg); the angle formulas are pinned textually"""
    first = {}
    for node in ast.walk(fn):
        if isinstance(node, ast.Assign) and len(node.targets) == 1 and isinstance(node.targets[0], ast.Name):
            first.setdefault(node.targets[0].id, ast.unparse(node.value))
    for name, want in EULER_PINS.items():
        if first.get(name) != want:
            raise Unsupported(f'{name} = {first.get(name)!r}, the model mirrors {want!r}')
    ifs = [n for n in fn.body if isinstance(n, ast.If) and isinstance(n.test, ast.Name) and n.test.id == 'symmetric']
    if len(ifs) != 1:
        raise Unsupported('`if symmetric:` with the definitions of a, b, c, d not found')

    def comp(e):
        if isinstance(e, ast.Subscript) and isinstance(e.value, ast.Name) and e.value.id == 'quaternion' and isinstance(e.slice, ast.Tuple) \
                and len(e.slice.elts) == 2 and isinstance(e.slice.elts[0], ast.Constant) and e.slice.elts[0].value is Ellipsis \
                and isinstance(e.slice.elts[1], ast.Name) and e.slice.elts[1].id in 'wqrs':
            return 'c' + e.slice.elts[1].id
        if isinstance(e, ast.Name) and e.id == 'sign':
            return 'sg'
        if isinstance(e, ast.BinOp) and isinstance(e.op, (ast.Add, ast.Sub, ast.Mult)):
            return '(' + {ast.Add: 'kadd', ast.Sub: 'ksub', ast.Mult: 'kmul'}[type(e.op)] + f' {comp(e.left)} {comp(e.right)})'
        raise Unsupported(f'expression in a/b/c/d: {ast.unparse(e)}')

    def branch(stmts):
        got = {}
        for st in stmts:
            if not (isinstance(st, ast.Assign) and len(st.targets) == 1 and isinstance(st.targets[0], ast.Name)):
                raise Unsupported('unexpected statement in the a/b/c/d branch')
            got[st.targets[0].id] = comp(st.value)
        if sorted(got) != ['a', 'b', 'c', 'd']:
            raise Unsupported(f'branch defines {sorted(got)}')
        return f'({got["a"]}, {got["b"]}, {got["c"]}, {got["d"]})'
    return branch(ifs[0].body), branch(ifs[0].orelse)


def translate():
    tree = ast.parse(SRC.read_text())
    fns = {n.name: n for n in tree.body if isinstance(n, ast.FunctionDef)}
    parts, avail = [], {}
    for name, sp in SPECS.items():
        g = 'gen' + name
        try:
            fn = fns[name]
            if [a.arg for a in fn.args.args] != sp['args']:
                raise Unsupported(f'arguments {[a.arg for a in fn.args.args]}')
            body = translate_fn(fn, sp['env'], sp['kinds'], sp['nret'], sp.get('special'))
            parts.append(f'''  Definition gen_available{name} := true.
  Definition {g} {sp["sig"]} := {body}.
  Lemma {g}_ok : forall {sp["intro"]}, {g} {sp["intro"]} = {sp["model"]}.
  Proof. intros. {sp["destr"]}. unfold {g}, rodrigues. unf. pair_split; ring. Qed.''')
            avail[name] = (True, '')
        except (Unsupported, KeyError, AttributeError, TypeError) as e:
            parts.append(f'  (* translator failed closed for {name}: {str(e)[:200]} *)\n  Definition gen_available{name} := false.')
            avail[name] = (False, str(e)[:200])
    name = '_quaternion_to_euler'
    try:
        sym, asym = translate_euler(fns[name])
        parts.append(f'''  Definition gen_available{name} := true.
  Definition gen_euler_abcd_sym (cw cq cr cs sg : R) : R * R * R * R := {sym}.
  Definition gen_euler_abcd_asym (cw cq cr cs sg : R) : R * R * R * R := {asym}.
  Lemma gen_quaternion_to_euler_ok : forall cw cq cr cs sg,
    gen_euler_abcd_sym cw cq cr cs sg = abcd_sym R cw cq cr cs sg /\\ gen_euler_abcd_asym cw cq cr cs sg = abcd_asym R cw cq cr cs sg.
  Proof. intros. unfold gen_euler_abcd_sym, gen_euler_abcd_asym, abcd_sym, abcd_asym. split; pair_split; ring. Qed.''')
        avail[name] = (True, '')
    except (Unsupported, KeyError, AttributeError, TypeError) as e:
        parts.append(f'  (* translator failed closed for {name}: {str(e)[:300]} *)\n  Definition gen_available{name} := false.')
        avail[name] = (False, str(e)[:300])
    name = '_align_vectors'
    try:
        check_align(fns[name])
        parts.append(f'  Definition gen_available{name} := true.   (* single-pair / infinite-weight branch pinned: see ALIGN_PINS *)')
        avail[name] = (True, '')
    except (Unsupported, KeyError, AttributeError, TypeError) as e:
        parts.append(f'  (* translator failed closed for {name}: {str(e)[:300]} *)\n  Definition gen_available{name} := false.')
        avail[name] = (False, str(e)[:300])
    name = 'Rotation_mean'
    try:
        check_mean(tree)
        parts.append(f'  Definition gen_available{name} := true.   (* accumulated matrix / eigh / last eigenvector pinned: see MEAN_PINS *)')
        avail[name] = (True, '')
    except (Unsupported, KeyError, AttributeError, TypeError, StopIteration) as e:
        parts.append(f'  (* translator failed closed for {name}: {str(e)[:300]} *)\n  Definition gen_available{name} := false.')
        avail[name] = (False, str(e)[:300])
    txt = f'''(* GENERATED on every run by harness/translate/rotation.py from {SRC} -- do not edit *)
From MrVerif Require Import Base.Prelude Base.StarRing Model.Rotation Proofs.RotationProofs.
Section Gen.
  Variable R : StarRing.
  Add Ring Rr : (k_ring R).
''' + '\n'.join(parts) + '\nEnd Gen.\n'
    return txt, avail


def write(out: Path):
    try:
        txt, avail = translate()
    except (SyntaxError, OSError) as e:
        txt = f'(* GENERATED: translator failed closed: {e} *)\n'
        avail = {n: (False, str(e)[:200]) for n in list(SPECS) + ['_quaternion_to_euler']}
    out.write_text(txt)
    return avail
