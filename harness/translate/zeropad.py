"""T-A: fail-closed ast translator for src/mrpro/utils/zero_pad_or_crop.py -> coq/Gen/zeropad_gen.v

Subset: normalize_index = if/elif/else chain of chained integer comparisons returning an integer expression or
raising; the pad loop = single assignments of integer expressions (+ - // and math.trunc(x / c)) and npad.append(name)
calls, followed by F.pad(data, npad[::-1]) or F.pad(data, npad).
Anything else raises Unsupported -> gen_available := false (the property then rests on correspondence alone).
"""
import ast
import os
from pathlib import Path

SRC = Path(os.environ.get('VERIF_REPO', '/repo')) / 'src/mrpro/utils/zero_pad_or_crop.py'


class Unsupported(Exception):
    pass


def zexpr(e) -> str:
    if isinstance(e, ast.Name):
        return e.id
    if isinstance(e, ast.Constant) and isinstance(e.value, int) and not isinstance(e.value, bool):
        return f'({e.value})'
    if isinstance(e, ast.UnaryOp) and isinstance(e.op, ast.USub):
        return f'(- {zexpr(e.operand)})'
    if isinstance(e, ast.BinOp):
        if isinstance(e.op, ast.Add):
            return f'({zexpr(e.left)} + {zexpr(e.right)})'
        if isinstance(e.op, ast.Sub):
            return f'({zexpr(e.left)} - {zexpr(e.right)})'
        if isinstance(e.op, ast.Mult):
            return f'({zexpr(e.left)} * {zexpr(e.right)})'
        if isinstance(e.op, ast.FloorDiv):
            return f'({zexpr(e.left)} / {zexpr(e.right)})'  # Z.div = python // for any sign of the dividend, positive divisor
    if isinstance(e, ast.Call):
        f = e.func
        fname = f'{f.value.id}.{f.attr}' if isinstance(f, ast.Attribute) and isinstance(f.value, ast.Name) else getattr(f, 'id', None)
        if fname in ('math.trunc', 'int') and len(e.args) == 1 and isinstance(e.args[0], ast.BinOp) and isinstance(e.args[0].op, ast.Div):
            return f'(Z.quot {zexpr(e.args[0].left)} {zexpr(e.args[0].right)})'
        if fname == 'math.floor' and len(e.args) == 1 and isinstance(e.args[0], ast.BinOp) and isinstance(e.args[0].op, ast.Div):
            return f'({zexpr(e.args[0].left)} / {zexpr(e.args[0].right)})'
        if fname == 'math.ceil' and len(e.args) == 1 and isinstance(e.args[0], ast.BinOp) and isinstance(e.args[0].op, ast.Div):
            return f'(- ((- {zexpr(e.args[0].left)}) / {zexpr(e.args[0].right)}))'
    raise Unsupported(f'expression {ast.dump(e)[:80]} line {getattr(e, "lineno", "?")}')


def ztest(t) -> str:
    if isinstance(t, ast.Compare):
        parts, left = [], t.left
        for op, right in zip(t.ops, t.comparators):
            sym = {ast.Lt: '<?', ast.LtE: '<=?', ast.Gt: '>?', ast.GtE: '>=?', ast.Eq: '=?'}.get(type(op))
            if sym is None:
                raise Unsupported(f'comparison {type(op).__name__}')
            parts.append(f'({zexpr(left)} {sym} {zexpr(right)})')
            left = right
        return '(' + ' && '.join(parts) + ')'
    if isinstance(t, ast.BoolOp):
        sym = ' && ' if isinstance(t.op, ast.And) else ' || '
        return '(' + sym.join(ztest(v) for v in t.values) + ')'
    raise Unsupported(f'test {ast.dump(t)[:80]}')


def tr_chain(stmts) -> str:
    stmts = [s for s in stmts if not (isinstance(s, ast.Expr) and isinstance(s.value, ast.Constant))]
    if len(stmts) != 1:
        raise Unsupported('normalize_index body is not a single statement')
    s = stmts[0]
    if isinstance(s, ast.Return):
        return f'Some {zexpr(s.value)}'
    if isinstance(s, ast.Raise):
        return 'None'
    if isinstance(s, ast.If):
        return f'(if {ztest(s.test)} then {tr_chain(s.body)} else {tr_chain(s.orelse)})'
    raise Unsupported(f'statement {type(s).__name__}')


def translate() -> str:
    tree = ast.parse(SRC.read_text())
    fns = {n.name: n for n in tree.body if isinstance(n, ast.FunctionDef)}
    ni = fns['normalize_index']
    args = [a.arg for a in ni.args.args]
    if args != ['ndim', 'index']:
        raise Unsupported(f'normalize_index args {args}')
    norm = tr_chain(ni.body)
    zp = fns['zero_pad_or_crop']
    loops = [n for n in ast.walk(zp) if isinstance(n, ast.For)]
    loop = None
    for l in loops:
        if isinstance(l.target, ast.Tuple) and [getattr(e, 'id', None) for e in l.target.elts] == ['old', 'new']:
            loop = l
    if loop is None:
        raise Unsupported('pad loop `for old, new in ...` not found')
    lets, appended = [], []
    for s in loop.body:
        if isinstance(s, ast.Assign) and len(s.targets) == 1 and isinstance(s.targets[0], ast.Name):
            lets.append((s.targets[0].id, zexpr(s.value)))
        elif (isinstance(s, ast.Expr) and isinstance(s.value, ast.Call) and isinstance(s.value.func, ast.Attribute)
              and s.value.func.attr == 'append' and getattr(s.value.func.value, 'id', None) == 'npad' and len(s.value.args) == 1):
            appended.append(zexpr(s.value.args[0]))
        else:
            raise Unsupported(f'loop statement line {s.lineno}')
    if len(appended) != 2:
        raise Unsupported('expected two npad.append per axis')
    rev = None
    for n in ast.walk(zp):
        if isinstance(n, ast.Call) and isinstance(n.func, ast.Attribute) and n.func.attr == 'pad' and len(n.args) == 2:
            a = n.args[1]
            if isinstance(a, ast.Name) and a.id == 'npad':
                rev = False
            elif (isinstance(a, ast.Subscript) and getattr(a.value, 'id', None) == 'npad' and isinstance(a.slice, ast.Slice)
                  and a.slice.lower is None and a.slice.upper is None and isinstance(a.slice.step, ast.UnaryOp)
                  and isinstance(a.slice.step.operand, ast.Constant) and a.slice.step.operand.value == 1):
                rev = True
    if rev is None:
        raise Unsupported('F.pad(data, npad[::-1]) call not recognised')
    body = ''.join(f'let {n} := {e} in ' for n, e in lets)
    return f'''(* GENERATED on every run by harness/translate/zeropad.py from {SRC} -- do not edit *)
From MrVerif Require Import Base.Prelude Model.ZeroPad.
Definition gen_available := true.
Definition gen_normalize_index (ndim index : Z) : option Z := {norm}.
(* the two amounts appended to npad for one axis, in order of appending *)
Definition gen_pad_amounts (old new : Z) : Z * Z := {body}({appended[0]}, {appended[1]}).
Definition gen_pad_reversed : bool := {"true" if rev else "false"}.
(* F.pad takes (left, right) pairs starting from the last axis: reversing the whole list makes the amount that was
   appended second the left one. (With an unreversed list the axis order would be wrong too; only rank 1 is then modelled.) *)
Definition gen_left (old new : Z) : Z := if gen_pad_reversed then snd (gen_pad_amounts old new) else fst (gen_pad_amounts old new).
Definition gen_right (old new : Z) : Z := if gen_pad_reversed then fst (gen_pad_amounts old new) else snd (gen_pad_amounts old new).

Ltac split_ifs := repeat match goal with |- context [if ?b then _ else _] => destruct b eqn:? end.
(* regenerated proof obligations: the code as it is *now* is extensionally the model the theorems are about *)
Lemma gen_normalize_index_ok : forall ndim index, gen_normalize_index ndim index = normalize_index ndim index.
Proof. intros. unfold gen_normalize_index, normalize_index. split_ifs; try reflexivity; try (f_equal; lia); exfalso; lia. Qed.
Lemma gen_left_ok : forall old new, gen_left old new = left_pad old new.
Proof. intros. unfold gen_left, gen_pad_reversed, gen_pad_amounts, left_pad. cbn [fst snd]. lia. Qed.
Lemma gen_right_ok : forall old new, gen_right old new = right_pad old new.
Proof. intros. unfold gen_right, gen_pad_reversed, gen_pad_amounts, right_pad, left_pad. cbn [fst snd]. lia. Qed.
'''


def write(out: Path) -> tuple[bool, str]:
    try:
        out.write_text(translate())
        return True, ''
    except (Unsupported, KeyError, SyntaxError) as e:
        out.write_text(f'(* GENERATED: translator failed closed: {e} *)\nDefinition gen_available := false.\n')
        return False, str(e)
