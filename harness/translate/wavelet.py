"""T-W: fail-closed ast translator for src/mrpro/operators/WaveletOp.py -> coq/Gen/wavelet_gen.v

What is translated (to Gallina over Z, with an obligation against Model/Wavelet.v):
  * the size recursion of __init__:  current_shape = (current_shape / 2).ceil() + wavelet_length // 2 - 1
    -> gen_coef_len n L = ceil(n / 2) + L / 2 - 1, obligation gen_coef_len_ok: for even L >= 2 it is Z.of_nat (wlen L n),
    the number of coefficients per band of the model (= what ptwt's zero-mode conv1d with stride 2 produces);
  * the number of detail bands per level (1, 3, 7 for 1, 2, 3 axes): gen_n_directions d = 2^d - 1.
What is pinned textually (normalised with ast.unparse; a change fails closed):
  * forward calls wavedec / wavedec2 / wavedec3 with mode='zero', level=self._level and the last 1 / 2 / 3 axes in ascending order;
  * adjoint calls waverec / waverec2 / waverec3 on the same axes;
  * _format_coeffs_2d flattens [aa, (ad, da, dd), ...] in order, _undo_format_coeffs_2d regroups consecutive triples;
  * _coeff_to_stacked_tensor concatenates the bands in list order along the last axis;
  * the reversal / duplication of coefficients_shape (coarsest first, aa has the shape of the coarsest detail bands).
"""
import ast
import os
from pathlib import Path

SRC = Path(os.environ.get('VERIF_REPO', '/repo')) / 'src/mrpro/operators/WaveletOp.py'
N_OBLIGATIONS = 3


class Unsupported(Exception):
    pass


def _find_class(tree, name):
    for n in tree.body:
        if isinstance(n, ast.ClassDef) and n.name == name:
            return n
    raise Unsupported(f'class {name} not found')


def _method(cls, name):
    for n in cls.body:
        if isinstance(n, ast.FunctionDef) and n.name == name:
            return n
    raise Unsupported(f'method {name} not found')


def _calls(fn, names):
    out = {}
    for c in ast.walk(fn):
        if isinstance(c, ast.Call) and isinstance(c.func, ast.Name) and c.func.id in names:
            out.setdefault(c.func.id, []).append(c)
    return out


def _size_recursion(init) -> str:
    """the single assignment to current_shape inside the level loop"""
    cand = []
    for loop in ast.walk(init):
        if isinstance(loop, ast.For):
            for st in loop.body:
                if isinstance(st, ast.Assign) and len(st.targets) == 1 and ast.unparse(st.targets[0]) == 'current_shape':
                    cand.append(st.value)
    if len(cand) != 1:
        raise Unsupported(f'{len(cand)} assignments to current_shape in the level loop')
    return _zexpr(cand[0])


def _zexpr(e) -> str:
    if isinstance(e, ast.Name) and e.id in ('current_shape', 'wavelet_length'):
        return {'current_shape': 'n', 'wavelet_length': 'L'}[e.id]
    if isinstance(e, ast.Constant) and isinstance(e.value, int) and not isinstance(e.value, bool):
        return f'({e.value})'
    if isinstance(e, ast.BinOp) and isinstance(e.op, (ast.Add, ast.Sub, ast.FloorDiv)):
        sym = {ast.Add: '+', ast.Sub: '-', ast.FloorDiv: '/'}[type(e.op)]
        return f'({_zexpr(e.left)} {sym} {_zexpr(e.right)})'
    # (x / c).ceil()  -> ceiling of the exact quotient
    if isinstance(e, ast.Call) and isinstance(e.func, ast.Attribute) and e.func.attr == 'ceil' and not e.args \
            and isinstance(e.func.value, ast.BinOp) and isinstance(e.func.value.op, ast.Div):
        q = e.func.value
        return f'(- ((- {_zexpr(q.left)}) / {_zexpr(q.right)}))'
    raise Unsupported(f'size expression `{ast.unparse(e)[:80]}`')


def _pin(cond, what):
    if not cond:
        raise Unsupported(what)


def translate() -> str:
    tree = ast.parse(SRC.read_text())
    cls = _find_class(tree, 'WaveletOp')
    init, fwd, adj = _method(cls, '__init__'), _method(cls, 'forward'), _method(cls, 'adjoint')
    size = _size_recursion(init)
    # number of directions
    dirs = {}
    for st in ast.walk(init):
        if isinstance(st, ast.If) and isinstance(st.test, ast.Compare) and ast.unparse(st.test.left) == 'len(dim)' \
                and isinstance(st.test.ops[0], ast.Eq) and isinstance(st.test.comparators[0], ast.Constant):
            body = st.body[0]
            if isinstance(body, ast.Assign) and ast.unparse(body.targets[0]) == 'self.n_wavelet_directions' and isinstance(body.value, ast.Constant):
                dirs[st.test.comparators[0].value] = body.value.value
    _pin(set(dirs) == {1, 2, 3}, f'n_wavelet_directions set for len(dim) in {sorted(dirs)}')
    # coefficients_shape bookkeeping
    init_src = ast.unparse(init)
    _pin('self.coefficients_shape.extend([tuple(current_shape.to(dtype=torch.int64))] * self.n_wavelet_directions)' in init_src, 'bands per level')
    _pin('self.coefficients_shape = self.coefficients_shape[::-1]' in init_src, 'coarsest level first')
    _pin('self.coefficients_shape.insert(0, self.coefficients_shape[0])' in init_src, 'shape of the approximation band')
    _pin('wavelet_length = torch.as_tensor((Wavelet(wavelet_name).dec_len,) * len(domain_shape))' in init_src, 'wavelet_length = dec_len')
    # forward / adjoint calls
    want_f = {'wavedec': "wavedec(x_real, self._wavelet_name, level=self._level, mode='zero', axis=-1)",
              'wavedec2': "wavedec2(x_real, self._wavelet_name, level=self._level, mode='zero', axes=(-2, -1))",
              'wavedec3': "wavedec3(x_real, self._wavelet_name, level=self._level, mode='zero', axes=(-3, -2, -1))"}
    cf = _calls(fwd, set(want_f))
    for k, w in want_f.items():
        _pin(k in cf and len(cf[k]) == 1 and ast.unparse(cf[k][0]) == w, f'forward: {k} call is `{ast.unparse(cf[k][0]) if k in cf else None}`')
    want_a = {'waverec': 'waverec(coeffs_1d, self._wavelet_name, axis=-1)', 'waverec2': 'waverec2(coeffs_2d, self._wavelet_name, axes=(-2, -1))',
              'waverec3': 'waverec3(coeffs_3d, self._wavelet_name, axes=(-3, -2, -1))'}
    ca = _calls(adj, set(want_a))
    for k, w in want_a.items():
        _pin(k in ca and len(ca[k]) == 1 and ast.unparse(ca[k][0]) == w, f'adjoint: {k} call is `{ast.unparse(ca[k][0]) if k in ca else None}`')
    _pin('x = torch.moveaxis(x, dim, list(range(-len(self._dim), 0)))' in ast.unparse(fwd), 'forward moves the wavelet axes to the end in the order of dim')
    f2 = ast.unparse(_method(cls, '_format_coeffs_2d'))
    _pin('coeffs_mrpro_format: list = [coefficients[0]]' in f2 and 'for c_tuple in coefficients[1:]:' in f2 and 'coeffs_mrpro_format.extend(c_tuple)' in f2,
         '_format_coeffs_2d order')
    u2 = ast.unparse(_method(cls, '_undo_format_coeffs_2d'))
    _pin('for i in range(1, len(coefficients), self.n_wavelet_directions):' in u2
         and 'coeffs_ptwt_format.append(tuple(coefficients[i:i + self.n_wavelet_directions]))' in u2, '_undo_format_coeffs_2d grouping')
    st = ast.unparse(_method(cls, '_coeff_to_stacked_tensor'))
    _pin('torch.cat(' in st and 'for coeff in coefficients' in st and 'dim=-1' in st, '_coeff_to_stacked_tensor')
    return f'''(* generated by harness/translate/wavelet.py from {SRC} - do not edit *)
From MrVerif Require Import Base.Prelude Model.OpAlg Model.Wavelet.
Definition gen_available := true.
(* size of every band of the next level, from WaveletOp.__init__ *)
Definition gen_coef_len (n L : Z) : Z := {size}.
Definition gen_n_directions (d : Z) : Z := if d =? 1 then {dirs[1]} else if d =? 2 then {dirs[2]} else {dirs[3]}.

Lemma gen_coef_len_ok : forall n h : nat, (1 <= h)%nat ->
  gen_coef_len (Z.of_nat n) (Z.of_nat (2 * h)) = Z.of_nat (wlen (2 * h) n).
Proof.
  intros n h Hh. unfold gen_coef_len, wlen. rewrite Nat2Z.inj_div.
  replace (Z.of_nat (n + 2 * h - 1)) with (Z.of_nat n + 2 * Z.of_nat h - 1) by lia.
  replace (Z.of_nat (2 * h)) with (2 * Z.of_nat h) by lia. replace (Z.of_nat 2) with 2 by reflexivity. lia.
Qed.
Lemma gen_n_directions_ok : gen_n_directions 1 = 2 ^ 1 - 1 /\\ gen_n_directions 2 = 2 ^ 2 - 1 /\\ gen_n_directions 3 = 2 ^ 3 - 1.
Proof. repeat split; reflexivity. Qed.
(* the model's number of coefficients = sum of the band sizes the code allocates: 1-D, two levels, as a computed instance *)
Lemma gen_sizes_example : ran (wavedec_Z 2 4 10 [1;2;3;4] [1;2;3;4] [1;2;3;4] [1;2;3;4])
  = Z.to_nat (gen_coef_len (gen_coef_len 10 4) 4 + gen_coef_len (gen_coef_len 10 4) 4 + gen_coef_len 10 4).
Proof. vm_compute. reflexivity. Qed.
'''


def write(out: Path):
    try:
        out.write_text(translate())
        return True, ''
    except (Unsupported, KeyError, SyntaxError, AttributeError, IndexError) as e:
        out.write_text(f'(* translator failed closed: {str(e)[:200]} *)\nDefinition gen_available := false.\n')
        return False, str(e)[:200]


if __name__ == '__main__':
    print(translate())
