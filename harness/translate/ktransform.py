"""Fail-closed ast translator for the KData re-organisations -> coq/Gen/ktransform_gen.v   (property C15)

Sources (VERIF_REPO, default /repo): src/mrpro/data/_kdata/KDataRemoveOsMixin.py, KDataSelectMixin.py, KDataSplitMixin.py,
KDataRearrangeMixin.py.

How a method is read.  Local names (arguments other than self, assigned names, nested function names, lambda / comprehension
variables) are renamed canonically in order of their first binding, so renaming a local variable changes nothing.  The statements
of the method are then compared one by one with a reference copy kept in this file (normalised the same way).  Statements that
carry integer arithmetic or index bookkeeping are NOT compared textually but translated:
  remove_readout_os       crop start / end (integer expressions with // + - * over encoding_matrix.x, recon_matrix.x), the slice
                          bounds used by crop_readout, the amount subtracted from center_sample;
                          pinned text: the early exits, adjoint-FFT -> crop -> forward-FFT, which trajectory components are cropped,
                          number_of_samples / encoding_matrix.x / discard_pre / discard_post updates, deepcopy of the header
  select_other_subset     the index: torch.cat([torch.where(el == label[:, 0, 0])[0] for el in subset]) -> flat_map / filter, and
                          WHICH name indexes the header fields, the data and the trajectory (each resolved through the environment:
                          the computed positions, or the raw label values of the argument)
  _split_k2_or_k1_into_other   the indexed axis of data / trajectory / header (position of the index in the subscript), the einops
                          patterns (parsed: the order inside the group "(other other_split)" decides o = O // ns, s = O % ns or the
                          converse), the pattern of the new label tensor and the label it is written to
  rearrange_k2_k1_into_k1 the einops patterns (order inside "(k2 k1)")
Obligations in the generated file: gen_* agrees with Model/KTransform.v (split_k1, split_k2, select_other_subset,
rearrange_k2_k1_into_k1, remove_readout_os, os_start).  Anything else -> Unsupported -> `Definition gen_available := false.`
"""
import ast
import copy
import os
import re
from pathlib import Path

REPO = Path(os.environ.get('VERIF_REPO', '/repo'))
DIR = REPO / 'src/mrpro/data/_kdata'
N_OBLIGATIONS = 9


class Unsupported(Exception):
    pass


# ------------------------------------------------------------------------------------------------
# reading and normalising methods
# ------------------------------------------------------------------------------------------------
def find_method(tree, cls, name):
    for n in tree.body:
        if isinstance(n, ast.ClassDef) and n.name == cls:
            for m in n.body:
                if isinstance(m, ast.FunctionDef) and m.name == name:
                    if m.decorator_list:
                        raise Unsupported(f'{cls}.{name} is decorated')
                    return m
    raise Unsupported(f'{cls}.{name} not found')


def normalise(fn):
    """canonical names for everything bound inside fn; returns (renamed deep copy, {canonical: original})"""
    fn = copy.deepcopy(fn)
    binds = []
    for n in ast.walk(fn):
        if isinstance(n, ast.arg) and n.arg != 'self':
            binds.append((n.lineno, n.col_offset, n.arg))
        elif isinstance(n, ast.Name) and isinstance(n.ctx, ast.Store):
            binds.append((n.lineno, n.col_offset, n.id))
        elif isinstance(n, ast.FunctionDef) and n is not fn:
            binds.append((n.lineno, n.col_offset, n.name))
        elif isinstance(n, (ast.Global, ast.Nonlocal)):
            raise Unsupported('global / nonlocal')
    ren = {}
    for _, _, name in sorted(binds):
        if name not in ren:
            ren[name] = f'v{len(ren)}'
    for n in ast.walk(fn):
        if isinstance(n, ast.arg) and n.arg in ren:
            n.arg = ren[n.arg]
            n.annotation = None
        elif isinstance(n, ast.Name) and n.id in ren:
            n.id = ren[n.id]
        elif isinstance(n, ast.FunctionDef) and n is not fn and n.name in ren:
            n.name = ren[n.name]
            n.returns = None
    return fn, ren


def statements(fn):
    b = fn.body
    if b and isinstance(b[0], ast.Expr) and isinstance(b[0].value, ast.Constant) and isinstance(b[0].value.value, str):
        b = b[1:]
    return b


def text(node):
    return ast.unparse(node)


def load(path, cls, name, ref_src):
    act = find_method(ast.parse(path.read_text()), cls, name)
    ref = find_method(ast.parse(ref_src), cls, name)
    if [a.arg for a in act.args.args][:1] != ['self'] or act.args.vararg or act.args.kwarg or act.args.kwonlyargs:
        raise Unsupported(f'{name}: unexpected signature')
    if len(act.args.args) != len(ref.args.args) or len(act.args.defaults) != len(ref.args.defaults):
        raise Unsupported(f'{name}: number of arguments changed')
    ref_orig = [text(s) for s in statements(ref)]
    act_n, ren = normalise(act)
    ref_n, _ = normalise(ref)
    sa, sr = statements(act_n), statements(ref_n)
    if len(sa) != len(sr):
        raise Unsupported(f'{name}: {len(sa)} statements, the translated subset has {len(sr)}')
    return sa, sr, ref_orig, ren


def pinned(name, sa, sr, ref_orig, symbolic):
    """all statements whose reference text does not start with one of the `symbolic` keys must be textually identical"""
    idx = {}
    for i, (a, r, ro) in enumerate(zip(sa, sr, ref_orig)):
        key = next((k for k in symbolic if ro.startswith(k)), None)
        if key is not None:
            idx[key] = i
            continue
        if text(a) != text(r):
            raise Unsupported(f'{name}: statement {i} is `{text(a)[:110]}`; the model mirrors `{ro[:110]}`')
    missing = [k for k in symbolic if k not in idx]
    if missing:
        raise Unsupported(f'{name}: reference out of date {missing}')
    return idx


# ------------------------------------------------------------------------------------------------
# integer expressions
# ------------------------------------------------------------------------------------------------
def zexpr(e, env, leaves):
    t = text(e)
    if t in leaves:
        return leaves[t]
    if isinstance(e, ast.Name):
        if e.id in env:
            return env[e.id]
        raise Unsupported(f'unknown name {e.id} in an integer expression')
    if isinstance(e, ast.Constant) and isinstance(e.value, int) and not isinstance(e.value, bool):
        return f'({e.value})'
    if isinstance(e, ast.UnaryOp) and isinstance(e.op, ast.USub):
        return f'(- {zexpr(e.operand, env, leaves)})'
    if isinstance(e, ast.BinOp):
        l, r = zexpr(e.left, env, leaves), zexpr(e.right, env, leaves)
        if isinstance(e.op, ast.Add):
            return f'({l} + {r})'
        if isinstance(e.op, ast.Sub):
            return f'({l} - {r})'
        if isinstance(e.op, ast.Mult):
            return f'({l} * {r})'
        if isinstance(e.op, ast.FloorDiv):
            if not (isinstance(e.right, ast.Constant) and isinstance(e.right.value, int) and e.right.value > 0):
                raise Unsupported('floor division by a non-constant')
            return f'({l} / {r})'      # Z.div = python // for a positive constant divisor
    raise Unsupported(f'integer expression outside the subset: {t[:60]}')


def assign_name(st, what):
    if not (isinstance(st, ast.Assign) and len(st.targets) == 1 and isinstance(st.targets[0], ast.Name)):
        raise Unsupported(f'{what}: not a simple assignment: {text(st)[:80]}')
    return st.targets[0].id, st.value


# ------------------------------------------------------------------------------------------------
# remove_readout_os
# ------------------------------------------------------------------------------------------------
REF_OS = '''
class KDataRemoveOsMixin:
    def remove_readout_os(self):
        from mrpro.operators.FastFourierOp import FastFourierOp
        x_ratio = self.header.recon_matrix.x / self.header.encoding_matrix.x
        if x_ratio == 1:
            return self
        elif x_ratio > 1:
            raise ValueError('Recon matrix along x should be equal or larger than encoding matrix along x.')
        start_cropped_readout = self.header.encoding_matrix.x // 2 - self.header.recon_matrix.x // 2
        end_cropped_readout = start_cropped_readout + self.header.recon_matrix.x

        def crop_readout(data_to_crop):
            return data_to_crop[..., start_cropped_readout:end_cropped_readout].clone()
        fourier_k0_op = FastFourierOp(dim=(-1,))
        (cropped_data,) = fourier_k0_op(crop_readout(*fourier_k0_op.H(self.data)))
        ks = [self.traj.kz, self.traj.ky, self.traj.kx]
        cropped_ks = [crop_readout(k) if k.shape[-1] > 1 else k.clone() for k in ks]
        cropped_traj = KTrajectory(cropped_ks[0], cropped_ks[1], cropped_ks[2])
        header = deepcopy(self.header)
        header.acq_info.center_sample -= start_cropped_readout
        header.acq_info.number_of_samples[:] = cropped_data.shape[-1]
        header.encoding_matrix.x = cropped_data.shape[-1]
        header.acq_info.discard_post = (header.acq_info.discard_post * x_ratio).to(torch.int32)
        header.acq_info.discard_pre = (header.acq_info.discard_pre * x_ratio).to(torch.int32)
        return type(self)(header, cropped_data, cropped_traj)
'''


def translate_os():
    sa, sr, ro, _ = load(DIR / 'KDataRemoveOsMixin.py', 'KDataRemoveOsMixin', 'remove_readout_os', REF_OS)
    idx = pinned('remove_readout_os', sa, sr, ro, ['start_cropped_readout =', 'end_cropped_readout =', 'def crop_readout',
                                                   'header.acq_info.center_sample -='])
    leaves = {'self.header.encoding_matrix.x': 'enc', 'self.header.recon_matrix.x': 'recon'}
    env = {}
    n_start, v = assign_name(sa[idx['start_cropped_readout =']], 'crop start')
    env[n_start] = zexpr(v, env, leaves)
    n_end, v = assign_name(sa[idx['end_cropped_readout =']], 'crop end')
    env[n_end] = zexpr(v, env, leaves)
    f = sa[idx['def crop_readout']]
    if not (isinstance(f, ast.FunctionDef) and len(f.args.args) == 1 and len(f.body) == 1 and isinstance(f.body[0], ast.Return)):
        raise Unsupported('crop_readout: not a one-line function of one argument')
    r = f.body[0].value
    arg = f.args.args[0].arg
    ok = (isinstance(r, ast.Call) and not r.args and isinstance(r.func, ast.Attribute) and r.func.attr == 'clone'
          and isinstance(r.func.value, ast.Subscript) and isinstance(r.func.value.value, ast.Name) and r.func.value.value.id == arg)
    sl = r.func.value.slice if ok else None
    if not (ok and isinstance(sl, ast.Tuple) and len(sl.elts) == 2 and isinstance(sl.elts[0], ast.Constant) and sl.elts[0].value is Ellipsis
            and isinstance(sl.elts[1], ast.Slice) and sl.elts[1].step is None and sl.elts[1].lower is not None and sl.elts[1].upper is not None):
        raise Unsupported(f'crop_readout returns `{text(r)[:80]}`, expected x[..., lo:hi].clone()')
    lo, hi = zexpr(sl.elts[1].lower, env, leaves), zexpr(sl.elts[1].upper, env, leaves)
    c = sa[idx['header.acq_info.center_sample -=']]
    if not (isinstance(c, ast.AugAssign) and isinstance(c.op, ast.Sub) and text(c.target) == text(sr[idx['header.acq_info.center_sample -=']].target)):
        raise Unsupported(f'center_sample update is `{text(c)[:80]}`')
    shift = zexpr(c.value, env, leaves)
    return [
        '(* remove_readout_os: x_ratio = recon / enc; == 1 -> self; > 1 -> ValueError (pinned); crop window and center shift translated *)',
        f'Definition gen_os_lo (enc recon : Z) : Z := {lo}.',
        f'Definition gen_os_hi (enc recon : Z) : Z := {hi}.',
        f'Definition gen_os_center_shift (enc recon : Z) : Z := {shift}.',
        'Lemma gen_os_start_ok : forall enc recon, gen_os_lo enc recon = os_start enc recon.',
        'Proof. intros. unfold gen_os_lo, os_start. lia. Qed.',
        'Lemma gen_os_window_ok : forall enc recon, gen_os_hi enc recon - gen_os_lo enc recon = recon.',
        'Proof. intros. unfold gen_os_hi, gen_os_lo. lia. Qed.',
        'Lemma gen_os_center_ok : forall enc recon, gen_os_center_shift enc recon = os_start enc recon.',
        'Proof. intros. unfold gen_os_center_shift, os_start. lia. Qed.',
        'Lemma gen_os_model_ok : forall k k\', reconx k < encx k -> remove_readout_os k = inr k\' ->',
        '  forall o c a b j, fd k\' o c a b j = fd k o c a b (gen_os_lo (encx k) (reconx k) + j) /\\',
        '                    (forall m, ft k\' m o a b j = ft k m o a b (gen_os_lo (encx k) (reconx k) + j)) /\\',
        '                    fi k\' 7 o a b = fi k 7 o a b - gen_os_center_shift (encx k) (reconx k).',
        'Proof.',
        '  intros k k\' Hlt E o c a b j. pose proof (remove_os_spec k k\' Hlt E o c a b j) as H.',
        '  rewrite (gen_os_start_ok (encx k) (reconx k)), (gen_os_center_ok (encx k) (reconx k)). exact H.',
        'Qed.',
    ]


# ------------------------------------------------------------------------------------------------
# select_other_subset
# ------------------------------------------------------------------------------------------------
REF_SELECT = '''
class KDataSelectMixin:
    def select_other_subset(self, subset_idx, subset_label):
        kheader = copy.deepcopy(self.header)
        ktraj = self.traj.as_tensor()
        label_idx = getattr(kheader.acq_info.idx, subset_label)
        if not all(el in torch.unique(label_idx) for el in subset_idx):
            raise ValueError('Subset indices are outside of the available index range')
        other_idx = torch.cat([torch.where(idx == label_idx[:, 0, 0])[0] for idx in subset_idx], dim=0)
        kheader.acq_info.apply_(
            lambda field: field[other_idx, ...] if isinstance(field, torch.Tensor | Rotation) else field
        )
        kdat = self.data[other_idx, ...]
        if ktraj.shape[1] > 1:
            ktraj = ktraj[:, other_idx, ...]
        return type(self)(kheader, kdat, type(self.traj).from_tensor(ktraj))
'''


def _is_const(e, v):
    return isinstance(e, ast.Constant) and e.value == v and type(e.value) is type(v)


def _index_name(sub, pos, n_before):
    """x[<n_before full slices>, NAME, ...] -> NAME"""
    if not isinstance(sub, ast.Subscript) or not isinstance(sub.slice, ast.Tuple):
        raise Unsupported(f'unexpected subscript {text(sub)[:60]}')
    el = sub.slice.elts
    if len(el) != n_before + 2 or not all(isinstance(s, ast.Slice) and s.lower is None and s.upper is None and s.step is None for s in el[:n_before]) \
            or not isinstance(el[n_before], ast.Name) or not _is_const(el[-1], Ellipsis):
        raise Unsupported(f'{pos}: index expression `{text(sub)[:70]}` is not x[{":, " * n_before}<index>, ...]')
    return el[n_before].id


def translate_select():
    sa, sr, ro, ren = load(DIR / 'KDataSelectMixin.py', 'KDataSelectMixin', 'select_other_subset', REF_SELECT)
    idx = pinned('select_other_subset', sa, sr, ro, ['other_idx =', 'kheader.acq_info.apply_(', 'kdat =', 'if ktraj.shape[1] > 1'])
    arg_subset = ren_lookup(sa, 0)           # canonical name of the first argument (subset_idx)
    lab_name, _ = assign_name(sa[2], 'label column')     # label_idx = getattr(kheader.acq_info.idx, subset_label)   (pinned)
    # other_idx = torch.cat([torch.where(el == label[:, 0, 0])[0] for el in subset], dim=0)
    n_idx, v = assign_name(sa[idx['other_idx =']], 'position search')
    ok = (isinstance(v, ast.Call) and text(v.func) == 'torch.cat' and len(v.args) == 1 and isinstance(v.args[0], ast.ListComp)
          and [(k.arg, text(k.value)) for k in v.keywords] == [('dim', '0')])
    lc = v.args[0] if ok else None
    ok = ok and len(lc.generators) == 1 and not lc.generators[0].ifs and isinstance(lc.generators[0].target, ast.Name) \
        and isinstance(lc.generators[0].iter, ast.Name) and lc.generators[0].iter.id == arg_subset
    if ok:
        el = lc.generators[0].target.id
        e = lc.elt
        ok = (isinstance(e, ast.Subscript) and _is_const(e.slice, 0) and isinstance(e.value, ast.Call) and text(e.value.func) == 'torch.where'
              and len(e.value.args) == 1 and not e.value.keywords and isinstance(e.value.args[0], ast.Compare)
              and len(e.value.args[0].ops) == 1 and isinstance(e.value.args[0].ops[0], ast.Eq))
        if ok:
            cmp_ = e.value.args[0]
            sides = {text(cmp_.left), text(cmp_.comparators[0])}
            ok = sides == {el, f'{lab_name}[:, 0, 0]'}
    if not ok:
        raise Unsupported(f'select_other_subset: positions are computed by `{text(v)[:120]}`, not by the equality search '
                          'torch.cat([torch.where(el == label[:, 0, 0])[0] for el in subset], dim=0)')
    env = {n_idx: '(gen_other_index k label subset)', arg_subset: 'subset'}

    def resolve(name, what):
        if name not in env:
            raise Unsupported(f'select_other_subset: {what} is indexed with `{name}`, which is neither the positions nor the argument')
        return env[name]
    # header: kheader.acq_info.apply_(lambda f: f[IDX, ...] if isinstance(f, torch.Tensor | Rotation) else f)
    h = sa[idx['kheader.acq_info.apply_(']]
    hr = sr[idx['kheader.acq_info.apply_(']]
    lam = h.value.args[0] if isinstance(h, ast.Expr) and isinstance(h.value, ast.Call) and len(h.value.args) == 1 else None
    if not (isinstance(lam, ast.Lambda) and isinstance(lam.body, ast.IfExp) and text(h.value.func) == text(hr.value.func)
            and text(lam.body.test) == text(hr.value.args[0].body.test) and text(lam.body.orelse) == text(hr.value.args[0].body.orelse)):
        raise Unsupported(f'select_other_subset: header update is `{text(h)[:110]}`')
    i_info = resolve(_index_name(lam.body.body, 'header', 0), 'the header')
    # data
    _, v = assign_name(sa[idx['kdat =']], 'data selection')
    if not (isinstance(v, ast.Subscript) and text(v.value) == 'self.data'):
        raise Unsupported(f'select_other_subset: data selection is `{text(v)[:80]}`')
    i_data = resolve(_index_name(v, 'data', 0), 'the data')
    # trajectory
    t = sa[idx['if ktraj.shape[1] > 1']]
    tr = sr[idx['if ktraj.shape[1] > 1']]
    if not (isinstance(t, ast.If) and text(t.test) == text(tr.test) and not t.orelse and len(t.body) == 1):
        raise Unsupported(f'select_other_subset: trajectory selection is `{text(t)[:100]}`')
    tn, v = assign_name(t.body[0], 'trajectory selection')
    if not (isinstance(v, ast.Subscript) and isinstance(v.value, ast.Name) and v.value.id == tn == tr.body[0].targets[0].id):
        raise Unsupported(f'select_other_subset: trajectory selection is `{text(t.body[0])[:80]}`')
    i_traj = resolve(_index_name(v, 'trajectory', 1), 'the trajectory')
    return [
        '(* select_other_subset: positions by equality search in the label column; which index selects data / trajectory / header *)',
        'Definition gen_other_index (k : fds) (label : Z) (subset : list Z) : list Z :=',
        '  let \'(xo, _, _) := ish k label in flat_map (fun el => filter (fun o => fi k label o 0 0 =? el) (zrange xo)) subset.',
        f'Definition gen_select_idx_data (k : fds) (label : Z) (subset : list Z) : list Z := {i_data}.',
        f'Definition gen_select_idx_traj (k : fds) (label : Z) (subset : list Z) : list Z := {i_traj}.',
        f'Definition gen_select_idx_info (k : fds) (label : Z) (subset : list Z) : list Z := {i_info}.',
        'Lemma gen_other_index_ok : forall k label subset, gen_other_index k label subset = other_index k label subset.',
        'Proof. reflexivity. Qed.',
        'Lemma gen_select_ok : forall subset label k k\', select_other_subset subset label k = inr k\' ->',
        '  nO k\' = Z.of_nat (length (gen_select_idx_data k label subset)) /\\',
        '  forall o c a b j m r,',
        '    fd k\' o c a b j = fd k (nth (Z.to_nat o) (gen_select_idx_data k label subset) 0) c a b j /\\',
        '    ft k\' m o a b j = ft k m (nth (Z.to_nat o) (gen_select_idx_traj k label subset) 0) a b j /\\',
        '    fi k\' r o a b = fi k r (nth (Z.to_nat o) (gen_select_idx_info k label subset) 0) a b.',
        'Proof.',
        '  intros subset label k k\'. unfold select_other_subset. destruct (negb _); [discriminate|]. intros E. injection E as <-.',
        '  cbn. split; [reflexivity|]. intros. repeat split; reflexivity.',
        'Qed.',
    ]


def ren_lookup(sa, k):
    """canonical names are v0, v1, ... in binding order: the arguments (other than self) come first"""
    return f'v{k}'


# ------------------------------------------------------------------------------------------------
# einops patterns
# ------------------------------------------------------------------------------------------------
def parse_pattern(p):
    if p.count('->') != 1:
        raise Unsupported(f'pattern `{p}`')
    def side(s):
        out = []
        for m in re.finditer(r'\(([^()]*)\)|(\.\.\.)|([A-Za-z_0-9]+)', s):
            out.append(tuple(m.group(1).split()) if m.group(1) is not None else (m.group(2) or m.group(3)))
        if re.sub(r'\(([^()]*)\)|(\.\.\.)|([A-Za-z_0-9]+)|\s+', '', s):
            raise Unsupported(f'pattern `{p}`')
        return out
    l, r = p.split('->')
    return side(l), side(r)


def str_const(e, what):
    if isinstance(e, ast.Constant) and isinstance(e.value, str):
        return e.value
    raise Unsupported(f'{what}: not a string constant: {text(e)[:60]}')


# ------------------------------------------------------------------------------------------------
# _split_k2_or_k1_into_other
# ------------------------------------------------------------------------------------------------
REF_SPLIT = '''
class KDataSplitMixin:
    def _split_k2_or_k1_into_other(self, split_idx, other_label, split_dir):
        n_other = split_idx.shape[0]
        if getattr(self.header.encoding_limits, other_label).length > 1:
            raise ValueError(f'{other_label} is already used to encode different parts of the scan.')
        if split_dir == 'k1':
            def split_data_traj(dat_traj):
                return dat_traj[:, :, :, split_idx, :]

            def split_acq_info(acq_info):
                return cast(RotationOrTensor, acq_info[:, :, split_idx, ...])
            rearrange_pattern_data = 'other coils k2 other_split k1 k0->(other other_split) coils k2 k1 k0'
            rearrange_pattern_traj = 'dim other k2 other_split k1 k0->dim (other other_split) k2 k1 k0'
            rearrange_pattern_acq_info = 'other k2 other_split k1 ... -> (other other_split) k2 k1 ...'
        elif split_dir == 'k2':
            def split_data_traj(dat_traj):
                return dat_traj[:, :, split_idx, :, :]

            def split_acq_info(acq_info):
                return cast(RotationOrTensor, acq_info[:, split_idx, ...])
            rearrange_pattern_data = 'other coils other_split k2 k1 k0->(other other_split) coils k2 k1 k0'
            rearrange_pattern_traj = 'dim other other_split k2 k1 k0->dim (other other_split) k2 k1 k0'
            rearrange_pattern_acq_info = 'other other_split k2 k1 ... -> (other other_split) k2 k1 ...'
        else:
            raise ValueError('split_dir has to be "k1" or "k2"')
        kdat = rearrange(split_data_traj(self.data), rearrange_pattern_data)
        ktraj = self.traj.as_tensor()
        if ktraj.shape[1] > 1 and ktraj.shape[1] != self.data.shape[0]:
            raise ValueError(f'other dimension of trajectory has to be 1 or match data ({self.data.shape[0]})')
        elif ktraj.shape[1] == 1 and self.data.shape[0] > 1:
            ktraj = repeat(ktraj, 'dim other k2 k1 k0->dim (other_data other) k2 k1 k0', other_data=self.data.shape[0])
        ktraj = rearrange(split_data_traj(ktraj), rearrange_pattern_traj)
        kheader = self.header.clone()
        kheader.acq_info.apply_(
            lambda field: rearrange_acq_info_fields(split_acq_info(field), rearrange_pattern_acq_info)
            if isinstance(field, Rotation | torch.Tensor)
            else field
        )
        setattr(kheader.encoding_limits, other_label, Limits(min=0, max=n_other - 1, center=0))
        acq_info_other_split = repeat(
            torch.linspace(0, n_other - 1, n_other),
            'other_split -> (other other_split) k2 k1',
            other=self.data.shape[0],
            k2=kdat.shape[-3],
            k1=kdat.shape[-2],
        )
        setattr(kheader.acq_info.idx, other_label, acq_info_other_split)
        return type(self)(kheader, kdat, type(self.traj).from_tensor(ktraj))

    def split_k1_into_other(self, split_idx, other_label):
        return self._split_k2_or_k1_into_other(split_idx, other_label, split_dir='k1')

    def split_k2_into_other(self, split_idx, other_label):
        return self._split_k2_or_k1_into_other(split_idx, other_label, split_dir='k2')
'''

DATA_AXES = ['other', 'coils', 'k2', 'k1', 'k0']
TRAJ_AXES = ['dim', 'other', 'k2', 'k1', 'k0']
INFO_AXES = ['other', 'k2', 'k1', '...']


def _indexed_axis(fn, arg_idx, axes, what):
    """def f(x): return [cast(T,] x[:, ..., IDX, ...] [)]  -> name of the axis that receives the 2-D index"""
    if not (isinstance(fn, ast.FunctionDef) and len(fn.args.args) == 1 and len(fn.body) == 1 and isinstance(fn.body[0], ast.Return)):
        raise Unsupported(f'{what}: not a one-line function')
    r = fn.body[0].value
    if isinstance(r, ast.Call) and text(r.func) == 'cast' and len(r.args) == 2:
        r = r.args[1]
    if not (isinstance(r, ast.Subscript) and isinstance(r.value, ast.Name) and r.value.id == fn.args.args[0].arg and isinstance(r.slice, ast.Tuple)):
        raise Unsupported(f'{what}: returns `{text(r)[:70]}`')
    pos = None
    for i, e in enumerate(r.slice.elts):
        if isinstance(e, ast.Name) and e.id == arg_idx:
            if pos is not None:
                raise Unsupported(f'{what}: index used twice')
            pos = i
        elif isinstance(e, ast.Slice) and e.lower is None and e.upper is None and e.step is None:
            pass
        elif _is_const(e, Ellipsis) and i == len(r.slice.elts) - 1:
            pass
        else:
            raise Unsupported(f'{what}: unsupported index `{text(e)}`')
    if pos is None or pos >= len(axes) or axes[pos] == '...':
        raise Unsupported(f'{what}: the split index is not applied to a named axis')
    n_el = len(r.slice.elts) - (1 if _is_const(r.slice.elts[-1], Ellipsis) else 0)
    if not _is_const(r.slice.elts[-1], Ellipsis) and n_el != len(axes):
        raise Unsupported(f'{what}: {n_el} indices for {len(axes)} axes')
    return axes[pos]


def _split_pattern(p, axes, axis, what):
    """lhs must be the axes with `axis` replaced by other_split, axis; rhs the axes with other replaced by a group of other and
    other_split.  Returns True if the group is (other other_split) i.e. O = o * ns + s."""
    lhs, rhs = parse_pattern(p)
    want_l = []
    for a in axes:
        want_l += ['other_split', a] if a == axis else [a]
    if lhs != want_l:
        raise Unsupported(f'{what}: pattern input `{lhs}`, expected {want_l}')
    grp = [g for g in rhs if isinstance(g, tuple)]
    if len(grp) != 1 or sorted(grp[0]) != ['other', 'other_split'] or [g if not isinstance(g, tuple) else 'other' for g in rhs] != axes:
        raise Unsupported(f'{what}: pattern output `{rhs}`')
    return grp[0] == ('other', 'other_split')


def translate_split():
    path = DIR / 'KDataSplitMixin.py'
    sa, sr, ro, _ = load(path, 'KDataSplitMixin', '_split_k2_or_k1_into_other', REF_SPLIT)
    idx = pinned('_split_k2_or_k1_into_other', sa, sr, ro, ["if split_dir == 'k1'", 'acq_info_other_split =', 'setattr(kheader.acq_info.idx'])
    a_idx, a_label, a_dir = 'v0', 'v1', 'v2'
    # wrappers
    for m, d in (('split_k1_into_other', 'k1'), ('split_k2_into_other', 'k2')):
        wa, wr, wro, _ = load(path, 'KDataSplitMixin', m, REF_SPLIT)
        pinned(m, wa, wr, wro, [])
    top = sa[idx["if split_dir == 'k1'"]]
    branches = {}
    node = top
    for d in ('k1', 'k2'):
        if not (isinstance(node, ast.If) and text(node.test) == f"{a_dir} == '{d}'"):
            raise Unsupported(f'split: branch for {d} not found')
        b = node.body
        if len(b) != 5 or not all(isinstance(x, ast.FunctionDef) for x in b[:2]):
            raise Unsupported(f'split[{d}]: unexpected branch body')
        ax_d = _indexed_axis(b[0], a_idx, DATA_AXES, f'split[{d}] data/trajectory index')
        ax_t = _indexed_axis(b[0], a_idx, TRAJ_AXES, f'split[{d}] data/trajectory index')
        ax_i = _indexed_axis(b[1], a_idx, INFO_AXES, f'split[{d}] header index')
        pats = {}
        for st in b[2:]:
            n, v = assign_name(st, f'split[{d}] pattern')
            pats[n] = str_const(v, f'split[{d}] pattern')
        branches[d] = (b[0].name, b[1].name, ax_d, ax_t, ax_i, pats)
        node = node.orelse[0] if len(node.orelse) == 1 else None
        if d == 'k2':
            last = top.orelse[0].orelse
            if text(ast.Module(body=last, type_ignores=[])) != text(ast.Module(body=sr[idx["if split_dir == 'k1'"]].orelse[0].orelse, type_ignores=[])):
                raise Unsupported('split: else branch changed')
    if branches['k1'][:2] != branches['k2'][:2] or set(branches['k1'][5]) != set(branches['k2'][5]) or len(branches['k1'][5]) != 3:
        raise Unsupported('split: the two branches bind different names')
    # which pattern variable is used for what: pinned statements kdat = rearrange(f(self.data), P_data), ktraj = rearrange(f(ktraj), P_traj),
    # header lambda uses g and P_info - read the names off the (already text-compared) reference statements
    f_name, g_name = branches['k1'][0], branches['k1'][1]
    uses = {}
    for st in sa:
        for c in ast.walk(st):
            if isinstance(c, ast.Call) and text(c.func) in ('rearrange', 'rearrange_acq_info_fields') and len(c.args) == 2 \
                    and isinstance(c.args[0], ast.Call) and isinstance(c.args[1], ast.Name):
                inner = c.args[0]
                uses[(text(inner.func), text(inner.args[0]) if inner.args else '')] = c.args[1].id
    try:
        p_data = uses[(f_name, 'self.data')]
        p_traj = next(v for (fn, a), v in uses.items() if fn == f_name and a != 'self.data')
        p_info = next(v for (fn, a), v in uses.items() if fn == g_name)
    except (KeyError, StopIteration):
        raise Unsupported('split: rearrange calls not found') from None
    out = ['(* _split_k2_or_k1_into_other: indexed axes, einops patterns, label tensor *)']
    # label tensor: repeat(torch.linspace(0, n - 1, n), 'other-> other k2 k1', ...) written to idx.<other_label>
    n_lab, v = assign_name(sa[idx['acq_info_other_split =']], 'label tensor')
    vr = sr[idx['acq_info_other_split =']].value
    if not (isinstance(v, ast.Call) and text(v.func) == 'repeat' and len(v.args) == 2 and text(v.args[0]) == text(vr.args[0])
            and [(k.arg, text(k.value)) for k in v.keywords] == [(k.arg, text(k.value)) for k in vr.keywords]):
        raise Unsupported(f'split: label tensor is `{text(v)[:100]}`')
    # (since the repair of KF-04: 'other_split -> (other other_split) k2 k1' with other = the data's other size; the order inside the group
    #  decides whether the label of output position o is o mod ns or o / nO, it must be the order used for data / trajectory / header)
    l_lhs, l_rhs = parse_pattern(str_const(v.args[1], 'label pattern'))
    if l_lhs != ['other_split'] or len(l_rhs) != 3 or not isinstance(l_rhs[0], tuple) or sorted(l_rhs[0]) != ['other', 'other_split'] \
            or list(l_rhs[1:]) != ['k2', 'k1']:
        raise Unsupported(f'split: label pattern {l_lhs}->{l_rhs}')
    lab_coord = '(o mod ns)' if tuple(l_rhs[0]) == ('other', 'other_split') else '(o / nO k)'
    s = sa[idx['setattr(kheader.acq_info.idx']]
    if not (isinstance(s, ast.Expr) and isinstance(s.value, ast.Call) and text(s.value.func) == 'setattr' and len(s.value.args) == 3
            and not s.value.keywords and isinstance(s.value.args[1], ast.Name) and isinstance(s.value.args[2], ast.Name)
            and s.value.args[2].id == n_lab):
        raise Unsupported(f'split: label assignment is `{text(s)[:100]}`')
    if s.value.args[1].id != a_label:
        raise Unsupported(f'split: the split index is written to `{s.value.args[1].id}`, not to the other_label argument')
    if text(s.value.args[0]) != text(sr[idx['setattr(kheader.acq_info.idx']].value.args[0]):
        raise Unsupported('split: label written to another object')
    for d in ('k1', 'k2'):
        _, _, ax_d, ax_t, ax_i, pats = branches[d]
        if not (ax_d == ax_t == ax_i == d):
            raise Unsupported(f'split[{d}]: data / trajectory / header are indexed along {ax_d} / {ax_t} / {ax_i}')
        g_d = _split_pattern(pats[p_data], DATA_AXES, d, f'split[{d}] data pattern')
        g_t = _split_pattern(pats[p_traj], TRAJ_AXES, d, f'split[{d}] trajectory pattern')
        g_i = _split_pattern(pats[p_info], INFO_AXES, d, f'split[{d}] header pattern')

        def os_(g):     # (source other, block) of output position o
            return ('(o / ns)', '(o mod ns)') if g else ('(o mod nO k)', '(o / nO k)')
        def coords(g):
            so, blk = os_(g)
            ca = f'(zfun2 sidx {blk} a)' if d == 'k2' else 'a'
            cb = f'(zfun2 sidx {blk} b)' if d == 'k1' else 'b'
            return so, ca, cb
        od, ad, bd = coords(g_d)
        ot, at, bt = coords(g_t)
        oi, ai, bi = coords(g_i)
        out += [
            f'Definition gen_split_{d}_fd (k : fds) (sidx : list (list Z)) (o c a b j : Z) : Z := let ns := Z.of_nat (length sidx) in fd k {od} c {ad} {bd} j.',
            f'Definition gen_split_{d}_ft (k : fds) (sidx : list (list Z)) (m o a b j : Z) : Z := let ns := Z.of_nat (length sidx) in ft k m {ot} {at} {bt} j.',
            f'Definition gen_split_{d}_fi (k : fds) (sidx : list (list Z)) (r o a b : Z) : Z := let ns := Z.of_nat (length sidx) in fi k r {oi} {ai} {bi}.',
            f'Definition gen_split_{d}_label (k : fds) (sidx : list (list Z)) (o a b : Z) : Z := let ns := Z.of_nat (length sidx) in {lab_coord}.',
            f'Lemma gen_split_{d}_ok : forall sidx label k k\', split_{d} sidx label k = inr k\' ->',
            f'  nO k\' = nO k * Z.of_nat (length sidx) /\\ {"n1" if d == "k1" else "n2"} k\' = Z.of_nat (length (hd [] sidx)) /\\',
            '  fst (fst (ish k\' label)) = nO k * Z.of_nat (length sidx) /\\',
            '  forall o c a b j m r,',
            f'    fd k\' o c a b j = gen_split_{d}_fd k sidx o c a b j /\\ ft k\' m o a b j = gen_split_{d}_ft k sidx m o a b j /\\',
            f'    (r <> label -> fi k\' r o a b = gen_split_{d}_fi k sidx r o a b) /\\ fi k\' label o a b = gen_split_{d}_label k sidx o a b.',
            'Proof.',
            f'  intros sidx label k k\'. unfold split_{d}. destruct (1 <? _); [discriminate|]. destruct (_ || _); [discriminate|].',
            f'  destruct (_ <=? _); [discriminate|]. intros E. injection E as <-. cbn. rewrite Z.eqb_refl. cbn.',
            '  repeat split; try reflexivity.',
            '  intros Hr. destruct (Z.eqb_spec r label); [contradiction|reflexivity].',
            'Qed.',
        ]
    return out


# ------------------------------------------------------------------------------------------------
# rearrange_k2_k1_into_k1
# ------------------------------------------------------------------------------------------------
REF_REARRANGE = '''
class KDataRearrangeMixin:
    def rearrange_k2_k1_into_k1(self):
        kdat = rearrange(self.data, '... coils k2 k1 k0->... coils 1 (k2 k1) k0')
        ktraj = rearrange(self.traj.as_tensor(), 'dim ... k2 k1 k0-> dim ... 1 (k2 k1) k0')
        kheader = copy.deepcopy(self.header)
        kheader.acq_info.apply_(
            lambda field: rearrange_acq_info_fields(field, 'other k2 k1 ... -> other 1 (k2 k1) ...')
        )
        return type(self)(kheader, kdat, type(self.traj).from_tensor(ktraj))
'''


def _merge_pattern(p, lhs_want, what):
    lhs, rhs = parse_pattern(p)
    if lhs != lhs_want:
        raise Unsupported(f'{what}: pattern input {lhs}, expected {lhs_want}')
    grp = [g for g in rhs if isinstance(g, tuple)]
    i2 = lhs_want.index('k2')
    want_r = lhs_want[:i2] + ['1', 'G'] + lhs_want[i2 + 2:]
    if len(grp) != 1 or sorted(grp[0]) != ['k1', 'k2'] or ['G' if isinstance(g, tuple) else g for g in rhs] != want_r:
        raise Unsupported(f'{what}: pattern output {rhs}')
    return grp[0] == ('k2', 'k1')


def translate_rearrange():
    sa, sr, ro, _ = load(DIR / 'KDataRearrangeMixin.py', 'KDataRearrangeMixin', 'rearrange_k2_k1_into_k1', REF_REARRANGE)
    idx = pinned('rearrange_k2_k1_into_k1', sa, sr, ro, ['kdat =', 'ktraj =', 'kheader.acq_info.apply_('])

    def pat(st, ref, what):
        call = st.value if isinstance(st, (ast.Assign, ast.Expr)) else None
        rcall = ref.value
        if isinstance(st, ast.Expr):      # apply_(lambda f: rearrange_acq_info_fields(f, P))
            if not (isinstance(call, ast.Call) and text(call.func) == text(rcall.func) and len(call.args) == 1 and isinstance(call.args[0], ast.Lambda)):
                raise Unsupported(f'{what}: `{text(st)[:90]}`')
            call, rcall = call.args[0].body, rcall.args[0].body
        if not (isinstance(call, ast.Call) and text(call.func) == text(rcall.func) and len(call.args) == 2 and not call.keywords
                and text(call.args[0]) == text(rcall.args[0])):
            raise Unsupported(f'{what}: `{text(st)[:90]}`')
        return str_const(call.args[1], what)
    g_d = _merge_pattern(pat(sa[idx['kdat =']], sr[idx['kdat =']], 'rearrange data'), ['...', 'coils', 'k2', 'k1', 'k0'], 'rearrange data')
    g_t = _merge_pattern(pat(sa[idx['ktraj =']], sr[idx['ktraj =']], 'rearrange trajectory'), ['dim', '...', 'k2', 'k1', 'k0'], 'rearrange trajectory')
    g_i = _merge_pattern(pat(sa[idx['kheader.acq_info.apply_(']], sr[idx['kheader.acq_info.apply_(']], 'rearrange header'),
                         ['other', 'k2', 'k1', '...'], 'rearrange header')

    def ab(g, n1, n2):
        return (f'(b / {n1})', f'(b mod {n1})') if g else (f'(b mod {n2})', f'(b / {n2})')
    ad, bd = ab(g_d, 'n1 k', 'n2 k')
    at, bt = ab(g_t, 'n1 k', 'n2 k')
    return [
        '(* rearrange_k2_k1_into_k1: the group (k2 k1) of the three einops patterns *)',
        f'Definition gen_rearrange_fd (k : fds) (o c a b j : Z) : Z := fd k o c {ad} {bd} j.',
        f'Definition gen_rearrange_ft (k : fds) (m o a b j : Z) : Z := ft k m o {at} {bt} j.',
        'Definition gen_rearrange_fi (k : fds) (r o a b : Z) : Z := let \'(_, x2, x1) := ish k r in '
        + ('fi k r o (b / x1) (b mod x1).' if g_i else 'fi k r o (b mod x2) (b / x2).'),
        'Lemma gen_rearrange_ok : forall k k\', rearrange_k2_k1_into_k1 k = inr k\' ->',
        '  n2 k\' = 1 /\\ n1 k\' = n2 k * n1 k /\\',
        '  forall o c a b j m r, fd k\' o c a b j = gen_rearrange_fd k o c a b j /\\ ft k\' m o a b j = gen_rearrange_ft k m o a b j /\\',
        '                        fi k\' r o a b = gen_rearrange_fi k r o a b.',
        'Proof.',
        '  intros k k\' E. injection E as <-. cbn. split; [reflexivity|]. split; [reflexivity|]. intros.',
        '  repeat split; try reflexivity; unfold gen_rearrange_fi; destruct (ish k r) as [[x0 x2] x1]; reflexivity.',
        'Qed.',
    ]


# ------------------------------------------------------------------------------------------------
def generate():
    try:
        body = translate_os() + translate_select() + translate_split() + translate_rearrange()
    except (Unsupported, SyntaxError, OSError, AttributeError, IndexError, KeyError) as e:
        why = f'{type(e).__name__}: {e}'
        return False, ('From MrVerif Require Import Base.Prelude.\nDefinition gen_available := false.\n'
                       f'(* translator harness/translate/ktransform.py failed closed: {why[:400].replace("*)", "* )").replace("(*", "( *")} *)\n'), why
    head = ['(* generated by harness/translate/ktransform.py from src/mrpro/data/_kdata/*.py - do not edit *)',
            'From MrVerif Require Import Base.Prelude Base.Tensor Model.KTransform Proofs.KTransformProofs.',
            'Definition gen_available := true.']
    return True, '\n'.join(head + body) + '\n', ''


def write(out: Path):
    ok, txt, why = generate()
    out.write_text(txt)
    return ok, why
