"""T-C: fail-closed ast translator for the forward() bodies of src/mrpro/operators/models/*.py -> coq/Gen/models_gen.v

Subset: forward(self, p1, ..., pn) whose body is a docstring followed by single assignments `name = <expr>` and a final
`return (name,)`.  <expr> is
  * real arithmetic: + - * / unary -, `** <int literal>`, numeric literals, torch.pi, forward parameters, earlier names,
    self.<attr>, torch.exp/log/cos/sin/sqrt/sinc(<expr>);
  * `unsqueeze_right(self.<attr> | <name>, <count>)`: the identity on values; <count> is recorded for the shape model and must
    be an integer expression over `<param>.ndim`, `self.<attr>.ndim`, integer literals, earlier integer names, + and -;
  * an integer expression as above (e.g. `m0_ndim = m0.ndim`).
The generated function takes the forward parameters followed by the used attributes in alphabetical order.
Anything else raises Unsupported -> `gen_available := false` (the property then rests on correspondence alone).
"""
import ast
import os
from fractions import Fraction
from pathlib import Path

ROOT = Path(os.environ.get('VERIF_REPO', '/repo')) / 'src/mrpro/operators/models'

# class -> (file, hand-written model, forward parameters, attributes (alphabetical), time-like attributes)
MODELS = {
    'InversionRecovery': ('InversionRecovery.py', 'ir_code', ['m0', 't1'], ['ti'], ['ti']),
    'SaturationRecovery': ('SaturationRecovery.py', 'sr_code', ['m0', 't1'], ['ti'], ['ti']),
    'MonoExponentialDecay': ('MonoExponentialDecay.py', 'mono_code', ['m0', 'decay_constant'], ['decay_time'], ['decay_time']),
    'MOLLI': ('MOLLI.py', 'molli_code', ['a', 'c', 't1'], ['ti'], ['ti']),
    'TransientSteadyStateWithPreparation': ('TransientSteadyStateWithPreparation.py', 'tss_code', ['m0', 't1', 'flip_angle'],
                                            ['delay_after_preparation', 'm0_scaling_preparation', 'repetition_time', 'sampling_time'],
                                            ['sampling_time']),
    'WASABI': ('WASABI.py', 'wasabi_code', ['b0_shift', 'relative_b1', 'c', 'd'], ['b1_nom', 'gamma', 'offsets', 'tp'], ['offsets']),
    'WASABITI': ('WASABITI.py', 'wasabiti_code', ['b0_shift', 'rb1', 't1'], ['b1_nom', 'gamma', 'offsets', 'tp', 'trec'],
                 ['offsets', 'trec']),
}
SAME_SHAPE = {('WASABITI', 'trec'): 'offsets'}
# attributes documented as per-voxel sequence parameters ("broadcasted starting from the front"): need unsqueeze_right
SEQ_PARAMS = {'TransientSteadyStateWithPreparation': ['delay_after_preparation', 'm0_scaling_preparation', 'repetition_time']}
RESHAPE = Path(os.environ.get('VERIF_REPO', '/repo')) / 'src/mrpro/utils/reshape.py'


def check_unsqueeze_right():
    tree = ast.parse(RESHAPE.read_text())
    fn = next((n for n in tree.body if isinstance(n, ast.FunctionDef) and n.name == 'unsqueeze_right'), None)
    if fn is None or [a.arg for a in fn.args.args] != ['x', 'n']:
        raise Unsupported('utils.reshape.unsqueeze_right(x, n) not found')
    body = [s for s in fn.body if not (isinstance(s, ast.Expr) and isinstance(s.value, ast.Constant))]
    if len(body) != 1 or ast.unparse(body[0]) not in ('return x.reshape((*x.shape, *n * (1,)))', 'return x.reshape((*x.shape, *(n * (1,))))'):
        raise Unsupported('unsqueeze_right is not `return x.reshape((*x.shape, *(n * (1,))))`')
N_OBLIGATIONS = sum(1 + len(m[3]) for m in MODELS.values())

_KEYWORDS = {'as', 'at', 'cofix', 'else', 'end', 'exists', 'fix', 'for', 'forall', 'fun', 'if', 'in', 'let', 'match', 'mod',
             'return', 'then', 'using', 'where', 'with', 'Prop', 'Set', 'Type', 'exp', 'ln', 'sin', 'cos', 'sqrt', 'sinc', 'PI', 'R'}


class Unsupported(Exception):
    pass


def ident(n: str) -> str:
    if n in _KEYWORDS or not n.isidentifier():
        raise Unsupported(f'identifier {n}')
    return n


def num(v) -> str:
    if isinstance(v, bool):
        raise Unsupported('bool literal')
    fr = Fraction(v)
    if fr.denominator & (fr.denominator - 1):
        raise Unsupported(f'non-dyadic literal {v}')
    s = f'{abs(fr.numerator)}' if fr.denominator == 1 else f'({abs(fr.numerator)} / {fr.denominator})'
    return s if fr >= 0 else f'(- {s})'


def dotted(f):
    parts = []
    while isinstance(f, ast.Attribute):
        parts.append(f.attr)
        f = f.value
    if isinstance(f, ast.Name):
        parts.append(f.id)
        return '.'.join(reversed(parts))
    return None


class Tr:
    def __init__(self, params):
        self.params = list(params)
        self.reals = set(params)     # names bound to real values
        self.ints = {}               # integer names -> nat expression (shape model)
        self.alias = {}              # name -> attribute it is an unsqueezed view of
        self.attrs = set()
        self.unsq = {}               # attribute -> nat expression of the unsqueeze_right count

    def is_int(self, e) -> bool:
        for n in ast.walk(e):
            if isinstance(n, ast.Attribute) and n.attr == 'ndim':
                return True
            if isinstance(n, ast.Name) and n.id in self.ints:
                return True
        return False

    def iexpr(self, e, attr_self=None) -> str:
        """integer expression -> nat expression over `length pshape` and `length ashape` (ashape = shape of attr_self)"""
        if isinstance(e, ast.Constant) and isinstance(e.value, int) and not isinstance(e.value, bool) and e.value >= 0:
            return str(e.value)
        if isinstance(e, ast.Name) and e.id in self.ints:
            return self.ints[e.id]
        if isinstance(e, ast.Attribute) and e.attr == 'ndim':
            v = e.value
            if isinstance(v, ast.Name) and v.id in self.params:
                if v.id != self.params[0]:
                    raise Unsupported(f'rank taken from {v.id}, not from the first parameter')
                return 'length pshape'
            if isinstance(v, ast.Attribute) and isinstance(v.value, ast.Name) and v.value.id == 'self':
                return f'length (shape_of "{v.attr}")'
        if isinstance(e, ast.BinOp) and isinstance(e.op, (ast.Add, ast.Sub)):
            op = '+' if isinstance(e.op, ast.Add) else '-'
            return f'({self.iexpr(e.left)} {op} {self.iexpr(e.right)})'
        raise Unsupported(f'integer expression {ast.unparse(e)}')

    def rexpr(self, e) -> str:
        if isinstance(e, ast.Name):
            if e.id in self.reals:
                return ident(e.id)
            raise Unsupported(f'name {e.id} is not a real-valued binding')
        if isinstance(e, ast.Attribute):
            d = dotted(e)
            if d == 'torch.pi':
                return 'PI'
            if isinstance(e.value, ast.Name) and e.value.id == 'self':
                self.attrs.add(e.attr)
                return ident(e.attr) + "'"
            raise Unsupported(f'attribute {d}')
        if isinstance(e, ast.Constant) and isinstance(e.value, (int, float)):
            return num(e.value)
        if isinstance(e, ast.UnaryOp) and isinstance(e.op, ast.USub):
            return f'(- {self.rexpr(e.operand)})'
        if isinstance(e, ast.BinOp):
            if isinstance(e.op, ast.Pow):
                if isinstance(e.right, ast.Constant) and isinstance(e.right.value, int) and 0 <= e.right.value <= 8:
                    return f'({self.rexpr(e.left)} ^ {e.right.value})'
                raise Unsupported('power with a non-literal exponent')
            op = {ast.Add: '+', ast.Sub: '-', ast.Mult: '*', ast.Div: '/'}.get(type(e.op))
            if op is None:
                raise Unsupported(f'operator {type(e.op).__name__}')
            return f'({self.rexpr(e.left)} {op} {self.rexpr(e.right)})'
        if isinstance(e, ast.Call):
            fn = dotted(e.func)
            if e.keywords or len(e.args) != 1:
                raise Unsupported(f'call {fn}')
            g = {'torch.exp': 'exp', 'torch.log': 'ln', 'torch.cos': 'cos', 'torch.sin': 'sin', 'torch.sqrt': 'sqrt',
                 'torch.sinc': 'sinc'}.get(fn)
            if g is None:
                raise Unsupported(f'function {fn}')
            return f'({g} {self.rexpr(e.args[0])})'
        raise Unsupported(f'expression {ast.unparse(e)[:80]}')

    def stmt(self, s):
        """returns a `let` line or None"""
        if not (isinstance(s, ast.Assign) and len(s.targets) == 1 and isinstance(s.targets[0], ast.Name)):
            raise Unsupported(f'statement line {s.lineno}: {type(s).__name__}')
        name, v = s.targets[0].id, s.value
        if isinstance(v, ast.Call) and dotted(v.func) == 'unsqueeze_right':
            if len(v.args) != 2 or v.keywords:
                raise Unsupported('unsqueeze_right call')
            src = v.args[0]
            if not (isinstance(src, ast.Attribute) and isinstance(src.value, ast.Name) and src.value.id == 'self'):
                raise Unsupported('unsqueeze_right of something that is not self.<attr>')
            if src.attr in self.unsq:
                raise Unsupported(f'{src.attr} unsqueezed twice')
            self.unsq[src.attr] = self.iexpr(v.args[1])
            self.attrs.add(src.attr)
            self.reals.add(name)
            self.ints.pop(name, None)
            return f'let {ident(name)} := {ident(src.attr)}\' in'
        if self.is_int(v):
            self.ints[name] = self.iexpr(v)
            self.reals.discard(name)
            return None
        line = f'let {ident(name)} := {self.rexpr(v)} in'
        self.reals.add(name)
        self.ints.pop(name, None)
        return line


def translate_class(cls_name: str):
    fname, model, params, attrs, timelike = MODELS[cls_name]
    tree = ast.parse((ROOT / fname).read_text())
    imports = {ast.unparse(n) for n in tree.body if isinstance(n, (ast.Import, ast.ImportFrom))}
    if 'import torch' not in imports or not any(i.startswith('from mrpro.utils') and 'unsqueeze_right' in i for i in imports):
        raise Unsupported(f'{fname}: imports')
    cls = next((n for n in tree.body if isinstance(n, ast.ClassDef) and n.name == cls_name), None)
    if cls is None:
        raise Unsupported(f'class {cls_name}')
    fwd = next((n for n in cls.body if isinstance(n, ast.FunctionDef) and n.name == 'forward'), None)
    if fwd is None or fwd.decorator_list:
        raise Unsupported(f'{cls_name}.forward')
    a = fwd.args
    if a.vararg or a.kwarg or a.kwonlyargs or a.defaults or a.posonlyargs:
        raise Unsupported(f'{cls_name}.forward signature')
    got = [x.arg for x in a.args]
    if got[0] != 'self':
        raise Unsupported('self')
    ps = got[1:]
    tr = Tr(ps)
    body = [s for s in fwd.body if not (isinstance(s, ast.Expr) and isinstance(s.value, ast.Constant) and isinstance(s.value.value, str))]
    if not body or not isinstance(body[-1], ast.Return):
        raise Unsupported('no final return')
    lets = [ln for ln in (tr.stmt(s) for s in body[:-1]) if ln]
    r = body[-1].value
    if not (isinstance(r, ast.Tuple) and len(r.elts) == 1):
        raise Unsupported('return value is not a 1-tuple')
    res = tr.rexpr(r.elts[0])
    used = sorted(tr.attrs)
    # every attribute assigned in __init__ as a Parameter is what forward reads: check that the attributes exist in __init__
    init = next((n for n in cls.body if isinstance(n, ast.FunctionDef) and n.name == '__init__'), None)
    assigned = {t.attr for s in ast.walk(init) if isinstance(s, ast.Assign) for t in s.targets
                if isinstance(t, ast.Attribute) and isinstance(t.value, ast.Name) and t.value.id == 'self'} if init else set()
    for at in used:
        if at not in assigned:
            raise Unsupported(f'{cls_name}: self.{at} is not set in __init__')
    binders = ' '.join(ident(p) for p in ps) + ' ' + ' '.join(ident(x) + "'" for x in used)
    g = f'gen_{cls_name}'
    out = [f'(* {cls_name}.forward({", ".join(ps)}); attributes: {", ".join(used)} *)',
           f'Definition {g} ({binders} : R) : R :=', *['  ' + ln for ln in lets], f'  {res}.']
    n = len(ps) + len(used)
    vs = ' '.join(f'v{i}' for i in range(n))
    out += [f'Lemma {g}_ok : forall {vs}, {g} {vs} = {model} {vs}.',
            f'Proof. intros. unfold {g}, {model}. cbv zeta. close. Qed.']
    # shape model: the unsqueeze_right count of every attribute
    for at in used:
        if at not in tr.unsq:
            cnt = None
        else:
            cnt = tr.unsq[at].replace(f'(shape_of "{at}")', 'ashape')
            other = SAME_SHAPE.get((cls_name, at))
            if other is not None and f'(shape_of "{other}")' in cnt:
                # the constructor must reject different shapes, then the rank of the other attribute is this one's
                guards = [ast.unparse(s.test) for s in ast.walk(init) if isinstance(s, ast.If)
                          and any(isinstance(b, ast.Raise) for b in s.body)] if init else []
                if f'{at}.shape != {other}.shape' not in guards and f'{other}.shape != {at}.shape' not in guards:
                    raise Unsupported(f'{cls_name}.__init__ does not reject {at}.shape != {other}.shape')
                cnt = cnt.replace(f'(shape_of "{other}")', 'ashape')
            if 'shape_of' in cnt:
                raise Unsupported(f'unsqueeze count of {at} refers to another attribute')
        d = f'gen_{cls_name}_shape_{at}'
        if cnt is None:
            out += [f'Definition {d} (ashape pshape : list nat) : list nat := ashape.  (* used without unsqueeze_right *)']
        else:
            out += [f'Definition {d} (ashape pshape : list nat) : list nat := unsqueeze_right ashape ({cnt})%nat.']
        if at in timelike:
            out += [f'Lemma {d}_ok : forall ashape pshape, {d} ashape pshape = unsqueeze_right ashape (length pshape - (length ashape - 1))%nat.',
                    'Proof. intros. reflexivity. Qed.']
        elif cnt is None and at in SEQ_PARAMS.get(cls_name, []):
            # documented as broadcast from the front: the obligation below fails unless it is unsqueezed on the right
            out += [f'Lemma {d}_ok : forall ashape pshape, {d} ashape pshape = seqparam_shape ashape pshape.',
                    'Proof. intros. reflexivity. Qed.']
        elif cnt is None:
            out += [f'Lemma {d}_ok : forall pshape, {d} [] pshape = [].  (* scalar attribute, broadcasts with everything *)',
                    'Proof. intros. reflexivity. Qed.']
        else:
            out += [f'Lemma {d}_ok : forall ashape pshape, {d} ashape pshape = seqparam_shape ashape pshape.',
                    'Proof. intros. reflexivity. Qed.']
    return '\n'.join(out), used


HEADER = '''(* GENERATED on every run by harness/translate/models.py from {root} -- do not edit *)
From Coq Require Import Reals Lra List.
From MrVerif Require Import Model.SignalModels.
Import ListNotations.
Open Scope R_scope.
Definition gen_available := true.
Ltac norm_args := unfold Rdiv, Rminus;
  repeat match goal with
  | |- context [exp ?a] => progress ring_simplify a
  | |- context [ln ?a] => progress ring_simplify a
  | |- context [sqrt ?a] => progress ring_simplify a
  | |- context [sinc ?a] => progress ring_simplify a
  | |- context [cos ?a] => progress ring_simplify a
  end.
(* the code as it is *now* is, for every argument, the expression the theorems are about *)
Ltac close := first [ reflexivity | solve [unfold Rdiv, Rminus; ring] | solve [norm_args; ring] ].
'''


def translate() -> str:
    check_unsqueeze_right()
    parts = [HEADER.format(root=ROOT)]
    for cls in MODELS:
        text, used = translate_class(cls)
        if used != MODELS[cls][3]:
            raise Unsupported(f'{cls}: forward reads attributes {used}, the model expects {MODELS[cls][3]}')
        parts.append(text)
    return '\n'.join(parts) + '\n'


def write(out: Path) -> tuple[bool, str]:
    try:
        out.write_text(translate())
        return True, ''
    except (Unsupported, KeyError, SyntaxError, StopIteration, AttributeError, OSError) as e:
        out.write_text(f'(* GENERATED: translator failed closed: {e} *)\nDefinition gen_available := false.\n')
        return False, str(e)
