"""C13 - Rotations, proper and improper, obey the group laws of O(3)."""
import itertools
import math

import numpy as np
import torch

import vlib
from vlib import Family, zlit

LEVEL = 'proof'
RULE = ('exact rational unit quaternions (a,b,c,d)/n from Pythagorean quadruples (search |a..d| <= 12), optionally scaled (non-normalised '
        'input), random improper flags; single_laws: triples p,q,r + integer vector, all powers -5..5, three-way implementation / Coq model '
        'over Qc at 1e-12; batched: broadcastable batch shapes incl. single, mixed flags, element-wise against the model; history: random '
        'histories of 1-8 edits (getitem with int/slice/ellipsis/None/list/mask indices, setitem, concatenate, reshape, reflect, invert_axes, '
        'quaternion component setters) observed after every edit. Non-trivial = not the identity quaternion / at least one improper or '
        'at least two edits; distinct by case hash.')
TRUSTED_BASE = ['translator harness/translate/rotation.py (ast -> Gallina for _compose_quaternions_single, _quaternion_to_matrix, _axisangle_to_matrix; fail-closed)',
                'numpy indexing / broadcasting semantics decide which flat positions an index expression or a broadcast pairs up',
                'float64 torch arithmetic compared with exact rationals at 1e-12 (absolute, entries are <= 1 in modulus)']
ASSUMPTIONS = ['exact-arithmetic reading of the code: re-normalising a unit quaternion is the identity',
               'C13_pow_is_repeated_composition assumes from_rotvec(as_rotvec(q)) = q (C12_rotvec_roundtrip, checked numerically here)']
PREAMBLE = '''From MrVerif Require Import Base.Prelude Base.StarRing Model.Rotation.
From Coq Require Import QArith Qcanon.
Definition NM (r : rot QcRing) := qm (nmatQ r).
Definition powers := [-5; -4; -3; -2; -1; 0; 1; 2; 3; 4; 5]%Z.
Definition single_obs (p q r : rot QcRing) (v : vec3 QcRing) :=
  (NM p, NM (rcompose _ p q), snd (rcompose _ p q), NM (rcompose _ (rcompose _ p q) r), NM (rcompose _ p (rcompose _ q r)),
   (NM (rinv _ p), snd (rinv _ p)), (NM (rcompose _ p (rinv _ p)), snd (rcompose _ p (rinv _ p))),
   qv (mapply _ (nmatQ p) v), qv (mapply _ (mtrans _ (nmatQ p)) v),
   map (fun n => (NM (rpow _ n p), snd (rpow _ n p))) powers,
   qz (sgn QcRing (snd p))).
Definition pair_obs (n : Z) (pq : rot QcRing * rot QcRing) :=
  (NM (rcompose _ (fst pq) (snd pq)), snd (rcompose _ (fst pq) (snd pq)), NM (rpow _ n (fst pq)), snd (rpow _ n (fst pq))).
'''
TOL = 1e-12
COMP = {'z': 0, 'y': 1, 'x': 2, 'w': 3}   # documented storage order of the quaternion components


# ------------------------------------------------------------------------------------------------ pools
def _quadruples(limit=12, nmax=21):
    out, out2 = [], []
    rng = range(-limit, limit + 1)
    for a in rng:
        for b in rng:
            for c in rng:
                s3 = a * a + b * b + c * c
                for d in rng:
                    s = s3 + d * d
                    n = math.isqrt(s)
                    if n * n != s or n == 0 or n > nmax or math.gcd(math.gcd(a, b), math.gcd(c, d)) != 1:
                        continue
                    out.append((a, b, c, d, n))
                    m = math.isqrt(s3)
                    if m * m == s3 and s3 > 0 and d != 0:
                        out2.append((a, b, c, d, n))
    return out, out2


POOL, POOL2 = _quadruples()


def rand_rot(rng, pool=None, improper=None, scale=False):
    a, b, c, d, n = rng.choice(pool or POOL)
    k = rng.choice([1, 1, 2, 3, -1, 5]) if scale else 1
    return {'q': [a * k, b * k, c * k, d * k], 'n': n, 'f': bool(rng.random() < 0.5) if improper is None else improper}


def rot_coq(r):
    a, b, c, d = r['q']
    return f'(qrot_lit {zlit(a)} {zlit(b)} {zlit(c)} {zlit(d)} {r["n"]} {vlib.boollit(r["f"])})'


def rot_torch(rs, shape=None):
    """Rotation from a list of rot dicts (shape=None: a single rotation from rs[0])."""
    from mrpro.data import Rotation
    q = torch.tensor([[x / r['n'] for x in r['q']] for r in rs], dtype=torch.float64)
    f = torch.tensor([r['f'] for r in rs])
    if shape is None:
        return Rotation.from_quat(q[0], inversion=f[0])
    return Rotation.from_quat(q.reshape(*shape, 4), inversion=f.reshape(shape))


def mats(r):
    return r.as_matrix().detach().to(torch.float64).reshape(-1, 9).tolist()


def flags(r):
    return [bool(x) for x in r.is_improper.reshape(-1).tolist()]


def frac(x):
    return x[0] / x[1] if isinstance(x, tuple) else float(x)


def close(a, b, tol=TOL):
    a, b = np.asarray(a, dtype=float), np.asarray([frac(y) for y in b], dtype=float)
    if a.shape != b.shape:
        return f'shape {a.shape} vs {b.shape}'
    if not np.all(np.isfinite(a)):
        return 'non-finite values'
    e = float(np.max(np.abs(a - b))) if a.size else 0.0
    return None if e <= tol else f'max abs difference {e:.3e}'


def qmat_np(q):
    """textbook rotation matrix of a (not necessarily unit) quaternion, scalar last - homogeneous form"""
    a, b, c, w = q
    return np.array([[w * w + a * a - b * b - c * c, 2 * (a * b - c * w), 2 * (a * c + b * w)],
                     [2 * (a * b + c * w), w * w - a * a + b * b - c * c, 2 * (b * c - a * w)],
                     [2 * (a * c - b * w), 2 * (b * c + a * w), w * w - a * a - b * b + c * c]])


# ------------------------------------------------------------------------------------------------ translator
def translate(ctx):
    from translate import rotation
    out = vlib.COQ / 'Gen' / 'rotation_gen.v'
    out.parent.mkdir(exist_ok=True)
    avail = rotation.write(out)
    ctx.extra.setdefault('coverage', {})['translator_available'] = avail
    for fn, (ok, why) in avail.items():
        if not ok:
            ctx.notes.append(f'translator failed closed for {fn} ({why}); that kernel rests on correspondence alone in this run')
            # the model is no longer tied to this kernel's source: the property is not shown to hold on this tree (the families below search
            # for a failing input; without one the VIOLATION line carries no-failing-input-found)
            ctx.obligations += 1
            ctx.problem('proof', 'gen_rotation', None, f'the source of {fn} no longer has the form the model mirrors (translator failed closed: {why})')
    n = sum(1 for ok, _ in avail.values() if ok)
    ctx.obligations += n
    rc, so, se = vlib.coqc_file(out)
    if rc == 0:
        ctx.discharged += n
    else:
        ctx.problem('proof', 'gen_rotation', None,
                    'regenerated obligation gen_* = model (source of Rotation.py kernels vs Model/Rotation.v) no longer proves: ' + (se or so)[-700:])


# ------------------------------------------------------------------------------------------------ family 1: single laws
def gen_single(rng, tier):
    cases = []
    for i in range(40 if tier == 'quick' else 800):
        scale = rng.random() < 0.3
        cases.append({'p': rand_rot(rng, scale=scale), 'q': rand_rot(rng, scale=scale), 'r': rand_rot(rng),
                      'v': [rng.randint(-6, 6) for _ in range(3)]})
    # deterministic corner cases: identity, pure pi rotations, all improper
    ident = {'q': [0, 0, 0, 1], 'n': 1, 'f': False}
    inv = {'q': [0, 0, 0, 1], 'n': 1, 'f': True}
    pi_z = {'q': [1, 0, 0, 0], 'n': 1, 'f': True}
    cases += [{'p': ident, 'q': inv, 'r': pi_z, 'v': [1, 2, 3]}, {'p': inv, 'q': inv, 'r': inv, 'v': [1, -2, 3]},
              {'p': pi_z, 'q': {'q': [2, 3, 6, 0], 'n': 7, 'f': True}, 'r': ident, 'v': [0, 0, 1]}]
    return cases


def impl_single(c):
    from mrpro.data import SpatialDimension
    p, q, r = (rot_torch([c[k]]) for k in 'pqr')
    v = torch.tensor(c['v'], dtype=torch.float64)
    o = {'Mp': mats(p)[0], 'Mq': mats(q)[0], 'Mr': mats(r)[0], 'fp': flags(p)[0], 'det': float(p.det.reshape(-1)[0])}
    pq = p @ q
    o['Mpq'], o['fpq'] = mats(pq)[0], flags(pq)[0]
    o['M_pq_r'], o['M_p_qr'] = mats(pq @ r)[0], mats(p @ (q @ r))[0]
    o['f_pq_r'], o['f_p_qr'] = flags(pq @ r)[0], flags(p @ (q @ r))[0]
    pi = p.inv()
    o['Minv'], o['finv'] = mats(pi)[0], flags(pi)[0]
    e = p @ pi
    o['Mpinv'], o['fpinv'] = mats(e)[0], flags(e)[0]
    e2 = pi @ p
    o['Minvp'], o['finvp'] = mats(e2)[0], flags(e2)[0]
    o['pv'] = p(v).tolist()
    o['pinv_v'] = p(v, inverse=True).tolist()
    o['undo'] = p(p(v), inverse=True).tolist()
    o['undo2'] = p(p(v, inverse=True)).tolist()
    o['pq_v'], o['p_qv'] = pq(v).tolist(), p(q(v)).tolist()
    o['pow'] = []
    for n in range(-5, 6):
        pn = p ** n
        o['pow'].append([mats(pn)[0], flags(pn)[0], bool(pn.single) and list(pn.as_matrix().shape) == [3, 3] and list(pn.is_improper.shape) == list(p.is_improper.shape)])
    sd = p(SpatialDimension(x=v[2], y=v[1], z=v[0]))
    o['sd'] = [float(sd.z), float(sd.y), float(sd.x)]
    sdi = p(SpatialDimension(x=v[2], y=v[1], z=v[0]), inverse=True)
    o['sd_inv'] = [float(sdi.z), float(sdi.y), float(sdi.x)]
    # members of different kinds: python floats, an integer tensor next to python floats, a float batch next to a python int
    vz, vy, vx = (float(t) for t in v)
    variants = {'python floats': (vz / 4, vy / 4, vx / 4),
                'int64 tensor z with python floats y, x': (torch.arange(4) + int(vz), vy / 4 + 0.5, vx / 4 - 1.75),
                'float32 tensor batch y with python int z, x': (int(vz), torch.tensor([0.5, -1.25, float(vy)]), int(vx)),
                'int32 0-dim tensor x with python floats': (vz / 2 + 0.25, vy / 2, torch.tensor(int(vx), dtype=torch.int32))}
    o['sd_variants'] = {}
    for name, (z_, y_, x_) in variants.items():
        for inverse in (False, True):
            try:
                got = p(SpatialDimension(z=z_, y=y_, x=x_), inverse=inverse)
                zz, yy, xx = torch.broadcast_tensors(*(torch.as_tensor(t, dtype=torch.float64) for t in (z_, y_, x_)))
                want = p(torch.stack([zz, yy, xx], -1), inverse=inverse)
                gotv = torch.stack(torch.broadcast_tensors(*(torch.as_tensor(t, dtype=torch.float64) for t in (got.z, got.y, got.x))), -1)
                o['sd_variants'][f'{name}{", inverse" if inverse else ""}'] = float((gotv - want).abs().max())
            except Exception as e:  # noqa: BLE001
                o['sd_variants'][f'{name}{", inverse" if inverse else ""}'] = f'raises {type(e).__name__}: {str(e)[:80]}'
    return o


def coq_single(c):
    v = c['v']
    return f'single_obs {rot_coq(c["p"])} {rot_coq(c["q"])} {rot_coq(c["r"])} (qcq {zlit(v[0])} 1, qcq {zlit(v[1])} 1, qcq {zlit(v[2])} 1)'


def cmp_single(c, o, m):
    if isinstance(o, dict) and 'raises' in o:
        return f'implementation raises {o}'
    Mp, Mpq, fpq, Mpqr, Mpqr2, (Minv, finv), (Mid, fid), pv, pinv_v, pows, sg = m
    checks = [('as_matrix(p)', o['Mp'], Mp), ('matrix(p@q)', o['Mpq'], Mpq), ('(p@q)@r', o['M_pq_r'], Mpqr), ('p@(q@r)', o['M_p_qr'], Mpqr2),
              ('p.inv()', o['Minv'], Minv), ('p@p.inv()', o['Mpinv'], Mid), ('p(v)', o['pv'], list(pv)), ('p(v,inverse)', o['pinv_v'], list(pinv_v)),
              ('SpatialDimension', o['sd'], list(pv)), ('SpatialDimension inverse', o['sd_inv'], list(pinv_v))]
    for name, a, b in checks:
        e = close(a, b)
        if e:
            return f'{name}: {e}'
    if o['fpq'] != fpq or o['finv'] != finv or o['fpinv'] != fid:
        return f'improper flags: impl pq={o["fpq"]} inv={o["finv"]} p@pinv={o["fpinv"]} model {fpq} {finv} {fid}'
    if abs(o['det'] - frac(sg)) > 0:
        return f'det property {o["det"]} vs model sign {sg}'
    for n, (a, (Mn, fn)) in zip(range(-5, 6), zip(o['pow'], pows)):
        e = close(a[0], Mn)
        if e or a[1] != fn:
            return f'p**{n}: {e or "flag " + str(a[1]) + " vs " + str(fn)}'
    return None


def oracle_single(c, o):
    if isinstance(o, dict) and 'raises' in o:
        return f'valid rotations: implementation raises {o["raises"]}: {o.get("msg")}'
    t = 1e-9
    A = {k: np.array(o[k]).reshape(3, 3) for k in ('Mp', 'Mq', 'Mr', 'Mpq', 'M_pq_r', 'M_p_qr', 'Minv', 'Mpinv', 'Minvp')}
    I = np.eye(3)
    v = np.array(c['v'], dtype=float)

    def bad(x, y):
        return not np.all(np.isfinite(x)) or np.max(np.abs(np.asarray(x) - np.asarray(y))) > t
    for k in ('Mp', 'Mpq', 'Minv'):
        if bad(A[k].T @ A[k], I):
            return f'{k} is not orthogonal'
    sign = -1.0 if o['fp'] else 1.0
    if abs(np.linalg.det(A['Mp']) - sign) > t or o['det'] != sign:
        return f'det(as_matrix) = {np.linalg.det(A["Mp"]):.6f}, det property {o["det"]}, improper flag {o["fp"]}'
    if abs(np.linalg.det(A['Mpq']) - (-1.0 if o['fpq'] else 1.0)) > t:
        return 'det of p@q does not match its improper flag'
    if o['fpq'] != (c['p']['f'] != c['q']['f']):
        return f'improper flag of p@q is {o["fpq"]} for flags {c["p"]["f"]}, {c["q"]["f"]}'
    if bad(A['Mpq'], A['Mp'] @ A['Mq']):
        return 'matrix(p @ q) != matrix(p) matrix(q)'
    if bad(A['M_pq_r'], A['M_p_qr']) or o['f_pq_r'] != o['f_p_qr']:
        return '(p @ q) @ r != p @ (q @ r)'
    if bad(A['Mpinv'], I) or o['fpinv'] or bad(A['Minvp'], I) or o['finvp']:
        return 'p @ p.inv() is not the (proper) identity'
    if bad(o['pq_v'], o['p_qv']):
        return '(p @ q)(v) != p(q(v))'
    if bad(o['pv'], A['Mp'] @ v):
        return 'p(v) != as_matrix(p) v'
    if bad(o['undo'], v) or bad(o['undo2'], v):
        return 'p(v, inverse=True) does not undo p(v)'
    if bad(o['sd'], o['pv']) or bad(o['sd_inv'], o['pinv_v']):
        return 'application to SpatialDimension(x,y,z) differs from application to the (z,y,x) vector'
    for name, dev in o.get('sd_variants', {}).items():
        if isinstance(dev, str) or dev > 1e-5:
            return f'application to a SpatialDimension with {name} differs from application to the (z, y, x) vector: {dev}'
    for n, (Mn, fn, single) in zip(range(-5, 6), o['pow']):
        ref = np.linalg.matrix_power(A['Mp'] if n >= 0 else A['Mp'].T, abs(n))
        if bad(np.array(Mn).reshape(3, 3), ref):
            return f'p ** {n} is not the {n}-fold composition (improper={o["fp"]})'
        if fn != (o['fp'] and n % 2 == 1):
            return f'p ** {n}: improper flag {fn} for improper={o["fp"]}'
        if not single:
            return f'p ** {n} of a single rotation is not single (single flag, matrix of shape (3, 3), improper flag of the shape it has for p)'
    return None


# ------------------------------------------------------------------------------------------------ family 2: batches / broadcasting
SHAPES = [(3,), (2, 2), (2, 3), (1, 3), (2, 1, 2), (4,), (1,)]


def gen_batched(rng, tier):
    cases = []
    for _ in range(30 if tier == 'quick' else 500):
        full = rng.choice(SHAPES)

        def sub(s):
            s = [d if rng.random() < 0.6 else 1 for d in s]
            return s[rng.choice([0, 0, 1]) if len(s) > 1 else 0:]
        sp, sq = sub(full), sub(full)
        if rng.random() < 0.15:
            sp = None      # single rotation
        elif rng.random() < 0.15:
            sq = None
        mode = rng.choice(['mixed', 'mixed', 'proper', 'improper'])
        imp = {'mixed': None, 'proper': False, 'improper': True}[mode]
        npq = [int(np.prod(s)) if s is not None else 1 for s in (sp, sq)]
        sv = sub(list(np.broadcast_shapes(tuple(sp or ()), tuple(sq or ()))))
        cases.append({'sp': sp, 'sq': sq, 'p': [rand_rot(rng, improper=imp, scale=rng.random() < 0.2) for _ in range(npq[0])],
                      'q': [rand_rot(rng, improper=imp) for _ in range(npq[1])], 'n': rng.randint(-5, 5), 'mode': mode,
                      'sv': sv, 'v': [[rng.randint(-5, 5) for _ in range(3)] for _ in range(int(np.prod(sv)))]})
    return cases


def _pairs(c):
    ip = np.arange(len(c['p'])).reshape(tuple(c['sp']) if c['sp'] is not None else ())
    iq = np.arange(len(c['q'])).reshape(tuple(c['sq']) if c['sq'] is not None else ())
    bp, bq = np.broadcast_arrays(ip, iq)
    return bp.shape, bp.reshape(-1).tolist(), bq.reshape(-1).tolist()


def impl_batched(c):
    p, q = rot_torch(c['p'], c['sp']), rot_torch(c['q'], c['sq'])
    pq = p @ q
    o = {'shape': list(pq.shape), 'single': bool(pq.single), 'M': mats(pq), 'f': flags(pq),
         'Mp': mats(p), 'Mq': mats(q), 'fp': flags(p), 'fq': flags(q), 'detp': p.det.reshape(-1).tolist()}
    pn = p ** c['n']
    o['pow'] = {'shape': list(pn.shape), 'single': bool(pn.single), 'M': mats(pn), 'f': flags(pn)}
    pi = p.inv()
    o['inv'] = {'shape': list(pi.shape), 'M': mats(pi), 'f': flags(pi)}
    v = torch.tensor(c['v'], dtype=torch.float64).reshape(*c['sv'], 3)
    try:
        w = pq(v)
        o['app'] = {'shape': list(w.shape), 'w': w.reshape(-1, 3).tolist(), 'back': pq(w, inverse=True).reshape(-1, 3).tolist(),
                    'two': p(q(v)).reshape(-1, 3).tolist()}
    except Exception as e:  # noqa: BLE001
        o['app'] = {'raises': vlib.exc_enum(e), 'msg': str(e)[:100]}
    return o


def coq_batched(c):
    _, ip, iq = _pairs(c)
    ps = '[' + '; '.join(f'({rot_coq(c["p"][i])}, {rot_coq(c["q"][j])})' for i, j in zip(ip, iq)) + ']'
    return f'map (pair_obs {zlit(c["n"])}) {ps}'


def cmp_batched(c, o, m):
    if isinstance(o, dict) and 'raises' in o:
        return f'implementation raises {o}'
    shape, ip, iq = _pairs(c)
    if tuple(o['shape']) != tuple(shape):
        return f'batch shape of p@q is {o["shape"]}, broadcasting gives {list(shape)}'
    if len(m) != len(o['M']):
        return f'{len(o["M"])} elements vs {len(m)}'
    for k, (Mpq, fpq, Mn, fn) in enumerate(m):
        e = close(o['M'][k], Mpq)
        if e or o['f'][k] != fpq:
            return f'(p@q)[{k}] (p index {ip[k]}, q index {iq[k]}): {e or "flag"}'
    # power: one value per element of p (first occurrence in the broadcast)
    first = {}
    for k, i in enumerate(ip):
        first.setdefault(i, k)
    for i in range(len(c['p'])):
        Mn, fn = m[first[i]][2], m[first[i]][3]
        e = close(o['pow']['M'][i], Mn)
        if e or o['pow']['f'][i] != fn:
            return f'(p**{c["n"]})[{i}]: {e or "flag " + str(o["pow"]["f"][i]) + " vs " + str(fn)}'
    return None


def oracle_batched(c, o):
    if isinstance(o, dict) and 'raises' in o:
        return f'broadcastable batches sp={c["sp"]} sq={c["sq"]}: implementation raises {o["raises"]}: {o.get("msg")}'
    t = 1e-9
    shape, ip, iq = _pairs(c)
    Mp, Mq, M = (np.array(o[k]).reshape(-1, 3, 3) for k in ('Mp', 'Mq', 'M'))
    if (c['sp'] is None and c['sq'] is None) != o['single']:
        return 'single flag of p@q wrong'
    if tuple(o['shape']) != tuple(shape) or len(M) != len(ip):
        return f'p@q has batch shape {o["shape"]}, expected {list(shape)}'
    for k, (i, j) in enumerate(zip(ip, iq)):
        if not np.all(np.isfinite(M[k])) or np.max(np.abs(M[k] - Mp[i] @ Mq[j])) > t:
            return f'matrix(p@q)[{k}] != matrix(p)[{i}] matrix(q)[{j}]'
        if o['f'][k] != (o['fp'][i] != o['fq'][j]):
            return f'improper flag of (p@q)[{k}] is not the xor of the flags'
    for i in range(len(Mp)):
        if np.max(np.abs(Mp[i].T @ Mp[i] - np.eye(3))) > t:
            return f'as_matrix(p)[{i}] not orthogonal'
        s = -1.0 if o['fp'][i] else 1.0
        if abs(np.linalg.det(Mp[i]) - s) > t or o['detp'][i] != s:
            return f'det(p[{i}]) does not match improper flag {o["fp"][i]}'
        if o['fp'][i] != c['p'][i]['f']:
            return f'improper flag of element {i} is {o["fp"][i]}, constructed with {c["p"][i]["f"]}'
        n = c['n']
        ref = np.linalg.matrix_power(Mp[i] if n >= 0 else Mp[i].T, abs(n))
        Mn = np.array(o['pow']['M'][i]).reshape(3, 3)
        if not np.all(np.isfinite(Mn)) or np.max(np.abs(Mn - ref)) > t or o['pow']['f'][i] != (o['fp'][i] and n % 2 == 1):
            return f'(p ** {n})[{i}] is not the {n}-fold composition (improper={o["fp"][i]}, batch shape {c["sp"]})'
        Mi = np.array(o['inv']['M'][i]).reshape(3, 3)
        if np.max(np.abs(Mi @ Mp[i] - np.eye(3))) > t or o['inv']['f'][i] != o['fp'][i]:
            return f'p.inv()[{i}] is not the inverse'
    if list(o['pow']['shape']) != (list(c['sp']) if c['sp'] is not None else []) or o['pow']['single'] != (c['sp'] is None):
        return f'p ** {c["n"]} has batch shape {o["pow"]["shape"]} (single={o["pow"]["single"]}) for p of shape {c["sp"]}'
    a = o['app']
    if 'raises' in a:
        return f'applying p@q of shape {list(shape)} to vectors of shape {c["sv"]}: {a}'
    v = np.array(c['v'], dtype=float).reshape(*c['sv'], 3)
    Mb = M.reshape(*shape, 3, 3)
    ref = (Mb @ v[..., None])[..., 0]
    w = np.array(a['w']).reshape(ref.shape)
    if np.max(np.abs(w - ref)) > t:
        return '(p@q)(v) != matrix(p@q) v under broadcasting'
    if np.max(np.abs(np.array(a['back']).reshape(ref.shape) - np.broadcast_to(v, ref.shape))) > t:
        return '(p@q)(., inverse=True) does not undo (p@q)(v) on a batch'
    if np.max(np.abs(np.array(a['two']).reshape(ref.shape) - ref)) > t:
        return '(p@q)(v) != p(q(v)) on a batch'
    return None


# ------------------------------------------------------------------------------------------------ family 3: edit histories
def _rand_index(rng, shape, for_set=False):
    """random index expression (JSON form) valid for `shape` (len >= 1)"""
    nd = len(shape)
    kind = rng.choice(['int', 'slice', 'tuple', 'tuple', 'list', 'mask', 'ellipsis', 'none'])

    def one(d):
        n = shape[d]
        r = rng.random()
        if r < 0.35:
            return {'t': 'int', 'v': rng.randint(-n, n - 1)}
        if r < 0.5:
            return {'t': 'slice', 'v': [None, None, None]}
        st = rng.choice([1, 1, 2, 3, None])
        a = rng.choice([None, rng.randint(-n, n - 1)])
        b = rng.choice([None, rng.randint(-n, n)])
        return {'t': 'slice', 'v': [a, b, st]}
    if kind == 'int':
        return [one(0)] if rng.random() < 0.5 else [{'t': 'int', 'v': rng.randint(-shape[0], shape[0] - 1)}]
    if kind == 'slice':
        return [one(0)]
    if kind == 'tuple':
        return [one(d) for d in range(rng.randint(1, nd))]
    if kind == 'list':
        n = shape[0]
        k = rng.randint(1, n + (0 if for_set else 1))
        v = rng.sample(range(n), min(k, n)) if for_set else [rng.randint(-n, n - 1) for _ in range(k)]
        v = [x - n if rng.random() < 0.3 else x for x in v] if for_set else v
        return [{'t': 'list', 'v': v}]
    if kind == 'mask':
        full = rng.random() < 0.4 and nd > 1
        cnt = int(np.prod(shape)) if full else shape[0]
        m = [rng.random() < 0.6 for _ in range(cnt)]
        return [{'t': 'mask', 'v': m, 'shape': list(shape) if full else [shape[0]]}]
    if kind == 'ellipsis':
        return [{'t': 'ellipsis'}, one(nd - 1)] if rng.random() < 0.7 else [one(0), {'t': 'ellipsis'}]
    return [{'t': 'none'}, one(0)] if rng.random() < 0.5 else [one(0), {'t': 'none'}]


def _to_index(ix, lib):
    out = []
    for e in ix:
        t = e['t']
        if t == 'int':
            out.append(e['v'])
        elif t == 'slice':
            out.append(slice(*e['v']))
        elif t == 'ellipsis':
            out.append(Ellipsis)
        elif t == 'none':
            out.append(None)
        elif t == 'list':
            out.append(lib.asarray(e['v']) if lib is np else torch.tensor(e['v']))
        elif t == 'mask':
            out.append(np.array(e['v']).reshape(e['shape']) if lib is np else torch.tensor(e['v']).reshape(e['shape']))
    return tuple(out) if len(out) != 1 else out[0]


def _select(shape, ix):
    """flat source positions and result shape of indexing an array of `shape` with ix (numpy semantics)"""
    a = np.arange(int(np.prod(shape))).reshape(shape)
    s = a[_to_index(ix, np)]
    return list(np.shape(s)), np.asarray(s).reshape(-1).tolist()


def gen_history(rng, tier):
    cases = []
    pool = POOL2
    for _ in range(60 if tier == 'quick' else 1200):
        shape = list(rng.choice([(3,), (4,), (2, 2), (2, 3), (3, 2), (2, 1, 2), (5,), (1,)]))
        n0 = int(np.prod(shape))
        shape0 = list(shape)
        init = [rand_rot(rng, pool) for _ in range(n0)]
        ops, denorm = [], False
        for _ in range(rng.randint(1, 8)):
            cnt = int(np.prod(shape)) if shape else 1
            choices = ['get', 'set', 'concat', 'setcomp'] + ([] if denorm else ['reshape', 'reflect', 'invert_axes'])
            if not shape:
                choices = [x for x in choices if x not in ('get', 'set')]
            k = rng.choice(choices)
            if k in ('get', 'set'):
                for _try in range(20):
                    ix = _rand_index(rng, shape, for_set=(k == 'set'))
                    try:
                        rs, sel = _select(shape, ix)
                    except IndexError:
                        continue
                    if sel and len(sel) <= 12 and (k == 'get' or len(set(sel)) == len(sel)):
                        break
                else:
                    continue
                if k == 'get':
                    ops.append({'op': 'get', 'ix': ix, 'sel': sel, 'shape': rs})
                    shape = rs
                else:
                    single = rng.random() < 0.25
                    vals = [rand_rot(rng, pool) for _ in range(1 if single else len(sel))]
                    ops.append({'op': 'set', 'ix': ix, 'sel': sel, 'vshape': None if single else rs, 'vals': vals})
            elif k == 'concat':
                if cnt > 10:
                    continue
                if len(shape) <= 1:
                    oshape = rng.choice([None, [rng.randint(1, 3)]])
                else:
                    oshape = [rng.randint(1, 2)] + shape[1:]
                on = int(np.prod(oshape)) if oshape is not None else 1
                ops.append({'op': 'concat', 'oshape': oshape, 'vals': [rand_rot(rng, pool) for _ in range(on)]})
                shape = [(shape[0] if shape else 1) + (oshape[0] if oshape is not None else 1)] + (shape[1:] if len(shape) > 1 else [])
            elif k == 'reshape':
                facts = [[cnt], [1, cnt], [cnt, 1]] + [[a, cnt // a] for a in range(2, cnt) if cnt % a == 0] + ([[]] if cnt == 1 else [])
                ns = rng.choice(facts)
                ops.append({'op': 'reshape', 'shape': ns, 'splat': rng.random() < 0.5})
                shape = ns
            elif k in ('reflect', 'invert_axes'):
                ops.append({'op': k})
            else:
                comp = rng.choice('xyzw')
                scalar = rng.random() < 0.3
                vals = [rng.randint(-8, 8) / 4 for _ in range(1 if scalar else cnt)]
                ops.append({'op': 'setcomp', 'comp': comp, 'scalar': scalar, 'vals': vals})
                denorm = True
        if ops:
            cases.append({'shape0': shape0, 'init': init, 'ops': ops})
    return cases


def _flat_len(shape):
    return int(np.prod(shape)) if shape else 1


def impl_history(c):
    from mrpro.data import Rotation
    r = rot_torch(c['init'], c['shape0'])
    steps = []
    for op in c['ops']:
        k = op['op']
        rec = {}
        if k == 'get':
            r = r[_to_index(op['ix'], torch)]
        elif k == 'set':
            val = rot_torch(op['vals'], op['vshape'])
            rec['valM'], rec['valf'] = mats(val), flags(val)
            r[_to_index(op['ix'], torch)] = val
        elif k == 'concat':
            other = rot_torch(op['vals'], op['oshape'])
            rec['valM'], rec['valf'] = mats(other), flags(other)
            r = Rotation.concatenate([r, other])
        elif k == 'reshape':
            r = r.reshape(*op['shape']) if op['splat'] else r.reshape(op['shape'])
        elif k == 'reflect':
            r = r.reflect()
        elif k == 'invert_axes':
            r = r.invert_axes()
        elif k == 'setcomp':
            v = op['vals'][0] if op['scalar'] else torch.tensor(op['vals'], dtype=torch.float64).reshape(tuple(r.shape))
            setattr(r, 'quaternion_' + op['comp'], v)
        rec.update({'shape': list(r.shape), 'single': bool(r.single), 'M': mats(r), 'f': flags(r),
                    'q': r.as_quat(improper='ignore').detach().reshape(-1, 4).tolist(), 'det': r.det.reshape(-1).tolist()})
        steps.append(rec)
    r0 = rot_torch(c['init'], c['shape0'])
    return {'M0': mats(r0), 'f0': flags(r0), 'q0': r0.as_quat(improper='ignore').reshape(-1, 4).tolist(), 'steps': steps}


def coq_history(c):
    def lst(xs):
        return '[' + '; '.join(xs) + ']'

    def ql(v):
        fr = vlib.Fraction(v)
        return f'(qcq {zlit(fr.numerator)} {fr.denominator})'
    eds, cnt = [], len(c['init'])
    for op in c['ops']:
        k = op['op']
        if k == 'get':
            eds.append(f'EdGather {vlib.natlist(op["sel"])}')
            cnt = len(op['sel'])
        elif k == 'set':
            vals = op['vals'] if op['vshape'] is not None else op['vals'] * len(op['sel'])
            eds.append(f'EdSetItem {vlib.natlist(op["sel"])} {lst([rot_coq(v) for v in vals])}')
        elif k == 'concat':
            eds.append(f'EdConcat {lst([rot_coq(v) for v in op["vals"]])}')
            cnt += len(op['vals'])
        elif k == 'reshape':
            eds.append('EdReshape')
        elif k == 'reflect':
            eds.append('EdReflect')
        elif k == 'invert_axes':
            eds.append('EdInvertAxes')
        else:
            vals = op['vals'] * cnt if op['scalar'] else op['vals']
            eds.append(f'EdSetComp {COMP[op["comp"]]}%nat {lst([ql(v) for v in vals])}')
    return f'qc_history {lst(eds)} {lst([rot_coq(r) for r in c["init"]])}'


def cmp_history(c, o, m):
    if isinstance(o, dict) and 'raises' in o:
        return f'implementation raises {o}'
    exact, trace = m
    if not exact:
        return None   # a square root in the rational model was not exact: model not applicable (generator avoids this)
    if len(trace) != len(o['steps']):
        return 'trace length'
    refl = False
    for k, (st, rec) in enumerate(zip(trace, o['steps'])):
        refl = refl or c['ops'][k]['op'] == 'reflect'
        if len(st) != len(rec['M']):
            return f'after edit {k} ({c["ops"][k]["op"]}): {len(rec["M"])} elements, model {len(st)}'
        for j, (Mj, fj) in enumerate(st):
            e = close(rec['M'][j], Mj, 1e-5 if refl else TOL)   # reflect() adds pi in float32
            if e or rec['f'][j] != fj:
                return f'after edit {k} ({c["ops"][k]["op"]}) element {j}: {e or "improper flag " + str(rec["f"][j]) + " vs model " + str(fj)}'
    return None


def oracle_history(c, o):
    if isinstance(o, dict) and 'raises' in o:
        return f'valid edit history raises {o["raises"]}: {o.get("msg")}'
    t = 1e-9
    M = np.array(o['M0']).reshape(-1, 3, 3)
    f = np.array(o['f0'], dtype=bool)
    q = np.array(o['q0']).reshape(-1, 4)
    shape = list(c['shape0'])
    denorm = False
    refl = False

    def mnorm(A):
        return A / np.sqrt(np.sum(A[:, :, 0] ** 2, axis=1))[:, None, None]
    for k, (op, rec) in enumerate(zip(c['ops'], o['steps'])):
        name = op['op']
        if name == 'get':
            shape, sel = _select(shape, op['ix'])
            eM, ef = M[sel], f[sel]
        elif name == 'set':
            vs, sel = _select(shape, op['ix'])
            eM, ef = M.copy(), f.copy()
            vM, vf = np.array(rec['valM']).reshape(-1, 3, 3), np.array(rec['valf'], dtype=bool)
            if op['vshape'] is None:
                vM, vf = np.repeat(vM, len(sel), axis=0), np.repeat(vf, len(sel))
            eM[sel], ef[sel] = vM, vf
        elif name == 'concat':
            eM = np.concatenate([M, np.array(rec['valM']).reshape(-1, 3, 3)])
            ef = np.concatenate([f, np.array(rec['valf'], dtype=bool)])
            shape = rec['shape']
        elif name == 'reshape':
            eM, ef, shape = mnorm(M), f, list(op['shape'])
        elif name == 'invert_axes':
            eM, ef = -mnorm(M), ~f
        elif name == 'reflect':
            v = q[:, :3]
            H = np.eye(3)[None] - 2 * v[:, :, None] * v[:, None, :] / np.sum(v * v, axis=1)[:, None, None]
            eM, ef = H @ mnorm(M), ~f
            refl = True
        else:
            qn = q.copy()
            vals = op['vals'] * len(qn) if op['scalar'] else op['vals']
            qn[:, COMP[op['comp']]] = vals
            ef = f
            eM = np.array([(-1.0 if fl else 1.0) * qmat_np(x) for x, fl in zip(qn, f)]).reshape(-1, 3, 3)
            denorm = True
        gM, gf = np.array(rec['M']).reshape(-1, 3, 3), np.array(rec['f'], dtype=bool)
        what = f'edit {k} ({name}{" " + str(op.get("ix")) if "ix" in op else ""})'
        t = 1e-5 if refl else 1e-9    # reflect() adds pi in float32 (pi * reflection.float()): ~1e-7 relative error
        if list(rec['shape']) != list(shape):
            return f'{what}: batch shape {rec["shape"]}, expected {shape}'
        if gM.shape != eM.shape or not np.all(np.isfinite(gM)) or np.max(np.abs(gM - eM), initial=0.0) > t:
            return f'{what}: matrices are not the element-wise result of the edit'
        if gf.shape != ef.shape or np.any(gf != ef):
            return f'{what}: improper flags {gf.tolist()} expected {ef.tolist()}'
        if not denorm:
            for j in range(len(gM)):
                s = -1.0 if gf[j] else 1.0
                if np.max(np.abs(gM[j].T @ gM[j] - np.eye(3))) > t or abs(np.linalg.det(gM[j]) - s) > t or rec['det'][j] != s:
                    return f'{what}: element {j} is not orthogonal with det matching its flag'
        M, f, q = gM, gf, np.array(rec['q']).reshape(-1, 4)
    return None


def descr_history(c):
    return {'ops': '-'.join(op['op'] for op in c['ops']), 'n_ops': len(c['ops'])}


FAMILIES = [
    Family('single_laws', gen_single, impl_single, coq_single, PREAMBLE, cmp_single, oracle_single,
           nontrivial=lambda c: c['p']['q'][:3] != [0, 0, 0] or c['p']['f'], shard=25,
           descr=lambda c: {'p_improper': c['p']['f'], 'q_improper': c['q']['f']},
           theorem='C13_matrix_of_composition, C13_apply_composition, C13_associative, C13_orthogonal, C13_determinant, C13_inverse, '
                   'C13_apply_inverse, C13_pow_*, C13_spatial_dimension'),
    Family('batched', gen_batched, impl_batched, coq_batched, PREAMBLE, cmp_batched, oracle_batched, shard=15,
           descr=lambda c: {'sp': c['sp'], 'sq': c['sq'], 'n': c['n'], 'mode': c['mode']},
           theorem='C13_matrix_of_composition, C13_norm_and_sign, C13_pow_laws, C13_pow_is_repeated_composition'),
    Family('history', gen_history, impl_history, coq_history, PREAMBLE, cmp_history, oracle_history, shard=30,
           nontrivial=lambda c: len(c['ops']) >= 2, descr=descr_history,
           theorem='C13_edits_natural, C13_history_matrices, C13_history_local, C13_history_invariant, C13_reflect, C13_invert_axes, C13_normalize'),
]


# ---- added after seeded change C13-3: an extracted sub-rotation is an independent value -------------------------
def _gen_getitem_independent(rng, tier):
    out = []
    for _ in range(12 if tier == 'quick' else 200):
        n = rng.randint(2, 5)
        out.append({'n': n, 'seed': rng.randrange(10 ** 6), 'index': rng.choice(['int', 'slice', 'ellipsis', 'tuple', 'iter']),
                    'edit': rng.choice(['setitem', 'quaternion_x', 'is_improper', 'setitem_improper'])})
    return out


def _impl_getitem_independent(c):
    import torch
    from mrpro.data import Rotation
    g = torch.Generator().manual_seed(c['seed'])
    q = torch.randint(-4, 5, (c['n'], 4), generator=g).to(torch.float64)
    q[:, 3] += 5
    flags = torch.randint(0, 2, (c['n'],), generator=g).bool()
    r = Rotation(q, normalize=True, inversion=flags)
    before = r.as_matrix().clone()
    if c['index'] == 'int':
        s = r[1]
    elif c['index'] == 'slice':
        s = r[0:2]
    elif c['index'] == 'ellipsis':
        s = r[...]
    elif c['index'] == 'tuple':
        s = r[(slice(1, None),)]
    else:
        s = next(iter(r))
    other = Rotation(torch.tensor([1.0, 2.0, -1.0, 3.0], dtype=torch.float64), normalize=True, inversion=c['edit'] == 'setitem_improper')
    if c['edit'] in ('setitem', 'setitem_improper'):
        if s.single:
            s[...] = other
        else:
            s[0] = other
    elif c['edit'] == 'quaternion_x':
        s.quaternion_x = s.quaternion_x * 0 + 0.5
    else:
        s.is_improper = ~s.is_improper
    after = r.as_matrix()
    return {'dev': float((after - before).abs().max())}


def _oracle_getitem_independent(c, o):
    if isinstance(o, dict) and 'raises' in o:
        return None if o['raises'] in ('AttributeError', 'TypeError') else f'editing an extracted rotation raised {o}'
    if o['dev'] > 0:
        return (f'editing the rotation obtained by indexing ({c["index"]}) in place ({c["edit"]}) changed the matrices of the parent '
                f'rotation it was taken from by {o["dev"]:.3g}')
    return None


FAMILIES.append(Family('getitem_independent', _gen_getitem_independent, _impl_getitem_independent, None, '', None, _oracle_getitem_independent,
                       theorem='C13_history_local (an edit touches the edited value only)'))


# ------------------------------------------------------------------------------------------------ family: index expressions resolved in the Coq model
def _ix_coq(ix):
    def o(v):
        return 'None' if v is None else f'(Some {zlit(v)})'
    if ix['t'] == 'int':
        return f'(IInt {zlit(ix["v"])})'
    return f'(ISlice {o(ix["v"][0])} {o(ix["v"][1])} {o(ix["v"][2])})'


def _ix_py(ix):
    return ix['v'] if ix['t'] == 'int' else slice(*ix['v'])


def _gen_index_model(rng, tier):
    cases = []
    for n in range(1, 6 if tier == 'quick' else 8):
        init = [rand_rot(rng, POOL2) for _ in range(n)]
        val = rand_rot(rng, POOL2)
        ixs = [{'t': 'int', 'v': i} for i in range(-n - 1, n + 1)]
        vals = [None] + list(range(-n - 2, n + 3))
        for _ in range(14 if tier == 'quick' else 150):
            ixs.append({'t': 'slice', 'v': [rng.choice(vals), rng.choice(vals), rng.choice([None, 1, 1, 2, 3, 3, 0, -1])]})
        ixs += [{'t': 'slice', 'v': [None, None, None]}, {'t': 'slice', 'v': [None, None, 2]}, {'t': 'slice', 'v': [-1, None, None]},
                {'t': 'slice', 'v': [None, -1, None]}, {'t': 'slice', 'v': [n, None, None]}]
        for ix in ixs:
            cases.append({'init': init, 'val': val, 'ix': ix})
    return cases


def _impl_index_model(c):
    n = len(c['init'])
    out = {}
    r = rot_torch(c['init'], [n])
    try:
        g = r[_ix_py(c['ix'])]
        out['get'] = {'M': mats(g), 'f': flags(g), 'single': bool(g.single)}
    except Exception as e:  # noqa: BLE001
        out['get'] = {'raises': vlib.exc_enum(e)}
    r2 = rot_torch(c['init'], [n])
    v = rot_torch([c['val']])
    out['valM'], out['valf'] = mats(v)[0], flags(v)[0]
    out['M0'], out['f0'] = mats(r2), flags(r2)
    try:
        r2[_ix_py(c['ix'])] = v
        out['set'] = {'M': mats(r2), 'f': flags(r2)}
        back = r2[_ix_py(c['ix'])]
        out['back'] = {'M': mats(back), 'f': flags(back)}
    except Exception as e:  # noqa: BLE001
        out['set'] = {'raises': vlib.exc_enum(e)}
    return out


def _coq_index_model(c):
    st = '[' + '; '.join(rot_coq(r) for r in c['init']) + ']'
    return f'(qc_getitem {_ix_coq(c["ix"])} {st}, qc_setitem {_ix_coq(c["ix"])} {rot_coq(c["val"])} {st})'


def _cmp_index_model(c, o, m):
    if isinstance(o, dict) and 'raises' in o:
        return f'implementation raises {o}'
    for name, mv in zip(('get', 'set'), m):
        got = o[name]
        if mv is None:
            if 'raises' not in got or got['raises'] not in ('IndexError', 'ValueError'):
                return f'{name}item {c["ix"]}: the model rejects the index, the implementation gives {str(got)[:80]}'
            continue
        st = mv['some']
        if 'raises' in got:
            return f'{name}item {c["ix"]}: implementation raises {got["raises"]}, the model selects {len(st)} element(s)'
        if len(st) != len(got['M']):
            return f'{name}item {c["ix"]}: {len(got["M"])} elements, model {len(st)}'
        for j, (Mj, fj) in enumerate(st):
            e = close(got['M'][j], Mj)
            if e or got['f'][j] != fj:
                return f'{name}item {c["ix"]} element {j}: {e or "improper flag"}'
    return None


def _oracle_index_model(c, o):
    if isinstance(o, dict) and 'raises' in o:
        return f'crashed: {o}'
    n = len(c['init'])
    ix = c['ix']
    try:
        sel = list(range(n))[_ix_py(ix)]            # python's own list indexing as the reference
        sel = [sel] if ix['t'] == 'int' else sel
        valid = not (ix['t'] == 'slice' and ix['v'][2] is not None and ix['v'][2] < 0)   # torch rejects negative steps
    except (IndexError, ValueError):
        sel, valid = None, False
    if not valid:
        return None if 'raises' in o['get'] and 'raises' in o['set'] else f'invalid index {ix} accepted'
    if 'raises' in o['get'] or 'raises' in o['set']:
        return f'valid index {ix} on a batch of {n}: get {o["get"].get("raises")}, set {o["set"].get("raises")}'
    M0 = np.array(o['M0']).reshape(-1, 3, 3)
    G = np.array(o['get']['M']).reshape(-1, 3, 3)
    if len(G) != len(sel) or any(np.max(np.abs(G[k] - M0[p])) > 1e-12 or o['get']['f'][k] != o['f0'][p] for k, p in enumerate(sel)):
        return f'r[{ix}] is not the list of elements {sel}'
    if o['get']['single'] != (ix['t'] == 'int'):
        return f'r[{ix}]: single = {o["get"]["single"]}'
    Sm = np.array(o['set']['M']).reshape(-1, 3, 3)
    V = np.array(o['valM']).reshape(3, 3)
    for p in range(n):
        want, wf = (V, o['valf']) if p in sel else (M0[p], o['f0'][p])
        if np.max(np.abs(Sm[p] - want)) > 1e-12 or o['set']['f'][p] != wf:
            return f'after r[{ix}] = v element {p} is {"not v" if p in sel else "changed"}'
    B = np.array(o['back']['M']).reshape(-1, 3, 3)
    if len(B) != len(sel) or any(np.max(np.abs(b - V)) > 1e-12 for b in B) or any(f != o['valf'] for f in o['back']['f']):
        return f'r[{ix}] after r[{ix}] = v does not read v back'
    return None


FAMILIES.append(Family('index_model', _gen_index_model, _impl_index_model, _coq_index_model, PREAMBLE, _cmp_index_model, _oracle_index_model,
                       shard=40, nontrivial=lambda c: True, descr=lambda c: {'ix': c['ix']['t'], 'n': len(c['init'])},
                       theorem='C13_index_positions, C13_index_int, C13_index_slice, C13_getitem_setitem, C13_getitem_elements, C13_index_natural'))


# ---- added after round-2 seeding (an agent noticed it on the unchanged tree): flags created by broadcasting a scalar, and values derived
# ---- from another rotation, must be independent storage: an in-place edit of one element / of the derived value touches nothing else ----
_CONSTRUCT = ['random_true', 'from_quat_true', 'from_rotvec_true', 'from_euler_true', 'from_quat_bcast1', 'init_true', 'identity']
_DERIVE = ['inv', 'pow1', 'pow-1', 'pow3', 'reflect', 'invert_axes', 'matmul_id', 'reshape', 'concatenate', 'getitem_all']
_EDIT2 = ['setitem_proper', 'setitem_improper', 'is_improper_flip', 'is_improper_false', 'quaternion_w']


def _gen_flag_storage(rng, tier):
    out = [{'kind': 'element', 'construct': c, 'n': n, 'pos': p, 'seed': 11 + n, 'edit': e}
           for c in _CONSTRUCT for (n, p) in ((3, 0), (2, 1)) for e in ('setitem_proper', 'is_improper_one')]
    out += [{'kind': 'derived', 'derive': d, 'single': s, 'improper': imp, 'edit': e, 'seed': 5}
            for d in _DERIVE for s in (True, False) for imp in (True, False)
            for e in (('is_improper_flip', 'quaternion_w') if s else ('setitem_proper', 'is_improper_false'))]
    for _ in range(0 if tier == 'quick' else 200):
        if rng.random() < 0.5:
            n = rng.randint(1, 5)
            out.append({'kind': 'element', 'construct': rng.choice(_CONSTRUCT), 'n': n, 'pos': rng.randrange(n), 'seed': rng.randrange(10 ** 6),
                        'edit': rng.choice(['setitem_proper', 'is_improper_one'])})
        else:
            out.append({'kind': 'derived', 'derive': rng.choice(_DERIVE), 'single': rng.random() < 0.5, 'improper': rng.random() < 0.6,
                        'edit': rng.choice(_EDIT2), 'seed': rng.randrange(10 ** 6)})
    return out


def _impl_flag_storage(c):
    import torch
    from mrpro.data import Rotation
    g = torch.Generator().manual_seed(c['seed'])

    def quats(n):
        q = torch.randint(-4, 5, (n, 4), generator=g).to(torch.float64)
        q[:, 3] += 5
        return q
    proper = Rotation(torch.tensor([1.0, 2.0, -1.0, 3.0], dtype=torch.float64), normalize=True)
    improper = Rotation(torch.tensor([1.0, 2.0, -1.0, 3.0], dtype=torch.float64), normalize=True, inversion=True)
    if c['kind'] == 'element':
        n = c['n']
        k = c['construct']
        if k == 'random_true':
            r = Rotation.random(n, random_state=c['seed'], improper=True)
        elif k == 'from_quat_true':
            r = Rotation.from_quat(quats(n), inversion=True)
        elif k == 'from_rotvec_true':
            r = Rotation.from_rotvec(quats(n)[:, :3] / 4, inversion=True)
        elif k == 'from_euler_true':
            r = Rotation.from_euler('zyx', quats(n)[:, :3] / 4, inversion=True)
        elif k == 'from_quat_bcast1':
            r = Rotation.from_quat(quats(n), inversion=torch.tensor([True]))
        elif k == 'init_true':
            r = Rotation(quats(n), normalize=True, inversion=True, copy=False)
        else:
            r = Rotation.identity(n)
        before = r.as_matrix().clone()
        p = c['pos']
        if c['edit'] == 'setitem_proper':
            r[p] = proper
            want = proper.as_matrix()
        else:
            f = r.is_improper.clone()
            f[p] = ~f[p]
            r.is_improper = f
            want = -before[p]
        after = r.as_matrix()
        others = [i for i in range(n) if i != p]
        return {'dev_others': float((after[others] - before[others]).abs().max()) if others else 0.0,
                'dev_edited': float((after[p] - want.to(after.dtype)).abs().max())}
    q = quats(1 if c['single'] else 3)
    base = Rotation(q[0] if c['single'] else q, normalize=True, inversion=c['improper'] if c['single'] else torch.tensor([c['improper'], False, True]))
    before = base.as_matrix().clone()
    d = c['derive']
    if d == 'inv':
        s = base.inv()
    elif d.startswith('pow'):
        s = base ** int(d[3:])
    elif d == 'reflect':
        s = base.reflect()
    elif d == 'invert_axes':
        s = base.invert_axes()
    elif d == 'matmul_id':
        s = base @ Rotation(torch.tensor([0.0, 0.0, 0.0, 1.0], dtype=torch.float64))
    elif d == 'reshape':
        s = base.reshape(1) if c['single'] else base.reshape(3, 1)
    elif d == 'concatenate':
        s = Rotation.concatenate([base])
    else:
        s = base[...]
    derived_before = s.as_matrix().clone()
    e = c['edit']
    if e in ('setitem_proper', 'setitem_improper'):
        v = proper if e == 'setitem_proper' else improper
        if s.single:
            s[...] = v
        else:
            s[(0,) * len(s.shape)] = v
    elif e == 'is_improper_flip':
        s.is_improper = ~s.is_improper
    elif e == 'is_improper_false':
        s.is_improper = False
    else:
        s.quaternion_w = s.quaternion_w * 0 + 0.5
    changed = float((s.as_matrix() - derived_before).abs().max())
    return {'dev_base': float((base.as_matrix() - before).abs().max()), 'changed': changed}


def _oracle_flag_storage(c, o):
    if isinstance(o, dict) and 'raises' in o:
        return None if o['raises'] in ('AttributeError', 'TypeError') and c['kind'] == 'derived' else f'raised {o}'
    if c['kind'] == 'element':
        if o['dev_others'] > 0:
            return (f'editing element {c["pos"]} ({c["edit"]}) of a batch of {c["n"]} rotations built by {c["construct"]} changed the matrices of the '
                    f'OTHER elements by {o["dev_others"]:.3g}')
        if o['dev_edited'] > 1e-6:
            return f'after {c["edit"]} at {c["pos"]} ({c["construct"]}) the edited element differs from the assigned value by {o["dev_edited"]:.3g}'
        return None
    if o['dev_base'] > 0:
        return (f'editing ({c["edit"]}) the rotation returned by {c["derive"]} of a {"single" if c["single"] else "batched"} '
                f'{"improper" if c["improper"] else "proper"} rotation changed the matrices of the rotation it was derived from by {o["dev_base"]:.3g}')
    return None


FAMILIES.append(Family('flag_storage', _gen_flag_storage, _impl_flag_storage, None, '', None, _oracle_flag_storage,
                       theorem='C13_history_local (an edit touches the edited value only)'))


# ---- added after the repair 6376a33: a batch built with a per-element reflection mask; elements whose flag is False keep their rotation ----
def _gen_reflection_mask(rng, tier):
    out = []
    for i in range(6 if tier == 'quick' else 80):
        n = rng.randint(2, 5)
        qs = [[rng.randint(-3, 3) for _ in range(4)] for _ in range(n)]
        qs = [q if any(q[:3]) else [1, 0, 0, 2] for q in qs]       # rotations with an axis ...
        k = rng.randrange(n)
        qs[k] = [0, 0, 0, rng.choice([1, 2, -1])]                  # ... except one identity element, which is not reflected
        mask = [bool(rng.getrandbits(1)) for _ in range(n)]
        mask[k] = False
        if not any(mask):
            mask[(k + 1) % n] = True
        out.append({'q': qs, 'mask': mask, 'via': ['from_quat', 'init'][i % 2]})
    return out


def _impl_reflection_mask(c):
    from mrpro.data import Rotation
    q = torch.tensor(c['q'], dtype=torch.float64)
    m = torch.tensor(c['mask'])
    r = Rotation.from_quat(q, reflection=m) if c['via'] == 'from_quat' else Rotation(q, normalize=True, reflection=m)
    single = [Rotation.from_quat(q[i], reflection=bool(m[i])).as_matrix().tolist() for i in range(len(c['q']))]
    return {'M': r.as_matrix().tolist(), 'f': [bool(x) for x in r.is_improper.tolist()], 'single': single}


def _oracle_reflection_mask(c, o):
    if isinstance(o, dict) and 'raises' in o:
        return f'Rotation with a reflection mask raised {o["raises"]}: {o.get("msg")}'
    M, S = np.array(o['M']), np.array(o['single'])
    for i, (mi, si, fl) in enumerate(zip(M, S, c['mask'])):
        if not np.all(np.isfinite(mi)):
            return f'element {i} (reflection flag {fl}, quaternion {c["q"][i]}) of a batch built with reflection={c["mask"]} has a non-finite matrix'
        if abs(np.linalg.det(mi) - (-1.0 if fl else 1.0)) > 1e-6 or np.abs(mi @ mi.T - np.eye(3)).max() > 1e-6:
            return f'element {i}: matrix is not orthogonal with determinant {-1 if fl else 1}'
        if np.abs(mi - si).max() > 1e-6:
            return f'element {i} of the batch differs from the same rotation built alone'
        if o['f'][i] != fl:
            return f'element {i}: improper flag {o["f"][i]} for reflection {fl}'
    return None


FAMILIES.append(Family('reflection_mask', _gen_reflection_mask, _impl_reflection_mask, None, '', None, _oracle_reflection_mask,
                       descr=lambda c: {'via': c['via']}, theorem='(implementation-level: element-wise consistency of batched construction)'))
