"""C20 - resampling operators interpolate and integrate as specified (GridSamplingOp, SliceProjectionOp)."""
import itertools
import random
import math
from fractions import Fraction

import torch

import vlib
from vlib import Family, qlit, zlit, zlist

LEVEL = 'proof'
RULE = ('GridSamplingOp: random integer-valued real/complex tensors (2-D up to 5x6, 3-D up to 3x4x5), dyadic grids in [-1.75,1.75] '
        '(on pixels, on the border, beyond, nearest ties), bilinear/nearest x zeros/border x align_corners, grid batch 1..3, '
        'x batch equal or broadcast, 0-2 extra channel dims; forward and adjoint against the Q model (vm_compute); bicubic/reflection '
        'only through implementation-level oracles (identity grid, re/im alike, adjointness, linearity). '
        'SliceProjectionOp: dense rows of the sparse matrix for identity / exact axis-permuting (120/180 degree) / Pythagorean '
        'rotations, integer and half-integer shifts, rectangular profiles of width 1..8 and SliceSmoothedRectangular(w,0) against the '
        'Q model; Gaussian profiles against a float twin of the model; oracles: weights >= 0, rows sum to the fraction in view (1 inside), '
        'constant volume -> constant slice, wide profile not truncated, axis-aligned = profile-weighted slicing (numpy reference). '
        'Non-trivial = at least one grid point strictly between pixels / a profile wider than one voxel or a non-identity rotation; '
        'distinct by case hash.')
TRUSTED_BASE = ['aten grid_sampler_{2d,3d} and their backward kernels (contract modelled in Model/GridSample.v, validated by correspondence)',
                'torch sparse COO coalesce / matmul, Rotation.from_matrix/as_matrix (user only)',
                'python Fraction twin of Model/SliceProj.v in this file (used to flag float-degenerate rows and for Gaussian profiles; '
                'cross-checked against the Coq model on every rectangular case)']
ASSUMPTIONS = ['grid values and shifts are dyadic so that float64 coordinate arithmetic of the kernels is exact',
               'rows of SliceProjectionOp whose exact coordinates sit on a floor / weight>0 discontinuity under an inexact rotation '
               'matrix are excluded from the value comparison (counted in the evidence)']
PRE_GRID = 'From MrVerif Require Import Base.Prelude Model.GridSample.\nFrom Coq Require Import QArith.'


def qlist(xs):
    return '[' + '; '.join(qlit(x) for x in xs) + ']'


def prod(xs):
    n = 1
    for s in xs:
        n *= s
    return n


# =================================================================================================
# GridSamplingOp
# =================================================================================================
MODES = {'bilinear': 'Bilinear', 'nearest': 'Nearest'}
PADS = {'zeros': 'PZeros', 'border': 'PBorder'}


def _grid_vals(rng, n, dim):
    """dyadic coordinates: eighths in [-1.75, 1.75], biased towards the interesting set"""
    special = [-1.0, 1.0, 0.0, -0.5, 0.5, -1.25, 1.25, -1.5, 1.5, -0.75, 0.75, 0.25, -0.25]
    out = []
    for _ in range(n * dim):
        r = rng.random()
        if r < 0.35:
            out.append(rng.choice(special))
        elif r < 0.9:
            out.append(rng.randint(-16, 16) / 16)
        else:
            out.append(rng.randint(-28, 28) / 16)
    return out


def _mk_grid_case(rng, dim, mode, pad, ac, cplx, gb=None, xb=None, chans=None, shape=None, out=None):
    if shape is None:
        shape = [rng.randint(1, 5), rng.randint(1, 6)] if dim == 2 else [rng.randint(1, 3), rng.randint(1, 4), rng.randint(1, 5)]
        if rng.random() < 0.5:  # sizes where pixel centres are dyadic
            shape = [rng.choice([2, 3, 5] if ac else [1, 2, 4]) for _ in shape]
            if dim == 3:
                shape[0] = min(shape[0], 3)
    if gb is None:
        gb = rng.choice([[1], [2], [3], [1], [2, 1], [1, 2]])
    if xb is None:
        xb = [rng.choice([g, g, 1]) if g > 1 else rng.choice([1, 1, 2]) for g in gb]
    if chans is None:
        chans = rng.choice([[1], [2], [1], [2, 1], [1, 2], [3]])
    if out is None:
        out = [rng.randint(1, 3) for _ in range(dim)]
    nout = prod(out)
    nb = prod([max(a, b) for a, b in zip(xb, gb)])
    C = prod(chans)
    grid = _grid_vals(rng, prod(gb) * nout, dim)
    nx = prod(xb) * C * prod(shape)
    ny = nb * C * nout

    def ints(n):
        return [rng.randint(-9, 9) for _ in range(n)]
    c = {'dim': dim, 'mode': mode, 'pad': pad, 'ac': ac, 'cplx': cplx, 'shape': shape, 'gb': gb, 'xb': xb, 'chans': chans,
         'out': out, 'grid': grid, 'x': ints(nx), 'y': ints(ny)}
    if cplx:
        c['xi'] = ints(nx)
        c['yi'] = ints(ny)
    return c


def gen_grid(rng, tier):
    cases = []
    # corpus: complex input with grid batch 2 / 3 (defective before the repair of the reshape wrapper)
    r0 = random.Random(7)
    for gbv in ([2], [3], [2, 1]):
        cases.append(_mk_grid_case(r0, 2, 'bilinear', 'zeros', False, True, gb=gbv, xb=list(gbv), chans=[2], shape=[3, 4], out=[2, 2]))
    combos = list(itertools.product([2, 3], MODES, PADS, [False, True], [False, True]))
    reps = 3 if tier == 'quick' else 60
    for _ in range(reps):
        for dim, mode, pad, ac, cplx in combos:
            cases.append(_mk_grid_case(rng, dim, mode, pad, ac, cplx))
    return cases


def _grid_tensors(c):
    from mrpro.data import SpatialDimension
    dim = c['dim']
    shape, gb, xb, chans, out = c['shape'], c['gb'], c['xb'], c['chans'], c['out']
    grid = torch.tensor(c['grid'], dtype=torch.float64).reshape(*gb, *out, dim)
    x = torch.tensor(c['x'], dtype=torch.float64).reshape(*xb, *chans, *shape)
    bs = [max(a, b) for a, b in zip(xb, gb)]
    y = torch.tensor(c['y'], dtype=torch.float64).reshape(*bs, *chans, *out)
    if c['cplx']:
        x = torch.complex(x, torch.tensor(c['xi'], dtype=torch.float64).reshape(x.shape))
        y = torch.complex(y, torch.tensor(c['yi'], dtype=torch.float64).reshape(y.shape))
    zyx = [1] * (3 - dim) + list(shape)
    return grid, x, y, SpatialDimension(*zyx)


def _flat(t):
    if t.is_complex():
        return [[a, b] for a, b in zip(t.real.flatten().tolist(), t.imag.flatten().tolist())]
    return t.flatten().tolist()


def impl_grid(c):
    from mrpro.operators import GridSamplingOp
    grid, x, y, ishape = _grid_tensors(c)
    op = GridSamplingOp(grid, ishape, interpolation_mode=c['mode'], padding_mode=c['pad'], align_corners=c['ac'])
    (fx,) = op(x)
    (ay,) = op.adjoint(y)
    o = {'fwd_shape': list(fx.shape), 'fwd': _flat(fx), 'adj_shape': list(ay.shape), 'adj': _flat(ay)}
    if c['cplx']:
        (fr,) = op(x.real.contiguous())
        (fi,) = op(x.imag.contiguous())
        o['reim_err'] = float((fx - torch.complex(fr, fi)).abs().max())
        (ar,) = op.adjoint(y.real.contiguous())
        (ai,) = op.adjoint(y.imag.contiguous())
        o['reim_err_adj'] = float((ay - torch.complex(ar, ai)).abs().max())
    if list(fx.shape) == list(y.shape) and list(ay.shape) == list(x.shape):
        lhs = torch.vdot(y.flatten().to(fx.dtype), fx.flatten())
        rhs = torch.vdot(ay.flatten(), x.flatten().to(ay.dtype))
        o['dot'] = [complex(lhs).real, complex(lhs).imag, complex(rhs).real, complex(rhs).imag]
    # linearity: A(2 x + x') with x' a shifted copy
    x2 = torch.roll(x, 1, -1) * 3
    (f2,) = op(x2)
    (f3,) = op(2 * x + x2)
    o['lin_err'] = float((f3 - (2 * fx + f2)).abs().max())
    return o


def _coq_grid_list(c):
    dim = c['dim']
    g = c['grid']
    if dim == 2:
        return '[' + '; '.join(f'({qlit(g[i])}, {qlit(g[i + 1])})' for i in range(0, len(g), 2)) + ']'
    return '[' + '; '.join(f'({qlit(g[i])}, {qlit(g[i + 1])}, {qlit(g[i + 2])})' for i in range(0, len(g), 3)) + ']'


def coq_grid(c):
    dim = c['dim']
    cfg = f'{MODES[c["mode"]]} {PADS[c["pad"]]} {vlib.boollit(c["ac"])} ' + ' '.join(zlit(s) for s in c['shape'])
    fwd, adj = (f'(fwd{dim} {cfg})', f'(adj{dim} {cfg})')
    sp, nout, C = prod(c['shape']), prod(c['out']), prod(c['chans'])
    bs = [max(a, b) for a, b in zip(c['xb'], c['gb'])]
    lay = f'{zlist(c["xb"])} {zlist(c["gb"])} {zlit(C)}'
    layb = f'{zlist(bs)} {zlist(c["gb"])} {zlit(C)}'  # the adjoint's argument lives on the broadcast batch shape
    grid = _coq_grid_list(c)
    if c['cplx']:
        return (f'(qouts2 (run_complex {fwd} {lay} {zlit(sp)} {zlit(nout)} {qlist(c["x"])} {qlist(c["xi"])} {grid}), '
                f'qouts2 (run_complex {adj} {layb} {zlit(nout)} {zlit(nout)} {qlist(c["y"])} {qlist(c["yi"])} {grid}))')
    return (f'(qouts (run_real {fwd} {lay} {zlit(sp)} {zlit(nout)} {qlist(c["x"])} {grid}), '
            f'qouts (run_real {adj} {layb} {zlit(nout)} {zlit(nout)} {qlist(c["y"])} {grid}))')


def _fr(w):
    """model value printed by qout: (num, den), or a pair of those for complex"""
    if isinstance(w[0], tuple):
        return [Fraction(w[0][0], w[0][1]), Fraction(w[1][0], w[1][1])]
    return [Fraction(w[0], w[1])]


def _cmp_vals(name, got, want, tol=1e-9):
    if len(got) != len(want):
        return f'{name}: impl has {len(got)} values, model {len(want)}'
    for k, (g, w) in enumerate(zip(got, want)):
        gs = g if isinstance(g, list) else [g]
        ws = _fr(w)
        for a, b in zip(gs, ws):
            if not (abs(a - float(b)) <= tol * max(1.0, abs(float(b)))):
                return f'{name}[{k}]: impl {g} model {[str(t) for t in ws]}'
    return None


def cmp_grid(c, o, m):
    if isinstance(o, dict) and 'raises' in o:
        return f'impl raises {o["raises"]}: {o.get("msg")}'
    mf, ma = m
    bs = [max(a, b) for a, b in zip(c['xb'], c['gb'])]
    if o['fwd_shape'] != bs + c['chans'] + c['out']:
        return f'forward shape {o["fwd_shape"]}'
    if o['adj_shape'] != bs + c['chans'] + c['shape']:
        return f'adjoint shape {o["adj_shape"]}'
    return _cmp_vals('forward', o['fwd'], mf) or _cmp_vals('adjoint', o['adj'], ma)


def oracle_grid(c, o):
    if isinstance(o, dict) and 'raises' in o:
        return f'valid configuration rejected: {o["raises"]} {o.get("msg")}'
    if o.get('reim_err', 0) > 1e-9:
        return f'complex input: result differs from sampling real and imaginary part alike (max diff {o["reim_err"]:.3g})'
    if o.get('reim_err_adj', 0) > 1e-9:
        return f'complex input: adjoint differs from adjoint of real and imaginary part (max diff {o["reim_err_adj"]:.3g})'
    if o['lin_err'] > 1e-9:
        return f'sampling is not linear in the input (defect {o["lin_err"]:.3g})'
    if 'dot' in o:
        a, b, cc, d = o['dot']
        if abs(a - cc) + abs(b - d) > 1e-9 * max(1.0, abs(a) + abs(b)):
            return f'<A x, y> = {a}+{b}i but <x, A^H y> = {cc}+{d}i'
    return None


def _nontrivial_grid(c):
    return any(abs(v * 16) % 16 != 0 for v in c['grid'])


# ---- implementation-level oracles for all modes (incl. bicubic / reflection): identity grid, re/im alike, adjointness ----
def gen_grid_oracle(rng, tier):
    cases = []
    modes = ['bilinear', 'nearest', 'bicubic']
    pads = ['zeros', 'border', 'reflection']
    for _ in range(1 if tier == 'quick' else 12):
        for dim, mode, pad, ac, cplx in itertools.product([2, 3], modes, pads, [False, True], [False, True]):
            if dim == 3 and mode == 'bicubic':
                continue
            shape = [rng.randint(1, 6) for _ in range(dim)]
            B = rng.choice([1, 2, 3])
            cases.append({'dim': dim, 'mode': mode, 'pad': pad, 'ac': ac, 'cplx': cplx, 'shape': shape, 'B': B,
                          'chans': rng.choice([[1], [2], [2, 2]]), 'seed': rng.randrange(10 ** 6)})
    return cases


def _identity_grid(shape, ac):
    axes = []
    for n in shape:
        j = torch.arange(n, dtype=torch.float64)
        if ac:
            axes.append(-1 + 2 * j / (n - 1) if n > 1 else torch.zeros(1, dtype=torch.float64))
        else:
            axes.append((2 * j + 1) / n - 1)
    mesh = torch.meshgrid(*axes, indexing='ij')
    return torch.stack(mesh[::-1], -1)  # last axis ordered x, y, z


def impl_grid_oracle(c):
    from mrpro.data import SpatialDimension
    from mrpro.operators import GridSamplingOp
    g = torch.Generator().manual_seed(c['seed'])
    dim, shape, B = c['dim'], c['shape'], c['B']

    def rnd(*s):
        t = torch.randint(-9, 10, s, generator=g).to(torch.float64)
        return torch.complex(t, torch.randint(-9, 10, s, generator=g).to(torch.float64)) if c['cplx'] else t
    ishape = SpatialDimension(*([1] * (3 - dim) + list(shape)))
    kw = dict(interpolation_mode=c['mode'], padding_mode=c['pad'], align_corners=c['ac'])
    # identity grid, the same for each batch element
    idg = _identity_grid(shape, c['ac']).unsqueeze(0).expand(B, *shape, dim).contiguous()
    x = rnd(B, *c['chans'], *shape)
    (ix,) = GridSamplingOp(idg, ishape, **kw)(x)
    o = {'id_err': float((ix - x).abs().max())}
    # random grid per batch element
    grid = (torch.randint(-20, 21, (B, *[2] * dim, dim), generator=g) / 16).to(torch.float64)
    op = GridSamplingOp(grid, ishape, **kw)
    (fx,) = op(x)
    y = rnd(*fx.shape)
    (ay,) = op.adjoint(y)
    lhs, rhs = torch.vdot(y.flatten(), fx.flatten()), torch.vdot(ay.flatten(), x.flatten())
    o['dot_err'] = float(abs(complex(lhs) - complex(rhs)))
    o['dot_mag'] = float(abs(complex(lhs)))
    if c['cplx']:
        (fr,) = op(x.real.contiguous())
        (fi,) = op(x.imag.contiguous())
        o['reim_err'] = float((fx - torch.complex(fr, fi)).abs().max())
    # per-batch consistency: batch element b alone gives the same result
    b = B - 1
    (fb,) = GridSamplingOp(grid[b:b + 1], ishape, **kw)(x[b:b + 1])
    o['batch_err'] = float((fb[0] - fx[b]).abs().max())
    return o


def oracle_grid_oracle(c, o):
    if isinstance(o, dict) and 'raises' in o:
        return f'valid configuration rejected: {o["raises"]} {o.get("msg")}'
    if o['id_err'] > 1e-9:
        return f'identity grid does not return the input (max diff {o["id_err"]:.3g})'
    if o.get('reim_err', 0) > 1e-9:
        return f'real and imaginary parts are not sampled alike (max diff {o["reim_err"]:.3g})'
    if o['batch_err'] > 1e-9:
        return f'batch element sampled with another grid (max diff {o["batch_err"]:.3g})'
    if o['dot_err'] > 1e-9 * max(1.0, o['dot_mag']):
        return f'<A x, y> differs from <x, A^H y> by {o["dot_err"]:.3g}'
    return None


FAMILIES = [
    Family('grid_sampling', gen_grid, impl_grid, coq_grid, PRE_GRID, cmp_grid, oracle_grid, nontrivial=_nontrivial_grid,
           descr=lambda c: {k: c[k] for k in ('dim', 'mode', 'pad', 'ac', 'cplx', 'gb', 'xb', 'chans', 'shape')},
           shard=12, theorem='C20_grid_*'),
    Family('grid_sampling_oracles', gen_grid_oracle, impl_grid_oracle, None, '', None, oracle_grid_oracle,
           theorem='(implementation-level: identity grid, re/im alike, adjointness for all modes incl. bicubic/reflection)'),
]
