"""C20 - resampling operators interpolate and integrate as specified (GridSamplingOp, SliceProjectionOp)."""
import itertools
import random
import math
from fractions import Fraction

import torch

import vlib
from vlib import Family, qlit, zlit, zlist

LEVEL = 'proof'
RULE = ('GridSamplingOp: random integer-valued real/complex tensors (2-D up to 5x6, 3-D up to 3x4x5), dyadic grids in [-1.75,1.75] '
        '(on pixels, on the border, beyond, nearest ties), bilinear/nearest (2-D, 3-D) and bicubic (2-D) x zeros/border x align_corners, grid batch 1..3, '
        'x batch equal or broadcast, 0-2 extra channel dims; forward and adjoint against the Q model (vm_compute); reflection padding '
        'only through implementation-level oracles (identity grid, re/im alike, adjointness, linearity). '
        'SliceProjectionOp: dense rows of the sparse matrix for identity / exact axis-permuting (120/180 degree) / Pythagorean '
        'rotations, integer and half-integer shifts, rectangular profiles of width 1..8 and SliceSmoothedRectangular(w,0) against the '
        'Q model; Gaussian profiles against a float twin of the model; oracles: weights >= 0, rows sum to the fraction in view (1 inside), '
        'constant volume -> constant slice, wide profile not truncated, axis-aligned = profile-weighted slicing (numpy reference). '
        'Non-trivial = at least one grid point strictly between pixels / a profile wider than one voxel or a non-identity rotation; '
        'distinct by case hash.')
TRUSTED_BASE = ['translator harness/translate/sliceproj.py (ast -> Gallina for _find_width and the geometry / weights / normalisation of '
                'projection_matrix; remaining statements and the GridSamplingOp reshape wrapper pinned textually; fail-closed)',
                'aten grid_sampler_{2d,3d} and their backward kernels (contract modelled in Model/GridSample.v, validated by correspondence)',
                'torch sparse COO coalesce / matmul, Rotation.from_matrix/as_matrix (user only)',
                'python Fraction twin of Model/SliceProj.v in this file (used to flag float-degenerate rows and for Gaussian profiles; '
                'cross-checked against the Coq model on every rectangular case)']
ASSUMPTIONS = ['grid values and shifts are dyadic so that float64 coordinate arithmetic of the kernels is exact',
               'rows of SliceProjectionOp whose exact coordinates sit on a floor / weight>0 discontinuity under an inexact rotation '
               'matrix are excluded from the value comparison (counted in the evidence)']
PRE_GRID = 'From MrVerif Require Import Base.Prelude Model.GridSample.\nFrom Coq Require Import QArith.'


def qlist(xs):
    return '[' + '; '.join(qlit(x) for x in xs) + ']'


def prod(xs):
    n = 1
    for s in xs:
        n *= s
    return n


# =================================================================================================
# GridSamplingOp
# =================================================================================================
MODES = {'bilinear': 'Bilinear', 'nearest': 'Nearest'}
PADS = {'zeros': 'PZeros', 'border': 'PBorder'}


def _grid_vals(rng, n, dim):
    """dyadic coordinates: eighths in [-1.75, 1.75], biased towards the interesting set"""
    special = [-1.0, 1.0, 0.0, -0.5, 0.5, -1.25, 1.25, -1.5, 1.5, -0.75, 0.75, 0.25, -0.25]
    out = []
    for _ in range(n * dim):
        r = rng.random()
        if r < 0.35:
            out.append(rng.choice(special))
        elif r < 0.9:
            out.append(rng.randint(-16, 16) / 16)
        else:
            out.append(rng.randint(-28, 28) / 16)
    return out


def _mk_grid_case(rng, dim, mode, pad, ac, cplx, gb=None, xb=None, chans=None, shape=None, out=None):
    if shape is None:
        shape = [rng.randint(1, 5), rng.randint(1, 6)] if dim == 2 else [rng.randint(1, 3), rng.randint(1, 4), rng.randint(1, 5)]
        if rng.random() < 0.5:  # sizes where pixel centres are dyadic
            shape = [rng.choice([2, 3, 5] if ac else [1, 2, 4]) for _ in shape]
            if dim == 3:
                shape[0] = min(shape[0], 3)
    if gb is None:
        gb = rng.choice([[1], [2], [3], [1], [2, 1], [1, 2]])
    if xb is None:
        xb = [rng.choice([g, g, 1]) if g > 1 else rng.choice([1, 1, 2]) for g in gb]
    if chans is None:
        chans = rng.choice([[1], [2], [1], [2, 1], [1, 2], [3]])
    if out is None:
        out = [rng.randint(1, 3) for _ in range(dim)]
    nout = prod(out)
    nb = prod([max(a, b) for a, b in zip(xb, gb)])
    C = prod(chans)
    grid = _grid_vals(rng, prod(gb) * nout, dim)
    nx = prod(xb) * C * prod(shape)
    ny = nb * C * nout

    def ints(n):
        return [rng.randint(-9, 9) for _ in range(n)]
    c = {'dim': dim, 'mode': mode, 'pad': pad, 'ac': ac, 'cplx': cplx, 'shape': shape, 'gb': gb, 'xb': xb, 'chans': chans,
         'out': out, 'grid': grid, 'x': ints(nx), 'y': ints(ny)}
    if cplx:
        c['xi'] = ints(nx)
        c['yi'] = ints(ny)
    return c


def gen_grid(rng, tier):
    cases = []
    # corpus: complex input with grid batch 2 / 3 (defective before the repair of the reshape wrapper)
    r0 = random.Random(7)
    for gbv in ([2], [3], [2, 1]):
        cases.append(_mk_grid_case(r0, 2, 'bilinear', 'zeros', False, True, gb=gbv, xb=list(gbv), chans=[2], shape=[3, 4], out=[2, 2]))
    combos = list(itertools.product([2, 3], MODES, PADS, [False, True], [False, True]))
    reps = 3 if tier == 'quick' else 60
    for _ in range(reps):
        for dim, mode, pad, ac, cplx in combos:
            cases.append(_mk_grid_case(rng, dim, mode, pad, ac, cplx))
    # bicubic (2-D only) against the cubic-convolution model; appended last so that the cases above keep their random stream
    for _ in range(2 if tier == 'quick' else 40):
        for pad, ac, cplx in itertools.product(PADS, [False, True], [False, True]):
            cases.append(_mk_grid_case(rng, 2, 'bicubic', pad, ac, cplx))
    return cases


def _grid_tensors(c):
    from mrpro.data import SpatialDimension
    dim = c['dim']
    shape, gb, xb, chans, out = c['shape'], c['gb'], c['xb'], c['chans'], c['out']
    grid = torch.tensor(c['grid'], dtype=torch.float64).reshape(*gb, *out, dim)
    x = torch.tensor(c['x'], dtype=torch.float64).reshape(*xb, *chans, *shape)
    bs = [max(a, b) for a, b in zip(xb, gb)]
    y = torch.tensor(c['y'], dtype=torch.float64).reshape(*bs, *chans, *out)
    if c['cplx']:
        x = torch.complex(x, torch.tensor(c['xi'], dtype=torch.float64).reshape(x.shape))
        y = torch.complex(y, torch.tensor(c['yi'], dtype=torch.float64).reshape(y.shape))
    zyx = [1] * (3 - dim) + list(shape)
    return grid, x, y, SpatialDimension(*zyx)


def _flat(t):
    if t.is_complex():
        return [[a, b] for a, b in zip(t.real.flatten().tolist(), t.imag.flatten().tolist())]
    return t.flatten().tolist()


def impl_grid(c):
    from mrpro.operators import GridSamplingOp
    grid, x, y, ishape = _grid_tensors(c)
    op = GridSamplingOp(grid, ishape, interpolation_mode=c['mode'], padding_mode=c['pad'], align_corners=c['ac'])
    (fx,) = op(x)
    (ay,) = op.adjoint(y)
    o = {'fwd_shape': list(fx.shape), 'fwd': _flat(fx), 'adj_shape': list(ay.shape), 'adj': _flat(ay)}
    if c['cplx']:
        (fr,) = op(x.real.contiguous())
        (fi,) = op(x.imag.contiguous())
        o['reim_err'] = float((fx - torch.complex(fr, fi)).abs().max())
        (ar,) = op.adjoint(y.real.contiguous())
        (ai,) = op.adjoint(y.imag.contiguous())
        o['reim_err_adj'] = float((ay - torch.complex(ar, ai)).abs().max())
    if list(fx.shape) == list(y.shape) and list(ay.shape) == list(x.shape):
        lhs = torch.vdot(y.flatten().to(fx.dtype), fx.flatten())
        rhs = torch.vdot(ay.flatten(), x.flatten().to(ay.dtype))
        o['dot'] = [complex(lhs).real, complex(lhs).imag, complex(rhs).real, complex(rhs).imag]
    # linearity: A(2 x + x') with x' a shifted copy
    x2 = torch.roll(x, 1, -1) * 3
    (f2,) = op(x2)
    (f3,) = op(2 * x + x2)
    o['lin_err'] = float((f3 - (2 * fx + f2)).abs().max())
    return o


def _coq_grid_list(c):
    dim = c['dim']
    g = c['grid']
    if dim == 2:
        return '[' + '; '.join(f'({qlit(g[i])}, {qlit(g[i + 1])})' for i in range(0, len(g), 2)) + ']'
    return '[' + '; '.join(f'({qlit(g[i])}, {qlit(g[i + 1])}, {qlit(g[i + 2])})' for i in range(0, len(g), 3)) + ']'


def coq_grid(c):
    dim = c['dim']
    cfg = f'{MODES.get(c["mode"], "Bilinear")} {PADS[c["pad"]]} {vlib.boollit(c["ac"])} ' + ' '.join(zlit(s) for s in c['shape'])
    fwd, adj = (f'(fwd{dim} {cfg})', f'(adj{dim} {cfg})')
    if c['mode'] == 'bicubic':  # 2-D only; own tap model (index-bounded neighbours)
        cfgb = f'{PADS[c["pad"]]} {vlib.boollit(c["ac"])} ' + ' '.join(zlit(s) for s in c['shape'])
        fwd, adj = f'(fwd2_bicubic {cfgb})', f'(adj2_bicubic {cfgb})'
    sp, nout, C = prod(c['shape']), prod(c['out']), prod(c['chans'])
    bs = [max(a, b) for a, b in zip(c['xb'], c['gb'])]
    lay = f'{zlist(c["xb"])} {zlist(c["gb"])} {zlit(C)}'
    layb = f'{zlist(bs)} {zlist(c["gb"])} {zlit(C)}'  # the adjoint's argument lives on the broadcast batch shape
    grid = _coq_grid_list(c)
    if c['cplx']:
        return (f'(qouts2 (run_complex {fwd} {lay} {zlit(sp)} {zlit(nout)} {qlist(c["x"])} {qlist(c["xi"])} {grid}), '
                f'qouts2 (run_complex {adj} {layb} {zlit(nout)} {zlit(nout)} {qlist(c["y"])} {qlist(c["yi"])} {grid}))')
    return (f'(qouts (run_real {fwd} {lay} {zlit(sp)} {zlit(nout)} {qlist(c["x"])} {grid}), '
            f'qouts (run_real {adj} {layb} {zlit(nout)} {zlit(nout)} {qlist(c["y"])} {grid}))')


def _fr(w):
    """model value printed by qout: (num, den), or a pair of those for complex"""
    if isinstance(w[0], tuple):
        return [Fraction(w[0][0], w[0][1]), Fraction(w[1][0], w[1][1])]
    return [Fraction(w[0], w[1])]


def _cmp_vals(name, got, want, tol=1e-9):
    if len(got) != len(want):
        return f'{name}: impl has {len(got)} values, model {len(want)}'
    for k, (g, w) in enumerate(zip(got, want)):
        gs = g if isinstance(g, list) else [g]
        ws = _fr(w)
        for a, b in zip(gs, ws):
            if not (abs(a - float(b)) <= tol * max(1.0, abs(float(b)))):
                return f'{name}[{k}]: impl {g} model {[str(t) for t in ws]}'
    return None


def cmp_grid(c, o, m):
    if isinstance(o, dict) and 'raises' in o:
        return f'impl raises {o["raises"]}: {o.get("msg")}'
    mf, ma = m
    bs = [max(a, b) for a, b in zip(c['xb'], c['gb'])]
    if o['fwd_shape'] != bs + c['chans'] + c['out']:
        return f'forward shape {o["fwd_shape"]}'
    if o['adj_shape'] != bs + c['chans'] + c['shape']:
        return f'adjoint shape {o["adj_shape"]}'
    return _cmp_vals('forward', o['fwd'], mf) or _cmp_vals('adjoint', o['adj'], ma)


def oracle_grid(c, o):
    if isinstance(o, dict) and 'raises' in o:
        return f'valid configuration rejected: {o["raises"]} {o.get("msg")}'
    if o.get('reim_err', 0) > 1e-9:
        return f'complex input: result differs from sampling real and imaginary part alike (max diff {o["reim_err"]:.3g})'
    if o.get('reim_err_adj', 0) > 1e-9:
        return f'complex input: adjoint differs from adjoint of real and imaginary part (max diff {o["reim_err_adj"]:.3g})'
    if o['lin_err'] > 1e-9:
        return f'sampling is not linear in the input (defect {o["lin_err"]:.3g})'
    if 'dot' in o:
        a, b, cc, d = o['dot']
        if abs(a - cc) + abs(b - d) > 1e-9 * max(1.0, abs(a) + abs(b)):
            return f'<A x, y> = {a}+{b}i but <x, A^H y> = {cc}+{d}i'
    return None


def _nontrivial_grid(c):
    return any(abs(v * 16) % 16 != 0 for v in c['grid'])


# ---- implementation-level oracles for all modes (incl. bicubic / reflection): identity grid, re/im alike, adjointness ----
def gen_grid_oracle(rng, tier):
    cases = []
    modes = ['bilinear', 'nearest', 'bicubic']
    pads = ['zeros', 'border', 'reflection']
    for _ in range(1 if tier == 'quick' else 12):
        for dim, mode, pad, ac, cplx in itertools.product([2, 3], modes, pads, [False, True], [False, True]):
            if dim == 3 and mode == 'bicubic':
                continue
            shape = [rng.randint(1, 6) for _ in range(dim)]
            B = rng.choice([1, 2, 3])
            cases.append({'dim': dim, 'mode': mode, 'pad': pad, 'ac': ac, 'cplx': cplx, 'shape': shape, 'B': B,
                          'chans': rng.choice([[1], [2], [2, 2]]), 'seed': rng.randrange(10 ** 6)})
    return cases


def _identity_grid(shape, ac):
    axes = []
    for n in shape:
        j = torch.arange(n, dtype=torch.float64)
        if ac:
            axes.append(-1 + 2 * j / (n - 1) if n > 1 else torch.zeros(1, dtype=torch.float64))
        else:
            axes.append((2 * j + 1) / n - 1)
    mesh = torch.meshgrid(*axes, indexing='ij')
    return torch.stack(mesh[::-1], -1)  # last axis ordered x, y, z


def impl_grid_oracle(c):
    from mrpro.data import SpatialDimension
    from mrpro.operators import GridSamplingOp
    g = torch.Generator().manual_seed(c['seed'])
    dim, shape, B = c['dim'], c['shape'], c['B']

    def rnd(*s):
        t = torch.randint(-9, 10, s, generator=g).to(torch.float64)
        return torch.complex(t, torch.randint(-9, 10, s, generator=g).to(torch.float64)) if c['cplx'] else t
    ishape = SpatialDimension(*([1] * (3 - dim) + list(shape)))
    kw = dict(interpolation_mode=c['mode'], padding_mode=c['pad'], align_corners=c['ac'])
    # identity grid, the same for each batch element
    idg = _identity_grid(shape, c['ac']).unsqueeze(0).expand(B, *shape, dim).contiguous()
    x = rnd(B, *c['chans'], *shape)
    (ix,) = GridSamplingOp(idg, ishape, **kw)(x)
    o = {'id_err': float((ix - x).abs().max())}
    # random grid per batch element
    grid = (torch.randint(-20, 21, (B, *[2] * dim, dim), generator=g) / 16).to(torch.float64)
    op = GridSamplingOp(grid, ishape, **kw)
    (fx,) = op(x)
    y = rnd(*fx.shape)
    (ay,) = op.adjoint(y)
    lhs, rhs = torch.vdot(y.flatten(), fx.flatten()), torch.vdot(ay.flatten(), x.flatten())
    o['dot_err'] = float(abs(complex(lhs) - complex(rhs)))
    o['dot_mag'] = float(abs(complex(lhs)))
    if c['cplx']:
        (fr,) = op(x.real.contiguous())
        (fi,) = op(x.imag.contiguous())
        o['reim_err'] = float((fx - torch.complex(fr, fi)).abs().max())
    # per-batch consistency: batch element b alone gives the same result
    b = B - 1
    (fb,) = GridSamplingOp(grid[b:b + 1], ishape, **kw)(x[b:b + 1])
    o['batch_err'] = float((fb[0] - fx[b]).abs().max())
    return o


def oracle_grid_oracle(c, o):
    if isinstance(o, dict) and 'raises' in o:
        return f'valid configuration rejected: {o["raises"]} {o.get("msg")}'
    if o['id_err'] > 1e-9:
        return f'identity grid does not return the input (max diff {o["id_err"]:.3g})'
    if o.get('reim_err', 0) > 1e-9:
        return f'real and imaginary parts are not sampled alike (max diff {o["reim_err"]:.3g})'
    if o['batch_err'] > 1e-9:
        return f'batch element sampled with another grid (max diff {o["batch_err"]:.3g})'
    if o['dot_err'] > 1e-9 * max(1.0, o['dot_mag']):
        return f'<A x, y> differs from <x, A^H y> by {o["dot_err"]:.3g}'
    return None



# =================================================================================================
# SliceProjectionOp
# =================================================================================================
STATS = {'axis_pixels_decided': 0, 'axis_pixels_decided_irrational': 0, 'slice_rows_compared': 0, 'slice_rows_skipped_float_degenerate': 0, 'slice_rows_nan_expected': 0}
PRE_SLICE = 'From MrVerif Require Import Base.Prelude Model.SliceProj.\nFrom Coq Require Import QArith.'
F = Fraction


def _signed_perms():
    out = []
    for perm in itertools.permutations(range(3)):
        for signs in itertools.product([1, -1], repeat=3):
            M = [[0] * 3 for _ in range(3)]
            for i, (pp, sg) in enumerate(zip(perm, signs)):
                M[i][pp] = sg
            det = (M[0][0] * (M[1][1] * M[2][2] - M[1][2] * M[2][1]) - M[0][1] * (M[1][0] * M[2][2] - M[1][2] * M[2][0])
                   + M[0][2] * (M[1][0] * M[2][1] - M[1][1] * M[2][0]))
            if det == 1:
                out.append(M)
    return out


def _is_exact_perm(M):
    """rotations by 0 / 120 / 180 degrees: quaternion components in {0, +-1/2, +-1}, as_matrix() is exact.
    (trace 3, 0 or -1); the others (trace 1: 90 degrees about an axis; trace -1 with off-diagonal: 180 about a face diagonal)
    have quaternion components sqrt(1/2) and a float matrix with entries 1 + 2e-16."""
    tr = M[0][0] + M[1][1] + M[2][2]
    if tr == 3 or tr == 0:
        return True
    return tr == -1 and all(M[i][j] == 0 for i in range(3) for j in range(3) if i != j)


PERMS = _signed_perms()
PERM_EXACT = [M for M in PERMS if _is_exact_perm(M)]
PERM_INEXACT = [M for M in PERMS if not _is_exact_perm(M)]
_c, _s = F(3, 5), F(4, 5)
_c2, _s2 = F(5, 13), F(12, 13)
PYTH = [[[1, 0, 0], [0, _c, -_s], [0, _s, _c]], [[_c, 0, -_s], [0, 1, 0], [_s, 0, _c]], [[_c, -_s, 0], [_s, _c, 0], [0, 0, 1]],
        [[1, 0, 0], [0, _c2, _s2], [0, -_s2, _c2]], [[_s, 0, _c], [0, 1, 0], [-_c, 0, _s]],
        # product of two Pythagorean rotations (tilted normal and in-plane rotation)
        [[_c, -_s * _c, _s * _s], [_s, _c * _c, -_c * _s], [0, _s, _c]]]


def _mat_json(M):
    return [[[F(a).numerator, F(a).denominator] for a in row] for row in M]


def _mat_frac(Mj):
    return [[F(a[0], a[1]) for a in row] for row in Mj]


def matvec(M, v):
    return [sum(M[i][j] * v[j] for j in range(3)) for i in range(3)]


def mat_t_vec(M, v):
    return [sum(M[j][i] * v[j] for j in range(3)) for i in range(3)]


def _profile_q(pj):
    """exact profile (Fraction -> Fraction) for the rectangular kinds; float profile for the others"""
    kind = pj['kind']
    if kind == 'rect':
        h = F(*pj['h'])
        return lambda d: 1 if abs(d) <= h else 0
    if kind == 'arect':   # one-sided / asymmetric rectangle lo <= d <= hi (added after seeded change C20-3)
        lo, hi = F(*pj['lo']), F(*pj['hi'])
        return lambda d: 1 if lo <= d <= hi else 0
    if kind == 'smoothed0':
        w = F(*pj['fwhm'])
        return lambda d: 1 if abs(d * 2 / w) <= 1 else 0
    if kind == 'gauss':
        fw = float(F(*pj['fwhm']))
        return lambda d: math.exp(-(float(d) ** 2) / (0.36 * fw ** 2))
    if kind == 'smoothed':
        fr, fg = float(F(*pj['fwhm'])), float(F(*pj['fg']))
        n = (math.log(2) ** 0.5) * fr / fg
        return lambda d: (math.erf(n * (1 - float(d) * 2 / fr)) + math.erf(n * (1 + float(d) * 2 / fr))) / (2 * math.erf(n))
    raise ValueError(kind)


def _profile_impl(pj):
    from mrpro.utils.slice_profiles import SliceGaussian, SliceSmoothedRectangular
    kind = pj['kind']
    if kind == 'rect':
        h = float(F(*pj['h']))
        return lambda x: (x.abs() <= h).float()
    if kind == 'arect':
        lo, hi = float(F(*pj['lo'])), float(F(*pj['hi']))
        return lambda x: ((x >= lo) & (x <= hi)).float()
    if kind == 'smoothed0':
        return SliceSmoothedRectangular(float(F(*pj['fwhm'])), 0.0)
    if kind == 'gauss':
        return SliceGaussian(float(F(*pj['fwhm'])))
    if kind == 'smoothed':
        return SliceSmoothedRectangular(float(F(*pj['fwhm'])), float(F(*pj['fg'])))
    raise ValueError(kind)


def _profile_coq(pj):
    if pj['kind'] == 'rect':
        return f'(rect {qlit(F(*pj["h"]))})'
    if pj['kind'] == 'smoothed0':
        return f'(smoothed_rect0 {qlit(F(*pj["fwhm"]))})'
    if pj['kind'] == 'arect':
        return f'(arect {qlit(F(*pj["lo"]))} {qlit(F(*pj["hi"]))})'
    raise ValueError(pj['kind'])


def twin_find_width(mx, prof):
    tv = list(range(-mx, mx + 1))
    pv = [prof(F(t)) for t in tv]
    tot = sum(pv)
    acc, cdf = 0, []
    for v in pv:
        acc = acc + v
        cdf.append(acc / tot)
    left = next((t for t, v in zip(tv, cdf) if v > (F(1, 100) if isinstance(v, F) else 0.01)), tv[0])
    right = next((t for t, v in zip(tv, cdf) if v > (F(99, 100) if isinstance(v, F) else 0.99)), tv[0])
    return max(abs(left), abs(right)) + 1


def twin_row(shape, M, shift, w, prof, r, c):
    """python twin of Model/SliceProj.v `row` (exact geometry in Fractions; the profile may return floats).
    Returns (entries {pt: weight}, npos, degenerate) where degenerate says that some floor / weight>0 argument sits exactly
    on its discontinuity (a float evaluation with an inexact rotation matrix may then legitimately differ)."""
    nz, ny, nx = shape
    mx = max(shape)
    sx, sy = (nx - mx) // 2, (ny - mx) // 2
    half = F(1, 2)
    cen = [F(nz, 2) - half, F(ny, 2) - half, F(nx, 2) - half]
    p = [F(nz, 2) - half + shift, F(sy + r), F(sx + c)]
    pr = [a + b for a, b in zip(matvec(M, [a - b for a, b in zip(p, cen)]), cen)]
    cands, degenerate = [], False
    for o in itertools.product([0, 1], repeat=3):
        for k in range(-w, w + 1):
            ray = matvec(M, [F(k), F(0), F(0)])
            q = [pr[i] + ray[i] + o[i] for i in range(3)]
            if any(t.denominator == 1 for t in q):
                degenerate = True
            pt = tuple(math.floor(t) for t in q)
            d = mat_t_vec(M, [pr[i] - pt[i] for i in range(3)])
            if abs(d[1]) == 1 or abs(d[2]) == 1:
                degenerate = True
            wyx = max(1 - abs(d[1]), 0) * max(1 - abs(d[2]), 0)
            wt = wyx * prof(d[0])
            cands.append((pt, wt))

    def inside(pt):
        return 0 <= pt[0] < nz and 0 <= pt[1] < ny and 0 <= pt[2] < nx
    npos = sum(1 for pt, wt in cands if wt > 0)
    nin = sum(1 for pt, wt in cands if wt > 0 and inside(pt))
    ent = {}
    for pt, wt in cands:
        if inside(pt):
            ent[pt] = wt
    if npos == 0:
        return {}, 0, degenerate
    s = sum(ent.values())
    exact = isinstance(s, (int, F))
    norm = (F(nin, npos) / (s + F(1, 10 ** 6))) if exact else (nin / npos / (float(s) + 1e-6))
    return {pt: wt * norm for pt, wt in ent.items() if wt != 0}, npos, degenerate


SHIFTS_INT = [F(0), F(1), F(-1), F(2), F(-2)]
SHIFTS_HALF = [F(1, 2), F(-1, 2), F(3, 2)]
SHIFTS_QUARTER = [F(1, 4), F(-1, 4), F(3, 4), F(-5, 4), F(3, 8)]


def _rand_shape(rng, cubic=False):
    if cubic:
        n = rng.randint(2, 5)
        return [n, n, n]
    return rng.choice([[3, 4, 5], [5, 3, 4], [4, 4, 2], [2, 3, 6], [6, 5, 2], [4, 5, 3], [3, 3, 3], [4, 4, 4], [1, 4, 4], [5, 5, 1]])


def _rect_profile(rng, tilted):
    if tilted:  # thresholds that no exact distance (denominator 5^a 13^b 2^c) can hit
        return {'kind': 'rect', 'h': [rng.choice([2, 4, 5, 7, 8, 10, 11]), 3]}
    if rng.random() < 0.2:  # asymmetric rectangle (both ends of the support count for the width)
        a, b = rng.randint(1, 2), rng.randint(3, 8)
        lo, hi = (-b, a) if rng.random() < 0.5 else (-a, b)
        return {'kind': 'arect', 'lo': [lo, 2], 'hi': [hi, 2]}
    return rng.choice([{'kind': 'rect', 'h': [rng.randint(1, 8), 2]}, {'kind': 'rect', 'h': [rng.randint(1, 8), 2]},
                       {'kind': 'smoothed0', 'fwhm': [rng.randint(1, 8), 1]}, {'kind': 'smoothed0', 'fwhm': [rng.randint(2, 12), 2]}])


def _item(rng, cls):
    if cls == 'identity':
        M = [[1, 0, 0], [0, 1, 0], [0, 0, 1]]
        shift = rng.choice(SHIFTS_INT + SHIFTS_HALF + SHIFTS_QUARTER)
    elif cls == 'perm_exact':
        M = rng.choice(PERM_EXACT)
        shift = rng.choice(SHIFTS_INT + SHIFTS_HALF + SHIFTS_QUARTER)
    elif cls == 'perm_inexact':
        M = rng.choice(PERM_INEXACT)
        shift = rng.choice(SHIFTS_INT)
    else:
        M = rng.choice(PYTH)
        shift = rng.choice(SHIFTS_QUARTER)
    return {'M': _mat_json(M), 'shift': [shift.numerator, shift.denominator], 'prof': _rect_profile(rng, cls == 'pyth')}


def gen_slice(rng, tier):
    cases = []
    # corpus: the wide rectangular profile that was truncated before the repair of _find_width
    cases.append({'shape': [9, 4, 4], 'cls': 'identity',
                  'items': [{'M': _mat_json(PERMS[0] if _is_exact_perm(PERMS[0]) else PERM_EXACT[0]), 'shift': [0, 1], 'prof': {'kind': 'rect', 'h': [5, 2]}}]})
    cases[0]['items'][0]['M'] = _mat_json([[1, 0, 0], [0, 1, 0], [0, 0, 1]])
    # asymmetric rectangles under the identity and an exact axis permutation (width = max(|ceil lo|, |floor hi|) + 1)
    cases.append({'shape': [9, 4, 4], 'cls': 'identity', 'items': [{'M': _mat_json([[1, 0, 0], [0, 1, 0], [0, 0, 1]]), 'shift': [1, 2],
                                                                    'prof': {'kind': 'arect', 'lo': [-7, 2], 'hi': [1, 2]}}]})
    cases.append({'shape': [5, 5, 5], 'cls': 'perm_exact', 'items': [{'M': _mat_json([[0, 0, 1], [1, 0, 0], [0, 1, 0]]), 'shift': [0, 1],
                                                                      'prof': {'kind': 'arect', 'lo': [-1, 2], 'hi': [5, 2]}}]})
    # thin volumes (z extent smaller than the support of the profile, which is smaller than the largest extent): the profile has to be followed
    # over its whole support whichever axis the slice normal points along (added after round-2 seeded change C20-b2)
    for shape, M in (([2, 3, 9], [[0, 0, 1], [1, 0, 0], [0, 1, 0]]), ([2, 9, 3], [[0, 1, 0], [0, 0, 1], [1, 0, 0]]), ([1, 4, 8], [[1, 0, 0], [0, 1, 0], [0, 0, 1]]),
                     ([2, 3, 9], [[1, 0, 0], [0, 1, 0], [0, 0, 1]])):
        for prof in ({'kind': 'rect', 'h': [11, 2]}, {'kind': 'smoothed0', 'fwhm': [5, 1]}, {'kind': 'arect', 'lo': [-1, 2], 'hi': [9, 2]}):
            cases.append({'shape': shape, 'cls': 'perm_exact' if _is_exact_perm(_mat_frac(_mat_json(M))) else 'perm_inexact',
                          'items': [{'M': _mat_json(M), 'shift': [0, 1], 'prof': prof}]})
    n = 14 if tier == 'quick' else 220
    for i in range(n):
        cls = ['identity', 'perm_exact', 'pyth', 'perm_exact', 'pyth'][i % 5]
        shape = _rand_shape(rng)
        nb = 1 if rng.random() < 0.75 else rng.choice([2, 3])
        cases.append({'shape': shape, 'cls': cls, 'items': [_item(rng, cls) for _ in range(nb)]})
    return cases


def _build_op(shape, items, dtype=torch.float64):
    import numpy as np
    from mrpro.data import Rotation, SpatialDimension
    from mrpro.operators import SliceProjectionOp
    mats = torch.tensor([[[float(F(*a)) for a in row] for row in it['M']] for it in items], dtype=dtype)
    shifts = torch.tensor([float(F(*it['shift'])) for it in items], dtype=dtype)
    profs = [_profile_impl(it['prof']) for it in items]
    if len(items) == 1:
        rot, sh, pf = Rotation.from_matrix(mats[0]), float(shifts[0]), profs[0]
    else:
        arr = np.empty(len(items), dtype=object)
        for i, f in enumerate(profs):
            arr[i] = f
        rot, sh, pf = Rotation.from_matrix(mats), shifts, arr
    return SliceProjectionOp(SpatialDimension(*shape), rot, sh, pf)


def _dense_rows(op, shape, nitems):
    mx = max(shape)
    d = op.matrix.to_dense().to(torch.float64).reshape(nitems, mx * mx, -1)
    rows = []
    for b in range(nitems):
        for r in range(mx * mx):
            v = d[b, r]
            if torch.isnan(v).any():
                rows.append({'nan': True})
            else:
                nzi = torch.nonzero(v).flatten().tolist()
                rows.append({'idx': nzi, 'val': [float(v[i]) for i in nzi]})
    return rows


def impl_slice(c):
    shape, items = c['shape'], c['items']
    op = _build_op(shape, items)
    o = {'rows': _dense_rows(op, shape, len(items))}
    mx = max(shape)
    g = torch.Generator().manual_seed(prod(shape) + len(items))
    vol = torch.randint(-5, 6, shape, generator=g).to(torch.float32)
    (y,) = op(vol)
    ref = (op.matrix.to_dense() @ vol.flatten()).reshape(y.shape)
    o['fwd_shape'] = list(y.shape)
    o['fwd_vs_matrix'] = float(torch.nan_to_num(y - ref, nan=0.0).abs().max())
    (ones,) = op(torch.ones(shape))
    o['const'] = ones.flatten().tolist()
    return o


def coq_slice(c):
    nz, ny, nx = c['shape']
    parts = []
    for it in c['items']:
        M = _mat_frac(it['M'])
        mat = '(' + ', '.join('(' + ', '.join(qlit(a) for a in row) + ')' for row in M) + ')'
        parts.append(f'run (mk {zlit(nz)} {zlit(ny)} {zlit(nx)} {mat} {qlit(F(*it["shift"]))} {_profile_coq(it["prof"])})')
    return '[' + '; '.join(parts) + ']'


def _twin_rows(c, it):
    shape = c['shape']
    M = _mat_frac(it['M'])
    prof = _profile_q(it['prof'])
    mx = max(shape)
    w = twin_find_width(mx, prof)
    return [twin_row(shape, M, F(*it['shift']), w, prof, r, cc) for r in range(mx) for cc in range(mx)], w


def _row_dense(entries, shape):
    nz, ny, nx = shape
    return {(z * ny + y) * nx + x: float(v) for (z, y, x), v in entries.items()}


def _cmp_row(got, want, tol):
    """got: impl row {'idx','val'} ; want: {flat index: float}"""
    if got.get('nan'):
        return 'impl row is NaN'
    g = dict(zip(got['idx'], got['val']))
    for k in set(g) | set(want):
        if abs(g.get(k, 0.0) - want.get(k, 0.0)) > tol:
            return f'column {k}: impl {g.get(k, 0.0)} model {want.get(k, 0.0)}'
    return None


def cmp_slice(c, o, m, stats=None):
    if isinstance(o, dict) and 'raises' in o:
        return f'impl raises {o["raises"]}: {o.get("msg")}'
    shape = c['shape']
    mx = max(shape)
    if o['fwd_shape'] != ([len(c['items'])] if len(c['items']) > 1 else [1]) + [1, mx, mx]:
        return f'forward shape {o["fwd_shape"]}'
    exact_cls = c['cls'] in ('identity', 'perm_exact')
    k = 0
    for it, mrows in zip(c['items'], m):
        trows, _ = _twin_rows(c, it)
        for (mnpos, ment), (tent, tnpos, deg) in zip(mrows, trows):
            # (1) the python twin is the Coq model (exact)
            mdict = {(e[0], e[1], e[2]): F(e[3][0], e[3][1]) for e in ment}  # Coq prints ((z, y, x), (n, d)) flat
            if mnpos != tnpos or mdict != {kk: F(vv) for kk, vv in tent.items()}:
                return f'python twin and Coq model differ at row {k}'
            got = o['rows'][k]
            k += 1
            if deg and not exact_cls:
                STATS['slice_rows_skipped_float_degenerate'] += 1
                continue  # float evaluation may sit on the other side of a discontinuity
            STATS['slice_rows_compared'] += 1
            if mnpos == 0:
                STATS['slice_rows_nan_expected'] += 1
                if not got.get('nan'):
                    return f'row {k - 1}: model divides 0/0 (no positive candidate), impl row is finite'
                continue
            msg = _cmp_row(got, _row_dense(mdict, shape), 1e-5)
            if msg:
                return f'row {k - 1} (item {it["prof"]}, shift {it["shift"]}): {msg}'
    return None


def oracle_slice(c, o):
    if isinstance(o, dict) and 'raises' in o:
        return f'valid configuration rejected: {o["raises"]} {o.get("msg")}'
    exact_cls = c['cls'] in ('identity', 'perm_exact')
    for k, row in enumerate(o['rows']):
        if row.get('nan'):
            if exact_cls:
                return f'row {k} of the projection matrix is NaN'
            continue
        if any(v < 0 for v in row['val']):
            return f'row {k} has a negative weight'
        sm = sum(row['val'])
        if sm > 1 + 1e-4:
            return f'row {k} sums to {sm} > 1'
    if o['fwd_vs_matrix'] > 1e-4:
        return f'forward differs from matrix @ volume by {o["fwd_vs_matrix"]:.3g}'
    return None


# ---- axis-aligned rotations and integer shifts: profile-weighted slicing computed independently -------------------
def gen_axis(rng, tier):
    cases = []
    # corpus: rectangular profile of width 6 must give 6 equal taps (gave 4 of 0.25 before the repair of _find_width)
    cases.append({'shape': [9, 5, 5], 'cls': 'identity', 'M': _mat_json([[1, 0, 0], [0, 1, 0], [0, 0, 1]]), 'shift': [1, 2],
                  'prof': {'kind': 'rect', 'h': [3, 1]}, 'seed': 1})
    cases.append({'shape': [9, 9, 9], 'cls': 'perm_exact', 'M': _mat_json(PERM_EXACT[5]), 'shift': [0, 1],
                  'prof': {'kind': 'rect', 'h': [7, 2]}, 'seed': 2})
    # a profile reaching further to the negative side: the whole support has to be covered
    cases.append({'shape': [11, 4, 4], 'cls': 'identity', 'M': _mat_json([[1, 0, 0], [0, 1, 0], [0, 0, 1]]), 'shift': [0, 1],
                  'prof': {'kind': 'arect', 'lo': [-7, 2], 'hi': [1, 2]}, 'seed': 3})
    n = 24 if tier == 'quick' else 400
    for i in range(n):
        cls = ['identity', 'perm_exact', 'perm_exact', 'perm_inexact'][i % 4]
        if cls == 'identity':
            M, shape = [[1, 0, 0], [0, 1, 0], [0, 0, 1]], _rand_shape(rng)
        else:
            M = rng.choice(PERM_EXACT if cls == 'perm_exact' else PERM_INEXACT)
            shape = _rand_shape(rng, cubic=True) if rng.random() < 0.6 else rng.choice([[5, 3, 7], [7, 5, 3], [3, 5, 5], [4, 6, 2], [9, 9, 9], [8, 8, 8]])
        shift = rng.choice(SHIFTS_INT + SHIFTS_HALF) if cls != 'perm_inexact' else rng.choice(SHIFTS_INT)
        r = rng.random()
        if r < 0.45:
            prof = {'kind': 'rect', 'h': [rng.randint(1, 8), 2]}
        elif r < 0.6 and cls != 'perm_inexact':
            a, b = rng.randint(1, 2), rng.randint(5, 8)   # reaches much further to one side of the slice
            lo, hi = (-b, a) if rng.random() < 0.6 else (-a, b)
            prof = {'kind': 'arect', 'lo': [lo, 2], 'hi': [hi, 2]}
        elif r < 0.75:
            prof = {'kind': 'smoothed0', 'fwhm': [rng.randint(1, 8), 1]}
        elif r < 0.9:
            prof = {'kind': 'gauss', 'fwhm': [rng.choice([2, 3, 4, 6, 8]), rng.choice([1, 2])]}
        else:
            prof = {'kind': 'smoothed', 'fwhm': [rng.choice([2, 3, 4, 6]), 1], 'fg': [rng.choice([1, 2, 3]), 2]}
        if prof['kind'] in ('gauss', 'smoothed'):  # long enough along the normal to hold the whole candidate window
            shape = rng.choice([[13, 4, 4], [15, 3, 5], [14, 4, 3]]) if cls == 'identity' else rng.choice([[11, 11, 11], [13, 13, 13], [12, 12, 12]])
        cases.append({'shape': shape, 'cls': cls, 'M': _mat_json(M), 'shift': [shift.numerator, shift.denominator], 'prof': prof,
                      'seed': rng.randrange(10 ** 6)})
    return cases


def _analytic_volumes(shape, seed):
    nz, ny, nx = shape
    z, y, x = torch.meshgrid(torch.arange(nz), torch.arange(ny), torch.arange(nx), indexing='ij')
    g = torch.Generator().manual_seed(seed)
    vols = {'const': torch.ones(shape), 'ramp': (z + 2 * y + 3 * x).float(), 'quad': (z * z + y * y - x * x + z * x).float(),
            'rand': torch.randint(-5, 6, shape, generator=g).float()}
    d = torch.zeros(shape)
    d[int(torch.randint(0, nz, (1,), generator=g)), int(torch.randint(0, ny, (1,), generator=g)), int(torch.randint(0, nx, (1,), generator=g))] = 1
    vols['delta'] = d
    return vols


def impl_axis(c):
    it = {'M': c['M'], 'shift': c['shift'], 'prof': c['prof']}
    op = _build_op(c['shape'], [it])
    out = {}
    for name, v in _analytic_volumes(c['shape'], c['seed']).items():
        (y,) = op(v)
        out[name] = y.to(torch.float64).flatten().tolist()
    return out


def _axis_reference(c):
    """profile-weighted slicing in plain python: for each slice pixel the list of (voxel, weight) along the normal through the
    (integer) rotated in-plane position, over ALL voxels of the line; None for pixels that are not decided by the property text
    (non-integer in-plane position, line partly outside, support not fully inside)"""
    shape = c['shape']
    M = _mat_frac(c['M'])
    shift = F(*c['shift'])
    prof = _profile_q(c['prof'])
    nz, ny, nx = shape
    mx = max(shape)
    sx, sy = (nx - mx) // 2, (ny - mx) // 2
    half = F(1, 2)
    cen = [F(nz, 2) - half, F(ny, 2) - half, F(nx, 2) - half]
    normal = matvec(M, [F(1), F(0), F(0)])       # +-e_a
    a = [i for i in range(3) if normal[i] != 0][0]
    sgn = normal[a]
    exact = c['prof']['kind'] in ('rect', 'smoothed0', 'arect')
    wmax = twin_find_width(mx, prof)
    refs = []
    for r in range(mx):
        for cc in range(mx):
            p = [F(nz, 2) - half + shift, F(sy + r), F(sx + cc)]
            pr = [u + v for u, v in zip(matvec(M, [u - v for u, v in zip(p, cen)]), cen)]
            others = [i for i in range(3) if i != a]
            if any(pr[i].denominator != 1 for i in others):
                refs.append(None)
                continue
            if any(not (0 <= pr[i] < shape[i]) for i in others):
                refs.append('outside')
                continue
            taps, ok = [], True
            # the line of voxels through the in-plane position; d_z = sgn * (pr_a - j)
            for j in range(-40, shape[a] + 40):
                wgt = prof(sgn * (pr[a] - j))
                # exact profiles: any positive weight outside the volume makes the pixel undecided; Gaussian-like profiles are
                # positive everywhere: every voxel position the implementation can consider (|distance| <= width + 2) must be inside
                significant = (wgt > 0) if exact else (abs(pr[a] - j) <= wmax + 2)
                if 0 <= j < shape[a]:
                    pt = [int(pr[0]) if a != 0 else 0, int(pr[1]) if a != 1 else 0, int(pr[2]) if a != 2 else 0]
                    pt[a] = j
                    if wgt > 0:
                        taps.append((tuple(pt), float(wgt)))
                elif significant:
                    ok = False          # support leaves the volume: fraction-in-view semantics, not decided here
            # the trilinear neighbours in the plane must be inside as well unless their weight is exactly 0 (it is: integer position)
            refs.append(taps if ok and taps else None)
    return refs


def oracle_axis(c, o):
    if isinstance(o, dict) and 'raises' in o:
        return f'valid configuration rejected: {o["raises"]} {o.get("msg")}'
    refs = _axis_reference(c)
    vols = _analytic_volumes(c['shape'], c['seed'])
    exact = c['prof']['kind'] in ('rect', 'smoothed0', 'arect')
    tol = 2e-5 if exact else 4e-2     # Gaussian tails beyond the 1 % / 99 % points are clipped by design
    decided = 0
    for name, v in vols.items():
        scale = max(1.0, float(v.abs().max()))
        for k, ref in enumerate(refs):
            got = o[name][k]
            if ref is None:
                continue
            if ref == 'outside':
                want = 0.0
            else:
                tot = sum(wt for _, wt in ref)
                want = sum(wt * float(v[pt]) for pt, wt in ref) / tot
            decided += 1
            STATS['axis_pixels_decided'] += 1
            if not exact:
                STATS['axis_pixels_decided_irrational'] += 1
            if not (abs(got - want) <= tol * scale):
                mx = max(c['shape'])
                ntaps = len(ref) if isinstance(ref, list) else 0
                return (f'volume "{name}", slice pixel ({k // mx},{k % mx}): got {got}, profile-weighted slicing over the whole '
                        f'support ({ntaps} taps) gives {want}')
    return None


# ---- irrational profiles (Gaussian, erf-smoothed rectangle): float twin of the model ------------------------------
def gen_gauss(rng, tier):
    cases = []
    n = 10 if tier == 'quick' else 150
    for i in range(n):
        cls = ['identity', 'perm_exact', 'pyth'][i % 3]
        it = _item(rng, cls)
        if rng.random() < 0.7:
            it['prof'] = {'kind': 'gauss', 'fwhm': [rng.choice([2, 3, 4, 5, 6, 8, 3]), rng.choice([1, 2])]}
        else:
            it['prof'] = {'kind': 'smoothed', 'fwhm': [rng.choice([2, 3, 4, 6]), 1], 'fg': [rng.choice([1, 2, 3]), 2]}
        cases.append({'shape': _rand_shape(rng), 'cls': cls, 'items': [it]})
    return cases


def impl_gauss(c):
    op = _build_op(c['shape'], c['items'])
    return {'rows': _dense_rows(op, c['shape'], len(c['items']))}


def oracle_gauss(c, o):
    """the matrix against the float twin (same geometry as the Coq model, validated against it on every rectangular case):
    the weights follow the given profile over the support selected by _find_width"""
    if isinstance(o, dict) and 'raises' in o:
        return f'valid configuration rejected: {o["raises"]} {o.get("msg")}'
    exact_cls = c['cls'] in ('identity', 'perm_exact')
    it = c['items'][0]
    trows, w = _twin_rows(c, it)
    for k, (tent, tnpos, deg) in enumerate(trows):
        if deg and not exact_cls:
            continue
        got = o['rows'][k]
        if tnpos == 0:
            continue
        msg = _cmp_row(got, _row_dense(tent, c['shape']), 2e-5)
        if msg:
            return f'row {k} (width {w}): {msg} (weights do not follow the profile {it["prof"]})'
        if any(v < 0 for v in got['val']):
            return f'row {k} has a negative weight'
    return None


def _descr_slice(c):
    d = {'cls': c['cls'], 'shape': c['shape']}
    if 'prof' in c:
        d['prof'] = c['prof']['kind']
    return d


def translate(ctx):
    """Regenerate Gen/sliceproj_gen.v from SliceProjectionOp.py (and the pinned GridSamplingOp wrapper) and re-check gen_* = Model/SliceProj.v."""
    from translate import sliceproj as tsp
    out = vlib.COQ / 'Gen' / 'sliceproj_gen.v'
    out.parent.mkdir(exist_ok=True)
    ok, why = tsp.write(out)
    ctx.extra.setdefault('coverage', {})['translator_available'] = ok
    ctx.obligations += tsp.N_OBLIGATIONS
    if not ok:
        ctx.notes.append(f'translator harness/translate/sliceproj.py failed closed ({why})')
        ctx.problem('proof', 'gen_sliceproj', None,
                    f'SliceProjectionOp.py / GridSamplingOp.py is outside the translated subset ({why}): the regenerated obligations '
                    'gen_* = Model/SliceProj.v cannot be stated')
        return
    rc, so, se = vlib.coqc_file(out)
    if rc == 0:
        ctx.discharged += tsp.N_OBLIGATIONS
    else:
        ctx.problem('proof', 'gen_sliceproj', None,
                    'regenerated obligation gen_*_ok (SliceProjectionOp.py == Model/SliceProj.v: _find_width / pixel, centre, rotated '
                    'position / ray / weights / mask / fraction in view / normalisation) no longer proves: ' + (se or so)[-700:])


def extra_checks(ctx):
    ctx.extra.setdefault('coverage', {}).update(STATS)
    ctx.notes.append(f'slice_matrix rows compared with the Coq model: {STATS["slice_rows_compared"]}, skipped because the exact '
                     f'coordinates sit on a discontinuity under an inexact rotation matrix: {STATS["slice_rows_skipped_float_degenerate"]}')


# ---- reflection padding against the Coq model of reflect_coordinates (Model/GridReflect.v) -----------------------------------------
# The model maps every grid coordinate to the grid coordinate of the reflected and clipped position; sampling there with border padding
# (whose model is validated by the family above) must reproduce what padding_mode='reflection' returns.
PRE_REFLECT = 'From MrVerif Require Import Base.Prelude Model.GridSample Model.GridReflect.\nFrom Coq Require Import QArith.'


def gen_reflect(rng, tier):
    cases = []
    for i in range(12 if tier == 'quick' else 200):
        dim = 2 + (i % 3 == 2)
        shape = [rng.randint(2, 5) for _ in range(dim)]
        nout = rng.randint(2, 5)
        grid = [rng.choice([rng.randint(-48, 48) / 16, rng.randint(-24, 24) / 8, rng.choice([-1.0, 1.0, -3.0, 3.0, -2.0, 2.0, 1.5, -1.5])]) for _ in range(nout * dim)]
        cases.append({'dim': dim, 'ac': bool(i % 2), 'shape': shape, 'nout': nout, 'grid': grid, 'x': [rng.randint(-9, 9) for _ in range(prod(shape))]})
    return cases


def _reflect_ops(c, grid_vals, pad):
    from mrpro.data import SpatialDimension
    from mrpro.operators import GridSamplingOp
    dim = c['dim']
    grid = torch.tensor(grid_vals, dtype=torch.float64).reshape(1, *([1] * (dim - 1)), c['nout'], dim)
    zyx = [1] * (3 - dim) + list(c['shape'])
    return GridSamplingOp(grid, SpatialDimension(*zyx), interpolation_mode='bilinear', padding_mode=pad, align_corners=c['ac'])


def impl_reflect(c):
    x = torch.tensor(c['x'], dtype=torch.float64).reshape(1, 1, *c['shape'])
    (y,) = _reflect_ops(c, c['grid'], 'reflection')(x)
    return {'y': y.flatten().tolist()}


def coq_reflect(c):
    dim = c['dim']
    # grid component k addresses tensor axis -(k+1)
    items = [f'({zlit(c["shape"][dim - 1 - (i % dim)])}, {qlit(g)})' for i, g in enumerate(c['grid'])]
    # (numerator, denominator) pairs: Coq prints Q numbers with power-of-16 denominators in hexadecimal notation
    return (f'map (fun p => let q := reflected_grid_coord {vlib.boollit(c["ac"])} (fst p) (snd p) in (Qnum q, Zpos (Qden q))) '
            f'[{"; ".join(items)}]')


def cmp_reflect(c, o, m):
    if isinstance(o, dict) and 'raises' in o:
        return f'impl raises {o["raises"]}: {o.get("msg")}'
    g2 = [float(Fraction(v[0], v[1])) for v in m]
    x = torch.tensor(c['x'], dtype=torch.float64).reshape(1, 1, *c['shape'])
    (yb,) = _reflect_ops(c, g2, 'border')(x)
    yb = yb.flatten().tolist()
    for k, (a, b) in enumerate(zip(o['y'], yb)):
        if abs(a - b) > 1e-9 * max(1.0, abs(b)):
            d = c['dim']
            return (f'output {k}: padding_mode=reflection at grid {c["grid"][k * d:(k + 1) * d]} gives {a}; the model reflects this position to grid '
                    f'{g2[k * d:(k + 1) * d]}, where the image (border padding) is {b}')
    return None


def oracle_reflect(c, o):
    if isinstance(o, dict) and 'raises' in o:
        return f'valid configuration rejected: {o["raises"]} {o.get("msg")}'
    # grid locations on pixel centres return the pixel (C20_grid_reflect_on_pixel): checked through the correspondence; nothing else here
    return None



FAMILIES = [
    Family('slice_matrix', gen_slice, impl_slice, coq_slice, PRE_SLICE, cmp_slice, oracle_slice,
           nontrivial=lambda c: True, descr=_descr_slice, shard=2, theorem='C20_slice_nonneg, C20_slice_duplicates, C20_slice_rowsum(_inside), C20_slice_axis_aligned_is_weighted_slicing, C20_slice_rect_taps(_built), C20_find_width_rect, C20_find_width_arect'),
    Family('slice_axis_aligned', gen_axis, impl_axis, None, '', None, oracle_axis, descr=_descr_slice,
           theorem='C20_slice_axis_aligned_is_weighted_slicing, C20_slice_rect_taps (implementation-level reference in python)'),
    Family('slice_irrational_profiles', gen_gauss, impl_gauss, None, '', None, oracle_gauss, descr=_descr_slice,
           theorem='(float twin of Model/SliceProj.v)'),
    Family('grid_sampling', gen_grid, impl_grid, coq_grid, PRE_GRID, cmp_grid, oracle_grid, nontrivial=_nontrivial_grid,
           descr=lambda c: {k: c[k] for k in ('dim', 'mode', 'pad', 'ac', 'cplx', 'gb', 'xb', 'chans', 'shape')},
           shard=12, theorem='C20_grid_weights, C20_grid_on_pixel(_3d), C20_grid_identity(_3d), C20_grid_linear(_3d), C20_grid_complex_alike, C20_grid_border, C20_grid_adjoint(_3d)'),
    Family('grid_sampling_oracles', gen_grid_oracle, impl_grid_oracle, None, '', None, oracle_grid_oracle,
           theorem='(implementation-level: identity grid, re/im alike, adjointness for all modes incl. bicubic/reflection)'),
    Family('grid_reflection', gen_reflect, impl_reflect, coq_reflect, PRE_REFLECT, cmp_reflect, oracle_reflect,
           descr=lambda c: {'dim': c['dim'], 'ac': c['ac'], 'pad': 'reflection'}, shard=12,
           theorem='C20_grid_reflect_range, C20_grid_reflect_fixed, C20_grid_reflect_even, C20_grid_reflect_on_pixel'),
]
