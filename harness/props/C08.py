"""C08 - functionals evaluate their definition and prox is the true minimiser.

Tie to /repo: seeded cases are run through the real classes (L1Norm, L1NormViewAsReal, L2NormSquared, MSE, ZeroFunctional,
ScaledProximableFunctional, ProximableFunctionalSeparableSum; forward / prox / prox_convex_conj) and through the exact
Gaussian-rational tensor model of coq/Model/TensorFunctionals.v (vm_compute); results are compared at 1e-12 (float64).
The oracle checks the property's own statement on the implementation's output with independent numpy code: documented
value formula, variational optimality of the returned prox against a few hundred perturbed points, Moreau residual.
"""
import math
from fractions import Fraction

import numpy as np
import torch

import vlib
from vlib import Family

LEVEL = 'proof'
RULE = ('random rank 1-3 float64/complex128 tensors (sizes 1-4) of dyadic rationals (<= 12 mantissa bits; complex moduli made '
        'rational by Pythagorean pairs where the model needs a square root), every functional class x op in {forward, prox, '
        'prox_convex_conj} x dim subsets with mixed-sign encodings x divide_by_n x keepdim x weight in {default, python scalar, '
        'int, complex scalar, real tensor, complex tensor} broadcastable to x x target likewise x sigma in {python scalar, 0-dim '
        'tensor, broadcastable tensor} with entries 0, 2^-30 (< 1e-8: triggers the fallback tweak) and dyadic values; scaled '
        'functionals nested 1-2 deep (python float/int and tensor scale); separable sums of 2-3 functionals; float64 tensor sigmas '
        'bracketing the 1e-8 switch (2^-27, 2^-26) for the fallback; corpus case = reproduction of the repaired KF-C08-1; an implementation-only '
        'family with irrational complex moduli (oracles) plus ~50 per-element `interval` lemmas L1Norm.prox vs the real model cl1_prox; a malformed stream (negative sigma / scale). Non-trivial = at least one element is actually thresholded/shrunk or reduced (numel > 1 and '
        'a non-zero sigma or a forward reduction); distinct by case hash.')
TRUSTED_BASE = ['translator harness/translate/functionals.py (symbolic evaluation of the method bodies for fixed dtype flags -> Gallina over R; '
                'torch.abs/sgn/relu/clamp_max/where/complex/.real/.imag mapped to Rabs/sgnR/reluR/Rmin/Rlt_dec/pairs; fail-closed per function)',
                'numpy reference formulas of the oracle (independent of the model)',
                'coherence Q twin <-> real model proved for the real primitives, the exact modulus, the reduction (sum/mean over the '
                'reduced index list), pointwise prox on broadcast operands and the per-element value / prox of L1, L2, L1ViewAsReal on '
                'real data (C08_transfer_*); complex per-element arithmetic of the rational twin (cqmul/cqdiv/cqsgn on non-real data) '
                'and the conj-prox elements are tied to the code by correspondence only',
                'torch elementwise kernels (abs, sgn, relu, clamp_max, where, sum, mean) as documented by PyTorch']
ASSUMPTIONS = ['domain guard: weight, target and sigma broadcast to the shape of x and do not enlarge it',
               'Moreau identity is checked for 1/sigma >= 1e-8 (beyond that the documented `sigma + 1e-6` tweak perturbs the fallback)',
               'scale > 0 for prox_convex_conj of scaled functionals (scale = 0 divides by zero in the code)']
PREAMBLE = ('From Coq Require Import QArith.\n'
            'From MrVerif Require Import Base.Prelude Base.Tensor Model.Functionals Model.TensorFunctionals.\nOpen Scope Q_scope.')

TINY = 2.0 ** -30          # < 1e-8, exactly representable in float32/float64
CLASSES = ['L1Norm', 'L1NormViewAsReal', 'L2NormSquared', 'MSE', 'ZeroFunctional']
KIND = {'L1Norm': 'KL1', 'L1NormViewAsReal': 'KL1R', 'L2NormSquared': 'KL2', 'MSE': 'KL2', 'ZeroFunctional': 'KZero'}
PYTH = [(3, 4), (4, 3), (5, 12), (12, 5), (8, 15), (15, 8), (7, 24), (20, 21), (1, 0), (0, 1), (2, 0), (0, 3)]



# ------------------------------------------------------------------------------------------------
def translate(ctx):
    """Regenerate Gen/functionals_gen.v from the current source of the functional classes and re-check the obligations
    gen_<Class>_<method> = model function (fail-closed per function)."""
    from translate import functionals
    out = vlib.COQ / 'Gen' / 'functionals_gen.v'
    out.parent.mkdir(exist_ok=True)
    n, avail, unavailable = functionals.write(out)
    ctx.extra.setdefault('coverage', {})['translator'] = {'obligations': n, 'translated': avail,
                                                          'failed_closed': [f'{a}: {b}' for a, b in unavailable]}
    for label, why in unavailable:
        ctx.notes.append(f'translator failed closed for {label} ({why}); that function rests on correspondence alone in this run')
        ctx.obligations += 1
        ctx.problem('proof', 'gen_functionals', None, f'the source of {label} no longer has the form the model mirrors (translator failed closed: {why})')
    if n == 0:
        return
    ctx.obligations += n
    rc, so, se = vlib.coqc_file(out)
    if rc == 0:
        ctx.discharged += n
    else:
        msg = (se or so)
        import re
        m = re.search(r'line (\d+)', msg)
        where = ''
        if m:
            lines = out.read_text().splitlines()
            ln = int(m.group(1))
            for k in range(min(ln, len(lines)) - 1, -1, -1):
                if lines[k].startswith('Lemma '):
                    where = lines[k].split(':')[0].replace('Lemma ', '')
                    break
        ctx.problem('proof', 'gen_functionals', None,
                    f'regenerated obligation {where} (current source == model of Model/Functionals.v) no longer proves: ' + msg[-500:])


# ------------------------------------------------------------------------------------------------
# generation helpers (all numbers are exact dyadic floats)
# ------------------------------------------------------------------------------------------------
def dy(rng, lo=-24, hi=24, den=4):
    return rng.randint(lo, hi) / den


def numel(shape):
    n = 1
    for s in shape:
        n *= s
    return n


def sub_shape(rng, shape, allow_fewer=True):
    """a shape that broadcasts to `shape` without enlarging it"""
    k = rng.randint(0, len(shape)) if allow_fewer else len(shape)
    tail = list(shape[len(shape) - k:]) if k else []
    return [s if rng.random() < 0.6 else 1 for s in tail]


def pyth(rng, allow_zero=True):
    a, b = rng.choice(PYTH)
    s = rng.choice([0.25, 0.5, 1.0, 1.0, 2.0])
    if allow_zero and rng.random() < 0.08:
        return 0.0, 0.0
    return a * s * rng.choice([-1, 1]), b * s * rng.choice([-1, 1])


def gen_operand(rng, shape, role, cplx_ok, need_pyth, nonzero=False):
    """weight or target: {'kind': 'none'|'py'|'pyint'|'pyc'|'t', 'shape', 're', 'im'(None = real dtype)}"""
    r = rng.random()
    if r < 0.1:
        return {'kind': 'none'}
    if r < 0.22:
        v = dy(rng, -12, 12)
        if v == 0 and (nonzero or role == 'w'):
            v = 1.5
        return {'kind': 'py', 'shape': [], 're': [v], 'im': None}
    if r < 0.27:
        v = float(rng.choice([-3, -1, 1, 2, 3]))
        return {'kind': 'pyint', 'shape': [], 're': [v], 'im': None}
    if r < 0.33 and cplx_ok:
        a, b = pyth(rng, allow_zero=False)
        return {'kind': 'pyc', 'shape': [], 're': [a], 'im': [b]}
    sh = sub_shape(rng, shape)
    n = numel(sh)
    if cplx_ok and rng.random() < 0.45:
        if need_pyth:
            vals = [pyth(rng, allow_zero=not nonzero) for _ in range(n)]
        else:
            vals = [(dy(rng, -12, 12), dy(rng, -12, 12)) for _ in range(n)]
            if nonzero:
                vals = [(a if (a, b) != (0, 0) else 1.0, b) for a, b in vals]
        return {'kind': 't', 'shape': sh, 're': [v[0] for v in vals], 'im': [v[1] for v in vals]}
    vals = [dy(rng, -12, 12) for _ in range(n)]
    if nonzero:
        vals = [v if v != 0 else 0.75 for v in vals]
    return {'kind': 't', 'shape': sh, 're': vals, 'im': None}


def gen_sigma(rng, shape, scalar_only=False, positive=False):
    def val():
        r = rng.random()
        if not positive and r < 0.12:
            return 0.0
        if r < 0.27:
            return TINY
        if r < 0.33:
            return rng.choice([2.0 ** -20, 2.0 ** -12])   # small but above the 1e-8 switch of the fallback
        return rng.choice([1 / 16, 0.125, 0.25, 0.5, 0.75, 1.0, 1.5, 2.0, 3.0, 8.0])
    r = rng.random()
    if r < 0.4:
        return {'kind': 'py', 'shape': [], 'vals': [val()]}
    if r < 0.6 or scalar_only:
        return {'kind': 't', 'shape': [] if rng.random() < 0.6 else [1], 'vals': [val()]}
    sh = sub_shape(rng, shape)
    return {'kind': 't', 'shape': sh, 'vals': [val() for _ in range(numel(sh))]}


def gen_dim(rng, nd):
    if rng.random() < 0.3:
        return None if rng.random() < 0.8 else []      # an empty dim reduces over all dimensions, like None
    k = rng.randint(1, nd)
    axes = rng.sample(range(nd), k)
    enc = [a if rng.random() < 0.5 else a - nd for a in axes]
    if len(enc) == 1 and rng.random() < 0.4:
        return enc[0]   # plain int
    return enc


def bc(op, shape):
    """numpy array of an operand broadcast to `shape`"""
    if op is None or op.get('kind') == 'none':
        return None
    re_ = np.array(op['re'], dtype=np.float64).reshape(op['shape'])
    if op.get('im') is not None:
        re_ = re_ + 1j * np.array(op['im'], dtype=np.float64).reshape(op['shape'])
    return np.broadcast_to(re_, shape)


def sig_arr(sg, shape):
    return np.broadcast_to(np.array(sg['vals'], dtype=np.float64).reshape(sg['shape']), shape)


def gen_elem(rng, shape, op, sigma, cls=None, x_complex=None, exact_modulus=True):
    """one elementary functional + its input x; returns (elem spec, x spec)"""
    cls = cls or rng.choice(CLASSES)
    kind = KIND[cls]
    nd = len(shape)
    need_pyth = kind == 'KL1' and exact_modulus
    w = gen_operand(rng, shape, 'w', True, exact_modulus, nonzero=(kind == 'KL2' and op == 'pcc'))
    b = gen_operand(rng, shape, 'b', True, False)
    if x_complex is None:
        x_complex = rng.random() < 0.4
    w_c = w.get('im') is not None
    b_c = b.get('im') is not None
    n = numel(shape)
    bb = bc(b, shape)
    bb = np.zeros(shape) if bb is None else bb
    if need_pyth and (x_complex or b_c):
        # x = d + b (forward, prox) or d + sigma * b (prox_convex_conj) with Pythagorean d so that |diff| is rational
        d = np.array([complex(*pyth(rng)) for _ in range(n)]).reshape(shape)
        shift = bb * sig_arr(sigma, shape) if op == 'pcc' else bb
        xv = d + shift
        if not x_complex and np.all(xv.imag == 0):
            xv = xv.real
        else:
            x_complex = True
    elif x_complex:
        xv = np.array([complex(dy(rng, -40, 40), dy(rng, -40, 40)) for _ in range(n)]).reshape(shape)
    else:
        xv = np.array([dy(rng, -40, 40) for _ in range(n)], dtype=np.float64).reshape(shape)
    x = {'shape': list(shape), 're': np.real(xv).flatten().tolist(), 'im': np.imag(xv).flatten().tolist() if x_complex else None}
    divn = rng.choice([None, True, False]) if cls == 'MSE' else rng.choice([True, False])
    e = {'cls': cls, 'w': w, 'b': b, 'dim': gen_dim(rng, nd), 'divn': divn, 'keepdim': rng.random() < 0.5}
    return e, x


def gen_shape(rng, max_numel=36):
    while True:
        nd = rng.randint(1, 3)
        shape = [rng.randint(1, 4) for _ in range(nd)]
        if numel(shape) <= max_numel:
            return shape


STATS = {}


def _stat(c):
    for f in c['funcs']:
        e = f['elem']
        for key in (f'class:{e["cls"]}', f'op:{c["op"]}', f'weight:{e["w"]["kind"]}{"_complex" if e["w"].get("im") is not None else ""}',
                    f'target:{e["b"]["kind"]}{"_complex" if e["b"].get("im") is not None else ""}',
                    f'dim:{"none" if e["dim"] is None else ("int" if isinstance(e["dim"], int) else "tuple" + ("_neg" if any(d < 0 for d in e["dim"]) else ""))}',
                    f'divide_by_n:{e["divn"]}', f'keepdim:{e["keepdim"]}', f'nested_scales:{len(f["scales"])}'):
            STATS[key] = STATS.get(key, 0) + 1
    sv = c['sigma']['vals']
    for key in (f'sigma:{c["sigma"]["kind"]}{"_multi" if len(sv) > 1 else ""}', f'x_complex:{c["xs"][0].get("im") is not None}',
                f'rank:{len(c["xs"][0]["shape"])}', f'precision:{"float32-tolerant" if f32_path(c) else "float64-strict"}'):
        STATS[key] = STATS.get(key, 0) + 1
    if any(v == 0 for v in sv):
        STATS['sigma_has_zero'] = STATS.get('sigma_has_zero', 0) + 1
    if any(0 < v < 1e-8 for v in sv):
        STATS['sigma_has_tiny(<1e-8)'] = STATS.get('sigma_has_tiny(<1e-8)', 0) + 1
    if c.get('malformed'):
        STATS['malformed'] = STATS.get('malformed', 0) + 1
    return c


def rlit(v):
    fr = Fraction(v)
    t = f'{abs(fr.numerator)}' if fr.denominator == 1 else f'({abs(fr.numerator)} / {fr.denominator})'
    return t if fr >= 0 else f'(- {t})'


IV_PREAMBLE = ('From Coq Require Import Reals Lra.\nFrom Interval Require Import Tactic.\n'
               'From MrVerif Require Import Model.Functionals Proofs.FunctionalsProofs.\nLocal Open Scope R_scope.\n'
               'Ltac unfc := unfold cabs, cnorm2, csub, cscale; cbn [fst snd].\n')


def interval_lemmas(ctx):
    """Correspondence for irrational complex moduli: L1Norm.prox on complex data with non-Pythagorean x - b and weights is
    compared element by element with the real model cl1_prox (Model/Functionals.v) through lemmas closed by `interval`."""
    rng = ctx.rng
    want = 50 if ctx.tier == 'quick' else 400
    items, skipped, k = [], 0, 0
    while len(items) < want and k < 40 * want:
        k += 1
        shape = gen_shape(rng, 12)
        sigma = gen_sigma(rng, shape)
        e, x = gen_elem(rng, shape, 'prox', sigma, cls='L1Norm', x_complex=True, exact_modulus=False)
        if e['w']['kind'] != 't':
            e['w'] = {'kind': 't', 'shape': [], 're': [dy(rng, 1, 12)], 'im': [dy(rng, -12, 12)]}   # float64 buffers: tight tolerance
        c = {'op': 'prox', 'funcs': [{'scales': [], 'elem': e}], 'xs': [x], 'sigma': sigma, 'sep': False}
        try:
            o = impl(c)
        except Exception as ex:  # noqa: BLE001
            ctx.problem('property', 'interval_l1_complex', c, f'valid call raised {vlib.exc_enum(ex)}: {ex}', descr(c))
            continue
        msg = oracle(c, o)
        ctx.evaluations += 1
        ctx.count('family:interval_l1_complex')
        if msg:
            ctx.problem('property', 'interval_l1_complex', c, msg, descr(c), got=o)
            continue
        xv = np_x(x)
        w = bc(e['w'], xv.shape)
        b = bc(e['b'], xv.shape)
        w = np.ones(xv.shape) if w is None else w
        b = np.zeros(xv.shape) if b is None else b
        sg = sig_arr(sigma, xv.shape)
        n = nfac(e, xv.shape)
        got = o['outs'][0]
        for j in rng.sample(range(xv.size), min(xv.size, 6)):
            wj, bj, xj, sj = complex(w.flat[j]), complex(b.flat[j]), complex(xv.flat[j]), float(sg.flat[j])
            margin = abs(xj - bj) - sj / n * abs(wj)
            if abs(margin) < 1e-6:
                skipped += 1   # tie between the branches: the strict inequality cannot be decided by interval arithmetic
                continue
            yr, yi = got['re'][j], got['im'][j]
            args = (f'{rlit(n)} ({rlit(wj.real)}, {rlit(wj.imag)}) ({rlit(bj.real)}, {rlit(bj.imag)}) {rlit(sj)} '
                    f'({rlit(xj.real)}, {rlit(xj.imag)})')
            tol = f'({2 ** max(0, math.ceil(math.log2(max(1.0, abs(yr), abs(yi)))))} / {2 ** 36})'   # ~1.5e-11 relative
            branch = 'cl1_prox_shrink' if margin > 0 else 'cl1_prox_kill'
            items.append((c, j, f'Lemma iv_{len(items)} : Rabs (fst (cl1_prox {args}) - {rlit(yr)}) <= {tol} '
                                f'/\\ Rabs (snd (cl1_prox {args}) - {rlit(yi)}) <= {tol}.\n'
                                f'Proof. rewrite {branch} by (unfc; interval with (i_prec 80)). unfc. split; interval with (i_prec 80). Qed.\n'))
            if len(items) >= want:
                break
    ctx.count('interval_lemmas', len(items))
    ctx.count('interval_branch_ties_skipped', skipped)
    ctx.obligations += len(items)
    closed, failed = 0, []
    # shards, so that one failing lemma does not hide the others
    shard = 25
    for s0 in range(0, len(items), shard):
        part = items[s0:s0 + shard]
        f = ctx.work / f'interval_{s0}.v'
        f.write_text(IV_PREAMBLE + ''.join(t for _, _, t in part))
        rc, so, se = vlib.coqc_file(f)
        if rc == 0:
            closed += len(part)
            continue
        # find the failing ones one by one
        for i, (c, j, t) in enumerate(part):
            g = ctx.work / f'interval_{s0}_{i}.v'
            g.write_text(IV_PREAMBLE + t)
            rc1, so1, se1 = vlib.coqc_file(g)
            if rc1 == 0:
                closed += 1
            else:
                failed.append((c, j, (se1 or so1)[-300:]))
    ctx.discharged += closed
    ctx.traces_validated += closed
    ctx.extra.setdefault('coverage', {})['interval_lemmas'] = {'generated': len(items), 'closed': closed, 'failed': len(failed),
                                                               'ties_skipped': skipped}
    for c, j, err in failed[:5]:
        ctx.problem('correspondence', 'interval_l1_complex', c,
                    f'L1Norm.prox element {j} differs from the real model cl1_prox (interval lemma does not close): {err}', descr(c))


def extra_checks(ctx):
    interval_lemmas(ctx)
    for k, v in sorted(STATS.items()):
        ctx.count(k, v)


def gen_elementary(rng, tier):
    cases = []   # the reproduction of the repaired finding KF-C08-1 lives in corpus/C08/ and is run first by the driver
    n = 170 if tier == 'quick' else 4000
    for i in range(n):
        op = ['forward', 'prox', 'pcc'][i % 3]
        shape = gen_shape(rng)
        sigma = gen_sigma(rng, shape)
        e, x = gen_elem(rng, shape, op, sigma, cls=CLASSES[(i // 3) % len(CLASSES)])
        cases.append({'op': op, 'funcs': [{'scales': [], 'elem': e}], 'xs': [x], 'sigma': sigma, 'sep': False})
    # the `sigma < 1e-8 -> sigma + 1e-6` switch of the generic fallback: float64 tensor sigmas bracketing 1e-8 (2^-27 < 1e-8 < 2^-26)
    for i in range(12 if tier == 'quick' else 200):
        shape = gen_shape(rng)
        sh = sub_shape(rng, shape)
        sigma = {'kind': 't', 'shape': sh,
                 'vals': [rng.choice([0.0, TINY, 2.0 ** -27, 2.0 ** -26, 2.0 ** -20, 2.0 ** -12, 1 / 16]) for _ in range(numel(sh))]}
        sigma['vals'][0] = 2.0 ** -26 if i % 2 else 2.0 ** -27
        if len(sigma['vals']) > 1:
            sigma['vals'][1] = 2.0 ** -27 if i % 2 else 2.0 ** -26
        e, x = gen_elem(rng, shape, 'pcc', sigma, cls='L1NormViewAsReal')
        if e['w']['kind'] != 't':
            e['w'] = {'kind': 't', 'shape': [], 're': [dy(rng, 1, 12)], 'im': None}
        if e['b']['kind'] == 'none' or all(v == 0 for v in e['b']['re']):
            e['b'] = {'kind': 't', 'shape': [], 're': [dy(rng, 4, 24)], 'im': None}   # the switch is only visible with a non-zero target
        cases.append({'op': 'pcc', 'funcs': [{'scales': [], 'elem': e}], 'xs': [x], 'sigma': sigma, 'sep': False})
    # malformed stream: negative sigma somewhere -> ValueError
    for i in range(10 if tier == 'quick' else 120):
        op = ['prox', 'pcc'][i % 2]
        shape = gen_shape(rng)
        sigma = gen_sigma(rng, shape)
        k = rng.randrange(len(sigma['vals']))
        sigma['vals'][k] = -rng.choice([0.5, 1.0, TINY])
        e, x = gen_elem(rng, shape, op, {'kind': 'py', 'shape': [], 'vals': [1.0]})
        cases.append({'op': op, 'funcs': [{'scales': [], 'elem': e}], 'xs': [x], 'sigma': sigma, 'sep': False, 'malformed': True})
    return [_stat(c) for c in cases]


def gen_generic_complex(rng, tier):
    """implementation-level only: complex data / weights with irrational moduli (the rational model needs exact square roots)"""
    cases = []
    for i in range(40 if tier == 'quick' else 800):
        op = ['forward', 'prox', 'pcc'][i % 3]
        shape = gen_shape(rng)
        sigma = gen_sigma(rng, shape)
        e, x = gen_elem(rng, shape, op, sigma, cls=rng.choice(['L1Norm', 'L1Norm', 'L1NormViewAsReal', 'L2NormSquared']),
                        x_complex=True, exact_modulus=False)
        scales = [gen_scale(rng, True)] if rng.random() < 0.3 else []
        cases.append({'op': op, 'funcs': [{'scales': scales, 'elem': e}], 'xs': [x], 'sigma': sigma, 'sep': False})
    return [_stat(c) for c in cases]


def gen_scale(rng, positive):
    r = rng.random()
    vals = [0.25, 0.5, 0.75, 1.5, 2.0, 3.0]
    if r < 0.25:
        return {'kind': 'py', 'v': rng.choice(vals + ([] if positive else [0.0]))}
    if r < 0.35:
        return {'kind': 'pyint', 'v': float(rng.choice([1, 2, 3]))}
    return {'kind': 't', 'v': rng.choice(vals), 'f32': rng.random() < 0.2}


def gen_scaled(rng, tier):
    cases = []
    n = 75 if tier == 'quick' else 2000
    for i in range(n):
        op = ['forward', 'prox', 'pcc'][i % 3]
        shape = gen_shape(rng)
        sigma = gen_sigma(rng, shape)
        scales = [gen_scale(rng, op == 'pcc') for _ in range(rng.choice([1, 1, 2]))]
        # the inner functional sees x / prod(scales) and sigma / prod(scales) in prox_convex_conj: Pythagorean data stays Pythagorean
        e, x = gen_elem(rng, shape, op, sigma)
        cases.append({'op': op, 'funcs': [{'scales': scales, 'elem': e}], 'xs': [x], 'sigma': sigma, 'sep': False})
    for i in range(6 if tier == 'quick' else 60):   # malformed: negative scale -> ValueError in prox / prox_convex_conj
        op = ['prox', 'pcc'][i % 2]
        shape = gen_shape(rng)
        sigma = gen_sigma(rng, shape, positive=True)
        e, x = gen_elem(rng, shape, op, sigma)
        cases.append({'op': op, 'funcs': [{'scales': [{'kind': 'py', 'v': -rng.choice([0.5, 2.0])}], 'elem': e}], 'xs': [x],
                      'sigma': sigma, 'sep': False, 'malformed': True})
    return [_stat(c) for c in cases]


def gen_separable(rng, tier):
    cases = []
    n = 60 if tier == 'quick' else 1500
    for i in range(n):
        op = ['forward', 'prox', 'pcc'][i % 3]
        k = rng.choice([2, 2, 3])
        sigma = gen_sigma(rng, [], scalar_only=True)
        funcs, xs = [], []
        for _ in range(k):
            shape = gen_shape(rng, 16)
            e, x = gen_elem(rng, shape, op, sigma)
            if op == 'forward':
                e['dim'], e['keepdim'] = None, False   # scalar values can be added
            scales = [gen_scale(rng, op == 'pcc')] if rng.random() < 0.4 else []
            funcs.append({'scales': scales, 'elem': e})
            xs.append(x)
        cases.append({'op': op, 'funcs': funcs, 'xs': xs, 'sigma': sigma, 'sep': True, 'via_or': rng.random() < 0.5})
    return [_stat(c) for c in cases]


# ------------------------------------------------------------------------------------------------
# implementation side
# ------------------------------------------------------------------------------------------------
def t_tensor(op):
    re_ = torch.tensor(op['re'], dtype=torch.float64).reshape(op['shape'])
    if op.get('im') is not None:
        return torch.complex(re_, torch.tensor(op['im'], dtype=torch.float64).reshape(op['shape']))
    return re_


def t_operand(op):
    k = op['kind']
    if k == 'none':
        return None
    if k == 'py':
        return float(op['re'][0])
    if k == 'pyint':
        return int(op['re'][0])
    if k == 'pyc':
        return complex(op['re'][0], op['im'][0])
    return t_tensor(op)


def build_functional(f):
    import mrpro.operators.functionals as F
    from mrpro.operators.Functional import ScaledProximableFunctional
    e = f['elem']
    kw = {'keepdim': e['keepdim']}
    w, b = t_operand(e['w']), t_operand(e['b'])
    if w is not None:
        kw['weight'] = w
    if b is not None:
        kw['target'] = b
    d = e['dim']
    kw['dim'] = d if (d is None or isinstance(d, int)) else tuple(d)
    if e['divn'] is not None:
        kw['divide_by_n'] = e['divn']
    fn = getattr(F, e['cls'])(**kw)
    for i, s in enumerate(reversed(f['scales'])):   # scales[0] is the outermost
        if s['kind'] == 'py':
            a = float(s['v'])
        elif s['kind'] == 'pyint':
            a = int(s['v'])
        else:
            a = torch.tensor(s['v'], dtype=torch.float32 if s.get('f32') else torch.float64)
        fn = (a * fn) if i % 2 == 0 else ScaledProximableFunctional(fn, a)
    return fn


def t_sigma(sg):
    if sg['kind'] == 'py':
        return float(sg['vals'][0])
    return torch.tensor(sg['vals'], dtype=torch.float64).reshape(sg['shape'])


def t_out(t):
    c = t.is_complex()
    tc = t.detach().to(torch.complex128)
    return {'shape': list(t.shape), 're': tc.real.flatten().tolist(), 'im': tc.imag.flatten().tolist(), 'cplx': bool(c)}


def impl(c):
    fns = [build_functional(f) for f in c['funcs']]
    xs = [t_tensor(x) for x in c['xs']]
    xs0 = [x.clone() for x in xs]
    sigma = t_sigma(c['sigma'])
    out = {}
    if c['sep']:
        from mrpro.operators import ProximableFunctionalSeparableSum
        if c.get('via_or'):
            S = fns[0] | fns[1]
            for g in fns[2:]:
                S = S | g
        else:
            S = ProximableFunctionalSeparableSum(*fns)
        if c['op'] == 'forward':
            (v,) = S(*xs)
            out['outs'] = [t_out(v)]
        elif c['op'] == 'prox':
            out['outs'] = [t_out(v) for v in S.prox(*xs, sigma=sigma)]
            if all(v > 0 for v in c['sigma']['vals']) and _scales_pos(c):
                out['moreau'] = [t_out(v) for v in S.prox_convex_conj(*[x / sigma for x in xs], sigma=1 / sigma)]
        else:
            out['outs'] = [t_out(v) for v in S.prox_convex_conj(*xs, sigma=sigma)]
            if all(v > 0 for v in c['sigma']['vals']) and _scales_pos(c):
                out['moreau'] = [t_out(v) for v in S.prox(*[x / sigma for x in xs], sigma=1 / sigma)]
    else:
        f, x = fns[0], xs[0]
        if c['op'] == 'forward':
            (v,) = f(x)
            out['outs'] = [t_out(v)]
        elif c['op'] == 'prox':
            (v,) = f.prox(x, sigma)
            out['outs'] = [t_out(v)]
            if all(s > 0 for s in c['sigma']['vals']) and _scales_pos(c):
                (m,) = f.prox_convex_conj(x / sigma, 1 / sigma)
                out['moreau'] = [t_out(m)]
        else:
            (v,) = f.prox_convex_conj(x, sigma)
            out['outs'] = [t_out(v)]
            if all(s > 0 for s in c['sigma']['vals']) and _scales_pos(c):
                (m,) = f.prox(x / sigma, 1 / sigma)
                out['moreau'] = [t_out(m)]
    out['x_unchanged'] = all(torch.equal(a, b) for a, b in zip(xs, xs0))
    return out


def _scales_pos(c):
    return all(s['v'] > 0 for f in c['funcs'] for s in f['scales'])


# ------------------------------------------------------------------------------------------------
# model side
# ------------------------------------------------------------------------------------------------
def q(v):
    fr = Fraction(v)
    return f'({fr.numerator} # {fr.denominator})' if fr.numerator >= 0 else f'(({fr.numerator}) # {fr.denominator})'


def zl(xs):
    return '[' + '; '.join(f'({int(v)})%Z' for v in xs) + ']%list'


def tens_lit(shape, re_, im):
    im = im if im is not None else [0.0] * len(re_)
    return f'({zl(shape)}, [' + '; '.join(f'({q(a)}, {q(b)})' for a, b in zip(re_, im)) + ']%list)'


def operand_lit(op, default):
    if op['kind'] == 'none':
        return tens_lit([], [default], None), False
    return tens_lit(op['shape'], op['re'], op.get('im')), op.get('im') is not None


def eff_divn(e):
    return (e['divn'] is None or e['divn']) if e['cls'] == 'MSE' else bool(e['divn'])


def func_lit(f):
    e = f['elem']
    w, wc = operand_lit(e['w'], 1.0)
    b, bc_ = operand_lit(e['b'], 0.0)
    d = e['dim']
    dim = 'None' if d is None else f'(Some {zl([d] if isinstance(d, int) else d)})'
    s = (f'(FElem (Build_espec {KIND[e["cls"]]} {w} {vlib.boollit(wc)} {b} {vlib.boollit(bc_)} {dim} '
         f'{vlib.boollit(eff_divn(e))} {vlib.boollit(e["keepdim"])}))')
    for sc in reversed(f['scales']):
        s = f'(FScaled {q(sc["v"])} {s})'
    return s


def coq(c):
    xs = [tens_lit(x['shape'], x['re'], x.get('im')) for x in c['xs']]
    xc = [vlib.boollit(x.get('im') is not None) for x in c['xs']]
    sg = tens_lit(c['sigma']['shape'], c['sigma']['vals'], None)
    fl = [func_lit(f) for f in c['funcs']]
    if c['sep']:
        comps = '[' + '; '.join(f'({f}, {b}, {x})' for f, b, x in zip(fl, xc, xs)) + ']%list'
        if c['op'] == 'forward':
            return f'([oout (s_forward {comps})])%list%Q'
        return f'(map oout ({"s_prox" if c["op"] == "prox" else "s_pcc"} {comps} {sg}))%Q'
    if c['op'] == 'forward':
        return f'([Some (tout (f_forward {fl[0]} {xc[0]} {xs[0]}))])%list%Q'
    return f'([oout ({"f_prox" if c["op"] == "prox" else "f_pcc"} {fl[0]} {xs[0]} {sg})])%list%Q'


def model_arrays(m):
    """parsed model value -> list of None | (shape, complex ndarray as python Fractions -> float)"""
    res = []
    for o in m:
        if o is None:
            res.append(None)
            continue
        shape, data = o['some']
        vals = []
        for el in data:
            n1, d1, (n2, d2) = el
            vals.append(complex(Fraction(n1, d1), Fraction(n2, d2)))
        res.append((list(shape), np.array(vals, dtype=np.complex128)))
    return res


def f32_path(c):
    """True when float32 arithmetic can enter the result: python-scalar / default weights (stored as float32 / complex64 / int64
    0-dim buffers) and python or float32 scales meet python-scalar sigmas in 0-dim float32 products (e.g. w*sigma/N, sigma/scale);
    a python sigma also reaches the generic fallback as a float32 tensor (1/sigma, sigma + 1e-6 rounded to float32).
    Everything is exact to float64 rounding when weights and scales are float64 tensors."""
    for f in c['funcs']:
        if f['elem']['w']['kind'] != 't':
            return True
        if any(s['kind'] != 't' or s.get('f32') for s in f['scales']):
            return True
        if f['elem']['cls'] == 'L1NormViewAsReal' and c['sigma']['kind'] == 'py':
            return True
        if f['elem']['b']['kind'] in ('py', 'pyint', 'pyc') and c['sigma']['kind'] == 'py':
            return True   # python sigma * float32 target buffer is a float32 product (sigma * target in prox_convex_conj)
    return False


def compare(c, o, m):
    ma = model_arrays(m)
    if isinstance(o, dict) and 'raises' in o:
        if o['raises'] == 'ValueError' and any(x is None for x in ma):
            return None
        return f'impl raises {o["raises"]} ({o.get("msg", "")[:80]}), model gives a value'
    if any(x is None for x in ma):
        return 'model rejects (ValueError expected), impl returns a value'
    if len(ma) != len(o['outs']):
        return f'number of outputs differs: model {len(ma)} impl {len(o["outs"])}'
    tol = 1e-4 if f32_path(c) else 1e-12
    for k, ((shape, vals), got) in enumerate(zip(ma, o['outs'])):
        if shape != got['shape']:
            return f'output {k}: model shape {shape}, impl shape {got["shape"]}'
        g = np.array(got['re']) + 1j * np.array(got['im'])
        if not np.all(np.isfinite(g)):
            return f'output {k}: impl result is not finite'
        scale = max(1.0, float(np.max(np.abs(vals))) if vals.size else 1.0)
        err = float(np.max(np.abs(g - vals))) if vals.size else 0.0
        if err > tol * scale:
            j = int(np.argmax(np.abs(g - vals)))
            return f'output {k}: max deviation {err:.3e} at flat index {j}: model {vals[j]} impl {g[j]}'
    return None


# ------------------------------------------------------------------------------------------------
# oracle: the property statement on the implementation's output, independent numpy code
# ------------------------------------------------------------------------------------------------
def np_x(x):
    a = np.array(x['re'], dtype=np.float64).reshape(x['shape'])
    if x.get('im') is not None:
        a = a + 1j * np.array(x['im'], dtype=np.float64).reshape(x['shape'])
    return a


def elem_values(e, p, shape):
    """documented element values of phi(W (p - b)) before reduction"""
    w = bc(e['w'], shape)
    b = bc(e['b'], shape)
    w = np.ones(shape) if w is None else w
    b = np.zeros(shape) if b is None else b
    d = p - b
    cls = e['cls']
    if cls == 'L1Norm':
        return np.abs(w * d)
    if cls in ('L2NormSquared', 'MSE'):
        return np.abs(w * d) ** 2
    if cls == 'L1NormViewAsReal':
        wr = np.real(w)
        wi = np.imag(w) if e['w'].get('im') is not None else np.real(w)
        return np.abs(wr * np.real(d)) + np.abs(wi * np.imag(d))
    return np.zeros(shape)


def red_axes(e, nd):
    d = e['dim']
    if d is None or (not isinstance(d, int) and len(d) == 0):
        return tuple(range(nd))
    return tuple(sorted({(a % nd) for a in ([d] if isinstance(d, int) else d)}))


def nfac(e, shape):
    if not eff_divn(e):
        return 1.0
    return float(numel([shape[a] for a in red_axes(e, len(shape))]))


def doc_forward(f, x):
    e = f['elem']
    v = elem_values(e, x, x.shape)
    ax = red_axes(e, x.ndim)
    r = (np.mean if eff_divn(e) else np.sum)(v, axis=ax, keepdims=e['keepdim'])
    for s in f['scales']:
        r = s['v'] * r
    return r


def objective(f, sig, x, p):
    """sum_i sigma_i * a * val_i(p_i) / n + 1/2 |x_i - p_i|^2 (total over all elements)"""
    e = f['elem']
    a = 1.0
    for s in f['scales']:
        a *= s['v']
    return float(np.sum(sig * a * elem_values(e, p, x.shape) / nfac(e, x.shape)) + 0.5 * np.sum(np.abs(x - p) ** 2))


def perturbations(f, x, pr, seed):
    """structured and random candidate points p"""
    rs = np.random.RandomState(seed)
    e = f['elem']
    cands = []
    b = bc(e['b'], x.shape)
    cands.append(('zero', np.zeros_like(pr)))
    cands.append(('x', x.astype(pr.dtype)))
    if b is not None:
        cands.append(('target', np.array(b, dtype=np.result_type(b.dtype, pr.dtype))))
    cplx = np.iscomplexobj(pr) or np.iscomplexobj(x)
    dirs = [1.0, 1j] if cplx else [1.0]
    n = pr.size
    idxs = list(range(n)) if n <= 12 else sorted(rs.choice(n, 12, replace=False).tolist())
    for i in idxs:
        for eps in (1e-4, 1e-2, 0.25, 2.0):
            for dr in dirs:
                for sgn in (1, -1):
                    p = np.array(pr, dtype=np.complex128 if cplx else np.float64).copy()
                    p.flat[i] += sgn * eps * dr
                    cands.append((f'prox{"+" if sgn > 0 else "-"}{eps}*{"i" if dr != 1.0 else ""}e_{i}', p))
    for k in range(40):
        scale = [1e-3, 0.05, 1.0, 5.0][k % 4]
        noise = rs.standard_normal(pr.shape) + (1j * rs.standard_normal(pr.shape) if cplx else 0)
        cands.append((f'random{k}', pr + scale * noise))
        if k % 8 == 0:
            cands.append((f'global{k}', (5.0 * noise).astype(np.complex128 if cplx else np.float64)))
    return cands


def oracle(c, o):
    if isinstance(o, dict) and 'raises' in o:
        if c.get('malformed'):
            return None if o['raises'] == 'ValueError' else f'negative sigma/scale: expected ValueError, got {o["raises"]}'
        return f'valid call raised {o["raises"]}: {o.get("msg", "")[:120]}'
    if c.get('malformed'):
        return 'negative sigma / scale was accepted'
    if not o.get('x_unchanged', True):
        return 'input x was modified in place'
    xs = [np_x(x) for x in c['xs']]
    outs = [np.array(g['re']).reshape(g['shape']) + (1j * np.array(g['im']).reshape(g['shape']) if g['cplx'] else 0) for g in o['outs']]
    for g in outs:
        if not np.all(np.isfinite(g)):
            return 'result is not finite'
    if c['op'] == 'forward':
        if o['outs'][0]['cplx']:
            return 'forward returned a complex dtype'
        want = sum(doc_forward(f, x) for f, x in zip(c['funcs'], xs)) if c['sep'] else doc_forward(c['funcs'][0], xs[0])
        want = np.asarray(want)
        if list(want.shape) != list(outs[0].shape):
            return f'forward shape {list(outs[0].shape)}, documented {list(want.shape)}'
        err = float(np.max(np.abs(want - outs[0]))) if want.size else 0.0
        if err > 1e-9 * max(1.0, float(np.max(np.abs(want))) if want.size else 1.0):
            return f'forward value deviates from the documented formula by {err:.3e}: got {outs[0].flatten()[:4]}, documented {want.flatten()[:4]}'
        return None
    if c['op'] == 'prox':
        for k, (f, x, pr) in enumerate(zip(c['funcs'], xs, outs)):
            if list(pr.shape) != list(x.shape):
                return f'prox output {k} has shape {list(pr.shape)}, x has {list(x.shape)}'
            sig = sig_arr(c['sigma'], x.shape)
            if not (np.iscomplexobj(x) or f['elem']['b'].get('im') is not None) and np.iscomplexobj(pr) and np.max(np.abs(pr.imag)) > 0:
                pass  # complex weight promotes the dtype; imaginary part must then be zero - covered by optimality below
            base = objective(f, sig, x, pr)
            seed = abs(hash((k, tuple(x.shape), round(base, 6)))) % (2 ** 31)
            for name, p in perturbations(f, x, pr, seed):
                v = objective(f, sig, x, p)
                if base > v + 1e-9 * max(1.0, abs(v)):
                    return (f'prox output {k} is not the minimiser: objective {base:.12g} at prox > {v:.12g} at p = {name} '
                            f'(difference {base - v:.3e})')
        if 'moreau' in o:
            for k, (x, pr, g) in enumerate(zip(xs, outs, o['moreau'])):
                pc = np.array(g['re']).reshape(g['shape']) + 1j * np.array(g['im']).reshape(g['shape'])
                sig = sig_arr(c['sigma'], x.shape)
                res = x - pr - sig * pc
                err = float(np.max(np.abs(res))) if res.size else 0.0
                if not np.isfinite(err) or err > (1e-4 if f32_path(c) else 1e-9) * max(1.0, float(np.max(np.abs(x)))):
                    return f'Moreau identity x = prox(x, s) + s * prox_convex_conj(x/s, 1/s) violated for input {k}: residual {err:.3e}'
        return None
    # prox_convex_conj(x, s): Moreau's identity at (x/s, 1/s) reads  x = s * prox(x/s, 1/s) + prox_convex_conj(x, s)
    if 'moreau' in o:
        for k, (f, x, pc, g) in enumerate(zip(c['funcs'], xs, outs, o['moreau'])):
            if list(pc.shape) != list(x.shape):
                return f'prox_convex_conj output {k} has shape {list(pc.shape)}, x has {list(x.shape)}'
            pr = np.array(g['re']).reshape(g['shape']) + 1j * np.array(g['im']).reshape(g['shape'])
            sig = sig_arr(c['sigma'], x.shape)
            res = x - sig * pr - pc
            err = float(np.max(np.abs(res))) if res.size else 0.0
            tol = 1e-4 if f32_path(c) else 1e-9
            ref = max(1.0, float(np.max(np.abs(x))))
            if f['elem']['cls'] == 'L1NormViewAsReal' and float(np.min(sig)) < 1e-7:
                # documented tweak of the generic fallback: sigma < 1e-8 is replaced by sigma + 1e-6 (shifts the result by ~1e-6 * |target|)
                b = bc(f['elem']['b'], x.shape)
                tol, ref = 1e-4, max(ref, float(np.max(np.abs(b))) if b is not None else 1.0)
            if not np.isfinite(err) or err > tol * ref:
                return (f'Moreau identity x = s * prox(x/s, 1/s) + prox_convex_conj(x, s) violated for input {k}: residual {err:.3e}')
    return None


def descr(c):
    quirk = any(f['elem']['cls'] == 'L1NormViewAsReal' and f['elem']['w'].get('im') is not None
                and x.get('im') is None and f['elem']['b'].get('im') is None for f, x in zip(c['funcs'], c['xs']))
    return {'op': c['op'], 'classes': sorted({f['elem']['cls'] for f in c['funcs']}),
            'l1viewasreal_complex_weight_real_data': quirk, 'sep': c['sep'], 'scaled': any(f['scales'] for f in c['funcs'])}


def nontrivial(c):
    if c.get('malformed'):
        return False
    if all(numel(x['shape']) <= 1 for x in c['xs']):
        return False
    if c['op'] == 'forward':
        return True
    return any(v != 0 for v in c['sigma']['vals'])


FAMILIES = [
    Family('elementary', gen_elementary, impl, coq, PREAMBLE, compare, oracle, nontrivial=nontrivial, descr=descr, shard=40,
           theorem='C08_prox_opt_*, C08_moreau_*, C08_values*, C08_transfer_*'),
    Family('complex_irrational_modulus', gen_generic_complex, impl, None, '', None, oracle, nontrivial=nontrivial, descr=descr,
           theorem='C08_prox_opt_l1complex, C08_moreau_l1complex (implementation-level oracles only)'),
    Family('scaled', gen_scaled, impl, coq, PREAMBLE, compare, oracle, nontrivial=nontrivial, descr=descr, shard=40,
           theorem='C08_scaled_prox_opt*, C08_scaled_moreau*'),
    Family('separable_sum', gen_separable, impl, coq, PREAMBLE, compare, oracle, nontrivial=nontrivial, descr=descr, shard=30,
           theorem='C08_separable_prox_opt*, C08_separable_value'),
]


# ---- added after seeded change C08-3: results depend on the functional's CURRENT weight/target only ----------------
def _gen_weight_update(rng, tier):
    out = []
    for i in range(12 if tier == 'quick' else 200):
        out.append({'cls': ['L2NormSquared', 'MSE', 'L1Norm', 'L1NormViewAsReal'][i % 4], 'n': rng.randint(2, 5), 'seed': rng.randrange(10 ** 6),
                    'factor': rng.choice([2.0, 0.5, 3.0]), 'divide_by_n': rng.random() < 0.5, 'what': rng.choice(['weight', 'target', 'both']),
                    'first_call': rng.choice(['prox', 'prox_convex_conj', 'forward'])})
    return out


def _impl_weight_update(c):
    import torch
    import mrpro.operators.functionals as F
    g = torch.Generator().manual_seed(c['seed'])
    w = torch.randint(1, 4, (c['n'],), generator=g).to(torch.float64)
    t = torch.randint(-3, 4, (c['n'],), generator=g).to(torch.float64)
    x = torch.randint(-6, 7, (c['n'],), generator=g).to(torch.float64) / 2
    cls = getattr(F, c['cls'])
    f = cls(weight=w.clone(), target=t.clone(), divide_by_n=c['divide_by_n'])
    getattr(f, c['first_call'])(*((x,) if c['first_call'] == 'forward' else (x, 0.5)))
    with torch.no_grad():   # the user updates the functional's buffers in place (e.g. a reweighting scheme)
        if c['what'] in ('weight', 'both'):
            f.weight.mul_(c['factor'])
        if c['what'] in ('target', 'both'):
            f.target.add_(1.0)
    fresh = cls(weight=f.weight.clone(), target=f.target.clone(), divide_by_n=c['divide_by_n'])
    dev = 0.0
    for name, args in (('forward', (x,)), ('prox', (x, 0.5)), ('prox_convex_conj', (x, 0.5))):
        a, b = getattr(f, name)(*args)[0], getattr(fresh, name)(*args)[0]
        dev = max(dev, float((a - b).abs().max()))
    return {'dev': dev}


def _oracle_weight_update(c, o):
    if isinstance(o, dict) and 'raises' in o:
        return f'{c["cls"]}: {o}'
    if o['dev'] > 1e-12:
        return (f'{c["cls"]}: after an in-place update of its {c["what"]} (following a {c["first_call"]} call) the functional no longer '
                f'agrees with a fresh functional built from the same weight/target: deviation {o["dev"]:.3g} - forward/prox/prox_convex_conj '
                'are not consistent with the current definition')
    return None


FAMILIES.append(Family('buffer_update_history', _gen_weight_update, _impl_weight_update, None, '', None, _oracle_weight_update,
                       theorem='(implementation-level: values depend on the current weight/target only)'))
