"""C14 - loading raw ISMRMRD data is faithful to acquisition indices, not to file order; trajectory calculators agree
with the acquisition indices."""
import itertools
import math
import os
import shutil
import tempfile
from fractions import Fraction

import numpy as np
import torch

import ismrmrd_writer as W
import vlib
from vlib import Family, zlit, zlist

LEVEL = 'proof'
RULE = ('load: real ISMRMRD/HDF5 files written per case (labels k1,k2 + up to 2 of the 12 other labels with arbitrary value sets; '
        'grid / ragged k1 per k2 / ragged per other / duplicate labels; random file order; interleaved noise, calibration, navigation, '
        'phase-correction, feedback, dummy, phase-stabilisation and other-coil acquisitions; reversed readouts, per-readout centre '
        'samples; trajectory from Cartesian/radial/RPE calculators, stored 2-/3-column trajectories or a user trajectory); ids of data, '
        'every AcqInfo field and trajectory compared exactly with Model/KLoad.v under vm_compute; a second file with another order and '
        'without the rejected acquisitions must load identically. permutations: every order of a small file. flag_filter: every single '
        'flag bit. sunflower: KTrajectorySunflowerGoldenRpe on complete grids against a numpy oracle built from the k1/k2 indices. calculator_history: ONE calculator object used for two files in a row (Pulseq with seq_path changed or the same path overwritten, other spokes / readout length; Cartesian / radial / RPE on two different headers) must give what a fresh calculator gives and the analytic trajectory. pulseq: pypulseq-written .seq files. translator: Gen/kload_gen.v regenerated from enums.py / acq_filters.py / KData.py (9 obligations). Non-trivial = at least 2 kept acquisitions in a non-sorted file order; distinct by case hash.')
TRUSTED_BASE = ['translator harness/translate/kload.py (ast -> Gallina for AcqFlags, DEFAULT_IGNORE_FLAGS, KDIM_SORT_LABELS, OTHER_LABELS; fail-closed)',
                'harness/ismrmrd_writer.py (ids encoded in data / trajectory / header fields) and the ismrmrd + h5py libraries that store them',
                'numpy lexsort, einops.rearrange, torch.unique (modelled as stable sort / row-major reshape / counting, validated by correspondence)',
                'pypulseq calculate_kspace as the oracle for sequence events (modelled not verified)']
ASSUMPTIONS = ['all kept acquisitions of one file have the same number of samples (torch.stack requires it)',
               'C14_order_independent needs pairwise distinct label tuples among kept acquisitions; with duplicates the stable sort keeps file order (modelled and compared)']
PREAMBLE = 'From MrVerif Require Import Base.Prelude Model.KLoad Model.TrajCalc.\nFrom Coq Require Import QArith.\nLocal Open Scope Z_scope.'

def translate(ctx):
    """Regenerate Gen/kload_gen.v (flag enum, default ignore mask, sort / other label tuples) from the current source and re-check
    its proof obligations against the tables of Model/KLoad.v."""
    from translate import kload
    out = vlib.COQ / 'Gen' / 'kload_gen.v'
    out.parent.mkdir(exist_ok=True)
    ok, info = kload.write(out)
    ctx.extra.setdefault('coverage', {})['translator_available'] = ok
    if not ok:
        ctx.notes.append(f'translator failed closed ({info.get("why")}); C14 bookkeeping rests on correspondence alone in this run')
        ctx.obligations += 1
        ctx.problem('proof', 'gen_kload', None, f'enums.py / acq_filters.py / KData.py are outside the translated subset ({info.get("why")}): the regenerated obligations cannot be stated')
        return
    ctx.obligations += kload.N_OBLIGATIONS
    rc, so, se = vlib.coqc_file(out)
    if rc == 0:
        ctx.discharged += kload.N_OBLIGATIONS
    else:
        ctx.problem('proof', 'gen_kload', None,
                    'regenerated obligation gen_*_ok (AcqFlags / DEFAULT_IGNORE_FLAGS / KDIM_SORT_LABELS / OTHER_LABELS == tables of '
                    'Model/KLoad.v) no longer proves: ' + (se or so)[-700:])
    # the harness lists label values in W.LABELS order: it must be the order the source (hence the model) uses
    if tuple(info['sort_labels']) != tuple(W.LABELS):
        ctx.problem('proof', 'gen_kload', None, f'KDIM_SORT_LABELS {info["sort_labels"]} differs from the order the harness encodes labels in {W.LABELS}')
    # the flag numbering of the model table (= translated values, by gen_flag_table_ok) against the installed ismrmrd package
    try:
        import ismrmrd
        bad = [n for n, v in info['values'].items() if hasattr(ismrmrd, n) and n != 'ACQ_NO_FLAG' and v != 1 << (getattr(ismrmrd, n) - 1)]
        if bad:
            ctx.problem('proof', 'gen_kload', None, f'AcqFlags members {bad} do not have the bit 1 << (ismrmrd.<name> - 1)')
    except ImportError:
        pass


OTHER = ('average', 'slice', 'contrast', 'phase', 'repetition', 'set', 'user0', 'user1', 'user2', 'user3', 'user4', 'user7')
REJECTED_FLAGS = (19, 20, 23, 24, 26, 27, 30, 31)     # noise, parallel calibration, navigation, phasecorr, hpfeedback, dummy, phase stab ref, phase stab
BENIGN_FLAGS = (1, 2, 3, 4, 5, 6, 7, 8, 9, 10, 13, 14, 17, 18, 21, 25, 28, 29, 33, 40)
REVERSE = 22
_TMP = None


def _tmpdir():
    global _TMP
    if _TMP is None or not os.path.isdir(_TMP):
        base = vlib.WORK / 'C14'
        base.mkdir(parents=True, exist_ok=True)
        _TMP = tempfile.mkdtemp(prefix='files_', dir=str(base))
    return _TMP


def mask(flag_numbers):
    m = 0
    for n in flag_numbers:
        m |= 1 << (n - 1)
    return m


def label_vec(a):
    return [int(a['labels'].get(n, 0)) for n in W.LABELS]


# ------------------------------------------------------------------------------------------------
# generators
# ------------------------------------------------------------------------------------------------
def make_case(rng, n_max=24, variant=None, traj=None):
    n_k1 = rng.randint(1, 4)
    n_k2 = rng.choice([1, 1, 2, 3])
    others = rng.sample(OTHER, rng.choice([0, 1, 1, 2]))
    osz = [rng.randint(2, 3) for _ in others]
    while n_k1 * n_k2 * int(np.prod(osz or [1])) > n_max:
        if osz and max(osz) > 1:
            osz[osz.index(max(osz))] -= 1
        elif n_k2 > 1:
            n_k2 -= 1
        else:
            n_k1 -= 1
    k1_vals = sorted(rng.sample(range(0, 9), n_k1))
    k2_vals = sorted(rng.sample(range(0, 6), n_k2))
    o_vals = [sorted(rng.sample(range(0, 5), s)) for s in osz]
    variant = variant or rng.choice(['grid'] * 6 + ['ragged_k1', 'ragged_k1', 'ragged_other', 'ragged_other', 'duplicates'])
    n_k0 = rng.choice([2, 3, 4, 5])
    coils = rng.choice([1, 2, 3])
    const_center = rng.random() < 0.5
    center0 = rng.randint(0, n_k0)
    acqs = []
    for ov in itertools.product(*o_vals):
        for k2 in k2_vals:
            for k1 in k1_vals:
                lab = {'k1': k1, 'k2': k2}
                lab.update(dict(zip(others, ov)))
                acqs.append({'labels': lab})
    if variant == 'ragged_k1' and n_k2 > 1 and n_k1 > 1:
        # per k2 a different number of k1 lines, the same profile for every "other" combination
        keep = {k2: set(rng.sample(k1_vals, rng.randint(1, n_k1))) for k2 in k2_vals}
        acqs = [a for a in acqs if a['labels']['k1'] in keep[a['labels']['k2']]]
    elif variant == 'ragged_other' and len(acqs) > 2:
        drop = set(rng.sample(range(len(acqs)), rng.randint(1, max(1, len(acqs) // 3))))
        acqs = [a for i, a in enumerate(acqs) if i not in drop]
    elif variant == 'duplicates':
        for a in rng.sample(acqs, min(len(acqs), rng.randint(1, 2))):
            d = {'labels': dict(a['labels'])}
            if rng.random() < 0.5:
                d['labels']['user5'] = 3
            acqs.append(d)
    for a in acqs:
        fl = [f for f in BENIGN_FLAGS if rng.random() < 0.12]
        if rng.random() < 0.3:
            fl.append(REVERSE)
        a.update(flags=mask(fl), coils=coils, center=center0 if const_center else rng.randint(0, n_k0), kind='image')
        if rng.random() < 0.2:
            a['segment'] = rng.randint(0, 3)
    # rejected / other-coil extras
    extras = []
    for _ in range(rng.choice([0, 1, 2, 3, 5])):
        fl = [rng.choice(REJECTED_FLAGS)] + [f for f in BENIGN_FLAGS if rng.random() < 0.1]
        lab = dict(rng.choice(acqs)['labels']) if rng.random() < 0.5 else {'k1': rng.randint(0, 9), 'k2': rng.randint(0, 3)}
        extras.append({'labels': lab, 'flags': mask(fl), 'coils': rng.choice([coils, coils, 1, 4]), 'center': rng.randint(0, 2),
                       'n_k0': rng.choice([n_k0, n_k0, 6, 2]), 'kind': 'rejected'})
    receiver_channels = None
    if rng.random() < 0.35:
        oc = rng.choice([c for c in (1, 2, 3, 4) if c != coils])
        for _ in range(rng.randint(1, 3)):
            lab = dict(rng.choice(acqs)['labels']) if rng.random() < 0.5 else {'k1': rng.randint(0, 9), 'k2': rng.randint(0, 3)}
            extras.append({'labels': lab, 'flags': 0, 'coils': oc, 'center': 1, 'kind': 'othercoil'})
        receiver_channels = rng.choice([coils, coils, None, None, 4 if rng.random() < 0.1 else coils])
    elif rng.random() < 0.2:
        receiver_channels = coils
    allacq = acqs + extras
    for i, a in enumerate(allacq):
        a['id'] = i + 1
    order = list(range(len(allacq)))
    rng.shuffle(order)
    order2 = list(range(len(allacq)))
    rng.shuffle(order2)
    traj = traj or rng.choice(['cartesian', 'cartesian', 'ismrmrd3', 'ismrmrd2', 'radial', 'rpe', 'user'])
    return {'acqs': allacq, 'order': order, 'order2': order2, 'n_k0': n_k0, 'receiver_channels': receiver_channels, 'traj': traj,
            'k1_center': rng.randint(0, 5), 'k2_center': rng.randint(0, 3), 'variant': variant,
            'angle_num': rng.choice([1, 3, 5, 7]), 'seed': rng.randrange(10 ** 6),
            # unsigned 32 bit header fields (time stamps, measurement uid) anywhere in their range, not only below 2**31
            'stamp_offset': rng.choice([0, 0, 2 ** 31 - 2, 2 ** 31 + 12345, 2 ** 32 - 2 ** 18])}


def gen_load(rng, tier):
    n = 110 if tier == 'quick' else 2500
    cases = [make_case(rng) for _ in range(n)]
    # a few fixed edge cases: a single acquisition; only rejected acquisitions (ValueError)
    c = make_case(rng, variant='grid')
    c['acqs'] = [a for a in c['acqs'] if a['kind'] == 'rejected'] or [{'labels': {'k1': 1}, 'flags': mask([19]), 'coils': 1, 'center': 0, 'kind': 'rejected'}]
    for i, a in enumerate(c['acqs']):
        a['id'] = i + 1
    c['order'] = c['order2'] = list(range(len(c['acqs'])))
    c['receiver_channels'] = None
    cases.append(c)
    return cases


def gen_sunflower(rng, tier):
    cases = []
    while len(cases) < (12 if tier == 'quick' else 200):
        c = make_case(rng, variant='grid', traj='sunflower')
        img = [a for a in c['acqs'] if a['kind'] == 'image']
        k2v = sorted({a['labels']['k2'] for a in img})
        for a in c['acqs']:                      # the calculator assumes k2 = 0 .. n-1
            a['labels']['k2'] = k2v.index(a['labels']['k2']) if a['labels'].get('k2') in k2v else 0
        kept = expected_kept(c)
        kept_k2 = sorted({a['labels'].get('k2', 0) for a in kept})
        # the documented domain of the calculator is k2 = 0 .. n-1 among the readouts that are actually loaded (when the coil-count selection
        # keeps the other-coil acquisitions instead of the image ones, their k2 labels must satisfy it too)
        # ... in every `other` group (a complete grid): the calculator numbers the k2 lines by their first appearance in the loaded array
        groups = {}
        for a in kept:
            key = tuple(sorted((k, v) for k, v in a['labels'].items() if k not in ('k1', 'k2') and v != 0))
            groups.setdefault(key, set()).add(a['labels'].get('k2', 0))
        if len(kept) >= 2 and kept_k2 == list(range(len(kept_k2))) and all(g == set(kept_k2) for g in groups.values()):
            cases.append(c)
    return cases


def gen_perm(rng, tier):
    cases = []
    for n_acq, reps in ((4, 2), (3, 1)) if tier == 'quick' else ((5, 4), (6, 1), (4, 3)):
        for _ in range(reps):
            while True:
                base = make_case(rng, n_max=n_acq, variant='grid', traj=rng.choice(['cartesian', 'ismrmrd3']))
                img = [a for a in base['acqs'] if a['kind'] == 'image'][:n_acq]
                if len(img) >= 2:
                    break
            extra = [a for a in base['acqs'] if a['kind'] == 'rejected'][:max(0, n_acq - len(img))]
            base['acqs'] = img + extra
            for i, a in enumerate(base['acqs']):
                a['id'] = i + 1
            if base['receiver_channels'] not in (None, img[0]['coils']):
                base['receiver_channels'] = None
            for p in itertools.permutations(range(len(base['acqs']))):
                c = dict(base)
                c['order'] = list(p)
                c['order2'] = None
                cases.append(c)
    return cases


def gen_flags(rng, tier):
    cases = []
    for bit in range(1, 65):
        cases.append({'flag_bit': bit})
    return cases


# ------------------------------------------------------------------------------------------------
# implementation side
# ------------------------------------------------------------------------------------------------
def _header_xml(c):
    lim = {'kspace_encoding_step_1': (0, 8, c['k1_center']), 'kspace_encoding_step_2': (0, 5, c['k2_center'])}
    return W.xml_header(enc_matrix=(8, 8, 4), limits=lim, receiver_channels=c['receiver_channels'],
                        trajectory='cartesian' if c['traj'] == 'cartesian' else 'other')


def _trajectory_arg(c):
    from mrpro.data import KTrajectory
    from mrpro.data.traj_calculators import KTrajectoryCartesian, KTrajectoryIsmrmrd, KTrajectoryRadial2D, KTrajectoryRpe
    t = c['traj']
    if t == 'cartesian':
        return KTrajectoryCartesian()
    if t in ('ismrmrd3', 'ismrmrd2'):
        return KTrajectoryIsmrmrd()
    if t == 'radial':
        return KTrajectoryRadial2D(angle=math.pi * c['angle_num'] / 16)
    if t == 'rpe':
        return KTrajectoryRpe(angle=math.pi * c['angle_num'] / 16)
    if t == 'sunflower':
        from mrpro.data.traj_calculators import KTrajectorySunflowerGoldenRpe
        return KTrajectorySunflowerGoldenRpe()
    if t == 'user':
        n = c['n_k0']
        kx = torch.arange(n, dtype=torch.float32).reshape(1, 1, 1, n) * 3 + 1
        return KTrajectory(torch.full((1, 1, 1, 1), 7.0), torch.full((1, 1, 1, 1), -2.0), kx)
    raise ValueError(t)


def observe(kd, c):
    byid = {a['id']: a for a in c['acqs']}
    data = kd.data
    n_other, n_coils, n_k2, n_k1, n_k0 = data.shape
    info = kd.header.acq_info
    pos = [(o, i2, i1) for o in range(n_other) for i2 in range(n_k2) for i1 in range(n_k1)]
    data_ids, data_exact = [], True
    dn = data.numpy()
    for (o, i2, i1) in pos:
        aid = int(round(float(dn[o, 0, i2, i1, 0].imag)))
        data_ids.append(aid)
        want = np.array([[W.data_value(aid, cc, j) for j in range(n_k0)] for cc in range(n_coils)], dtype=np.complex64)
        if not np.array_equal(dn[o, :, i2, i1, :], want):
            data_exact = False
    sc = info.scan_counter
    info_ids = [int(sc[o, i2, i1, 0]) for (o, i2, i1) in pos]
    bad = []
    sl, ph, rd = info.orientation.as_directions()

    def chk(name, cond):
        if not cond and name not in bad:
            bad.append(name)
    labels = []
    for (o, i2, i1), aid in zip(pos, info_ids):
        a = byid.get(aid)
        p = (o, i2, i1)
        lab = [int(getattr(info.idx, n)[p]) for n in W.LABELS]
        labels.append(lab)
        if a is None:
            chk('scan_counter', False)
            continue
        chk('idx', lab == label_vec(a))
        chk('idx.segment', int(info.idx.segment[p]) == a.get('segment', 0))
        chk('idx.user5', int(info.idx.user5[p]) == a['labels'].get('user5', 0))
        off = c.get('stamp_offset', 0)
        chk('acquisition_time_stamp', int(info.acquisition_time_stamp[p][0]) == aid + off)
        chk('measurement_uid', int(info.measurement_uid[p][0]) == aid + off)
        chk('physiology_time_stamp', info.physiology_time_stamp[p].tolist() == [aid + off, aid + 1 + off, aid + 2 + off])
        chk('flags', int(info.flags[p][0]) == a['flags'])
        chk('center_sample', int(info.center_sample[p][0]) == a['center'])
        chk('number_of_samples', int(info.number_of_samples[p][0]) == a.get('n_k0', c['n_k0']))
        chk('user_int', int(info.user_int[p][0]) == aid)
        chk('user_float', float(info.user_float[p][0]) == float(aid))
        chk('position', [round(float(getattr(info.position, ax)[p][0]) * 1000) for ax in 'xyz'] == [aid, 2 * aid, 3 * aid])
        chk('patient_table_position',
            [round(float(getattr(info.patient_table_position, ax)[p][0]) * 1000) for ax in 'xyz'] == [3 * aid, aid, 2 * aid])
        fr = W.FRAMES[aid % len(W.FRAMES)]
        got = [[round(float(getattr(v, ax)[p][0]), 5) for ax in 'xyz'] for v in (rd, ph, sl)]
        chk('orientation', got == [[float(x) for x in v] for v in fr])
    tr = kd.traj.as_tensor()  # (3, other, k2, k1, k0) broadcast
    full = (3, n_other, n_k2, n_k1, n_k0)
    tr = tr.expand(*full) if tuple(tr.shape) != full else tr
    traj = [[[float(tr[d][o, i2, i1, j]) for d in range(3)] for j in range(n_k0)] for (o, i2, i1) in pos]
    lim = kd.header.encoding_limits
    return {'shape': [n_other, n_coils, n_k2, n_k1, n_k0], 'data_ids': data_ids, 'data_exact': data_exact, 'info_ids': info_ids,
            'info_bad': bad, 'labels': labels, 'traj': traj, 'finite': bool(torch.isfinite(tr).all()),
            'k0_limits': [lim.k0.min, lim.k0.max, lim.k0.center]}


def _load(c, order, keep_kinds=('image', 'rejected', 'othercoil'), traj_arg=None):
    from mrpro.data import KData
    fn = os.path.join(_tmpdir(), f'c14_{os.getpid()}.h5')
    acqs = [dict(c['acqs'][i], stamp_offset=c.get('stamp_offset', 0)) for i in order if c['acqs'][i]['kind'] in keep_kinds]
    W.write_file(fn, acqs, n_k0=c['n_k0'], header_xml=_header_xml(c), traj_dims=2 if c['traj'] == 'ismrmrd2' else 3)
    try:
        kd = KData.from_file(fn, traj_arg if traj_arg is not None else _trajectory_arg(c))
        return observe(kd, c)
    except Exception as e:  # noqa: BLE001
        return {'raises': vlib.exc_enum(e), 'msg': str(e)[:160]}
    finally:
        W.remove(fn)


def n_sel(c):
    """coil count the specification selects among the flag-filtered acquisitions"""
    img = [a for a in c['acqs'] if not a['flags'] & mask(REJECTED_FLAGS)]
    cs = {a['coils'] for a in img}
    if len(cs) <= 1:
        return next(iter(cs), None)
    return c['receiver_channels'] if c['receiver_channels'] is not None else max(cs)


def impl_load(c):
    obs = _load(c, c['order'])
    if c.get('order2') is not None:
        # same content: other file order, and none of the acquisitions the filters reject
        n = n_sel(c)
        acq2 = [i for i in c['order2'] if not c['acqs'][i]['flags'] & mask(REJECTED_FLAGS) and c['acqs'][i]['coils'] == n]
        c2 = dict(c)
        c2['receiver_channels'] = None
        obs2 = _load(c2, acq2)
        obs = dict(obs)
        obs['second'] = obs2
    return obs


# ------------------------------------------------------------------------------------------------
# model side
# ------------------------------------------------------------------------------------------------
def coq_acq(a):
    return f'(mkAcq {zlist(label_vec(a))} {zlit(a["flags"])} {zlit(a["coils"])} {zlit(a["id"])} {zlit(a["id"])} {zlit(a["id"])})'


def coq_load(c):
    acqs = '[' + '; '.join(coq_acq(c['acqs'][i]) for i in c['order']) + ']'
    hdr = vlib.optlit(c['receiver_channels'], zlit)
    byid = {a['id']: a for a in c['acqs']}
    table = ['(mkReadout 0 0 0 0 0)']
    for i in range(1, len(c['acqs']) + 1):
        a = byid[i]
        table.append(f'(mkReadout {zlit(a["labels"].get("k1", 0))} {zlit(a["labels"].get("k2", 0))} {zlit(a["center"])} '
                     f'{zlit(a["flags"])} {zlit(a.get("n_k0", c["n_k0"]))})')
    table = '[' + '; '.join(table) + ']'
    t = c['traj']
    if t == 'cartesian':
        f = f'(cartesian {zlit(c["k1_center"])} {zlit(c["k2_center"])})'
    elif t == 'radial':
        f = 'radial2d_polar'
    elif t == 'rpe':
        f = f'(rpe_polar [0#1; 1#2; 1#4; 3#4]%Q {zlit(c["k1_center"])})'
    else:
        f = 'kfreq'
    return (f'(let res := load {hdr} {acqs} in (res, loaded_labels {hdr} {acqs}, '
            f'on_sorted_header {f} {table} (loaded_info_ids res)))')


def _tol_eq(a, b, tol=2e-4):
    return abs(a - b) <= tol * max(1.0, abs(a), abs(b))


def cmp_load(c, o, m):
    res, labels, tmodel = m
    tag, args = res
    if tag == 'inl':
        want = {'ErrNoAcquisitions': 'ValueError', 'ErrReshape': 'RuntimeError'}[args[0][0]]
        if not (isinstance(o, dict) and o.get('raises') == want):
            return f'model: {args[0][0]} ({want}); impl: {str(o)[:120]}'
        return None
    (n_other, n_k2, n_k1, d, i, t) = args[0]
    if 'raises' in o:
        return f'impl raises {o["raises"]} ({o.get("msg")}), model loads shape {(n_other, n_k2, n_k1)}'
    sh = o['shape']
    if [sh[0], sh[2], sh[3]] != [n_other, n_k2, n_k1]:
        return f'shape (other,k2,k1): model {(n_other, n_k2, n_k1)} impl {(sh[0], sh[2], sh[3])}'
    if o['data_ids'] != d:
        return f'data ids: model {d} impl {o["data_ids"]}'
    if o['info_ids'] != i:
        return f'AcqInfo ids: model {i} impl {o["info_ids"]}'
    if o['labels'] != labels:
        return f'acq_info.idx at the output positions: model {labels} impl {o["labels"]}'
    if o['info_bad']:
        return f'AcqInfo fields not moved with scan_counter: {o["info_bad"]}'
    tr = o['traj']
    mode = c['traj']
    ang = math.pi * c['angle_num'] / 16
    for p in range(len(d) if mode != 'sunflower' else 0):   # sunflower: implementation-level oracle only
        for j in range(sh[4]):
            kz, ky, kx = tr[p][j]
            if mode in ('ismrmrd3', 'ismrmrd2'):
                aid = t[p]
                want = [0.0 if mode == 'ismrmrd2' else float(W.traj_value(aid, 2, j)), float(W.traj_value(aid, 1, j)), float(W.traj_value(aid, 0, j))]
            elif mode == 'cartesian':
                want = [float(v) for v in tmodel[p][j]]
            elif mode == 'radial':
                krad, k1 = tmodel[p][j]
                want = [0.0, krad * math.sin(k1 * ang), krad * math.cos(k1 * ang)]
            elif mode == 'rpe':
                krad, k2, k0 = tmodel[p][j]
                want = [float(krad) * math.sin(k2 * ang), float(krad) * math.cos(k2 * ang), float(k0)]
            else:
                want = [7.0, -2.0, 3.0 * j + 1]
            exact = mode in ('ismrmrd3', 'ismrmrd2', 'cartesian', 'user')
            ok = all((a == b) if exact else _tol_eq(a, b) for a, b in zip((kz, ky, kx), want))
            if not ok:
                return f'trajectory ({mode}) at position {p} sample {j}: model {want} impl {[kz, ky, kx]}'
    return None


# ------------------------------------------------------------------------------------------------
# the property statement checked directly on the implementation's observation (numpy / python only)
# ------------------------------------------------------------------------------------------------
def expected_kept(c):
    n = n_sel(c)
    return [a for a in c['acqs'] if not a['flags'] & mask(REJECTED_FLAGS) and a['coils'] == n]


def sort_tuple(a):
    return tuple(reversed(label_vec(a)))


def oracle_load(c, o):
    kept = expected_kept(c)
    byid = {a['id']: a for a in c['acqs']}
    if isinstance(o, dict) and 'raises' in o:
        if not kept and o['raises'] == 'ValueError':
            return None
        if c['variant'] == 'grid' and kept:
            return f'a complete grid of {len(kept)} image acquisitions is not loaded: {o["raises"]} {o.get("msg")}'
        return None  # ragged layouts may be rejected; the model decides which (correspondence)
    if not kept:
        return 'no image acquisition in the file, but something was loaded'
    if not o['data_exact']:
        return 'loaded data values are not bit-identical to the values stored for the acquisition found at that position'
    if o['data_ids'] != o['info_ids']:
        return f'data and AcqInfo at the same position come from different acquisitions: {o["data_ids"]} vs {o["info_ids"]}'
    if o['info_bad']:
        return f'AcqInfo fields {o["info_bad"]} at a position belong to another acquisition than scan_counter / data'
    if sorted(o['data_ids']) != sorted(a['id'] for a in kept):
        return (f'loaded acquisitions {sorted(o["data_ids"])} differ from the image acquisitions with the selected coil count '
                f'{sorted(a["id"] for a in kept)} (lost, duplicated or unfiltered readouts)')
    tups = [sort_tuple(byid[i]) for i in o['data_ids']]
    if any(tups[k] > tups[k + 1] for k in range(len(tups) - 1)):
        return f'readouts are not ordered by their labels: ids {o["data_ids"]}'
    sh = o['shape']
    mode = c['traj']
    if not o['finite']:
        return 'trajectory is not finite'
    ang = math.pi * c['angle_num'] / 16
    if mode == 'sunflower':
        # angle of a phase-encoding line from its k2 index, radial shift from the rank of that angle among all lines
        sun_ang = {k2: float(np.float32(k2) * np.float32(math.pi * 0.618034)) % math.pi for k2 in {a['labels'].get('k2', 0) for a in kept}}
        order = sorted(sun_ang, key=lambda q: sun_ang[q])
        sun_rank = {k2: order.index(k2) for k2 in sun_ang}
        golden = 0.5 * (math.sqrt(5) + 1)
    # stored trajectories / calculators agree with the readout found at that position
    for p, aid in enumerate(o['data_ids']):
        a = byid[aid]
        rev = bool(a['flags'] & mask([REVERSE]))
        for j in range(sh[4]):
            kz, ky, kx = o['traj'][p][j]
            k0 = ((sh[4] - 1 - j) if rev else j) - a['center']
            k1, k2 = a['labels'].get('k1', 0), a['labels'].get('k2', 0)
            if mode in ('ismrmrd3', 'ismrmrd2'):
                want = [0.0 if mode == 'ismrmrd2' else float(W.traj_value(aid, 2, j)), float(W.traj_value(aid, 1, j)), float(W.traj_value(aid, 0, j))]
            elif mode == 'cartesian':
                want = [float(k2 - c['k2_center']), float(k1 - c['k1_center']), float(k0)]
            elif mode == 'radial':
                want = [0.0, k0 * math.sin(k1 * ang), k0 * math.cos(k1 * ang)]
            elif mode == 'rpe':
                kr = k1 - c['k1_center']
                kr = kr + (0, 0.5, 0.25, 0.75)[k2 % 4] if kr != 0 else 0
                want = [kr * math.sin(k2 * ang), kr * math.cos(k2 * ang), float(k0)]
            elif mode == 'sunflower':
                kr = 0.0 if k1 == 0 else (k1 - c['k1_center']) + ((sun_rank[k2] * golden) % 1) - 0.5
                want = [kr * math.sin(sun_ang[k2]), kr * math.cos(sun_ang[k2]), float(k0)]
            else:
                want = [7.0, -2.0, 3.0 * j + 1]
            if not all(_tol_eq(x, y) for x, y in zip((kz, ky, kx), want)):
                return (f'{mode} trajectory at (other,k2,k1) position {p}, sample {j} is {[kz, ky, kx]}; the readout stored there '
                        f'(id {aid}, k1={k1}, k2={k2}, centre {a["center"]}, reversed={rev}) requires {want}')
    # complete grids: position (o, i2, i1) <-> (i-th other combination, i2-th k2 value, i1-th k1 value)
    if c['variant'] == 'grid' and len(set(map(sort_tuple, kept))) == len(kept):
        k1s = sorted({a['labels'].get('k1', 0) for a in kept})
        k2s = sorted({a['labels'].get('k2', 0) for a in kept})
        oth = sorted({sort_tuple(a)[:-2] for a in kept})
        if len(kept) == len(k1s) * len(k2s) * len(oth):
            if [sh[0], sh[2], sh[3]] != [len(oth), len(k2s), len(k1s)]:
                return f'complete grid {len(oth)}x{len(k2s)}x{len(k1s)} loaded with shape (other,k2,k1) = {(sh[0], sh[2], sh[3])}'
            q = 0
            for ot in oth:
                for k2 in k2s:
                    for k1 in k1s:
                        if tups[q] != ot + (k2, k1):
                            return f'position {q} holds labels {tups[q]}, the grid position requires {ot + (k2, k1)}'
                        q += 1
    sec = o.get('second')
    if sec is not None and len(set(map(sort_tuple, kept))) == len(kept):
        a_, b_ = dict(o), dict(sec)
        a_.pop('second', None)
        if a_ != b_:
            diff = [k for k in a_ if a_.get(k) != b_.get(k)] if 'raises' not in b_ else ['raises ' + str(b_)]
            return ('the same acquisitions in another file order and without the acquisitions rejected by the filters '
                    f'load differently: {diff}')
    return None


# ------------------------------------------------------------------------------------------------
# flag filter
# ------------------------------------------------------------------------------------------------
def impl_flags(c):
    from mrpro.data import KData
    from mrpro.data.traj_calculators import KTrajectoryCartesian
    fn = os.path.join(_tmpdir(), f'c14f_{os.getpid()}.h5')
    acqs = [{'id': 1, 'labels': {'k1': 0}, 'flags': 0, 'coils': 1, 'center': 1},
            {'id': 2, 'labels': {'k1': 1}, 'flags': 1 << (c['flag_bit'] - 1), 'coils': 1, 'center': 1},
            {'id': 3, 'labels': {'k1': 2}, 'flags': 0, 'coils': 1, 'center': 1}]
    W.write_file(fn, acqs, n_k0=2)
    try:
        kd = KData.from_file(fn, KTrajectoryCartesian())
        return sorted(int(x) for x in kd.header.acq_info.scan_counter.flatten().tolist())
    finally:
        W.remove(fn)


def coq_flags(c):
    return f'is_image_flags (flag_mask {zlit(c["flag_bit"])})'


def cmp_flags(c, o, m):
    got = (o == [1, 2, 3])
    return None if got == m else f'flag {c["flag_bit"]}: model keeps={m}, impl loaded {o}'


def oracle_flags(c, o):
    if isinstance(o, dict):
        return f'file with two plain readouts and one flagged readout fails to load: {o}'
    want = [1, 3] if c['flag_bit'] in REJECTED_FLAGS else [1, 2, 3]
    if o != want:
        return (f'readout with only ISMRMRD flag number {c["flag_bit"]} set: loaded ids {o}, expected {want} '
                '(noise/calibration/navigation/phase-correction/feedback/dummy/phase-stabilisation are dropped, everything else is image data)')
    return None


# ------------------------------------------------------------------------------------------------
# KNoise: noise acquisitions in file order, values untouched
# ------------------------------------------------------------------------------------------------
def gen_noise(rng, tier):
    cases = []
    for _ in range(8 if tier == 'quick' else 120):
        n = rng.randint(2, 8)
        acqs = []
        for i in range(n):
            noise = rng.random() < 0.5
            fl = ([19] if noise else []) + [f for f in BENIGN_FLAGS + (20, 23) if rng.random() < 0.1]
            acqs.append({'id': i + 1, 'labels': {'k1': rng.randint(0, 5)}, 'flags': mask(fl), 'coils': 2, 'center': 1})
        cases.append({'acqs': acqs})
    return cases


def impl_noise(c):
    from mrpro.data import KNoise
    fn = os.path.join(_tmpdir(), f'c14n_{os.getpid()}.h5')
    W.write_file(fn, c['acqs'], n_k0=3)
    try:
        kn = KNoise.from_file(fn)
        d = kn.data.numpy()
        ids = [int(round(float(x))) for x in d[:, 0, 0, 0, 0].imag]
        exact = all(np.array_equal(d[q, :, 0, 0, :], np.array([[W.data_value(i, cc, j) for j in range(3)] for cc in range(2)], dtype=np.complex64))
                    for q, i in enumerate(ids))
        return {'ids': ids, 'exact': bool(exact), 'shape': list(d.shape)}
    finally:
        W.remove(fn)


def coq_noise(c):
    return 'load_noise [' + '; '.join(coq_acq(a) for a in c['acqs']) + ']'


def cmp_noise(c, o, m):
    if not m:
        return None if isinstance(o, dict) and o.get('raises') == 'ValueError' else f'model: no noise acquisition (ValueError), impl {o}'
    if 'raises' in o:
        return f'impl raises {o}, model {m}'
    return None if o['ids'] == m else f'model {m} impl {o["ids"]}'


def oracle_noise(c, o):
    want = [a['id'] for a in c['acqs'] if a['flags'] & mask([19])]
    if 'raises' in o:
        return None if not want else f'noise acquisitions {want} present but loading fails: {o}'
    if o['ids'] != want or not o['exact']:
        return f'KNoise holds ids {o["ids"]} (bit-identical={o["exact"]}), file has noise acquisitions {want}'
    return None


# ------------------------------------------------------------------------------------------------
# Pulseq: finite, per-axis rescaling to the encoding matrix, zero axis stays zero
# ------------------------------------------------------------------------------------------------
def gen_pulseq(rng, tier):
    cases = []
    for _ in range(3 if tier == 'quick' else 20):
        cases.append({'n_spokes': rng.randint(2, 5), 'n_k0': rng.choice([4, 6, 8]), 'axes': rng.choice(['xy', 'xy', 'x', 'xyz', 'xz']),
                      'enc': [rng.choice([8, 16]), rng.choice([8, 12]), rng.choice([1, 4])], 'shuffle_seed': rng.randrange(1000)})
    return cases


def _write_seq(c, fn):
    import pypulseq as pp
    system = pp.Opts(max_grad=30, grad_unit='mT/m', max_slew=100, slew_unit='T/m/s')
    seq = pp.Sequence(system)
    n = c['n_k0']
    delta_k = 1 / 0.256
    for s in range(c['n_spokes']):
        ang = math.pi * (s + 0.25) / c['n_spokes']
        adc = None
        comps = {'x': math.cos(ang), 'y': math.sin(ang), 'z': 0.5 * (s + 1) / c['n_spokes']}
        evs = []
        for ch in 'xyz':
            if ch in c['axes'] and abs(comps[ch]) > 1e-9:
                g = pp.make_trapezoid(channel=ch, flat_area=n * delta_k * comps[ch], flat_time=n * 1e-4, system=system)
                evs.append(g)
        g0 = evs[0]
        adc = pp.make_adc(num_samples=n, duration=g0.flat_time, delay=g0.rise_time, system=system)
        seq.add_block(*evs, adc)
        seq.add_block(pp.make_delay(1e-3))
    seq.write(fn)
    return seq


def _pulseq_load(c, calc=None, seqfn=None, tag=''):
    """write the .seq file of case c to seqfn and a matching raw data file, load it with `calc` (a fresh calculator if None)"""
    import pypulseq as pp
    from mrpro.data import KData
    from mrpro.data.traj_calculators import KTrajectoryPulseq
    d = _tmpdir()
    seqfn = seqfn or os.path.join(d, f'c14{tag}_{os.getpid()}.seq')
    fn = os.path.join(d, f'c14p{tag}_{os.getpid()}.h5')
    _write_seq(c, seqfn)
    seq = pp.Sequence()
    seq.read(seqfn)
    k, _, _, _, _ = seq.calculate_kspace()
    k = np.asarray(k, dtype=np.float32).astype(np.float64)          # what KTrajectoryPulseq starts from
    acqs = [{'id': s + 1, 'labels': {'k1': s}, 'flags': 0, 'coils': 1, 'center': c['n_k0'] // 2} for s in range(c['n_spokes'])]
    order = list(range(c['n_spokes']))
    import random
    random.Random(c['shuffle_seed']).shuffle(order)
    # the file lists the readouts in the order of the ADC events of the sequence; the labels are shuffled instead
    for a, o in zip(acqs, order):
        a['labels'] = {'k1': o}
    W.write_file(fn, acqs, n_k0=c['n_k0'], header_xml=W.xml_header(enc_matrix=tuple(c['enc']), trajectory='other'))
    try:
        if calc is None:
            calc = KTrajectoryPulseq(seq_path=seqfn, repeat_detection_tolerance=None)
        kd = KData.from_file(fn, calc)
        tr = kd.traj.as_tensor().expand(3, 1, 1, c['n_spokes'], c['n_k0'])
        return {'k_raw': [[Fraction(float(v)).limit_denominator(10 ** 12).numerator, Fraction(float(v)).limit_denominator(10 ** 12).denominator]
                          for v in k[:3].flatten().tolist()],
                'traj': tr.flatten().tolist(), 'ids': [int(v) for v in kd.header.acq_info.scan_counter.flatten().tolist()],
                'finite': bool(torch.isfinite(tr).all())}
    except Exception as e:  # noqa: BLE001
        return {'raises': vlib.exc_enum(e), 'msg': str(e)[:160]}
    finally:
        W.remove(fn)


def impl_pulseq(c):
    d = _tmpdir()
    seqfn = os.path.join(d, f'c14_{os.getpid()}.seq')
    try:
        o = _pulseq_load(c, seqfn=seqfn)
        if 'raises' in o and 'k_raw' not in o:
            raise RuntimeError(o['msg'])
        return o
    finally:
        W.remove(seqfn)


def oracle_pulseq(c, o):
    if 'raises' in o:
        return f'sequence-file trajectory could not be computed: {o}'
    if not o['finite']:
        return 'sequence-file trajectory contains NaN/inf'
    ns, n = c['n_spokes'], c['n_k0']
    k = np.array([Fraction(a, b) for a, b in o['k_raw']], dtype=object).reshape(3, ns, n)
    tr = np.array(o['traj']).reshape(3, ns, n)  # kz, ky, kx sorted by k1 label
    for d, (name, enc) in enumerate(zip('xyz', c['enc'])):
        raw = k[d]
        m = max(abs(v) for v in raw.flatten())
        for pos, aid in enumerate(o['ids']):
            for j in range(n):
                want = float(raw[aid - 1][j] * enc / (2 * m)) if m > 0 else 0.0
                got = tr[2 - d][pos][j]
                if not _tol_eq(got, want, 1e-4):
                    return (f'k{name} of the readout with id {aid} (ADC event {aid - 1}) sample {j}: {got}, sequence events give '
                            f'{want} (= k * enc / (2 max|k|))')
    return None


# ------------------------------------------------------------------------------------------------
# call histories on ONE calculator object: a second call (other sequence file / other header) must not see the first
# ------------------------------------------------------------------------------------------------
def gen_history(rng, tier):
    cases = []
    for k in range(6 if tier == 'quick' else 40):
        a, b = gen_pulseq(rng, 'quick')[:2]
        if k % 3 == 0:                       # same shapes, other angles / extent: nothing but the values can tell
            b = dict(b, n_spokes=a['n_spokes'], n_k0=a['n_k0'])
            b['axes'] = 'xyz' if a['axes'] != 'xyz' else 'xy'
        cases.append({'kind': 'pulseq', 'first': a, 'second': b, 'same_path': k % 2 == 0})
    for _ in range(8 if tier == 'quick' else 80):
        t = rng.choice(['cartesian', 'radial', 'rpe', 'sunflower'])
        a = make_case(rng, variant='grid', traj=t)
        b = make_case(rng, variant='grid', traj=t)
        b['angle_num'] = a['angle_num']
        for c_ in (a, b):
            if t == 'sunflower':
                img = [x for x in c_['acqs'] if x['kind'] == 'image']
                k2v = sorted({x['labels']['k2'] for x in img})
                for x in c_['acqs']:
                    x['labels']['k2'] = k2v.index(x['labels']['k2']) if x['labels'].get('k2') in k2v else 0
            c_['order2'] = None
        if all(len(expected_kept(x)) >= 2 and all(y['kind'] == 'image' for y in expected_kept(x)) for x in (a, b)):
            cases.append({'kind': t, 'first': a, 'second': b})
    return cases


def impl_history(c):
    if c['kind'] == 'pulseq':
        from mrpro.data.traj_calculators import KTrajectoryPulseq
        d = _tmpdir()
        seq1 = os.path.join(d, f'c14h1_{os.getpid()}.seq')
        seq2 = seq1 if c['same_path'] else os.path.join(d, f'c14h2_{os.getpid()}.seq')
        try:
            _write_seq(c['first'], seq1)
            calc = KTrajectoryPulseq(seq_path=seq1, repeat_detection_tolerance=None)
            first = _pulseq_load(c['first'], calc=calc, seqfn=seq1, tag='h')
            if not c['same_path']:
                calc.seq_path = seq2
            second = _pulseq_load(c['second'], calc=calc, seqfn=seq2, tag='h')      # (re)writes seq2, then calls the SAME object
            fresh = _pulseq_load(c['second'], calc=None, seqfn=seq2, tag='h')
            return {'first': first, 'second': second, 'fresh': fresh}
        finally:
            W.remove(seq1)
            W.remove(seq2)
    calc = _trajectory_arg(c['first'])
    first = _load(c['first'], c['first']['order'], traj_arg=calc)
    second = _load(c['second'], c['second']['order'], traj_arg=calc)
    fresh = _load(c['second'], c['second']['order'])
    return {'first': first, 'second': second, 'fresh': fresh}


def oracle_history(c, o):
    if 'raises' in o:
        return f'history failed: {o}'
    if o['second'] != o['fresh']:
        what = 'raises ' + str(o['second'].get('msg')) if 'raises' in o['second'] else \
            [k for k in o['fresh'] if o['second'].get(k) != o['fresh'].get(k)]
        return (f'{c["kind"]} calculator used for one file and then for a second one returns something else for the second file than a '
                f'fresh calculator does: {what}')
    if c['kind'] == 'pulseq':
        return oracle_pulseq(c['first'], o['first']) or oracle_pulseq(c['second'], o['second'])
    return oracle_load(c['first'], o['first']) or oracle_load(c['second'], o['second'])


def coq_pulseq(c):
    return None


def extra_checks(ctx):
    """Pulseq rescaling model against the implementation on the cases of the pulseq family (Q arithmetic in Coq)."""
    cases = gen_pulseq(ctx.rng, ctx.tier)[: 2 if ctx.tier == 'quick' else 8]
    exprs, keep = [], []
    for c in cases:
        try:
            o = impl_pulseq(c)
        except Exception as e:  # noqa: BLE001
            ctx.problem('correspondence', 'pulseq_model', c, f'implementation failed: {e!r}')
            continue
        ns, n = c['n_spokes'], c['n_k0']
        for d, enc in enumerate(c['enc']):
            ks = o['k_raw'][d * ns * n:(d + 1) * ns * n]
            exprs.append(f'pulseq_rescale {zlit(enc)} [' + '; '.join(vlib.qlit(Fraction(a, b)) for a, b in ks) + ']')
            keep.append((c, o, d))
    vals = vlib.coq_eval(ctx.work, PREAMBLE, exprs, tag='cases_pulseq_model')
    for (c, o, d), v in zip(keep, vals):
        ctx.evaluations += 1
        ctx.count('family:pulseq_model')
        if isinstance(v, Exception) or v is None:
            ctx.problem('correspondence', 'pulseq_model', c, f'model evaluation failed / undefined: {v}')
            continue
        ns, n = c['n_spokes'], c['n_k0']
        model = [float(x) for x in v['some']]
        tr = np.array(o['traj']).reshape(3, ns, n)[2 - d]
        got = [tr[pos][j] for pos in range(ns) for j in range(n)]
        model = [model[(o['ids'][pos] - 1) * n + j] for pos in range(ns) for j in range(n)]
        ctx.traces_validated += 1
        if len(got) != len(model) or any(not _tol_eq(a, b, 1e-4) for a, b in zip(got, model)):
            ctx.problem('correspondence', 'pulseq_model', c, f'axis {d}: model {model[:6]}... impl {got[:6]}...')
    shutil.rmtree(_tmpdir(), ignore_errors=True)


def descr_load(c):
    return {'variant': c['variant'], 'traj': c['traj'], 'n_acq': len(c['acqs']), 'n_kept': len(expected_kept(c))}


def nontrivial_load(c):
    ids = [c['acqs'][i]['id'] for i in c['order'] if c['acqs'][i]['kind'] == 'image']
    return len(ids) >= 2 and ids != sorted(ids)


FAMILIES = [
    Family('load', gen_load, impl_load, coq_load, PREAMBLE, cmp_load, oracle_load, nontrivial=nontrivial_load, descr=descr_load,
           shard=40, theorem='C14_colocated, C14_position, C14_order_independent, C14_filter_independent, C14_cartesian_agrees, C14_kfreq_*'),
    Family('permutations', gen_perm, impl_load, coq_load, PREAMBLE, cmp_load, oracle_load, nontrivial=nontrivial_load, descr=descr_load,
           shard=60, theorem='C14_order_independent'),
    Family('sunflower', gen_sunflower, impl_load, coq_load, PREAMBLE, cmp_load, oracle_load, nontrivial=nontrivial_load, descr=descr_load,
           shard=40, theorem='(KTrajectorySunflowerGoldenRpe: implementation-level oracle; loading part: C14_colocated ...)'),
    Family('flag_filter', gen_flags, impl_flags, coq_flags, PREAMBLE, cmp_flags, oracle_flags, theorem='C14_flag_filter'),
    Family('knoise', gen_noise, impl_noise, coq_noise, PREAMBLE, cmp_noise, oracle_noise, theorem='(model load_noise)'),
    Family('calculator_history', gen_history, impl_history, None, '', None, oracle_history,
           descr=lambda c: {'kind': c['kind'], 'n_kept': min(len(expected_kept(c['first'])), len(expected_kept(c['second']))) if c['kind'] != 'pulseq' else 2},
           theorem='(implementation-level: a calculator is a function of its arguments; per-call results as in C14_cartesian_agrees / C14_pulseq_*)'),
    Family('pulseq', gen_pulseq, impl_pulseq, None, '', None, oracle_pulseq, theorem='C14_pulseq_defined, C14_pulseq_bound (implementation-level oracle)'),
]
