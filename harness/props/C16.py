"""C16 - Voronoi density compensation has the invariances of cell volumes.

Model side: coq/Model/Voronoi1D.v (dcf_1d, exact over Q) and coq/Model/Voronoi2D.v (2-D path of dcf_2d3d_voronoi as
half-plane clipping + shoelace + IQR outlier rule + counts, and the decomposition of DcfData.from_traj_voronoi).
Implementation side: mrpro.algorithms.dcf.{dcf_1d, dcf_2d3d_voronoi}, mrpro.data.DcfData.from_traj_voronoi.
"""
import math
from fractions import Fraction

import numpy as np
import torch

import vlib
from vlib import Family, qlit

LEVEL = 'proof'
RULE = ('dcf_1d: dyadic sample lists (sorted / shuffled / duplicates / 0-2 values / uniform) vs the Coq model at 1e-5; '
        'dcf_2d3d_voronoi 2-D: radial spokes with rational directions, perturbed grids, random, duplicates, uniform grids on the '
        '5/16 lattice vs the Coq half-plane-clipping model incl. outlier rule at 1e-5 (cases whose exact cell area touches the '
        'outlier bound are skipped and counted); from_traj_voronoi: 2-D joint, stack-of-2-D, Cartesian 1-D factors, partially '
        'separable, dense vs broadcast vs the Coq decomposition model; 3-D random / grid: oracles only. Oracles on the '
        'implementation: positivity, permutation, |a|^d scaling, translation, 90 degree and (3,4,5) rotation, equal split, '
        'weight = reference cell volume for interior cells (no Voronoi ridge shared with a far corner site, not replaced by the '
        'outlier rule). Non-trivial = at least 2 distinct values (1-D) / at least one interior cell; distinct by case hash.')
TRUSTED_BASE = ['translator harness/translate/voronoi.py (ast -> Gallina for dcf_1d and the Tukey fence lines; fail-closed)',
                'scipy.spatial.Voronoi / ConvexHull (qhull) as geometric reference for selecting interior cells and their volumes',
                'numpy percentile (linear) and int(0.99*m) modelled in Coq as exact rationals / floor(99 m / 100)',
                'completeness of Sutherland-Hodgman clipping (polygon = cell) not proved: tied by correspondence only',
                '3-D qhull path: no executable model, implementation-level oracles only']
ASSUMPTIONS = ['inputs are float32-exact dyadic coordinates: rounding to 15 decimals is the identity up to 1 ulp',
               'int(0.99*m) == floor(99 m / 100) (true for the sizes generated: m <= a few hundred)']
PRE = ('From Coq Require Import QArith List.\nImport ListNotations.\n'
       'From MrVerif Require Import Model.Voronoi1D Model.Voronoi2D.\nOpen Scope Q_scope.\n'
       '(* Coq prints dyadic Q values as hexadecimal fractions: return (numerator, denominator) pairs instead *)\n'
       'Definition qz (q : Q) := (Qnum (Qred q), Zpos (Qden (Qred q))).\n'
       'Definition qz2 (r : list Q * (Q * Q) * list Q) := let (x, f) := r in let (raw, p) := x in '
       '(map qz raw, [qz (fst p); qz (snd p)], map qz f).\n'
       'Definition qzt (r : option (list nat * list Q)) := option_map (fun p => (fst p, map qz (snd p))) r.')


def fr(p):
    return Fraction(p[0], p[1])

TOL = 1e-5
STATS = {'cases_with_outlier_replacement_2d': 0, 'skipped_borderline_2d': 0, 'compared_2d': 0, 'interior_cells_checked': 0, 'cells_replaced_by_outlier_rule': 0}


# ------------------------------------------------------------------------------------------------
def translate(ctx):
    """Regenerate Gen/voronoi_gen.v from dcf_voronoi.py (dcf_1d: branch structure, central differences, edge rule, fallback,
    counts / inverse; dcf_2d3d_voronoi: the Tukey fence lines) and re-check gen_* = Model/Voronoi1D.v / fence_formula."""
    from translate import voronoi as tvor
    out = vlib.COQ / 'Gen' / 'voronoi_gen.v'
    out.parent.mkdir(exist_ok=True)
    ok, why = tvor.write(out)
    ctx.extra.setdefault('coverage', {})['translator_available'] = ok
    ctx.obligations += tvor.N_OBLIGATIONS
    if not ok:
        ctx.notes.append(f'translator harness/translate/voronoi.py failed closed ({why})')
        ctx.problem('proof', 'gen_voronoi', None, f'dcf_voronoi.py is outside the translated subset ({why}): the regenerated obligations '
                    'gen_conv / gen_central_diff / gen_dcf_1d = Model/Voronoi1D.v and gen_fence cannot be stated')
        return
    rc, so, se = vlib.coqc_file(out)
    if rc == 0:
        ctx.discharged += tvor.N_OBLIGATIONS
    else:
        ctx.problem('proof', 'gen_voronoi', None, 'regenerated obligation gen_*_ok (dcf_1d == Model/Voronoi1D.v: kernel / branch structure, '
                    'edge rule, fallback / counts and inverse; Tukey fence of dcf_2d3d_voronoi) no longer proves: ' + (se or so)[-700:])


def qlist(xs):
    return '[' + '; '.join(qlit(Fraction(x)) for x in xs) + ']'


def ptlist(ps):
    return '[' + '; '.join(f'({qlit(Fraction(p[0]))}, {qlit(Fraction(p[1]))})' for p in ps) + ']'


def rel_close(a, b, scale, tol=TOL):
    return abs(a - b) <= tol * max(scale, 1e-30)


def _finite_pos(ws):
    return all(math.isfinite(w) and w > 0 for w in ws)


# ================================================================================================
# 1-D
# ================================================================================================
def gen_1d(rng, tier):
    cases = []
    n_cases = 70 if tier == 'quick' else 1500
    kinds = ['sorted', 'shuffled', 'dups', 'dups', 'uniform', 'shuffled']
    for i in range(n_cases):
        kind = kinds[i % len(kinds)]
        n = rng.randint(2, 14)
        bits = rng.choice([0, 1, 2, 3, 4])
        vals = rng.sample(range(-60, 61), n)
        x = [v / 2 ** bits for v in vals]
        if kind == 'sorted':
            x.sort()
        elif kind == 'uniform':
            step = rng.choice([1, 2, 3, 5]) / 2 ** bits
            x0 = rng.randint(-10, 10) / 2 ** bits
            x = [x0 + j * step for j in range(n)]
            if rng.random() < 0.5:
                rng.shuffle(x)
        elif kind == 'dups':
            for _ in range(rng.randint(1, 6)):
                x.insert(rng.randrange(len(x) + 1), rng.choice(x))
        perm = list(range(len(x)))
        rng.shuffle(perm)
        a = rng.choice([2, -2, 0.5, -1, 3, -3, 4, -0.25, 1.5])
        t = rng.randint(-40, 40) / 4
        cases.append({'kind': kind, 'x': x, 'perm': perm, 'a': a, 't': t})
    # small / degenerate stream
    cases.append({'kind': 'empty', 'x': [], 'perm': [], 'a': 2, 't': 1.0})
    for v in ([1.5], [2.0, 2.0], [0.0, 0.0, 0.0], [1.0, 4.0], [4.0, 1.0, 4.0], [-1.0, 0.0, 1.0]):
        perm = list(range(len(v)))[::-1]
        cases.append({'kind': 'small', 'x': v, 'perm': perm, 'a': -2, 't': 0.75})
    for i, c_ in enumerate(cases):       # every third case in double precision (repair 3c58105: dcf_1d raised for float64)
        c_['f64'] = i % 3 == 1
    return cases


def impl_1d(c):
    from mrpro.algorithms.dcf import dcf_1d
    x = torch.tensor(c['x'], dtype=torch.float64 if c.get('f64') else torch.float32)
    out = {'w': dcf_1d(x).tolist()}
    if len(c['x']):
        out['perm'] = dcf_1d(x[c['perm']]).tolist()
        out['scaled'] = dcf_1d(x * c['a']).tolist()
        out['shift'] = dcf_1d(x + c['t']).tolist()
    return out


def coq_1d(c):
    return f'map qz (dcf_1d {qlist(c["x"])})'


def cmp_1d(c, o, m):
    if isinstance(o, dict) and 'raises' in o:
        return f'impl raises {o}'
    w = o['w']
    m = [fr(v) for v in m]
    if len(w) != len(m):
        return f'length {len(w)} vs model {len(m)}'
    scale = max([abs(float(v)) for v in m] + [0.0])
    for i, (a, b) in enumerate(zip(w, m)):
        if not rel_close(a, float(b), scale):
            return f'sample {i} (x={c["x"][i]}): impl {a} model {b} = {float(b)}'
    return None


def oracle_1d(c, o):
    if isinstance(o, dict) and 'raises' in o:
        return f'dcf_1d raises {o}'
    x, w = c['x'], o['w']
    if len(w) != len(x):
        return f'{len(x)} samples but {len(w)} weights'
    if not x:
        return None
    if not _finite_pos(w):
        return f'weights not positive and finite: {w}'
    scale = max(w)
    for i, j in enumerate(c['perm']):
        if not rel_close(o['perm'][i], w[j], scale, 1e-6):
            return f'permutation: sample x={x[j]} has weight {w[j]}, after shuffling {o["perm"][i]}'
    u = sorted(set(x))
    for i in range(len(x)):
        for j in range(i):
            if x[i] == x[j] and w[i] != w[j]:
                return f'coincident samples at {x[i]} get different weights {w[i]}, {w[j]}'
    if len(u) < 2:
        return None
    a = abs(c['a'])
    for i in range(len(x)):
        if not rel_close(o['scaled'][i], a * w[i], a * scale):
            return f'scaling by {c["a"]}: weight of x={x[i]} is {w[i]} -> {o["scaled"][i]}, expected {a * w[i]}'
    for i, xi in enumerate(x):
        k = u.index(xi)
        if 0 < k < len(u) - 1:
            cnt = x.count(xi)
            cell = (u[k + 1] - u[k - 1]) / 2
            STATS['interior_cells_checked'] += 1
            if not rel_close(w[i] * cnt, cell, scale):
                return f'interior sample x={xi} (x{cnt}): weight*count {w[i] * cnt} but Voronoi cell length is {cell}'
            if not rel_close(o['shift'][i], w[i], scale):
                return f'translation by {c["t"]}: interior weight of x={xi} changes {w[i]} -> {o["shift"][i]}'
    return None


# ================================================================================================
# geometric reference (scipy) used to select interior cells and to give their volume
# ================================================================================================
def ref_cells(P):
    """P: (n, d) distinct points.  Voronoi diagram of P plus the far corner sites; returns dict with
    vol (n,), interior (n,) bool = shares no ridge with a corner site (the cell is the cell of P alone, bounded),
    replaced (n,) bool by the documented IQR rule, borderline bool (some raw volume within 1e-6 of the bound)."""
    from itertools import product
    from scipy.spatial import ConvexHull, Voronoi
    P = np.asarray(P, dtype=np.float64)
    n, d = P.shape
    m = np.max(np.abs(P))
    corners = np.array(list(product([-1, 1], repeat=d))) * m * 10
    vd = Voronoi(np.concatenate([P, corners]))
    interior = np.ones(n, dtype=bool)
    for i, j in vd.ridge_points:
        if i >= n and j < n:
            interior[j] = False
        if j >= n and i < n:
            interior[i] = False
    vol = np.zeros(n)
    for i in range(n):
        reg = vd.regions[vd.point_region[i]]
        if -1 in reg or len(reg) == 0:
            vol[i] = np.inf
            interior[i] = False
        else:
            vol[i] = ConvexHull(vd.vertices[reg]).volume
    fin = np.where(np.isfinite(vol), vol, 1e300)
    s = np.sort(fin)
    q1, q3 = np.percentile(s, [25, 75])
    ub = q3 + 1.5 * (q3 - q1)
    replaced = fin > ub
    borderline = bool(np.any(np.abs(fin - ub) <= 1e-6 * max(ub, 1e-30)))
    return {'vol': vol, 'interior': interior, 'replaced': replaced, 'borderline': borderline, 'ub': ub}


def _unique_rows(P):
    """distinct rows (exact), index of every row into them, counts."""
    keys = [tuple(r) for r in P]
    idx, u = {}, []
    inv = []
    for k in keys:
        if k not in idx:
            idx[k] = len(u)
            u.append(k)
        inv.append(idx[k])
    cnt = [0] * len(u)
    for i in inv:
        cnt[i] += 1
    return np.array(u, dtype=np.float64), inv, cnt


def _select(P):
    """per-sample reference: (volume, selected, counts): selected = interior, not replaced, case not borderline."""
    u, inv, cnt = _unique_rows(P)
    try:
        r = ref_cells(u)
    except Exception:  # noqa: BLE001  (degenerate input for qhull)
        return None
    sel = r['interior'] & ~r['replaced'] & (not r['borderline'])
    STATS['cells_replaced_by_outlier_rule'] += int(np.sum(r['replaced'] & r['interior']))
    return ([r['vol'][i] for i in inv], [bool(sel[i]) for i in inv], [cnt[i] for i in inv], r['borderline'])


# ================================================================================================
# 2-D
# ================================================================================================
L = 5 / 16  # lattice: all coordinates are multiples of 5/16 so that the (3,4,5) rotation stays exact
DIRS = [(1, 0), (0, 1), (3, 4), (4, 3), (-3, 4), (-4, 3), (1, 1), (1, -1), (1, 2), (2, -1), (-2, 1), (1, 3)]


def gen_2d(rng, tier):
    cases = []
    n_cases = 36 if tier == 'quick' else 700
    kinds = ['radial', 'grid_perturbed', 'random', 'dups', 'uniform_grid', 'radial']
    for i in range(n_cases):
        kind = kinds[i % len(kinds)]
        if kind == 'radial':
            ns = rng.randint(2, 5)
            dirs = rng.sample(DIRS[:6] if rng.random() < 0.5 else DIRS, ns)
            nr = rng.randint(2, 4)
            step = rng.choice([1, 2, 4])
            pts = [[5 * step * j * dx / 16 * 4, 5 * step * j * dy / 16 * 4] for dx, dy in dirs for j in range(-nr, nr + 1)]
            shape = [ns, 2 * nr + 1]
        elif kind == 'grid_perturbed':
            g = rng.randint(4, 6)
            s = rng.choice([4, 8])
            pts = []
            for a in range(g):
                for b in range(g):
                    px, py = (a - g // 2) * s, (b - g // 2) * s
                    if rng.random() < 0.4:
                        px += rng.choice([-1, 1, 2])
                        py += rng.choice([-1, 0, 1])
                    pts.append([px * L, py * L])
            shape = [g, g]
        elif kind in ('random', 'dups'):
            n = rng.randint(8, 36)
            seen = set()
            while len(seen) < n:
                seen.add((rng.randint(-40, 40), rng.randint(-40, 40)))
            pts = [[a * L, b * L] for a, b in sorted(seen)]
            rng.shuffle(pts)
            if kind == 'dups':
                for _ in range(rng.randint(1, 6)):
                    pts.insert(rng.randrange(len(pts) + 1), list(rng.choice(pts)))
            shape = [1, len(pts)]
        else:
            nx, ny = rng.randint(4, 7), rng.randint(4, 7)
            sx, sy = rng.choice([2, 4, 8, 12]), rng.choice([2, 4, 8, 12])
            ox, oy = rng.randint(-3, 3), rng.randint(-3, 3)
            pts = [[(ox + (a - nx // 2) * sx) * L, (oy + (b - ny // 2) * sy) * L] for a in range(nx) for b in range(ny)]
            shape = [nx, ny]
        perm = list(range(len(pts)))
        rng.shuffle(perm)
        cases.append({'kind': kind, 'pts': pts, 'shape': shape, 'perm': perm, 'a': rng.choice([2, -2, 0.5, 4, -1, 3, -0.5]),
                      't': [rng.randint(-24, 24) * L, rng.randint(-24, 24) * L]})
    return cases


def _t2(pts):
    return torch.tensor(pts, dtype=torch.float32).T.reshape(2, 1, 1, -1)


def _call2d(pts, shape=None):
    from mrpro.algorithms.dcf import dcf_2d3d_voronoi
    t = _t2(pts)
    if shape is not None:
        t = t.reshape(2, 1, *shape)
    return dcf_2d3d_voronoi(t).flatten().tolist()


def _variants_2d(c):
    pts = c['pts']
    a, (tx, ty) = c['a'], c['t']
    return {'perm': [pts[j] for j in c['perm']],
            'scaled': [[a * x, a * y] for x, y in pts],
            'shift': [[x + tx, y + ty] for x, y in pts],
            'rot90': [[-y, x] for x, y in pts],
            'rot345': [[(3 * x - 4 * y) / 5, (4 * x + 3 * y) / 5] for x, y in pts],
            'mirror': [[y, x] for x, y in pts]}


def impl_2d(c):
    out = {'w': _call2d(c['pts'], c['shape'])}
    for name, p in _variants_2d(c).items():
        out[name] = _call2d(p)
    return out


def coq_2d(c):
    return f'qz2 (dcf_2d_full {ptlist(c["pts"])})'


def cmp_2d(c, o, m):
    if isinstance(o, dict) and 'raises' in o:
        return f'impl raises {o}'
    raw, (ub, fill), final = m
    raw, ub, fill, final = [fr(v) for v in raw], fr(ub), fr(fill), [fr(v) for v in final]
    if any(abs(float(r) - float(ub)) <= 1e-7 * float(ub) for r in raw):
        STATS['skipped_borderline_2d'] += 1   # a cell area (numerically) equal to the outlier bound: float decides either way
        return None
    STATS['compared_2d'] += 1
    if any(r > ub for r in raw):
        STATS['cases_with_outlier_replacement_2d'] += 1
    w = o['w']
    if len(w) != len(final):
        return f'length {len(w)} vs model {len(final)}'
    # interior cells (not touching the far corner sites, not replaced): 5e-5; cells reaching out to the far corners and the
    # fill value derived from them: 1e-3, because qhull occasionally merges nearly degenerate facets and then moves far
    # vertices by ~1e-5 relative (observed: 1 cell in 700 thorough cases, 2e-5; otherwise 1e-14)
    base = _select(np.array(c['pts']))
    for i, (a, b) in enumerate(zip(w, final)):
        tol = 5e-5 if (base is not None and base[1][i]) else 1e-3
        if not rel_close(a, float(b), abs(float(b)), tol):
            return (f'point {i} {c["pts"][i]}: impl {a} model {b} = {float(b)} (raw cell area {float(raw[i])}, '
                    f'outlier bound {float(ub)}, fill {float(fill)})')
    return None


def _check_variants(c, o, pts, dim, what_pts):
    """shared by the 2-D and 3-D oracles. what_pts: dict name -> transformed point list."""
    w = o['w']
    n = len(pts)
    if len(w) != n:
        return f'{n} samples but {len(w)} weights'
    for name in ['w'] + list(what_pts):
        if not _finite_pos(o[name]):
            return f'weights ({name}) not positive and finite: {[v for v in o[name] if not (math.isfinite(v) and v > 0)][:5]}'
    # coincident samples share equally
    keys = [tuple(p) for p in pts]
    first = {}
    for i, k in enumerate(keys):
        if k in first and w[first[k]] != w[i]:
            return f'coincident samples at {pts[i]} get different weights {w[first[k]]}, {w[i]}'
        first.setdefault(k, i)
    base = _select(np.array(pts))
    if base is None:
        return None
    vol, sel, cnt, _ = base
    # weight * count = cell volume for interior cells
    for i in range(n):
        if sel[i]:
            STATS['interior_cells_checked'] += 1
            if not rel_close(w[i] * cnt[i], vol[i], vol[i], 1e-4):
                return (f'interior sample {pts[i]} (x{cnt[i]}): weight*count = {w[i] * cnt[i]} but its Voronoi cell has '
                        f'{"area" if dim == 2 else "volume"} {vol[i]}')
    # permutation: all cells
    for i, j in enumerate(c['perm']):
        if not rel_close(o['perm'][i], w[j], abs(w[j]), 1e-5):
            return f'permutation: sample {pts[j]} has weight {w[j]}, after shuffling the samples {o["perm"][i]}'
    for name, tp in what_pts.items():
        if name == 'perm':
            continue
        other = _select(np.array(tp))
        if other is None:
            continue
        fac = abs(c['a']) ** dim if name == 'scaled' else 1.0
        # scaling is claimed for every weight (far corners and outlier rule scale along); the rigid motions only for
        # interior cells
        everywhere = name == 'scaled' and not base[3] and not other[3]
        for i in range(n):
            inner = sel[i] and other[1][i]
            if (everywhere or inner) and not rel_close(o[name][i], fac * w[i], fac * abs(w[i]), 5e-5 if inner else 1e-3):
                return (f'{name} (a={c["a"]}, t={c["t"]}): interior sample {pts[i]} weight {w[i]} -> {o[name][i]}, '
                        f'expected {fac * w[i]}')
    return None


def oracle_2d(c, o):
    if isinstance(o, dict) and 'raises' in o:
        return f'dcf_2d3d_voronoi raises {o}'
    msg = _check_variants(c, o, c['pts'], 2, _variants_2d(c))
    if msg:
        return msg
    if c['kind'] == 'uniform_grid':
        # interior of a uniform grid: constant = product of the spacings
        xs = sorted({p[0] for p in c['pts']})
        ys = sorted({p[1] for p in c['pts']})
        want = (xs[1] - xs[0]) * (ys[1] - ys[0])
        for p, w in zip(c['pts'], o['w']):
            if xs[0] < p[0] < xs[-1] and ys[0] < p[1] < ys[-1] and not rel_close(w, want, want):
                return f'uniform grid interior point {p}: weight {w}, product of spacings {want}'
    return None


def nontrivial_2d(c):
    return len({tuple(p) for p in c['pts']}) >= 5


# ================================================================================================
# 3-D (implementation-level oracles only)
# ================================================================================================
def gen_3d(rng, tier):
    cases = []
    for i in range(5 if tier == 'quick' else 60):
        if i % 2 == 0:
            n = rng.randint(20, 45)
            seen = set()
            while len(seen) < n:
                seen.add((rng.randint(-12, 12), rng.randint(-12, 12), rng.randint(-12, 12)))
            pts = [[a * L * 2, b * L * 2, cc * L * 2] for a, b, cc in sorted(seen)]
            rng.shuffle(pts)
            for _ in range(rng.randint(0, 3)):
                pts.append(list(rng.choice(pts)))
            kind = 'random3d'
        else:
            n0, n1, n2 = rng.randint(3, 4), rng.randint(3, 4), rng.randint(3, 5)
            s = [rng.choice([4, 8, 12]) for _ in range(3)]
            pts = [[a * s[0] * L, b * s[1] * L, cc * s[2] * L] for a in range(-(n0 // 2), n0 - n0 // 2)
                   for b in range(-(n1 // 2), n1 - n1 // 2) for cc in range(-(n2 // 2), n2 - n2 // 2)]
            kind = 'grid3d'
        perm = list(range(len(pts)))
        rng.shuffle(perm)
        cases.append({'kind': kind, 'pts': pts, 'perm': perm, 'a': rng.choice([2, -2, 0.5, -1]),
                      't': [rng.randint(-8, 8) * L for _ in range(3)]})
    return cases


def _variants_3d(c):
    pts = c['pts']
    a, t = c['a'], c['t']
    return {'perm': [pts[j] for j in c['perm']],
            'scaled': [[a * v for v in p] for p in pts],
            'shift': [[v + d for v, d in zip(p, t)] for p in pts],
            'rot90': [[-p[1], p[0], p[2]] for p in pts],
            'rot345': [[p[0], (3 * p[1] - 4 * p[2]) / 5, (4 * p[1] + 3 * p[2]) / 5] for p in pts]}


def _call3d(pts):
    from mrpro.algorithms.dcf import dcf_2d3d_voronoi
    t = torch.tensor(pts, dtype=torch.float32).T.reshape(3, 1, 1, -1)
    return dcf_2d3d_voronoi(t).flatten().tolist()


def impl_3d(c):
    out = {'w': _call3d(c['pts'])}
    for name, p in _variants_3d(c).items():
        out[name] = _call3d(p)
    return out


def oracle_3d(c, o):
    if isinstance(o, dict) and 'raises' in o:
        return f'dcf_2d3d_voronoi (3-D) raises {o}'
    msg = _check_variants(c, o, c['pts'], 3, _variants_3d(c))
    if msg:
        return msg
    if c['kind'] == 'grid3d':
        ax = [sorted({p[k] for p in c['pts']}) for k in range(3)]
        want = math.prod(a[1] - a[0] for a in ax)
        for p, w in zip(c['pts'], o['w']):
            if all(a[0] < v < a[-1] for a, v in zip(ax, p)) and not rel_close(w, want, want):
                return f'uniform 3-D grid interior point {p}: weight {w}, product of spacings {want}'
    return None


# ================================================================================================
# DcfData.from_traj_voronoi
# ================================================================================================
def _lin(rng, n, steps):
    """n increasing lattice values with spacings drawn from steps (in units of L), roughly centred."""
    v = [0]
    for _ in range(n - 1):
        v.append(v[-1] + rng.choice(steps))
    mid = v[n // 2]
    return [(x - mid) * L for x in v]


def gen_traj(rng, tier):
    """k tensors are given as {'shape': [k2,k1,k0], 'data': flat list}; order kz, ky, kx.  `geo` names, for the oracle's
    selection only, how the point set factorises geometrically: list of groups of axis indices (0=kz,1=ky,2=kx) that are
    jointly distributed; axes in no group are constant."""
    cases = []
    layouts = ['joint2d_radial', 'stack3d', 'cart3', 'cart2_lines', 'partial', 'joint2d_random', 'stack3d', 'cart2_lines']
    n_cases = 24 if tier == 'quick' else 400
    for i in range(n_cases):
        lay = layouts[i % len(layouts)]
        zero = {'shape': [1, 1, 1], 'data': [0.0]}
        if lay in ('joint2d_radial', 'joint2d_random', 'stack3d'):
            if lay == 'joint2d_random':
                k1, k0 = rng.randint(3, 5), rng.randint(3, 6)
                seen = set()
                while len(seen) < k1 * k0:
                    seen.add((rng.randint(-30, 30), rng.randint(-30, 30)))
                pts = [(a * L, b * L) for a, b in seen]
                rng.shuffle(pts)
            else:
                k1 = rng.randint(2, 4)
                nr = rng.randint(2, 3)
                k0 = 2 * nr + 1
                dirs = rng.sample(DIRS, k1)
                st = rng.choice([1, 2])
                pts = [(20 * st * j * dx * L / 4, 20 * st * j * dy * L / 4) for dx, dy in dirs for j in range(-nr, nr + 1)]
            kx = {'shape': [1, k1, k0], 'data': [p[0] for p in pts]}
            ky = {'shape': [1, k1, k0], 'data': [p[1] for p in pts]}
            if lay == 'stack3d':
                k2 = rng.randint(3, 5)
                kz = {'shape': [k2, 1, 1], 'data': _lin(rng, k2, [2, 4, 6])}
                if rng.random() < 0.3:
                    kz['data'][-1] = kz['data'][0]  # a repeated partition
                geo = [[0], [1, 2]]
            else:
                kz = zero
                geo = [[1, 2]]
            ks = [kz, ky, kx]
        elif lay == 'cart3':
            k2, k1, k0 = rng.randint(3, 4), rng.randint(3, 4), rng.randint(3, 5)
            ks = [{'shape': [k2, 1, 1], 'data': _lin(rng, k2, [2, 4])}, {'shape': [1, k1, 1], 'data': _lin(rng, k1, [2, 4, 8])},
                  {'shape': [1, 1, k0], 'data': _lin(rng, k0, [4, 8])}]
            for k in ks:
                if rng.random() < 0.5:
                    rng.shuffle(k['data'])
            geo = [[0], [1], [2]]
        elif lay == 'cart2_lines':
            k1, k0 = rng.randint(3, 6), rng.randint(3, 7)
            ks = [zero, {'shape': [1, k1, 1], 'data': _lin(rng, k1, [2, 4, 8])}, {'shape': [1, 1, k0], 'data': _lin(rng, k0, [1, 4, 8])}]
            if rng.random() < 0.5:
                ks[1], ks[2] = {'shape': [1, 1, k0], 'data': ks[2]['data']}, {'shape': [1, k1, 1], 'data': ks[1]['data']}
            geo = [[1], [2]]
        else:  # partial: ky depends on k1 only, kx on k1 and k0 (sheared lines)
            k1, k0 = rng.randint(4, 6), rng.randint(4, 6)
            sx, sy, sh = rng.choice([4, 8]), rng.choice([2, 4]), rng.choice([1, 2])
            ky = {'shape': [1, k1, 1], 'data': [(a - k1 // 2) * sy * L for a in range(k1)]}
            kx = {'shape': [1, k1, k0], 'data': [((b - k0 // 2) * sx + (a - k1 // 2) * sh) * L for a in range(k1) for b in range(k0)]}
            ks = [zero, ky, kx]
            geo = [[1, 2]]
        cases.append({'layout': lay, 'ks': ks, 'geo': geo, 'a': rng.choice([2, -2, 0.5, 3]),
                      't': [rng.randint(-8, 8) * L for _ in range(3)]})
    for i, c_ in enumerate(cases):       # every third trajectory in double precision (repair 3c58105: dcf_1d raised for float64)
        c_['f64'] = i % 3 == 1
    return cases


def _bshape(ks):
    return [max(k['shape'][d] for k in ks) for d in range(3)]


def _ktensor(k, f=lambda v: v, dt=torch.float32):
    return torch.tensor([f(v) for v in k['data']], dtype=dt).reshape(1, *k['shape'])


def _from_traj(tensors):
    from mrpro.data import DcfData, KTrajectory
    kz, ky, kx = tensors
    return DcfData.from_traj_voronoi(KTrajectory(kz, ky, kx, repeat_detection_tolerance=None)).data


def impl_traj(c):
    ks = c['ks']
    bs = _bshape(ks)
    base = [_ktensor(k, dt=torch.float64 if c.get('f64') else torch.float32) for k in ks]
    d = _from_traj(base)
    out = {'shape': list(d.shape), 'w': d.flatten().tolist()}
    # dense representation of the varying axes (a constant axis stays a singleton: a plane has no bounded 3-D cells)
    dense = [t.expand(1, *bs).clone() if t.numel() > 1 else t for t in base]
    out['dense'] = _from_traj(dense).flatten().tolist()
    a = c['a']
    out['scaled'] = _from_traj([t * a for t in base]).flatten().tolist()
    out['shift'] = _from_traj([t + s if t.numel() > 1 else t for t, s in zip(base, c['t'])]).flatten().tolist()
    # swapping the roles of ky and kx (a reflection) and negating an axis
    out['mirror'] = _from_traj([base[0], base[2], base[1]]).flatten().tolist()
    # two different trajectories stacked along `other`
    two = _from_traj([torch.cat([t, t * 2]) for t in base])
    out['batch_ok'] = bool(torch.allclose(two[0], d[0], rtol=1e-5) and
                           torch.allclose(two[1], _from_traj([t * 2 for t in base])[0], rtol=1e-5))
    return out


def coq_traj(c):
    def kt(k):
        sh = '; '.join(f'{s}%nat' for s in k['shape'])
        return f'{{| kshape := [{sh}]; kdata := {qlist(k["data"])} |}}'
    return 'qzt (from_traj [' + '; '.join(kt(k) for k in c['ks']) + '])'


def cmp_traj(c, o, m):
    if isinstance(o, dict) and 'raises' in o:
        return f'impl raises {o}'
    if m is None:
        return None
    sh, vals = m['some']
    vals = [fr(v) for v in vals]
    if o['shape'] != [1] + list(sh):
        return f'shape impl {o["shape"]} model {[1] + list(sh)}'
    # borderline of the joint part is not visible here: use the reference selection of the joint group
    ref = _traj_reference(c)
    for i, (a, b) in enumerate(zip(o['w'], vals)):
        if not rel_close(a, float(b), abs(float(b)), 5e-5 if (ref is not None and ref[1][i]) else 1e-3):
            if _joint_borderline(c):
                STATS['skipped_borderline_2d'] += 1
                return None
            return f'flat index {i}: impl {a} model {b} = {float(b)}'
    return None


def _points(c, axes):
    """dense list of points (flat over the broadcast shape) restricted to the given k axes."""
    bs = _bshape(c['ks'])
    cols = []
    for ax in axes:
        k = c['ks'][ax]
        t = torch.tensor(k['data'], dtype=torch.float64).reshape(k['shape']).expand(*bs)
        cols.append(t.flatten().tolist())
    return [list(p) for p in zip(*cols)]


def _joint_borderline(c):
    for g in c['geo']:
        if len(g) >= 2:
            u, _, _ = _unique_rows(np.array(_points(c, g)))
            try:
                return ref_cells(u)['borderline']
            except Exception:  # noqa: BLE001
                return True
    return False


def _traj_reference(c):
    """per flat sample: (cell volume of the whole point set, selected) from the geometric factorisation `geo`."""
    n = len(_points(c, [0]))
    vol = [1.0] * n
    sel = [True] * n
    for g in c['geo']:
        pts = _points(c, g)
        if len(g) == 1:
            xs = [p[0] for p in pts]
            u = sorted(set(xs))
            if len(u) < 3:
                return None
            for i, x in enumerate(xs):
                k = u.index(x)
                if 0 < k < len(u) - 1:
                    vol[i] *= (u[k + 1] - u[k - 1]) / 2
                else:
                    sel[i] = False
        else:
            r = _select(np.array(pts))
            if r is None:
                return None
            for i in range(n):
                vol[i] *= r[0][i] if math.isfinite(r[0][i]) else 1.0
                sel[i] = sel[i] and r[1][i]
    # multiplicity of the whole point
    allpts = [tuple(p) for p in _points(c, [a for g in c['geo'] for a in g])]
    cnt = [allpts.count(p) for p in allpts]
    return vol, sel, cnt


def oracle_traj(c, o):
    if isinstance(o, dict) and 'raises' in o:
        return f'from_traj_voronoi raises {o}'
    bs = _bshape(c['ks'])
    if o['shape'] != [1] + bs:
        return f'dcf shape {o["shape"]} but broadcast trajectory shape is {[1] + bs}'
    for name in ('w', 'dense', 'scaled', 'shift', 'mirror'):
        if not _finite_pos(o[name]):
            return f'weights ({name}) not positive and finite'
    if not o['batch_ok']:
        return 'result for two trajectories stacked along `other` differs from the separate results'
    ref = _traj_reference(c)
    if ref is None:
        return None
    vol, sel, cnt = ref
    d = sum(len(g) for g in c['geo'])
    fac = abs(c['a']) ** d
    w = o['w']
    for i in range(len(w)):
        if not sel[i]:
            continue
        STATS['interior_cells_checked'] += 1
        if not rel_close(w[i] * cnt[i], vol[i], vol[i], 1e-4):
            return (f'layout {c["layout"]}: interior sample #{i}: weight*count = {w[i] * cnt[i]} but the Voronoi cell of the '
                    f'{d}-D point set has volume {vol[i]} (product of per-axis spacings for separable layouts)'), {'symptom': 'volume'}
        if not rel_close(o['scaled'][i], fac * w[i], fac * w[i], 1e-4):
            return f'layout {c["layout"]}: scaling k-space by {c["a"]}: weight {w[i]} -> {o["scaled"][i]}, expected |a|^{d} = {fac} times', {'symptom': 'scaling'}
        if not rel_close(o['mirror'][i], w[i], w[i], 1e-4):
            return f'layout {c["layout"]}: exchanging ky and kx changes the interior weight {w[i]} -> {o["mirror"][i]}'
    # dense representation of the same samples: compare where the dense computation is interior as well
    dense_pts = _points(c, [a for g in c['geo'] for a in g])
    r = _select(np.array(dense_pts)) if d >= 2 else None
    if r is not None:
        for i in range(len(w)):
            if sel[i] and r[1][i] and not rel_close(o['dense'][i], w[i], w[i], 1e-4):
                return (f'layout {c["layout"]}: broadcast trajectory gives interior weight {w[i]}, the same samples as dense '
                        f'tensors give {o["dense"][i]}'), {'symptom': 'dense'}
    # translation (changes the far corners only)
    shifted = {'layout': c['layout'], 'geo': c['geo'],
               'ks': [{'shape': k['shape'], 'data': [v + s for v in k['data']]} if len(k['data']) > 1 else k
                      for k, s in zip(c['ks'], c['t'])]}
    ref2 = _traj_reference(shifted)
    if ref2 is not None:
        for i in range(len(w)):
            if sel[i] and ref2[1][i] and not rel_close(o['shift'][i], w[i], w[i], 1e-4):
                return f'layout {c["layout"]}: translating the trajectory by {c["t"]} changes the interior weight {w[i]} -> {o["shift"][i]}'
    return None


def descr_traj(c):
    return {'layout': c['layout']}


FAMILIES = [
    Family('dcf_1d', gen_1d, impl_1d, coq_1d, PRE, cmp_1d, oracle_1d, nontrivial=lambda c: len(set(c['x'])) >= 2,
           descr=lambda c: {'kind': c['kind']},
           theorem='C16_1d_code_eq_weight, C16_1d_positive, C16_1d_weight_perm, C16_1d_permutation, C16_1d_scaling, C16_1d_translation, C16_1d_split, C16_1d_interior, C16_1d_sorted_code, C16_1d_interior_sum'),
    Family('dcf_2d', gen_2d, impl_2d, coq_2d, PRE, cmp_2d, oracle_2d, nontrivial=nontrivial_2d, descr=lambda c: {'kind': c['kind']},
           shard=3, theorem='C16_2d_polygon_in_cell_partial, C16_2d_polygon_in_box, C16_2d_cell_in_start_box, C16_2d_clip_area_additive, C16_2d_cell_dissection, C16_2d_discarded_far, C16_outlier_*, C16_shoelace_*, C16_cell2_*'),
    Family('dcf_3d', gen_3d, impl_3d, None, '', None, oracle_3d, descr=lambda c: {'kind': c['kind']}, theorem='(implementation-level)'),
    Family('from_traj_voronoi', gen_traj, impl_traj, coq_traj, PRE, cmp_traj, oracle_traj, descr=descr_traj, shard=2,
           theorem='C16_product_cell, C16_from_traj_decomposition_refuted'),
]


def extra_checks(ctx):
    ctx.extra.setdefault('coverage', {})['c16_stats'] = dict(STATS)
    ctx.notes.append(f'2-D correspondence: {STATS["compared_2d"]} cases compared ({STATS["cases_with_outlier_replacement_2d"]} with cells replaced by the outlier rule), {STATS["skipped_borderline_2d"]} skipped because a cell '
                     f'area coincides with the outlier bound; {STATS["interior_cells_checked"]} interior cells checked against their cell '
                     f'volume; {STATS["cells_replaced_by_outlier_rule"]} bounded cells replaced by the outlier rule were not held to it')


# ---- added after seeded change C16-1: partially broadcast trajectories whose joint Voronoi set spans several dims --------
def _gen_bcast_dense(rng, tier):
    """shapes of (kz, ky, kx) over (k2, k1, k0) such that no k tensor is the only non-singleton one along any dim (no 1-D factor:
    the whole weight comes from one joint Voronoi tessellation), but the sets of non-singleton tensors differ between the dims"""
    out = []
    layouts = [
        # kz varies with k1 only, ky and kx with k1 and k0 (stack of tilted lines): 3-D point set
        {'kz': (1, 'a', 1), 'ky': (1, 'a', 'b'), 'kx': (1, 'a', 'b')},
        # kz varies with k2 and k1, ky with k1 and k0, kx with all
        {'kz': ('c', 'a', 1), 'ky': (1, 'a', 'b'), 'kx': ('c', 'a', 'b')},
        # 2-D: ky varies with k1 and k0, kx with k1 and k0 and k2 is a singleton; kz constant
        {'kz': (1, 1, 1), 'ky': (1, 'a', 'b'), 'kx': (1, 'a', 'b')},
        # (ky over (k2,k1), kx over (k2,k1,k0) would give kx a 1-D factor along k0 as well: that is open finding KF-C16-1, not generated here)
    ]
    for i in range(8 if tier == 'quick' else 120):
        lay = layouts[i % len(layouts)]
        a, b, cdim = rng.randint(3, 4), rng.randint(3, 4), rng.randint(2, 3)
        sizes = {'a': a, 'b': b, 'c': cdim, 1: 1}
        shapes = {k: [sizes[v] for v in lay[k]] for k in ('kz', 'ky', 'kx')}
        out.append({'shapes': shapes, 'seed': rng.randrange(10 ** 6), 'layout_id': i % len(layouts)})
    return out


def _impl_bcast_dense(c):
    import numpy as np
    import torch
    from mrpro.data import DcfData, KTrajectory
    g = np.random.default_rng(c['seed'])
    ks = {}
    for name in ('kz', 'ky', 'kx'):
        shp = c['shapes'][name]
        n = int(np.prod(shp))
        if n == 1:
            ks[name] = torch.zeros(1, *shp)
        else:
            # distinct dyadic values on a jittered lattice (no coincident points, no degenerate cells)
            vals = (np.arange(n) * 1.0 + g.integers(-3, 4, n) / 16.0) * (1.0 if name != 'kz' else 0.75)
            g.shuffle(vals)
            ks[name] = torch.tensor(vals.reshape(1, *shp), dtype=torch.float32)
    tb = KTrajectory(ks['kz'], ks['ky'], ks['kx'], repeat_detection_tolerance=None)
    wb = DcfData.from_traj_voronoi(tb).data
    full = tb.broadcasted_shape
    dense = [k.expand(*full).clone() for k in (ks['kz'], ks['ky'], ks['kx'])]
    # keep exactly the same set of varying components (a constant component stays a singleton)
    dense = [d if k.numel() > 1 else k for d, k in zip(dense, (ks['kz'], ks['ky'], ks['kx']))]
    td = KTrajectory(*dense, repeat_detection_tolerance=None)
    wd = DcfData.from_traj_voronoi(td).data
    wb, wd = torch.broadcast_tensors(wb, wd)
    return {'dev': float(((wb - wd).abs() / wd.abs().clamp_min(1e-9)).max()), 'pos': bool((wb > 0).all() and torch.isfinite(wb).all())}


def _oracle_bcast_dense(c, o):
    if isinstance(o, dict) and 'raises' in o:
        return f'from_traj_voronoi raised {o} for shapes {c["shapes"]}'
    if not o['pos']:
        return f'weights not positive and finite for shapes {c["shapes"]}'
    if o['dev'] > 1e-3:
        return (f'the same samples given as partially broadcast tensors {c["shapes"]} and as dense tensors get different weights '
                f'(relative deviation {o["dev"]:.3g}): the weight is not the volume of the Voronoi cell of the point set')
    return None


FAMILIES.append(Family('broadcast_vs_dense', _gen_bcast_dense, _impl_bcast_dense, None, '', None, _oracle_bcast_dense,
                       descr=lambda c: {'layout_id': c['layout_id']}, theorem='(implementation-level: cell volumes do not depend on the representation)'))
